import EchoModel.C08
/-!
# C08 — theorems: binding converts text exactly or rejects it

Specification side (defined here, independently of the parser loops of the model):
`posValue` (positional value Σ dᵢ·10^(n-1-i)), `denoteNat` (`[0-9]+`), `denote` (`[+-]?[0-9]+`),
`Dest.inRange` (the values of the destination's Go type).

Headline theorems
* `parseUint_spec`, `parseInt_spec` (`parseInt_denotes`): the model of strconv accepts exactly
  the texts that denote a value in range, and returns that value (for every bit size 1..64).
* `Dest.bits_eq_width`: at every code site the bit size equals the width of the destination type.
* `C08_exact_or_error`: for every site and every text, success with `v` ⇔ the text denotes `v`
  and `v` fits the destination type (so never a wrapped or truncated number).
* `C08_error_leaves_dest`, `C08_failfast_frozen`, `C08_failfast_nothing_after_error`,
  `C08_slice_all_or_nothing` (+ `C08_slice_exact`, `C08_scalar_exact`, `C08_scalar_complete`).
* `C08_struct_exact`, `C08_struct_400`, `C08_no_panic`, `C08_empty`.
All of them quantify over every text, every destination site, every binder state, every chain
and every external parser `Ext` (ParseFloat / ParseDuration are parameters).

Round 8 (the NUMBER of values of one parameter; lists of every length)
* `C08_every_value_counts`: a slice field whose key carries n values holds n conversions in order, or
  fails as soon as ONE text — at any position — does not fit; `C08_multi_receives_all` (UnmarshalParams).
* `C08_slice_complete`, `C08_slice_bad_piece_reported`: value-binder slice / delimiter calls: every piece
  convertible ⇒ all stored, nothing recorded; one bad piece anywhere ⇒ reported, destination untouched.
-/
namespace C08

/-! ## what a text denotes (specification side, independent of the parser loops) -/

def isDigit (c : Char) : Bool := 48 ≤ c.toNat && c.toNat ≤ 57
def dval (c : Char) : Nat := c.toNat - 48

/-- positional value: Σ dᵢ · 10^(n-1-i) -/
def posValue : List Char → Nat
  | [] => 0
  | c :: r => dval c * 10 ^ r.length + posValue r

def denoteNat (s : List Char) : Option Nat :=
  if s ≠ [] ∧ (∀ c ∈ s, isDigit c = true) then some (posValue s) else none

def denote (s : List Char) : Option Int :=
  match s with
  | [] => none
  | c :: r =>
    if c = '-' then (denoteNat r).map (fun (n : Nat) => -(n : Int))
    else if c = '+' then (denoteNat r).map (fun (n : Nat) => (n : Int))
    else (denoteNat s).map (fun (n : Nat) => (n : Int))

theorem digit?_some (c : Char) (h : isDigit c = true) : digit? c = some (dval c) := by
  simp only [isDigit, Bool.and_eq_true, decide_eq_true_eq] at h
  simp [digit?, dval, h]

theorem digit?_none (c : Char) (h : isDigit c ≠ true) : digit? c = none := by
  have h' : ¬ (48 ≤ c.toNat ∧ c.toNat ≤ 57) := by
    intro hh; apply h; simp [isDigit, hh]
  simp [digit?, h']

theorem dval_le (c : Char) (h : isDigit c = true) : dval c ≤ 9 := by
  simp only [isDigit, Bool.and_eq_true, decide_eq_true_eq] at h
  simp only [dval]; omega

theorem pow10_pos (k : Nat) : 1 ≤ 10 ^ k := Nat.pow_pos (by omega)

/-- soundness of the digit loop -/
theorem puLoop_sound (M : Nat) (cs : List Char) :
    ∀ n v, puLoop M n cs = some v →
      (∀ c ∈ cs, isDigit c = true) ∧ v = n * 10 ^ cs.length + posValue cs ∧ (cs ≠ [] → v ≤ M) := by
  induction cs with
  | nil => intro n v h; simp [puLoop] at h; simp [posValue, h]
  | cons c cs ih =>
    intro n v h
    by_cases hd : isDigit c = true
    · rw [puLoop, digit?_some c hd] at h
      simp only at h
      split at h
      · cases h
      · split at h
        · cases h
        · rename_i hc hr
          obtain ⟨h1, h2, h3⟩ := ih _ _ h
          refine ⟨?_, ?_, ?_⟩
          · intro x hx
            cases List.mem_cons.mp hx with
            | inl e => exact e ▸ hd
            | inr e => exact h1 x e
          · rw [h2]; simp only [List.length_cons, posValue, Nat.pow_succ]
            rw [Nat.add_mul, Nat.mul_assoc, Nat.mul_comm 10 (10 ^ cs.length), Nat.add_assoc]
          · intro _
            cases cs with
            | nil => simp [puLoop] at h; omega
            | cons d ds => exact h3 (by simp)
    · rw [puLoop, digit?_none c hd] at h; cases h

/-- completeness of the digit loop: a digit string whose value does not exceed `M < 2^64` is accepted -/
theorem puLoop_complete (M : Nat) (hM : M < two64) (cs : List Char) :
    ∀ n, (∀ c ∈ cs, isDigit c = true) → n * 10 ^ cs.length + posValue cs ≤ M →
      puLoop M n cs = some (n * 10 ^ cs.length + posValue cs) := by
  induction cs with
  | nil => intro n _ _; simp [puLoop, posValue]
  | cons c cs ih =>
    intro n hd hle
    have hc : isDigit c = true := hd c (by simp)
    have hP := pow10_pos cs.length
    have e : n * 10 ^ (c :: cs).length + posValue (c :: cs)
        = (n * 10 + dval c) * 10 ^ cs.length + posValue cs := by
      simp only [List.length_cons, posValue, Nat.pow_succ]
      rw [Nat.add_mul, Nat.mul_assoc, Nat.mul_comm 10 (10 ^ cs.length), Nat.add_assoc]
    rw [e] at hle ⊢
    have hn1 : n * 10 + dval c ≤ M :=
      Nat.le_trans (Nat.le_mul_of_pos_right _ hP) (Nat.le_trans (Nat.le_add_right _ _) hle)
    rw [puLoop, digit?_some c hc]
    simp only
    have h1 : ¬ n ≥ cutoff10 := by simp only [cutoff10, two64] at *; omega
    have h2 : ¬ (n * 10 + dval c ≥ two64 ∨ n * 10 + dval c > M) := by simp only [two64] at *; omega
    rw [if_neg h1, if_neg h2]
    exact ih _ (fun x hx => hd x (List.mem_cons_of_mem _ hx)) hle

/-- the bit sizes that occur: 1..64 after `effBits` -/
def okBits (b : Nat) : Prop := 1 ≤ effBits b ∧ effBits b ≤ 64

theorem two_pow_le_two64 (k : Nat) (h : k ≤ 64) : 2 ^ k ≤ two64 := by
  have : two64 = 2 ^ 64 := by decide
  rw [this]; exact Nat.pow_le_pow_right (by omega) h

/-- **parseUint = denotation + range** -/
theorem parseUint_spec (s : List Char) (b : Nat) (hb : okBits b) (v : Nat) :
    parseUint s b = some v ↔ denoteNat s = some v ∧ v < 2 ^ effBits b := by
  have hpos : 1 ≤ 2 ^ effBits b := Nat.pow_pos (by omega)
  have hM : 2 ^ effBits b - 1 < two64 := by
    have := two_pow_le_two64 _ hb.2; omega
  unfold parseUint denoteNat
  by_cases hs : s = []
  · simp [hs]
  · simp only [hs, if_false, ne_eq, not_false_eq_true, true_and]
    constructor
    · intro h
      obtain ⟨h1, h2, h3⟩ := puLoop_sound _ _ _ _ h
      simp only [Nat.zero_mul, Nat.zero_add] at h2
      have := h3 hs
      rw [if_pos h1, h2]
      exact ⟨rfl, by omega⟩
    · intro ⟨h1, h2⟩
      split at h1
      · rename_i hd
        cases h1
        have := puLoop_complete _ hM s 0 hd (by simp only [Nat.zero_mul, Nat.zero_add]; omega)
        simpa using this
      · cases h1

/-- the part of ParseInt after the sign has been split off -/
theorem signed_finish (body : List Char) (b : Nat) (hb : okBits b) (neg : Bool)
    (k : Nat) (hk : effBits b = k + 1) (v : Int) :
    (parseUint body b).bind (applySign neg b) = some v
    ↔ ∃ n : Nat, denoteNat body = some n ∧ v = (if neg = true then -(n : Int) else (n : Int))
        ∧ -(2 ^ k : Int) ≤ v ∧ v < (2 ^ k : Int) := by
  have hpow : (2 : Nat) ^ effBits b = 2 * 2 ^ k := by rw [hk, Nat.pow_succ, Nat.mul_comm]
  have hcast : ((2 : Int) ^ k) = ((2 ^ k : Nat) : Int) := by simp
  rw [hcast]
  unfold applySign
  simp only [hk, Nat.add_sub_cancel]
  generalize (2 : Nat) ^ k = P at *
  cases hu : parseUint body b with
  | none =>
    constructor
    · intro h; cases h
    · intro ⟨n, hd, hv, h1, h2⟩
      have : parseUint body b = some n := (parseUint_spec body b hb n).2 ⟨hd, by
        rw [hpow]; split at hv <;> omega⟩
      rw [hu] at this; cases this
  | some un =>
    obtain ⟨hd, hlt⟩ := (parseUint_spec body b hb un).1 hu
    simp only [Option.bind_some]
    constructor
    · intro h
      refine ⟨un, hd, ?_⟩
      cases neg
      · simp only [true_and, Bool.false_eq_true, false_and, if_false] at h ⊢
        split at h
        · cases h
        · cases h; omega
      · simp only [Bool.true_eq_false, false_and, if_false, true_and, if_true] at h ⊢
        split at h
        · cases h
        · cases h; omega
    · intro ⟨n, hd', hv, h1, h2⟩
      rw [hd] at hd'; cases hd'
      cases neg
      · simp only [true_and, Bool.false_eq_true, false_and, if_false] at hv ⊢
        rw [if_neg (by omega), hv]
      · simp only [Bool.true_eq_false, false_and, if_false, true_and, if_true] at hv ⊢
        rw [if_neg (by omega), hv]

/-- **parseInt = denotation + range** (`parseInt_denotes` of the design, as an equivalence) -/
theorem parseInt_spec (s : List Char) (b : Nat) (hb : okBits b) (v : Int) :
    parseInt s b = some v ↔
      denote s = some v ∧ -(2 ^ (effBits b - 1) : Int) ≤ v ∧ v < (2 ^ (effBits b - 1) : Int) := by
  obtain ⟨k, hk⟩ : ∃ k, effBits b = k + 1 := ⟨effBits b - 1, by have := hb.1; omega⟩
  cases s with
  | nil => simp [parseInt, denote]
  | cons c r =>
    simp only [parseInt, denote, hk, Nat.add_sub_cancel]
    rw [signed_finish _ b hb _ k hk v]
    by_cases hm : c = '-'
    · subst hm
      simp only [or_true, if_true, decide_true]
      constructor
      · intro ⟨n, hd, hv, hr⟩; subst hv; simp only [hd, Option.map_some]; exact ⟨trivial, hr⟩
      · intro ⟨hd, hr⟩
        cases hn : denoteNat r with
        | none => simp [hn] at hd
        | some n => exact ⟨n, rfl, by simpa [hn, eq_comm] using hd, hr⟩
    · by_cases hp : c = '+'
      · subst hp
        simp only [true_or, if_true, hm, if_false, decide_false, Bool.false_eq_true]
        constructor
        · intro ⟨n, hd, hv, hr⟩; subst hv; simp only [hd, Option.map_some]; exact ⟨trivial, hr⟩
        · intro ⟨hd, hr⟩
          cases hn : denoteNat r with
          | none => simp [hn] at hd
          | some n => exact ⟨n, rfl, by simpa [hn, eq_comm] using hd, hr⟩
      · simp only [hm, hp, or_self, if_false, decide_false, Bool.false_eq_true]
        constructor
        · intro ⟨n, hd, hv, hr⟩; subst hv; simp only [hd, Option.map_some]; exact ⟨trivial, hr⟩
        · intro ⟨hd, hr⟩
          cases hn : denoteNat (c :: r) with
          | none => simp [hn] at hd
          | some n => exact ⟨n, rfl, by simpa [hn, eq_comm] using hd, hr⟩

/-! ## every code site: the bit size written equals the width of the destination type -/

/-- **the table lemma**: at every site the bit size passed to strconv is the width of the
    type the result is converted to.  A wrong literal in any of the 43 sites of the model's
    table `Dest.bits` makes this `rfl` fail; a wrong literal in the Go code breaks the
    correspondence run on the boundary strings of the two widths involved. -/
theorem Dest.bits_eq_width : ∀ d : Dest, effBits d.bits = d.ty.width
  | .structInt t => by cases t <;> rfl
  | .structUint t => by cases t <;> rfl
  | .vbInt t m => by cases t <;> cases m <;> rfl
  | .vbUint t m => by cases t <;> cases m <;> rfl
  | .vbByte m => by cases m <;> rfl
  | .vbInts t => by cases t <;> rfl
  | .vbUints t => by cases t <;> rfl
  | .vbUnix => rfl

theorem FSite.bits_eq_width : ∀ f : FSite, f.bits = f.ty.width
  | .struct t => by cases t <;> rfl
  | .vb t m => by cases t <;> cases m <;> rfl
  | .vbs t => by cases t <;> rfl

theorem Dest.okBits (d : Dest) : C08.okBits d.bits := by
  unfold C08.okBits; rw [d.bits_eq_width]; cases d.ty <;> simp [ITy.width]

theorem wrapS_id (t : ITy) (v : Int) (h1 : -(2 ^ (t.width - 1)) ≤ v) (h2 : v < 2 ^ (t.width - 1)) :
    wrapS t.width v = v := by
  cases t <;> simp only [ITy.width, wrapS] at * <;> omega

theorem wrapU_id (t : ITy) (v : Int) (h1 : 0 ≤ v) (h2 : v < 2 ^ t.width) :
    wrapU t.width v = v := by
  cases t <;> simp only [ITy.width, wrapU] at * <;> omega

/-- the values of the destination's Go type -/
def Dest.inRange (d : Dest) (v : Int) : Prop :=
  if d.signed then -(2 ^ (d.ty.width - 1) : Int) ≤ v ∧ v < 2 ^ (d.ty.width - 1)
  else 0 ≤ v ∧ v < 2 ^ d.ty.width

/-- what a text denotes for a destination: `[+-]?[0-9]+` for signed, `[0-9]+` for unsigned types -/
def denoteFor (d : Dest) (s : List Char) : Option Int :=
  if d.signed then denote s else (denoteNat s).map (fun (n : Nat) => (n : Int))

/-- **C08_exact_or_error** — for EVERY destination site and EVERY text: the conversion succeeds
    with `v` iff the text denotes `v` and `v` is a value of the destination's type.  In particular
    a success never stores a wrapped or truncated number (`narrow` is the identity on every
    accepted value), and a text that does not fit is rejected. -/
theorem C08_exact_or_error (d : Dest) (s : List Char) (v : Int) :
    bindNum d s = some v ↔ denoteFor d s = some v ∧ d.inRange v := by
  unfold bindNum denoteFor Dest.inRange narrow
  have hw := d.bits_eq_width
  cases hs : d.signed with
  | true =>
    simp only [if_true]
    constructor
    · intro h
      cases hp : parseInt s d.bits with
      | none => simp [hp] at h
      | some x =>
        have hx := (parseInt_spec s d.bits d.okBits x).1 hp
        rw [hw] at hx
        simp only [hp, Option.map_some, Option.some.injEq] at h
        rw [wrapS_id d.ty x hx.2.1 hx.2.2] at h
        subst h; exact hx
    · intro ⟨h1, h2⟩
      have := (parseInt_spec s d.bits d.okBits v).2 ⟨h1, by rw [hw]; exact h2⟩
      simp only [this, Option.map_some, Option.some.injEq]
      exact wrapS_id d.ty v h2.1 h2.2
  | false =>
    simp only [Bool.false_eq_true, if_false]
    constructor
    · intro h
      cases hp : parseUint s d.bits with
      | none => simp [hp] at h
      | some x =>
        have hx := (parseUint_spec s d.bits d.okBits x).1 hp
        rw [hw] at hx
        simp only [hp, Option.map_some, Option.some.injEq] at h
        have hlt : (x : Int) < 2 ^ d.ty.width := by exact_mod_cast hx.2
        rw [wrapU_id d.ty x (by omega) hlt] at h
        subst h
        simp only [hx.1, Option.map_some, true_and]
        exact ⟨by omega, hlt⟩
    · intro ⟨h1, h2⟩
      cases hn : denoteNat s with
      | none => simp [hn] at h1
      | some n =>
        simp only [hn, Option.map_some, Option.some.injEq] at h1
        subst h1
        have hlt : n < 2 ^ effBits d.bits := by rw [hw]; exact_mod_cast h2.2
        have := (parseUint_spec s d.bits d.okBits n).2 ⟨hn, hlt⟩
        simp only [this, Option.map_some, Option.some.injEq]
        exact wrapU_id d.ty n h2.1 h2.2

/-- never a wrapped number: the narrowing conversion is the identity on every accepted value -/
theorem C08_never_wraps (d : Dest) (s : List Char) (v : Int) (h : bindNum d s = some v) :
    (if d.signed then (parseInt s d.bits) else (parseUint s d.bits).map (fun (n : Nat) => (n : Int))) = some v := by
  have hv := (C08_exact_or_error d s v).1 h
  unfold denoteFor Dest.inRange at hv
  cases hs : d.signed with
  | true =>
    simp only [hs, if_true] at hv ⊢
    exact (parseInt_spec s d.bits d.okBits v).2 ⟨hv.1, by rw [d.bits_eq_width]; exact hv.2⟩
  | false =>
    simp only [hs, Bool.false_eq_true, if_false] at hv ⊢
    cases hn : denoteNat s with
    | none => simp [hn] at hv
    | some n =>
      simp only [hn, Option.map_some, Option.some.injEq] at hv
      obtain ⟨h1, h2⟩ := hv
      subst h1
      have hlt : n < 2 ^ effBits d.bits := by rw [d.bits_eq_width]; exact_mod_cast h2.2
      simp [(parseUint_spec s d.bits d.okBits n).2 ⟨hn, hlt⟩]

/-- floats: the stored value is what `strconv.ParseFloat` gives for the width of the
    destination TYPE (so the later `float32(n)` conversion is exact) -/
theorem C08_float_width (ext : Ext) (f : FSite) (s : List Char) :
    parseElem ext (.float f) s = (ext f.ty.width s).map .opq := by
  simp [parseElem, f.bits_eq_width]

/-! ## the ValueBinder state machine -/

theorem frozen_iff (b : VB) : b.frozen = true ↔ b.failFast = true ∧ b.errors ≠ 0 := by
  simp [VB.frozen]

theorem sliceLoop_mono (ext : Ext) (e : Elem) (vs : List (List Char)) :
    ∀ b, b.errors ≤ (sliceLoop ext e b vs).1.errors ∧ (sliceLoop ext e b vs).1.failFast = b.failFast := by
  induction vs with
  | nil => intro b; simp [sliceLoop]
  | cons v vs ih =>
    intro b
    unfold sliceLoop
    split
    · split
      · simp
      · exact ih b
    · dsimp only
      split
      · simp [VB.addErr]
      · have := ih b.addErr
        simp only [VB.addErr] at this ⊢
        exact ⟨by omega, this.2⟩

/-- if the element loop ends with an empty error list, nothing failed: the state is untouched
    and the temporary holds the conversion of EVERY element -/
theorem sliceLoop_clean (ext : Ext) (e : Elem) (vs : List (List Char)) :
    ∀ b b1 tmp, sliceLoop ext e b vs = (b1, some tmp) → b1.errors = 0 →
      b1 = b ∧ vs.map (parseElem ext e) = tmp.map some := by
  induction vs with
  | nil => intro b b1 tmp h _; simp [sliceLoop] at h; simp [h.1, ← h.2]
  | cons v vs ih =>
    intro b b1 tmp h h0
    unfold sliceLoop at h
    split at h
    · rename_i x hx
      split at h
      · cases h
      · simp only [Prod.mk.injEq] at h
        obtain ⟨h1, h2⟩ := h
        cases hr : (sliceLoop ext e b vs).2 with
        | none => simp [hr] at h2
        | some t =>
          simp only [hr, Option.map_some, Option.some.injEq] at h2
          have := ih b b1 t (by rw [← h1, ← hr]) h0
          subst h2
          simp [this.1, this.2, hx]
    · dsimp only at h
      split at h
      · cases h
      · simp only [Prod.mk.injEq] at h
        have := (sliceLoop_mono ext e vs b.addErr).1
        rw [h.1] at this
        simp only [VB.addErr] at this
        omega

theorem sliceAssign_spec (ext : Ext) (b : VB) (e : Elem) (vs : List (List Char)) (init : DVal) :
    b.errors ≤ (sliceAssign ext b e vs init).1.errors
    ∧ (sliceAssign ext b e vs init).1.failFast = b.failFast
    ∧ ((sliceAssign ext b e vs init).2 = init
        ∨ ∃ tmp, (sliceAssign ext b e vs init).2 = .slice (some tmp)
            ∧ (sliceAssign ext b e vs init).1 = b ∧ b.errors = 0
            ∧ vs.map (parseElem ext e) = tmp.map some) := by
  have hm := sliceLoop_mono ext e vs b
  unfold sliceAssign
  cases hr : sliceLoop ext e b vs with
  | mk b1 r =>
    rw [hr] at hm
    cases r with
    | none => exact ⟨hm.1, hm.2, Or.inl rfl⟩
    | some tmp =>
      simp only
      split
      · rename_i h0
        obtain ⟨h1, h2⟩ := sliceLoop_clean ext e vs b b1 tmp hr h0
        exact ⟨hm.1, hm.2, Or.inr ⟨tmp, rfl, h1, by rw [← h1]; exact h0, h2⟩⟩
      · exact ⟨hm.1, hm.2, Or.inl rfl⟩

/-- the pieces a call converts -/
def Call.pieces (c : Call) : List (List Char) :=
  match c.shape with
  | .scalar => [c.values.headD []]
  | .slice => c.values
  | .delim => c.values.flatMap (split c.delim)

/-- summary of one call: errors only grow, the mode is kept, and the destination is either
    untouched or holds the conversion of every piece, in which case this call recorded no error -/
theorem callStep_spec (ext : Ext) (b : VB) (c : Call) :
    b.errors ≤ (callStep ext b c).1.errors
    ∧ (callStep ext b c).1.failFast = b.failFast
    ∧ ((callStep ext b c).2 = c.init
        ∨ ((callStep ext b c).1 = b ∧ b.frozen = false ∧
            ((c.shape = .scalar ∧ ∃ v, (callStep ext b c).2 = .scalar v
                ∧ parseElem ext c.elem (c.values.headD []) = some v ∧ c.values.headD [] ≠ [])
             ∨ (c.shape ≠ .scalar ∧ ∃ tmp, (callStep ext b c).2 = .slice (some tmp)
                ∧ c.pieces.map (parseElem ext c.elem) = tmp.map some
                ∧ (c.elem = .str ∨ b.errors = 0))))) := by
  unfold callStep
  cases hsh : c.shape with
  | scalar =>
    simp only
    unfold scalarCall
    split
    · exact ⟨Nat.le_refl _, rfl, Or.inl rfl⟩
    · rename_i hf
      simp only
      split
      · split <;> simp [VB.addErr]
      · rename_i hv
        split
        · simp [VB.addErr]
        · rename_i v hp
          refine ⟨Nat.le_refl _, rfl, Or.inr ⟨rfl, by simpa using hf, Or.inl ⟨by first | rfl | trivial, v, rfl, hp, hv⟩⟩⟩
  | slice =>
    simp only
    unfold sliceCall
    split
    · exact ⟨Nat.le_refl _, rfl, Or.inl rfl⟩
    · rename_i hf
      split
      · split <;> simp [VB.addErr]
      · split
        · rename_i he
          refine ⟨Nat.le_refl _, rfl, Or.inr ⟨rfl, by simpa using hf, Or.inr ⟨by simp, _, rfl, ?_, Or.inl he⟩⟩⟩
          simp [Call.pieces, hsh, he, parseElem]
        · rename_i e _
          obtain ⟨h1, h2, h3⟩ := sliceAssign_spec ext b c.elem c.values c.init
          refine ⟨h1, h2, ?_⟩
          cases h3 with
          | inl h => exact Or.inl h
          | inr h =>
            obtain ⟨tmp, ht, hb, h0, hm⟩ := h
            exact Or.inr ⟨hb, by simpa using hf, Or.inr ⟨by simp, tmp, ht, by simpa [Call.pieces, hsh] using hm, Or.inr h0⟩⟩
  | delim =>
    simp only
    unfold delimCall
    split
    · exact ⟨Nat.le_refl _, rfl, Or.inl rfl⟩
    · rename_i hf
      split
      · split <;> simp [VB.addErr]
      · simp only
        split
        · simp [VB.addErr]
        · split
          · rename_i he
            refine ⟨Nat.le_refl _, rfl, Or.inr ⟨rfl, by simpa using hf, Or.inr ⟨by simp, _, rfl, ?_, Or.inl he⟩⟩⟩
            simp [Call.pieces, hsh, he, parseElem]
          · rename_i e _
            obtain ⟨h1, h2, h3⟩ := sliceAssign_spec ext b c.elem (c.values.flatMap (split c.delim)) c.init
            refine ⟨h1, h2, ?_⟩
            cases h3 with
            | inl h => exact Or.inl h
            | inr h =>
              obtain ⟨tmp, ht, hb, h0, hm⟩ := h
              exact Or.inr ⟨hb, by simpa using hf, Or.inr ⟨by simp, tmp, ht, by simpa [Call.pieces, hsh] using hm, Or.inr h0⟩⟩

/-- **C08_error_leaves_dest** — a value-binder call that records an error leaves its
    destination unchanged (scalar, slice and delimiter variants, `Must*` included) -/
theorem C08_error_leaves_dest (ext : Ext) (b : VB) (c : Call)
    (h : (callStep ext b c).1.errors ≠ b.errors) : (callStep ext b c).2 = c.init := by
  obtain ⟨_, _, h3⟩ := callStep_spec ext b c
  cases h3 with
  | inl h' => exact h'
  | inr h' => rw [h'.1] at h; exact absurd rfl h

/-- **C08_failfast_frozen** — in fail-fast mode, once an error is recorded a call neither
    writes nor records anything -/
theorem C08_failfast_frozen (ext : Ext) (b : VB) (c : Call) (hff : b.failFast = true)
    (he : b.errors ≠ 0) : callStep ext b c = (b, c.init) := by
  have hf : b.frozen = true := (frozen_iff b).2 ⟨hff, he⟩
  unfold callStep
  cases c.shape <;> simp [scalarCall, sliceCall, delimCall, hf]

/-- **C08_slice_all_or_nothing** — a slice / delimiter call either leaves its destination
    untouched or stores the conversion of EVERY piece (then it recorded no error); for integer
    element types every stored element is exactly what its piece denotes -/
theorem C08_slice_all_or_nothing (ext : Ext) (b : VB) (c : Call) (hs : c.shape ≠ .scalar) :
    (callStep ext b c).2 = c.init
    ∨ ∃ tmp, (callStep ext b c).2 = .slice (some tmp)
        ∧ c.pieces.map (parseElem ext c.elem) = tmp.map some
        ∧ (callStep ext b c).1 = b := by
  obtain ⟨_, _, h3⟩ := callStep_spec ext b c
  cases h3 with
  | inl h => exact Or.inl h
  | inr h =>
    obtain ⟨hb, _, h'⟩ := h
    cases h' with
    | inl h'' => exact absurd h''.1 hs
    | inr h'' =>
      obtain ⟨_, tmp, ht, hm, _⟩ := h''
      exact Or.inr ⟨tmp, ht, hm, hb⟩

theorem C08_slice_exact (ext : Ext) (b : VB) (c : Call) (d : Dest) (hs : c.shape ≠ .scalar)
    (he : c.elem = .num d) (tmp : List SVal) (h : (callStep ext b c).2 = .slice (some tmp))
    (hch : (callStep ext b c).2 ≠ c.init) :
    c.pieces.map (fun p => (denoteFor d p).map SVal.int) = tmp.map some
    ∧ ∀ p ∈ c.pieces, ∃ v, denoteFor d p = some v ∧ d.inRange v := by
  cases C08_slice_all_or_nothing ext b c hs with
  | inl h' => exact absurd h' hch
  | inr h' =>
    obtain ⟨tmp', ht, hm, _⟩ := h'
    rw [h] at ht
    cases ht
    rw [he] at hm
    have key : ∀ (ps : List (List Char)) (t : List SVal),
        ps.map (parseElem ext (.num d)) = t.map some →
        ps.map (fun p => (denoteFor d p).map SVal.int) = t.map some
        ∧ ∀ p ∈ ps, ∃ v, denoteFor d p = some v ∧ d.inRange v := by
      intro ps
      induction ps with
      | nil => intro t ht; cases t <;> simp_all
      | cons p ps ih =>
        intro t ht
        cases t with
        | nil => simp at ht
        | cons x xs =>
          simp only [List.map_cons, List.cons.injEq] at ht
          obtain ⟨h1, h2⟩ := ht
          obtain ⟨i1, i2⟩ := ih xs h2
          simp only [parseElem] at h1
          cases hb : bindNum d p with
          | none => simp [hb] at h1
          | some v =>
            simp only [hb, Option.map_some, Option.some.injEq] at h1
            obtain ⟨hd, hr⟩ := (C08_exact_or_error d p v).1 hb
            refine ⟨by simp [hd, h1, i1], ?_⟩
            intro q hq
            cases List.mem_cons.mp hq with
            | inl e => exact e ▸ ⟨v, hd, hr⟩
            | inr e => exact i2 q e
    exact key _ _ hm

/-- scalar calls: the destination changes only to exactly what the text denotes -/
theorem C08_scalar_exact (ext : Ext) (b : VB) (c : Call) (d : Dest) (hs : c.shape = .scalar)
    (he : c.elem = .num d) (hch : (callStep ext b c).2 ≠ c.init) :
    ∃ v, (callStep ext b c).2 = .scalar (.int v) ∧ denoteFor d (c.values.headD []) = some v
      ∧ d.inRange v ∧ (callStep ext b c).1 = b := by
  obtain ⟨_, _, h3⟩ := callStep_spec ext b c
  cases h3 with
  | inl h => exact absurd h hch
  | inr h =>
    obtain ⟨hb, _, h'⟩ := h
    cases h' with
    | inr h'' => exact absurd hs h''.1
    | inl h'' =>
      obtain ⟨_, v, hv, hp, _⟩ := h''
      have hp' : (bindNum d (c.values.headD [])).map SVal.int = some v := by rw [he] at hp; exact hp
      cases hbn : bindNum d (c.values.headD []) with
      | none => rw [hbn] at hp'; cases hp'
      | some x =>
        rw [hbn] at hp'; cases hp'
        obtain ⟨hd, hr⟩ := (C08_exact_or_error d _ x).1 hbn
        exact ⟨x, hv, hd, hr, hb⟩

/-- and conversely (no silent skip): an unfrozen scalar call with a non-empty text that denotes
    a value of the destination type stores it; one that does not records exactly one error -/
theorem C08_scalar_complete (ext : Ext) (b : VB) (c : Call) (d : Dest) (hs : c.shape = .scalar)
    (he : c.elem = .num d) (hf : b.frozen = false) (hne : c.values.headD [] ≠ []) :
    (∀ v, denoteFor d (c.values.headD []) = some v → d.inRange v →
        callStep ext b c = (b, .scalar (.int v)))
    ∧ ((∀ v, denoteFor d (c.values.headD []) = some v → ¬ d.inRange v) →
        callStep ext b c = (b.addErr, c.init)) := by
  unfold callStep
  simp only [hs, scalarCall, hf, Bool.false_eq_true, if_false, hne, he, parseElem]
  constructor
  · intro v hd hr
    rw [(C08_exact_or_error d _ v).2 ⟨hd, hr⟩]
    rfl
  · intro hno
    cases hb : bindNum d (c.values.headD []) with
    | none => rfl
    | some x =>
      obtain ⟨hd, hr⟩ := (C08_exact_or_error d _ x).1 hb
      exact absurd hr (hno x hd)

/-! ### chains -/

def vbEnd (ext : Ext) : VB → List Op → VB
  | b, [] => b
  | b, o :: os => vbEnd ext (vbStep ext b o).1 os

theorem vbRun_append (ext : Ext) (xs ys : List Op) :
    ∀ b, vbRun ext b (xs ++ ys) = vbRun ext b xs ++ vbRun ext (vbEnd ext b xs) ys := by
  induction xs with
  | nil => intro b; rfl
  | cons x xs ih => intro b; simp [vbRun, vbEnd, ih]

theorem vbEnd_calls (ext : Ext) (cs : List Call) :
    ∀ b, (vbEnd ext b (cs.map .call)).failFast = b.failFast
      ∧ b.errors ≤ (vbEnd ext b (cs.map .call)).errors := by
  induction cs with
  | nil => intro b; simp [vbEnd]
  | cons c cs ih =>
    intro b
    obtain ⟨h1, h2, _⟩ := callStep_spec ext b c
    have := ih (callStep ext b c).1
    simp only [List.map_cons, vbEnd, vbStep]
    exact ⟨this.1.trans h2, Nat.le_trans h1 this.2⟩

/-- a frozen binder stays frozen through any sequence of calls: nothing is written, nothing recorded -/
theorem C08_failfast_chain (ext : Ext) (cs : List Call) :
    ∀ b, b.failFast = true → b.errors ≠ 0 →
      vbRun ext b (cs.map .call) = cs.map (fun c => Out.call c.init 0)
      ∧ vbEnd ext b (cs.map .call) = b := by
  induction cs with
  | nil => intro b _ _; simp [vbRun, vbEnd]
  | cons c cs ih =>
    intro b hff he
    have hc := C08_failfast_frozen ext b c hff he
    simp only [List.map_cons, vbRun, vbEnd, vbStep, hc, Nat.sub_self]
    obtain ⟨i1, i2⟩ := ih b hff he
    simp [i1, i2]

/-- **nothing is written after the first error** — in fail-fast mode, whatever calls came
    before, once a call records an error every later call of the chain leaves its destination
    as it was and records nothing -/
theorem C08_failfast_nothing_after_error (ext : Ext) (b : VB) (hff : b.failFast = true)
    (pre post : List Call) (c : Call)
    (herr : (callStep ext (vbEnd ext b (pre.map .call)) c).1.errors ≠ 0) :
    vbRun ext b ((pre ++ c :: post).map .call)
      = vbRun ext b (pre.map .call)
        ++ (vbStep ext (vbEnd ext b (pre.map .call)) (.call c)).2
        :: post.map (fun c => Out.call c.init 0) := by
  rw [List.map_append, vbRun_append]
  congr 1
  simp only [List.map_cons, vbRun]
  congr 1
  have h1 := (vbEnd_calls ext pre b).1
  obtain ⟨_, h2, _⟩ := callStep_spec ext (vbEnd ext b (pre.map .call)) c
  exact (C08_failfast_chain ext post _ (by simp only [vbStep]; rw [h2, h1, hff]) (by simpa [vbStep] using herr)).1

/-! ### CustomFunc / MustCustomFunc and chains of arbitrary binding ops (round 4) -/

/-- **C08_custom_frozen** — in fail-fast mode with a recorded error the user function is not
    invoked: its destination keeps its value and nothing is recorded -/
theorem C08_custom_frozen (b : VB) (c : Custom) (hff : b.failFast = true) (he : b.errors ≠ 0) :
    customStep b c = (b, c.init) := by
  have hf : b.frozen = true := (frozen_iff b).2 ⟨hff, he⟩
  simp [customStep, hf]

/-- **C08_custom_spec** — otherwise: an absent parameter never invokes the function (`Must`
    records exactly one error); a present one invokes it once and EVERY error it returns is
    recorded -/
theorem C08_custom_spec (b : VB) (c : Custom) (hf : b.frozen = false) :
    (c.values = [] → customStep b c = ((if c.must then b.addErr else b), c.init))
    ∧ (c.values ≠ [] → customStep b c = (b.addCustom c.errs, c.result)) := by
  constructor <;> intro h <;> simp [customStep, hf, h]

theorem customStep_mono (b : VB) (c : Custom) :
    b.errors ≤ (customStep b c).1.errors ∧ (customStep b c).1.failFast = b.failFast := by
  unfold customStep
  split
  · exact ⟨Nat.le_refl _, rfl⟩
  · split
    · split <;> simp [VB.addErr]
    · unfold VB.addCustom
      split <;> simp

/-- ops that bind a parameter -/
def Op.isBinding : Op → Bool
  | .call _ => true
  | .custom _ => true
  | _ => false

/-- what a binding op reports when it does nothing at all -/
def Op.untouched : Op → Out
  | .call c => .call c.init 0
  | .custom c => .call c.init 0
  | _ => .nothing

theorem vbStep_binding_mono (ext : Ext) (b : VB) (o : Op) (ho : o.isBinding = true) :
    b.errors ≤ (vbStep ext b o).1.errors ∧ (vbStep ext b o).1.failFast = b.failFast := by
  cases o with
  | call c => obtain ⟨h1, h2, _⟩ := callStep_spec ext b c; exact ⟨h1, h2⟩
  | custom c => exact customStep_mono b c
  | failFast v => simp [Op.isBinding] at ho
  | bindError => simp [Op.isBinding] at ho
  | bindErrors => simp [Op.isBinding] at ho

theorem vbEnd_binding (ext : Ext) (ops : List Op) (ho : ∀ o ∈ ops, o.isBinding = true) :
    ∀ b, (vbEnd ext b ops).failFast = b.failFast ∧ b.errors ≤ (vbEnd ext b ops).errors := by
  induction ops with
  | nil => intro b; simp [vbEnd]
  | cons o os ih =>
    intro b
    obtain ⟨h1, h2⟩ := vbStep_binding_mono ext b o (ho o (by simp))
    have := ih (fun x hx => ho x (List.mem_cons_of_mem _ hx)) (vbStep ext b o).1
    simp only [vbEnd]
    exact ⟨this.1.trans h2, Nat.le_trans h1 this.2⟩

/-- **C08_failfast_chain_ops** — a frozen binder stays frozen through ANY sequence of binding
    ops (typed calls, slice / delimiter calls, `Time(s)`, `CustomFunc`): nothing is written, no
    user function is invoked, nothing is recorded -/
theorem C08_failfast_chain_ops (ext : Ext) (ops : List Op) (ho : ∀ o ∈ ops, o.isBinding = true) :
    ∀ b, b.failFast = true → b.errors ≠ 0 →
      vbRun ext b ops = ops.map Op.untouched ∧ vbEnd ext b ops = b := by
  induction ops with
  | nil => intro b _ _; simp [vbRun, vbEnd]
  | cons o os ih =>
    intro b hff he
    have ih' := ih (fun x hx => ho x (List.mem_cons_of_mem _ hx)) b hff he
    cases o with
    | call c =>
      have hc := C08_failfast_frozen ext b c hff he
      simp only [List.map_cons, vbRun, vbEnd, vbStep, hc, Nat.sub_self, Op.untouched]
      simp [ih'.1, ih'.2]
    | custom c =>
      have hc := C08_custom_frozen b c hff he
      simp only [List.map_cons, vbRun, vbEnd, vbStep, hc, Nat.sub_self, Op.untouched]
      simp [ih'.1, ih'.2]
    | failFast v => have := ho (.failFast v) (by simp); simp [Op.isBinding] at this
    | bindError => have := ho .bindError (by simp); simp [Op.isBinding] at this
    | bindErrors => have := ho .bindErrors (by simp); simp [Op.isBinding] at this

/-- **nothing is written after the first error, for every kind of binding op** -/
theorem C08_failfast_nothing_after_error_ops (ext : Ext) (b : VB) (hff : b.failFast = true)
    (pre post : List Op) (o : Op) (hpre : ∀ x ∈ pre, x.isBinding = true) (ho : o.isBinding = true)
    (hpost : ∀ x ∈ post, x.isBinding = true)
    (herr : (vbStep ext (vbEnd ext b pre) o).1.errors ≠ 0) :
    vbRun ext b (pre ++ o :: post)
      = vbRun ext b pre ++ (vbStep ext (vbEnd ext b pre) o).2 :: post.map Op.untouched := by
  rw [vbRun_append]
  congr 1
  simp only [vbRun]
  congr 1
  have h1 := (vbEnd_binding ext pre hpre b).1
  have h2 := (vbStep_binding_mono ext (vbEnd ext b pre) o ho).2
  exact (C08_failfast_chain_ops ext post hpost _ (by rw [h2, h1, hff]) herr).1

/-! ### the loop of `durations` / `times` as written -/

/-- `durations` and `times` do not call a per-element helper: their loop tests `b.failFast` alone,
    and only in the error branch -/
def errLoop (ext : Ext) (e : Elem) : VB → List (List Char) → VB × Option (List SVal)
  | b, [] => (b, some [])
  | b, v :: vs =>
    match parseElem ext e v with
    | some x =>
      let r := errLoop ext e b vs
      (r.1, r.2.map (x :: ·))
    | none =>
      let b1 := b.addErr
      if b1.failFast then (b1, none)
      else
        let r := errLoop ext e b1 vs
        (r.1, r.2.map (zeroOf e :: ·))

/-- … which is the loop of the other slice methods whenever the method was entered at all
    (its first statement returns if the binder is frozen) -/
theorem C08_errLoop_eq (ext : Ext) (e : Elem) :
    ∀ (vs : List (List Char)) (b : VB), b.frozen = false → errLoop ext e b vs = sliceLoop ext e b vs := by
  intro vs
  induction vs with
  | nil => intro b _; rfl
  | cons v vs ih =>
    intro b hf
    unfold errLoop sliceLoop
    cases hp : parseElem ext e v with
    | some x => simp only [hf, Bool.false_eq_true, if_false]; rw [ih b hf]
    | none =>
      simp only
      have hfr : b.addErr.frozen = b.failFast := by
        simp [VB.frozen, VB.addErr]
      rw [hfr]
      have : b.addErr.failFast = b.failFast := rfl
      rw [this]
      cases hff : b.failFast with
      | true => simp
      | false =>
        simp only [Bool.false_eq_true, if_false]
        rw [ih b.addErr (by rw [hfr, hff])]

/-! ### whitespace-only text, and an `ErrorFunc` that returns nil (round 7) -/

/-- text that starts with a byte which is neither a digit nor a sign is never a number -/
theorem bindNum_bad_first (d : Dest) (c : Char) (cs : List Char) (hd : digit? c = none)
    (hs : c ≠ '+' ∧ c ≠ '-') : bindNum d (c :: cs) = none := by
  have hu : ∀ bits, parseUint (c :: cs) bits = none := by
    intro bits
    simp [parseUint, puLoop, hd]
  unfold bindNum
  cases d.signed
  · simp [hu]
  · simp [parseInt, hs.1, hs.2, hu]

/-- **C08_blank_text_is_an_error** — "empty counts as absent" means exactly the empty string: an
    unfrozen scalar call whose text is not empty but begins with a blank (space, tab, line feed,
    carriage return — in particular text that is blank as a whole) records exactly one error and
    leaves an integer destination alone, for `Must` and non-`Must` methods alike -/
theorem C08_blank_text_is_an_error (ext : Ext) (b : VB) (c : Call) (d : Dest) (hs : c.shape = .scalar)
    (he : c.elem = .num d) (hf : b.frozen = false) (x : Char) (rest : List Char)
    (hv : c.values.headD [] = x :: rest) (hx : x = ' ' ∨ x = '\t' ∨ x = '\n' ∨ x = '\r') :
    callStep ext b c = (b.addErr, c.init) := by
  have hbad : bindNum d (x :: rest) = none := by
    apply bindNum_bad_first
    · rcases hx with rfl | rfl | rfl | rfl <;> decide
    · rcases hx with rfl | rfl | rfl | rfl <;> decide
  unfold callStep
  simp only [hs, scalarCall, hf, Bool.false_eq_true, if_false, hv, he, parseElem, hbad]
  simp

/-- **C08_setError_records_nil** — whatever the application's `ErrorFunc` returns (nil included),
    a failed conversion is recorded: the error count grows by one, so the fail-fast test and the
    slice guard `b.errors == nil` see it; only `BindError()` depends on what was returned -/
theorem C08_setError_records_nil (b : VB) :
    b.addErr.errors = b.errors + 1 ∧ b.addErr.frozen = b.failFast ∧ b.addErr.failFast = b.failFast
    ∧ b.addErr.efNil = b.efNil := by
  refine ⟨rfl, ?_, rfl, rfl⟩
  simp [VB.frozen, VB.addErr]

/-- the round-1 … round-5 theorems quantify over every `VB`, hence over both kinds of `ErrorFunc`;
    spelled out for the clause the nil-returning one endangers: with ANY `ErrorFunc`, after a
    failing binding op of a fail-fast binder every later binding op is untouched -/
theorem C08_any_errorfunc_nothing_after_error (ext : Ext) (n : Nat) (en fn : Bool)
    (pre post : List Op) (o : Op) (hpre : ∀ x ∈ pre, x.isBinding = true) (ho : o.isBinding = true)
    (hpost : ∀ x ∈ post, x.isBinding = true)
    (herr : (vbStep ext (vbEnd ext ⟨n, true, en, fn⟩ pre) o).1.errors ≠ 0) :
    vbRun ext ⟨n, true, en, fn⟩ (pre ++ o :: post)
      = vbRun ext ⟨n, true, en, fn⟩ pre ++ (vbStep ext (vbEnd ext ⟨n, true, en, fn⟩ pre) o).2 :: post.map Op.untouched :=
  C08_failfast_nothing_after_error_ops ext ⟨n, true, en, fn⟩ rfl pre post o hpre ho hpost herr

/-! ### the constructors' default (round 5) -/

/-- **C08_ctor_failfast_default** — every public constructor returns a binder without errors and
    with fail-fast ENABLED -/
theorem C08_ctor_failfast_default (c : Ctor) : (newBinder c).failFast = true ∧ (newBinder c).errors = 0 := by
  cases c <;> exact ⟨rfl, rfl⟩

/-- **C08_default_binder_nothing_after_error** — a binder fresh from ANY constructor, used without
    a `FailFast` call: once a binding op records an error every later binding op of the chain is
    untouched (no write, no user function invoked, nothing recorded) -/
theorem C08_default_binder_nothing_after_error (ext : Ext) (c : Ctor) (pre post : List Op) (o : Op)
    (hpre : ∀ x ∈ pre, x.isBinding = true) (ho : o.isBinding = true)
    (hpost : ∀ x ∈ post, x.isBinding = true)
    (herr : (vbStep ext (vbEnd ext (newBinder c) pre) o).1.errors ≠ 0) :
    vbRun ext (newBinder c) (pre ++ o :: post)
      = vbRun ext (newBinder c) pre ++ (vbStep ext (vbEnd ext (newBinder c) pre) o).2 :: post.map Op.untouched :=
  C08_failfast_nothing_after_error_ops ext (newBinder c) (C08_ctor_failfast_default c).1 pre post o hpre ho hpost herr

/-! ### empty text -/

/-- **C08_empty (value binder)** — an empty or absent value is "absent": the destination is not
    touched; only `Must*` records an error -/
theorem C08_empty_vb (ext : Ext) (b : VB) (c : Call) (hs : c.shape = .scalar)
    (he : c.values.headD [] = []) :
    (callStep ext b c).2 = c.init
    ∧ (callStep ext b c).1 = (if b.frozen = false ∧ c.must = true then b.addErr else b) := by
  unfold callStep
  simp only [hs, scalarCall, he]
  cases b.frozen <;> cases c.must <;> simp

/-- **C08_empty (struct binder)** — empty text binds the zero value -/
theorem C08_empty_struct (ext : Ext) (d : Dest) :
    structElem ext (.num d) [] = some (.int 0) ∧ structElem ext .bool [] = some (.bool false)
    ∧ structElem ext .str [] = some (.opq []) := by
  refine ⟨?_, by simp [structElem, emptyDefault, parseElem, parseBool], by simp [structElem, emptyDefault, parseElem]⟩
  have hw : ∀ k : Nat, (0 : Int) < 2 ^ k := fun k => Int.pow_pos (by decide)
  have : bindNum d ['0'] = some 0 := by
    rw [C08_exact_or_error]
    unfold denoteFor Dest.inRange
    have hd : denote ['0'] = some 0 := by decide
    have hn : denoteNat ['0'] = some 0 := by decide
    cases d.signed
    · simp only [Bool.false_eq_true, if_false, hn, Option.map_some]
      exact ⟨by first | rfl | trivial, Int.le_refl _, hw _⟩
    · simp only [if_true, hd]
      exact ⟨by first | rfl | trivial, by have := hw (d.ty.width - 1); omega, hw _⟩
  simp [structElem, emptyDefault, parseElem, this]

/-! ## the struct binder -/

/-- what a field must hold after a successful walk: its previous value if the source has no
    key for it, else the conversion of its text(s) — whatever it held before.  A multi-value
    destination (`UnmarshalParams`) holds ALL values of its key. -/
def fieldHolds (ext : Ext) (f : Field) (v : FVal) : Prop :=
  match f.values with
  | none => v = f.init
  | some vals =>
    match f.wrap with
    | .scalar | .ptr => ∃ x, v = .one x ∧ structElem ext f.elem (vals.headD []) = some x
    | .multi | .ptrMulti => v = .many (vals.map .opq) ∧ ∀ s ∈ vals, s.head? ≠ some '!'
    | _ => ∃ xs, v = .many xs ∧ vals.map (structElem ext f.elem) = xs.map some

theorem multiParse_some (vals : List (List Char)) (xs : List SVal) :
    multiParse vals = some xs ↔ xs = vals.map .opq ∧ ∀ s ∈ vals, s.head? ≠ some '!' := by
  unfold multiParse
  by_cases h : vals.any (fun s => s.head? = some '!') = true
  · simp only [h, if_true, reduceCtorEq, false_iff, not_and]
    intro _ hall
    obtain ⟨s, hs, hb⟩ := List.any_eq_true.mp h
    exact hall s hs (by simpa using hb)
  · simp only [h, Bool.false_eq_true, if_false, Option.some.injEq]
    have : ∀ s ∈ vals, s.head? ≠ some '!' := by
      intro s hs hb
      exact h (List.any_eq_true.mpr ⟨s, hs, by simpa using hb⟩)
    constructor
    · intro e; exact ⟨e.symm, this⟩
    · intro e; exact e.1.symm

theorem multiParse_none (vals : List (List Char)) :
    multiParse vals = none ↔ ∃ s ∈ vals, s.head? = some '!' := by
  unfold multiParse
  by_cases h : vals.any (fun s => s.head? = some '!') = true
  · simp only [h, if_true, true_iff]
    obtain ⟨s, hs, hb⟩ := List.any_eq_true.mp h
    exact ⟨s, hs, by simpa using hb⟩
  · simp only [h, Bool.false_eq_true, if_false, reduceCtorEq, false_iff, not_exists, not_and]
    intro s hs hb
    exact h (List.any_eq_true.mpr ⟨s, hs, by simpa using hb⟩)

theorem structElems_spec (ext : Ext) (e : Elem) (ss : List (List Char)) :
    ∀ xs, structElems ext e ss = some xs ↔ ss.map (structElem ext e) = xs.map some := by
  induction ss with
  | nil => intro xs; cases xs <;> simp [structElems]
  | cons s ss ih =>
    intro xs
    simp only [structElems, List.map_cons]
    cases hs : structElem ext e s with
    | none => cases xs <;> simp
    | some v =>
      cases xs with
      | nil => cases h : structElems ext e ss <;> simp
      | cons x xs =>
        simp only [List.map_cons, List.cons.injEq, Option.some.injEq]
        cases h : structElems ext e ss with
        | none =>
          simp only [Option.map_none]
          constructor
          · intro hh; cases hh
          · intro ⟨_, hm⟩
            have := (ih xs).2 hm
            rw [h] at this; cases this
        | some t =>
          simp only [Option.map_some, Option.some.injEq, List.cons.injEq]
          constructor
          · intro ⟨a, b'⟩; exact ⟨a, (ih xs).1 (by rw [h, b'])⟩
          · intro ⟨a, b'⟩
            have := (ih xs).2 b'
            rw [h] at this
            exact ⟨a, by simpa using this⟩

theorem bindField_ok (ext : Ext) (f : Field) (v : FVal) (h : bindField ext f = .ok v) :
    fieldHolds ext f v := by
  unfold bindField at h
  unfold fieldHolds
  cases hv : f.values with
  | none => simp only [hv] at h ⊢; cases h; rfl
  | some vals =>
    simp only [hv] at h ⊢
    cases hw : f.wrap <;> simp only [hw] at h ⊢
    case multi =>
      split at h
      · rename_i xs hx; cases h; exact (multiParse_some vals xs).1 hx |>.imp_left (fun e => by rw [e])
      · cases h
    case ptrMulti =>
      split at h
      · rename_i xs hx; cases h; exact (multiParse_some vals xs).1 hx |>.imp_left (fun e => by rw [e])
      · cases h
    all_goals
      cases vals with
      | nil => simp at h
      | cons v0 vs =>
        simp only at h
        split at h
        · rename_i x hx
          cases h
          first
            | exact ⟨x, rfl, by simpa using hx⟩
            | exact ⟨x, rfl, (structElems_spec ext _ _ x).1 hx⟩
        · cases h

/-- a field fails iff the source has a key for it and one of the texts it converts is not convertible -/
def fieldBad (ext : Ext) (f : Field) : Prop :=
  match f.values with
  | none => False
  | some vals =>
    match f.wrap with
    | .scalar | .ptr => structElem ext f.elem (vals.headD []) = none
    | .multi | .ptrMulti => ∃ s ∈ vals, s.head? = some '!'
    | _ => ∃ s ∈ vals, structElem ext f.elem s = none

theorem structElems_none (ext : Ext) (e : Elem) (ss : List (List Char)) :
    structElems ext e ss = none ↔ ∃ s ∈ ss, structElem ext e s = none := by
  induction ss with
  | nil => simp [structElems]
  | cons s ss ih =>
    simp only [structElems, List.mem_cons, exists_eq_or_imp]
    cases hs : structElem ext e s with
    | none => simp
    | some v =>
      simp only [reduceCtorEq, false_or]
      rw [← ih]
      cases structElems ext e ss <;> simp

theorem bindField_cases (ext : Ext) (f : Field)
    (hne : f.values = some [] → f.wrap = .multi ∨ f.wrap = .ptrMulti) :
    (fieldBad ext f ∧ ∃ v, bindField ext f = .err v) ∨ (¬ fieldBad ext f ∧ ∃ v, bindField ext f = .ok v) := by
  unfold bindField fieldBad
  cases hv : f.values with
  | none => simp
  | some vals =>
    simp only
    cases hw : f.wrap <;> simp only
    case multi =>
      cases h : multiParse vals with
      | none => exact Or.inl ⟨(multiParse_none vals).1 h, by simp⟩
      | some xs =>
        refine Or.inr ⟨?_, by simp⟩
        intro hb
        rw [(multiParse_none vals).2 hb] at h; cases h
    case ptrMulti =>
      cases h : multiParse vals with
      | none => exact Or.inl ⟨(multiParse_none vals).1 h, by simp⟩
      | some xs =>
        refine Or.inr ⟨?_, by simp⟩
        intro hb
        rw [(multiParse_none vals).2 hb] at h; cases h
    case scalar =>
      cases vals with
      | nil => have := hne hv; rw [hw] at this; simp at this
      | cons v0 vs => simp only [List.headD_cons]; cases h : structElem ext f.elem v0 <;> simp
    case ptr =>
      cases vals with
      | nil => have := hne hv; rw [hw] at this; simp at this
      | cons v0 vs => simp only [List.headD_cons]; cases h : structElem ext f.elem v0 <;> simp
    all_goals
      cases vals with
      | nil => have := hne hv; rw [hw] at this; simp at this
      | cons v0 vs =>
        cases h : structElems ext f.elem (v0 :: vs) with
        | none => exact Or.inl ⟨(structElems_none ext _ _).1 h, by simp [h]⟩
        | some xs =>
          refine Or.inr ⟨?_, by simp [h]⟩
          intro hb
          rw [(structElems_none ext _ _).2 hb] at h; cases h

/-- **struct binder, exactness** — if the walk reports no error, every field for which the
    source carries a key holds the conversion of its text(s), WHATEVER it held before (a
    pre-populated destination is overwritten, in particular by the zero value for empty text);
    every other field holds what it held before -/
theorem C08_struct_exact (ext : Ext) (fs : List Field) :
    ∀ vals, structBind ext fs = (.ok, vals) →
      vals.length = fs.length ∧ ∀ p ∈ fs.zip vals, fieldHolds ext p.1 p.2 := by
  induction fs with
  | nil => intro vals h; simp [structBind] at h; subst h; simp
  | cons f fs ih =>
    intro vals h
    unfold structBind at h
    split at h
    · rename_i v hv
      simp only [Prod.mk.injEq] at h
      obtain ⟨h1, h2⟩ := h
      subst h2
      obtain ⟨i1, i2⟩ := ih _ (by rw [← h1])
      refine ⟨by simp [i1], ?_⟩
      intro p hp
      simp only [List.zip_cons_cons, List.mem_cons] at hp
      cases hp with
      | inl e => subst e; exact bindField_ok ext f v hv
      | inr e => exact i2 p e
    · simp at h
    · simp at h

/-- **struct binder, never silent** — the walk reports 400 iff some field's text is not
    convertible (given what net/http guarantees: no empty value lists), and it never panics -/
theorem C08_struct_400 (ext : Ext) (fs : List Field)
    (hne : ∀ f ∈ fs, f.values = some [] → f.wrap = .multi ∨ f.wrap = .ptrMulti) :
    ((structBind ext fs).1 = .bad ↔ ∃ f ∈ fs, fieldBad ext f)
    ∧ ((structBind ext fs).1 = .ok ↔ ∀ f ∈ fs, ¬ fieldBad ext f) := by
  induction fs with
  | nil => simp [structBind]
  | cons f fs ih =>
    have ih' := ih (fun g hg => hne g (List.mem_cons_of_mem _ hg))
    unfold structBind
    cases bindField_cases ext f (hne f (by simp)) with
    | inl h =>
      obtain ⟨hb, v, hv⟩ := h
      simp only [hv, List.mem_cons, exists_eq_or_imp, forall_eq_or_imp, reduceCtorEq, false_iff, true_iff]
      exact ⟨Or.inl hb, fun hh => hh.1 hb⟩
    | inr h =>
      obtain ⟨hb, v, hv⟩ := h
      simp only [hv, List.mem_cons, exists_eq_or_imp, forall_eq_or_imp, hb, false_or, not_false_eq_true, true_and]
      exact ih'

/-- **C08_no_panic** — the only partial operation on the binding path is `inputValue[0]`;
    with the data net/http produces (every key has at least one value) it cannot fail — and a
    multi-value destination never reaches it, whatever the value list.  The value binder has no
    partial operation at all (`Out` has no panic outcome). -/
theorem C08_no_panic (ext : Ext) (fs : List Field)
    (hne : ∀ f ∈ fs, f.values = some [] → f.wrap = .multi ∨ f.wrap = .ptrMulti) :
    (structBind ext fs).1 ≠ .panic := by
  have := C08_struct_400 ext fs hne
  intro hp
  by_cases hb : ∃ f ∈ fs, fieldBad ext f
  · rw [this.1.2 hb] at hp; cases hp
  · have : (structBind ext fs).1 = .ok := this.2.2 (fun f hf hbad => hb ⟨f, hf, hbad⟩)
    rw [this] at hp; cases hp

/-- **empty text overwrites** — a scalar integer or bool field whose key is present with empty
    text ends up holding 0 / false whatever it held before (struct with defaults, reused
    struct, a value bound from an earlier source) -/
theorem C08_empty_overwrites (ext : Ext) (f : Field) (rest : List (List Char))
    (hw : f.wrap = .scalar) (hv : f.values = some ([] :: rest)) :
    (∀ d, f.elem = .num d → bindField ext f = .ok (.one (.int 0)))
    ∧ (f.elem = .bool → bindField ext f = .ok (.one (.bool false))) := by
  constructor
  · intro d he
    unfold bindField
    simp only [hv, hw, he, (C08_empty_struct ext d).1]
  · intro he
    unfold bindField
    simp only [hv, hw, he, (C08_empty_struct ext .vbUnix).2.1]

/-- two sources in sequence (path params, then the query string): the second walk starts from
    what the first one left and obeys the same exactness -/
theorem C08_struct2_exact (ext : Ext) (fs : List Field) (second : List (Option (List (List Char))))
    (vals : List FVal) (h : structBind2 ext fs second = (.ok, vals)) :
    ∃ vals1, structBind ext fs = (.ok, vals1)
      ∧ vals.length = (rebase fs vals1 second).length
      ∧ ∀ p ∈ (rebase fs vals1 second).zip vals, fieldHolds ext p.1 p.2 := by
  unfold structBind2 at h
  cases h1 : structBind ext fs with
  | mk st vals1 =>
    rw [h1] at h
    cases st with
    | ok =>
      simp only at h
      exact ⟨vals1, rfl, C08_struct_exact ext _ vals h⟩
    | bad => simp at h
    | panic => simp at h

/-- `parseInt_denotes` in the form of the design: one direction of `parseInt_spec` -/
theorem parseInt_denotes (s : List Char) (b : Nat) (hb : okBits b) (v : Int)
    (h : parseInt s b = some v) :
    denote s = some v ∧ -(2 ^ (effBits b - 1) : Int) ≤ v ∧ v < (2 ^ (effBits b - 1) : Int) :=
  (parseInt_spec s b hb v).1 h

/-- **C08_empty** — empty text: zero value in struct binding, "absent" in the value binder -/
theorem C08_empty (ext : Ext) :
    (∀ d : Dest, structElem ext (.num d) [] = some (.int 0))
    ∧ structElem ext .bool [] = some (.bool false)
    ∧ (∀ (b : VB) (c : Call), c.shape = .scalar → c.values.headD [] = [] →
        (callStep ext b c).2 = c.init
        ∧ (callStep ext b c).1 = (if b.frozen = false ∧ c.must = true then b.addErr else b)) :=
  ⟨fun d => (C08_empty_struct ext d).1, (C08_empty_struct ext (.vbUnix)).2.1,
   fun b c hs he => C08_empty_vb ext b c hs he⟩

/-! ### named types of builtin kind with their own unmarshaler (round 5) -/

/-- **C08_named_own_parser** — a named type of builtin kind that implements an unmarshaler is
    converted by its own method (the external parser `200 + k`), with the text exactly as sent
    (no `"0"` / `"false"` default for empty text) — never by strconv, whatever its kind -/
theorem C08_named_own_parser (ext : Ext) (k : Nat) (s : List Char) :
    structElem ext (.named k) s = (ext (200 + k) s).map .opq := by
  unfold structElem emptyDefault parseElem
  by_cases h : s = [] <;> simp [h]

/-- … and that holds for every ELEMENT of a slice, slice of pointers or pointer to slice: the
    field is bound iff the type's own method accepts every text, and then holds its answers -/
theorem C08_named_slice_elements (ext : Ext) (k : Nat) (w : Wrap)
    (hw : w = .slice ∨ w = .sliceOfPtr ∨ w = .ptrToSlice) (init : FVal) (v0 : List Char)
    (vs : List (List Char)) (xs : List SVal) :
    bindField ext ⟨w, .named k, init, some (v0 :: vs)⟩ = .ok (.many xs)
      ↔ (v0 :: vs).map (fun s => (ext (200 + k) s).map SVal.opq) = xs.map some := by
  have key : structElems ext (.named k) (v0 :: vs) = some xs
      ↔ (v0 :: vs).map (fun s => (ext (200 + k) s).map SVal.opq) = xs.map some := by
    rw [structElems_spec]
    have : (fun s => structElem ext (.named k) s) = (fun s => (ext (200 + k) s).map SVal.opq) := by
      funext s; exact C08_named_own_parser ext k s
    simp only [this]
  rw [← key]
  unfold bindField
  rcases hw with rfl | rfl | rfl <;> simp only <;>
    (cases h : structElems ext (.named k) (v0 :: vs) <;> simp)

/-! ## non-vacuity: concrete instances -/

/-- no external parser needed for the integer examples -/
def noExt : Ext := fun _ _ => none

-- boundaries of int8 through the public method Int8 and through the struct binder
example : bindNum (.vbInt .w8 false) ['-','1','2','8'] = some (-128) := by decide
example : bindNum (.vbInt .w8 false) ['1','2','7'] = some 127 := by decide
example : bindNum (.vbInt .w8 false) ['1','2','8'] = none := by decide
example : bindNum (.structInt .w8) ['-','1','2','9'] = none := by decide
example : bindNum (.vbUints .w16) ['6','5','5','3','5'] = some 65535 := by decide
example : bindNum (.vbUints .w16) ['6','5','5','3','6'] = none := by decide
example : bindNum (.vbUint .w64 true) ['1','8','4','4','6','7','4','4','0','7','3','7','0','9','5','5','1','6','1','5']
    = some 18446744073709551615 := by decide
example : bindNum (.vbUint .w64 true) ['1','8','4','4','6','7','4','4','0','7','3','7','0','9','5','5','1','6','1','6']
    = none := by decide
example : bindNum .vbUnix ['9','2','2','3','3','7','2','0','3','6','8','5','4','7','7','5','8','0','7']
    = some 9223372036854775807 := by decide
example : bindNum .vbUnix ['9','2','2','3','3','7','2','0','3','6','8','5','4','7','7','5','8','0','8']
    = none := by decide
-- signs, leading zeros, look-alikes
example : bindNum (.vbInt .w32 false) ['+','5'] = some 5 := by decide
example : bindNum (.vbUint .w32 false) ['+','5'] = none := by decide
example : bindNum (.vbInt .w32 false) ['-','0'] = some 0 := by decide
example : bindNum (.vbInt .w32 false) ['0','0','7'] = some 7 := by decide
example : bindNum (.vbInt .w32 false) ['1','_','0'] = none := by decide
example : bindNum (.vbInt .w32 false) ['0','x','1'] = none := by decide
example : bindNum (.vbInt .w32 false) [' ','1'] = none := by decide
example : bindNum (.vbInt .w32 false) [] = none := by decide
-- the hypotheses of C08_exact_or_error are met by non-trivial instances on both sides
example : denoteFor (.vbInt .w8 false) ['1','2','8'] = some 128 ∧ ¬ (Dest.vbInt .w8 false).inRange 128 := by
  refine ⟨by decide, ?_⟩; simp [Dest.inRange, Dest.signed, Dest.ty, ITy.width]
-- what a wrong bit size would do: the narrowing conversion really truncates
example : narrow (.vbInt .w8 false) 128 = -128 ∧ narrow (.vbUint .w8 false) 256 = 0
    ∧ narrow (.vbInts .w32) 4294967297 = 1 := by decide

def exBad : Call := ⟨.num (.vbInt .w8 false), .scalar, false, true, [['1','2','8']], [], .scalar (.int 7)⟩
def exGood : Call := ⟨.num (.vbInt .w8 false), .scalar, false, true, [['1','2','7']], [], .scalar (.int 7)⟩
def exSlice : Call := ⟨.num (.vbInts .w16), .delim, false, true, [['1',',','-','2'], ['3']], [','], .slice none⟩
def exSliceBad : Call := ⟨.num (.vbInts .w16), .delim, false, true, [['1',',','x'], ['3']], [','], .slice none⟩

-- C08_error_leaves_dest: hypothesis satisfiable
example : (callStep noExt (vb 0 true) exBad).1.errors ≠ ((vb 0 true) : VB).errors := by decide
example : callStep noExt (vb 0 true) exBad = ((vb 1 true), .scalar (.int 7)) := by decide
example : callStep noExt (vb 0 true) exGood = ((vb 0 true), .scalar (.int 127)) := by decide
-- C08_failfast_frozen / chain: a valid call after an error writes nothing
example : vbRun noExt (vb 0 true) [.call exBad, .call exGood, .bindError, .call exGood]
    = [.call (.scalar (.int 7)) 1, .call (.scalar (.int 7)) 0, .err true, .call (.scalar (.int 127)) 0] := by decide
-- without fail-fast the later call still binds and errors accumulate
example : vbRun noExt (vb 0 false) [.call exBad, .call exGood, .call exSliceBad, .bindErrors]
    = [.call (.scalar (.int 7)) 1, .call (.scalar (.int 127)) 0, .call (.slice none) 1, .errs 2] := by decide
-- C08_slice_all_or_nothing: both alternatives occur
example : callStep noExt (vb 0 true) exSlice = ((vb 0 true), .slice (some [.int 1, .int (-2), .int 3])) := by decide +kernel
example : callStep noExt (vb 0 true) exSliceBad = ((vb 1 true), .slice none) := by decide
-- struct binder: first error aborts, later fields keep what they held; empty text is zero
example : structBind noExt [⟨.scalar, .num (.structInt .w8), .one (.int 0), some [['1','2','7']]⟩,
      ⟨.ptr, .num (.structUint .w16), .nil, some [['6','5','5','3','6']]⟩, ⟨.slice, .bool, .nil, some [['t']]⟩]
    = (.bad, [.one (.int 127), .one (.int 0), .nil]) := by decide
example : structBind noExt [⟨.scalar, .num (.structInt .w8), .one (.int 0), some [[]]⟩,
      ⟨.slice, .num (.structUint .w64), .nil, some [['7'], []]⟩]
    = (.ok, [.one (.int 0), .many [.int 7, .int 0]]) := by decide
example : (structBind noExt [⟨.scalar, .bool, .one (.bool false), some []⟩]).1 = .panic := by decide
-- pre-populated destination: empty text stores false / 0 over true / 7, a missing key leaves the
-- field alone, a failing conversion leaves the old value (pointer stays as it was)
example : structBind noExt [⟨.scalar, .bool, .one (.bool true), some [[]]⟩,
      ⟨.scalar, .num (.structInt .w32), .one (.int 7), some [[]]⟩,
      ⟨.scalar, .num (.structInt .w32), .one (.int 7), none⟩,
      ⟨.ptr, .num (.structInt .w8), .one (.int 7), some [['1','2','8']]⟩,
      ⟨.slice, .bool, .many [.bool true], some [['t']]⟩]
    = (.bad, [.one (.bool false), .one (.int 0), .one (.int 7), .one (.int 7), .many [.bool true]]) := by decide
-- path param `verbose=true`, then query `verbose=` : the field ends up false
example : structBind2 noExt [⟨.scalar, .bool, .one (.bool false), some [['t','r','u','e']]⟩] [some [[]]]
    = (.ok, [.one (.bool false)]) := by decide

-- round 4 --------------------------------------------------------------------------------------

/-- an external parser table: layout 0 parses `a` and `b`, nothing else -/
def exExt : Ext := extOf [(100, ['a'], some ['1']), (100, ['b'], some ['2']), (100, ['x'], none)]

def exTimeBad : Call := ⟨.time 0, .scalar, false, true, [['x']], [], .scalar (.opq ['0'])⟩
def exTimeGood : Call := ⟨.time 0, .scalar, false, true, [['a']], [], .scalar (.opq ['0'])⟩
def exTimes : Call := ⟨.time 0, .slice, true, true, [['a'], ['b']], [], .slice none⟩
def exTimesBad : Call := ⟨.time 0, .slice, true, true, [['a'], ['x'], ['b']], [], .slice (some [.opq ['9']])⟩

-- Time: a failing call leaves the destination, a good one stores what time.Parse returned
example : callStep exExt (vb 0 true) exTimeBad = ((vb 1 true), .scalar (.opq ['0'])) := by decide +kernel
example : callStep exExt (vb 0 true) exTimeGood = ((vb 0 true), .scalar (.opq ['1'])) := by decide +kernel
-- Times: all or nothing; fail-fast stops at the first bad element, otherwise every bad one is counted
example : callStep exExt (vb 0 true) exTimes = ((vb 0 true), .slice (some [.opq ['1'], .opq ['2']])) := by decide +kernel
example : callStep exExt (vb 0 true) exTimesBad = ((vb 1 true), .slice (some [.opq ['9']])) := by decide +kernel
example : callStep exExt (vb 0 false) { exTimesBad with values := [['x'], ['a'], ['x']] }
    = ((vb 2 false), .slice (some [.opq ['9']])) := by decide +kernel
-- MustTimes without the parameter
example : callStep exExt (vb 0 true) { exTimes with values := [] } = ((vb 1 true), .slice none) := by decide +kernel

/-- a user function that would store both values and return two errors -/
def exCustom : Custom := ⟨false, [['p'], ['q']], .slice none, .slice (some [.opq ['p'], .opq ['q']]), 2⟩

-- CustomFunc: invoked once, both errors recorded; after that (fail-fast) neither a typed call nor
-- another CustomFunc does anything; BindErrors reports 2
example : vbRun exExt (vb 0 true) [.custom exCustom, .call exTimeGood, .custom exCustom, .bindErrors]
    = [.call (.slice (some [.opq ['p'], .opq ['q']])) 2, .call (.scalar (.opq ['0'])) 0, .call (.slice none) 0, .errs 2] := by
  decide +kernel
-- absent parameter: not invoked; MustCustomFunc records one error
example : customStep (vb 0 true) { exCustom with values := [], must := true } = ((vb 1 true), .slice none) := by decide
example : customStep (vb 0 true) { exCustom with values := [] } = ((vb 0 true), .slice none) := by decide
-- hypotheses of C08_failfast_nothing_after_error_ops hold for a chain with a CustomFunc in the middle
example : (vbStep exExt (vbEnd exExt (vb 0 true) [.call exTimeGood]) (.custom exCustom)).1.errors ≠ 0 := by decide +kernel
-- the literal loop of `times` and the shared loop agree on an unfrozen binder, and differ on a
-- frozen one (which the method never enters)
example : errLoop exExt (.time 0) (vb 0 true) [['a'], ['x'], ['b']] = sliceLoop exExt (.time 0) (vb 0 true) [['a'], ['x'], ['b']] := by
  decide +kernel
example : errLoop exExt (.time 0) (vb 1 true) [['a']] ≠ sliceLoop exExt (.time 0) (vb 1 true) [['a']] := by decide +kernel

-- struct binder, multi-value destination: all values are handed over; `!` rejects; an EMPTY value
-- list does not panic there (it does for an ordinary field)
example : structBind noExt [⟨.multi, .unm, .many [.opq ['o']], some [['1'], [], ['2']]⟩,
      ⟨.ptrMulti, .unm, .nil, some [['a'], ['!']]⟩, ⟨.scalar, .bool, .one (.bool true), some [['0']]⟩]
    = (.bad, [.many [.opq ['1'], .opq [], .opq ['2']], .many [], .one (.bool true)]) := by decide +kernel
example : structBind noExt [⟨.multi, .unm, .many [.opq ['o']], some []⟩] = (.ok, [.many []]) := by decide +kernel
example : (structBind noExt [⟨.scalar, .unm, .one (.opq ['o']), some []⟩]).1 = .panic := by decide

-- round 5 --------------------------------------------------------------------------------------

/-- the hex-id type (k = 0): `10` is sixteen, `20` thirty-two, `zz` and `` are rejected;
    the percent type (k = 1): `100` fits, `250` does not -/
def exNamed : Ext := extOf [(200, ['1','0'], some ['1','6']), (200, ['2','0'], some ['3','2']), (200, ['z','z'], none),
  (200, [], none), (201, ['1','0','0'], some ['1','0','0']), (201, ['2','5','0'], none)]

-- the same text denotes the same number for a scalar field and for slice elements — and it is
-- the type's meaning (16, 32), not strconv's (10, 20)
example : structBind exNamed [⟨.scalar, .named 0, .one (.opq ['0']), some [['1','0']]⟩,
      ⟨.slice, .named 0, .nil, some [['1','0'], ['2','0']]⟩,
      ⟨.ptrToSlice, .named 0, .nil, some [['2','0']]⟩,
      ⟨.sliceOfPtr, .named 1, .nil, some [['1','0','0']]⟩]
    = (.ok, [.one (.opq ['1','6']), .many [.opq ['1','6'], .opq ['3','2']], .many [.opq ['3','2']],
        .many [.opq ['1','0','0']]]) := by decide +kernel
-- a text the type rejects is a 400 also as a slice element (strconv would accept 250 for a uint8)
example : structBind exNamed [⟨.slice, .named 1, .many [.opq ['7']], some [['1','0','0'], ['2','5','0']]⟩]
    = (.bad, [.many [.opq ['7']]]) := by decide +kernel
-- empty text is handed to the method (which rejects it here); an integer KIND would have bound 0
example : structBind exNamed [⟨.scalar, .named 0, .one (.opq ['7']), some [[]]⟩] = (.bad, [.one (.opq ['7'])]) := by
  decide +kernel
-- a default FormFieldBinder: the failing first field freezes the rest of the chain
example : vbRun noExt (newBinder .form) [.call exBad, .call exGood, .bindErrors]
    = [.call (.scalar (.int 7)) 1, .call (.scalar (.int 7)) 0, .errs 1] := by decide +kernel
example : (vbStep noExt (vbEnd noExt (newBinder .form) []) (.call exBad)).1.errors ≠ 0 := by decide +kernel

-- round 7 --------------------------------------------------------------------------------------

def exBlank : Call := ⟨.num (.vbInt .w32 false), .scalar, false, true, [[' ']], [], .scalar (.int 7)⟩

-- `?v=%20` through the non-Must method Int32: an error, not "absent"
example : callStep noExt (vb 0 true) exBlank = (vb 1 true, .scalar (.int 7)) := by decide +kernel
example : callStep noExt (vb 0 true) { exBlank with values := [['\t', '\n']] } = (vb 1 true, .scalar (.int 7)) := by decide +kernel
example : callStep noExt (vb 0 true) { exBlank with values := [[]] } = (vb 0 true, .scalar (.int 7)) := by decide +kernel
-- an ErrorFunc that returns nil: the failing call is still counted, the next call is frozen, the
-- slice call does not store its temporary; BindError() hands out the nil, BindErrors() has 1 entry
example : vbRun noExt ⟨0, true, true, false⟩ [.call exBad, .call exGood, .call exSliceBad, .bindError]
    = [.call (.scalar (.int 7)) 1, .call (.scalar (.int 7)) 0, .call (.slice none) 0, .err false] := by decide +kernel
example : vbRun noExt ⟨0, false, true, false⟩ [.call exSliceBad, .call exSlice, .bindErrors]
    = [.call (.slice none) 1, .call (.slice none) 0, .errs 1] := by decide +kernel
-- default ErrorFunc for comparison
example : vbRun noExt (vb 0 true) [.call exBad, .bindError] = [.call (.scalar (.int 7)) 1, .err true] := by decide +kernel


/-! ## round 8: the NUMBER of values (no bound anywhere) -/

/-- the wraps that take every value of their key through `setWithProperType`: `[]T`, `[]*T`, `*[]T` -/
def Wrap.isList : Wrap → Bool
  | .slice | .sliceOfPtr | .ptrToSlice => true
  | _ => false

theorem structElems_length (ext : Ext) (e : Elem) (ss : List (List Char)) (xs : List SVal)
    (h : structElems ext e ss = some xs) : xs.length = ss.length := by
  have := congrArg List.length ((structElems_spec ext e ss xs).1 h)
  simpa using this.symm

/-- **C08_every_value_counts** — a slice field whose key carries `n` values, for EVERY `n`:
    (1) if the field is accepted it holds exactly `n` elements, the conversions of the `n` texts in order;
    (2) one text that does not fit, at ANY position — after however many valid ones — makes the field
        (hence the whole `Bind`, by `C08_struct_400`) fail.  There is no count after which values are
        neither converted nor reported. -/
theorem C08_every_value_counts (ext : Ext) (f : Field) (vals : List (List Char))
    (hw : f.wrap.isList = true) (hv : f.values = some vals) (hne : vals ≠ []) :
    (∀ v, bindField ext f = .ok v →
        ∃ xs, v = .many xs ∧ xs.length = vals.length ∧ vals.map (structElem ext f.elem) = xs.map some)
    ∧ (∀ pre bad post, vals = pre ++ bad :: post → structElem ext f.elem bad = none →
        ∃ v, bindField ext f = .err v) := by
  constructor
  · intro v h
    have hh := bindField_ok ext f v h
    unfold fieldHolds at hh
    simp only [hv] at hh
    cases hwr : f.wrap <;> simp only [hwr, Wrap.isList, Bool.false_eq_true] at hw hh
    all_goals
      obtain ⟨xs, h1, h2⟩ := hh
      refine ⟨xs, h1, ?_, h2⟩
      have := congrArg List.length h2
      simpa using this.symm
  · intro pre bad post hsplit hbad
    have hc := bindField_cases ext f (by
      intro h0; rw [hv] at h0
      exact absurd (Option.some.inj h0) hne)
    cases hc with
    | inl h => exact h.2
    | inr h =>
      exfalso
      apply h.1
      unfold fieldBad
      simp only [hv]
      cases hwr : f.wrap <;> simp only [hwr, Wrap.isList, Bool.false_eq_true] at hw ⊢
      all_goals exact ⟨bad, by simp [hsplit], hbad⟩

/-- the same for `UnmarshalParams` destinations: accepted ⇒ the destination received ALL values -/
theorem C08_multi_receives_all (ext : Ext) (f : Field) (vals : List (List Char))
    (hw : f.wrap = .multi ∨ f.wrap = .ptrMulti) (hv : f.values = some vals) (v : FVal)
    (h : bindField ext f = .ok v) : v = .many (vals.map .opq) ∧ (vals.map SVal.opq).length = vals.length := by
  have hh := bindField_ok ext f v h
  unfold fieldHolds at hh
  simp only [hv] at hh
  cases hw with
  | inl hw => simp only [hw] at hh; exact ⟨hh.1, by simp⟩
  | inr hw => simp only [hw] at hh; exact ⟨hh.1, by simp⟩

/-- the element loop on a binder without errors and a list (of ANY length) of convertible texts runs to
    its end, leaves the binder as it was and converts every element -/
theorem sliceLoop_all_good (ext : Ext) (e : Elem) (vs : List (List Char)) :
    ∀ b : VB, b.errors = 0 → (∀ v ∈ vs, (parseElem ext e v).isSome = true) →
      ∃ tmp, sliceLoop ext e b vs = (b, some tmp) ∧ vs.map (parseElem ext e) = tmp.map some := by
  induction vs with
  | nil => intro b _ _; exact ⟨[], by simp [sliceLoop], by simp⟩
  | cons v vs ih =>
    intro b h0 hall
    have hv := hall v (by simp)
    obtain ⟨tmp, ht, hm⟩ := ih b h0 (fun w hw => hall w (by simp [hw]))
    have hf : b.frozen = false := by simp [VB.frozen, h0]
    cases hp : parseElem ext e v with
    | none => rw [hp] at hv; cases hv
    | some x =>
      refine ⟨x :: tmp, ?_, by simp [hp, hm]⟩
      unfold sliceLoop
      simp only [hp, hf, Bool.false_eq_true, if_false, ht, Option.map_some]

/-- one text that does not fit, anywhere in the list: the loop records an error -/
theorem sliceLoop_bad (ext : Ext) (e : Elem) (vs : List (List Char)) :
    ∀ b : VB, b.frozen = false → (∃ v ∈ vs, parseElem ext e v = none) →
      b.errors < (sliceLoop ext e b vs).1.errors := by
  induction vs with
  | nil => intro b _ h; obtain ⟨_, hm, _⟩ := h; cases hm
  | cons v vs ih =>
    intro b hf hbad
    unfold sliceLoop
    cases hp : parseElem ext e v with
    | some x =>
      simp only [hf, Bool.false_eq_true, if_false]
      apply ih b hf
      obtain ⟨w, hw, hn⟩ := hbad
      cases List.mem_cons.mp hw with
      | inl e' => subst e'; rw [hp] at hn; cases hn
      | inr e' => exact ⟨w, e', hn⟩
    | none =>
      simp only
      split
      · simp [VB.addErr]
      · have := (sliceLoop_mono ext e vs b.addErr).1
        simp only [VB.addErr] at this ⊢
        omega

/-- **C08_slice_complete** — a slice / delimiter call on a binder that holds no error, parameter
    present, every piece convertible — for a list of pieces of ANY length: the destination holds the
    conversion of EVERY piece (as many elements as pieces, in order), nothing is recorded.
    (The converse of `C08_slice_all_or_nothing`: "untouched" is not an option for valid input.) -/
theorem C08_slice_complete (ext : Ext) (b : VB) (c : Call) (hs : c.shape ≠ .scalar) (h0 : b.errors = 0)
    (hv : c.values ≠ []) (hsup : c.shape = .delim → c.supported = true)
    (hall : ∀ p ∈ c.pieces, (parseElem ext c.elem p).isSome = true) :
    ∃ tmp, callStep ext b c = (b, .slice (some tmp))
      ∧ c.pieces.map (parseElem ext c.elem) = tmp.map some ∧ tmp.length = c.pieces.length := by
  have hf : b.frozen = false := by simp [VB.frozen, h0]
  have hlen : ∀ (ps : List (List Char)) (tmp : List SVal), ps.map (parseElem ext c.elem) = tmp.map some →
      tmp.length = ps.length := by
    intro ps tmp h; have := congrArg List.length h; simpa using this.symm
  unfold callStep
  cases hsh : c.shape with
  | scalar => exact absurd hsh hs
  | slice =>
    have hpc : c.pieces = c.values := by simp [Call.pieces, hsh]
    simp only
    unfold sliceCall
    simp only [hf, Bool.false_eq_true, if_false, hv]
    split
    · rename_i he
      refine ⟨c.values.map .opq, rfl, ?_, by simp [hpc]⟩
      simp [hpc, he, parseElem]
    · obtain ⟨tmp, ht, hm⟩ := sliceLoop_all_good ext c.elem c.values b h0 (by rw [← hpc]; exact hall)
      refine ⟨tmp, ?_, by rw [hpc]; exact hm, by rw [hpc]; exact hlen _ _ hm⟩
      simp [sliceAssign, ht, h0]
  | delim =>
    have hpc : c.pieces = c.values.flatMap (split c.delim) := by simp [Call.pieces, hsh]
    simp only
    unfold delimCall
    simp only [hf, Bool.false_eq_true, if_false, hv, hsup hsh, not_true_eq_false]
    split
    · rename_i he
      refine ⟨(c.values.flatMap (split c.delim)).map .opq, rfl, ?_, by simp [hpc]⟩
      simp [hpc, he, parseElem]
    · obtain ⟨tmp, ht, hm⟩ := sliceLoop_all_good ext c.elem (c.values.flatMap (split c.delim)) b h0 (by rw [← hpc]; exact hall)
      refine ⟨tmp, ?_, by rw [hpc]; exact hm, by rw [hpc]; exact hlen _ _ hm⟩
      simp [sliceAssign, ht, h0]

/-- **C08_slice_bad_piece_reported** — an unfrozen slice / delimiter call, parameter present, with a
    piece that does not fit at ANY position of a list of ANY length: at least one error is recorded
    and the destination is untouched -/
theorem C08_slice_bad_piece_reported (ext : Ext) (b : VB) (c : Call) (hs : c.shape ≠ .scalar)
    (hf : b.frozen = false) (hv : c.values ≠ []) (hsup : c.shape = .delim → c.supported = true)
    (hbad : ∃ p ∈ c.pieces, parseElem ext c.elem p = none) :
    b.errors < (callStep ext b c).1.errors ∧ (callStep ext b c).2 = c.init := by
  have key : b.errors < (callStep ext b c).1.errors := by
    unfold callStep
    cases hsh : c.shape with
    | scalar => exact absurd hsh hs
    | slice =>
      have hpc : c.pieces = c.values := by simp [Call.pieces, hsh]
      simp only
      unfold sliceCall
      simp only [hf, Bool.false_eq_true, if_false, hv]
      split
      · rename_i he
        obtain ⟨p, _, hn⟩ := hbad
        rw [he] at hn; simp [parseElem] at hn
      · have := sliceLoop_bad ext c.elem c.values b hf (by rw [← hpc]; exact hbad)
        unfold sliceAssign
        split <;> rename_i b1 _ hr <;> rw [hr] at this
        · exact this
        · split <;> exact this
    | delim =>
      have hpc : c.pieces = c.values.flatMap (split c.delim) := by simp [Call.pieces, hsh]
      simp only
      unfold delimCall
      simp only [hf, Bool.false_eq_true, if_false, hv, hsup hsh, not_true_eq_false]
      split
      · rename_i he
        obtain ⟨p, _, hn⟩ := hbad
        rw [he] at hn; simp [parseElem] at hn
      · have := sliceLoop_bad ext c.elem (c.values.flatMap (split c.delim)) b hf (by rw [← hpc]; exact hbad)
        unfold sliceAssign
        split <;> rename_i b1 _ hr <;> rw [hr] at this
        · exact this
        · split <;> exact this
  exact ⟨key, C08_error_leaves_dest ext b c (by omega)⟩

-- round 8 --------------------------------------------------------------------------------------

-- 1025 values for a `[]int8` field: 1024 sevens and then 128.  The 1025th text is converted — and rejected
example : ∃ v, bindField noExt ⟨.slice, .num (.structInt .w8), .nil, some (List.replicate 1024 ['7'] ++ [['1','2','8']])⟩ = .err v :=
  (C08_every_value_counts noExt ⟨.slice, .num (.structInt .w8), .nil, some (List.replicate 1024 ['7'] ++ [['1','2','8']])⟩ _
    rfl rfl (List.append_ne_nil_of_right_ne_nil _ (by simp))).2 (List.replicate 1024 ['7']) ['1','2','8'] [] rfl (by decide +kernel)
-- all 1025 valid: the field holds 1025 elements
example : bindField noExt ⟨.ptrToSlice, .num (.structInt .w8), .nil, some (List.replicate 1025 ['7'])⟩
    = .ok (.many (List.replicate 1025 (.int 7))) := by decide +kernel
-- `Int16s` with 1025 values on a fresh fail-fast binder: all stored
def exMany : Call := ⟨.num (.vbInts .w16), .slice, false, true, List.replicate 1025 ['7'], [], .slice none⟩
example : ∃ tmp, callStep noExt (vb 0 true) exMany = (vb 0 true, .slice (some tmp)) ∧ tmp.length = 1025 := by
  obtain ⟨tmp, h1, _, h3⟩ := C08_slice_complete noExt (vb 0 true) exMany (by decide) rfl (by decide) (by decide)
    (by intro p hp
        have : p = ['7'] := by
          simp only [Call.pieces, exMany] at hp
          exact List.eq_of_mem_replicate hp
        subst this; decide +kernel)
  exact ⟨tmp, h1, by rw [h3]; decide +kernel⟩
-- … and with `x` as the 1025th value: reported, destination untouched
example : (callStep noExt (vb 0 false) { exMany with values := List.replicate 1024 ['7'] ++ [['x']] }).2 = .slice none :=
  (C08_slice_bad_piece_reported noExt (vb 0 false) { exMany with values := List.replicate 1024 ['7'] ++ [['x']] }
    (by decide) rfl (List.append_ne_nil_of_right_ne_nil _ (by simp)) (by decide) ⟨['x'], by decide +kernel, by decide +kernel⟩).2

end C08
