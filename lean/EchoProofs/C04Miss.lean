import EchoProofs.C04Cover
import EchoProofs.C04ScopeReq
/-!
# C04 — a `Group.Use` call takes the group's two catch-all patterns back

"… including requests that end in 404 inside the group."  The two `RouteNotFound` routes `prefix` and `prefix/*`
are the only thing that carries a group's middleware to its misses.  An application may have put a not-found
handler of its own on one of these patterns (through the group, through the Echo instance, through another
group) — with whatever middleware snapshot that registration had.  `Group.Use` registers the two routes AGAIN on
every call, as the last registrations of their method and pattern, and a re-registration replaces the earlier one.

* `dedupLast_last`, `dedupLast_last2`   in the table in force, the registration of a (method, pattern) key is the
                                        LAST one in registration order
* `groupUse_appends`                     what `Group.Use` appends to the route list
* `C04_use_reclaims_catchall`           request level, for every configuration whatsoever before the call: right after
                                        `Group.Use`, a request that the router dispatches to a RouteNotFound route at
                                        one of the group's two patterns runs echo's NotFoundHandler under the group's
                                        WHOLE list (old list ++ the middleware just added) — never an older handler, never
                                        an older (shorter) snapshot
-/
set_option linter.unusedSimpArgs false
set_option linter.unusedVariables false
namespace C04
open Router Router.Spec Router.Tree

theorem dedupLast_last (a r : Route) : ∀ (xs : List Route), r ∈ dedupLast (xs ++ [a]) → sameKey r a = true → r = a := by
  intro xs
  induction xs with
  | nil =>
    intro hr _
    simpa [dedupLast] using hr
  | cons x xs ih =>
    intro hr hk
    simp only [List.cons_append, dedupLast] at hr
    split at hr
    · exact ih hr hk
    · rename_i hany
      rcases List.mem_cons.mp hr with rfl | hr
      · exact absurd (List.any_eq_true.mpr ⟨a, by simp, hk⟩) hany
      · exact ih hr hk

theorem dedupLast_last2 (a b r : Route) : ∀ (xs : List Route), r ∈ dedupLast (xs ++ [a, b]) → sameKey r a = true →
    r = a ∨ r = b := by
  intro xs
  induction xs with
  | nil =>
    intro hr _
    simp only [List.nil_append, dedupLast] at hr
    split at hr
    · simp only [List.any_nil, Bool.false_eq_true, if_false, List.mem_cons, List.not_mem_nil, or_false] at hr
      exact Or.inr hr
    · simp only [List.any_nil, Bool.false_eq_true, if_false, List.mem_cons, List.not_mem_nil, or_false] at hr
      exact hr
  | cons x xs ih =>
    intro hr hk
    simp only [List.cons_append, dedupLast] at hr
    split at hr
    · exact ih hr hk
    · rename_i hany
      rcases List.mem_cons.mp hr with rfl | hr
      · exact absurd (List.any_eq_true.mpr ⟨a, by simp, hk⟩) hany
      · exact ih hr hk

theorem normalizeSlash_length_star (p : Str) :
    (normalizeSlash (p ++ "/*".toList)).length ≠ (normalizeSlash p).length := by
  have hstar : "/*".toList = ['/', '*'] := rfl
  rw [hstar]
  cases p with
  | nil => simp [normalizeSlash]
  | cons ch rest =>
    simp only [List.cons_append, normalizeSlash]
    split <;> simp

/-- what `Group.Use` does to the route list when the group's list is non-empty afterwards -/
theorem groupUse_appends (c : Cfg) (gid : Nat) (g : Group) (ms : List Mw) (hg : c.groups[gid]? = some g)
    (hne : g.mws ++ ms ≠ []) :
    (groupUse c gid ms).routes = c.routes ++
      [⟨if c.hosts.contains g.host then g.host else [], routeNotFound, normalizeSlash g.pfx, 0, true, g.mws ++ ms⟩,
       ⟨if c.hosts.contains g.host then g.host else [], routeNotFound, normalizeSlash (g.pfx ++ "/*".toList), 0, true,
          g.mws ++ ms⟩]
    ∧ (groupUse c gid ms).hosts = c.hosts := by
  have hemp : (g.mws ++ ms).isEmpty = false := by
    cases h : g.mws ++ ms with
    | nil => exact absurd h hne
    | cons _ _ => rfl
  simp [groupUse, hg, hemp, addRoute]

theorem tableOf_append2 (c c' : Cfg) (h : Str) (ra rb : RouteRec) (hr : c'.routes = c.routes ++ [ra, rb])
    (ha : ra.host = h) (hb : rb.host = h) :
    tableOf c' h = tableOf c h ++ [⟨ra.method, ra.path, c.routes.length⟩, ⟨rb.method, rb.path, c.routes.length + 1⟩] := by
  unfold tableOf
  rw [hr, List.zipIdx_append]
  simp [List.zipIdx_cons, ha, hb]

/-- **C04_use_reclaims_catchall** — `c` is ANY configuration (any history of registrations: the application's own
    `RouteNotFound` handlers on the group's patterns included), `g` one of its groups, `ms` the middleware handed to
    `Group.Use` (the list is non-empty afterwards).  In the configuration right after the call, take any request that
    the router of the group's host dispatches to a registered route `rr` whose method is RouteNotFound and whose
    pattern is one of the group's two catch-all patterns.  Then `rr` is the route this very call registered:
    echo's NotFoundHandler (`hid = 0`) under the group's whole list. -/
theorem C04_use_reclaims_catchall (c : Cfg) (gid : Nat) (g : Group) (ms : List Mw)
    (hg : c.groups[gid]? = some g) (hne : g.mws ++ ms ≠ [])
    (method path : Str) (rm : RouteMethod) (vals : List Str) (rr : RouteRec)
    (hok : okTable (tableOf (groupUse c gid ms) (if c.hosts.contains g.host then g.host else [])) = true)
    (hfind : find (build (tableOf (groupUse c gid ms) (if c.hosts.contains g.host then g.host else []))) method path
      (List.replicate (maxParam (tableOf (groupUse c gid ms) (if c.hosts.contains g.host then g.host else []))) [])
        = .dispatch rm vals)
    (hrr : (groupUse c gid ms).routes[rm.hid]? = some rr)
    (hm : rr.method = routeNotFound)
    (hp : rr.path = normalizeSlash g.pfx ∨ rr.path = normalizeSlash (g.pfx ++ "/*".toList)) :
    rr.hid = 0 ∧ rr.mws = g.mws ++ ms := by
  obtain ⟨hroutes, _⟩ := groupUse_appends c gid g ms hg hne
  generalize hh : (if c.hosts.contains g.host then g.host else []) = h' at *
  generalize hc' : groupUse c gid ms = c' at *
  have htab := tableOf_append2 c c' h' _ _ hroutes rfl rfl
  simp only at htab
  obtain ⟨rt, hrt, hhid, _, _⟩ := tree_dispatch_registered (tableOf c' h') method path
    (maxParam (tableOf c' h')) (Nat.le_refl _) hok rm vals hfind
  obtain ⟨r0, hget, _, hmeth, hpath⟩ := mem_tableOf (dedupLast_subset _ _ hrt)
  rw [hhid, hrr] at hget
  simp only [Option.some.injEq] at hget
  subst hget
  -- rt is a registration in force with rr's method and pattern; the last registration of that key is the implicit one
  rw [htab] at hrt
  have hlen : c'.routes.length = c.routes.length + 2 := by rw [hroutes]; simp
  have hgetA : c'.routes[c.routes.length]? = some ⟨h', routeNotFound, normalizeSlash g.pfx, 0, true, g.mws ++ ms⟩ := by
    rw [hroutes]; simp
  have hgetB : c'.routes[c.routes.length + 1]? =
      some ⟨h', routeNotFound, normalizeSlash (g.pfx ++ "/*".toList), 0, true, g.mws ++ ms⟩ := by
    rw [hroutes]; simp [List.getElem?_append_right]
  rcases hp with hp | hp
  · have hk : sameKey rt ⟨routeNotFound, normalizeSlash g.pfx, c.routes.length⟩ = true := by
      simp [sameKey, hmeth, hm, hpath, hp]
    rcases dedupLast_last2 _ _ rt _ hrt hk with e | e
    · have : rm.hid = c.routes.length := by rw [← hhid, e]
      rw [this, hgetA] at hrr
      simp only [Option.some.injEq] at hrr
      subst hrr
      exact ⟨rfl, rfl⟩
    · exfalso
      have : rt.path = normalizeSlash (g.pfx ++ "/*".toList) := by rw [e]
      rw [hpath, hp] at this
      exact normalizeSlash_length_star g.pfx (congrArg List.length this).symm
  · have hk : sameKey rt ⟨routeNotFound, normalizeSlash (g.pfx ++ "/*".toList), c.routes.length + 1⟩ = true := by
      simp [sameKey, hmeth, hm, hpath, hp]
    have hrt' : rt ∈ dedupLast ((tableOf c h' ++ [⟨routeNotFound, normalizeSlash g.pfx, c.routes.length⟩])
        ++ [⟨routeNotFound, normalizeSlash (g.pfx ++ "/*".toList), c.routes.length + 1⟩]) := by
      simpa [List.append_assoc] using hrt
    have e := dedupLast_last _ rt _ hrt' hk
    have : rm.hid = c.routes.length + 1 := by rw [← hhid, e]
    rw [this, hgetB] at hrr
    simp only [Option.some.injEq] at hrr
    subst hrr
    exact ⟨rfl, rfl⟩

/-! ### non-vacuity: the application's own not-found handler (hid 7, list `[3]` + its own `[4]`) on `/g/*`, then
`Use [5]`: the miss `/g/zzz` is answered by echo's NotFoundHandler under `[3, 5]` -/

def demoMiss : List Op :=
  [.group none "/g".toList [3], .add (some 0) routeNotFound "/*".toList 7 false [4]]

example : (selected (run demoMiss) [] "GET".toList "/g/zzz".toList) = (.hnd 7, false, [3, 4]) := by decide +kernel
example : (selected (groupUse (run demoMiss) 0 [5]) [] "GET".toList "/g/zzz".toList) = (.rtr 404, true, [3, 5]) := by
  decide +kernel
example : (selected (groupUse (run demoMiss) 0 [5]) [] "POST".toList "/g".toList) = (.rtr 404, true, [3, 5]) := by
  decide +kernel

end C04
