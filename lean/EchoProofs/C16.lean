import EchoProofs.Lemmas.C16Path
/-!
# C16 — theorems about the static file serving model

Helper lemmas about `splitOn`, `path.Clean`, `path.Join`, the IgnoreBase rewrite and the core
lemma `clean_rooted_no_dotdot` live in `EchoProofs/Lemmas/C16Path.lean`.
-/
namespace C16

theorem under_self (root : Str) : Under root root :=
  ⟨rfl, [], by simp, by simp⟩

theorem serveOpened_names (cfg : MwCfg) (t : Tree) (rootSegs : List Str) (name : Str) (next : Next)
    (opened : List Str) (l : Look) :
    ∀ n ∈ (serveOpened cfg t rootSegs name next opened l).1, n ∈ opened ∨ n = join2 name cfg.index := by
  intro n hn
  unfold serveOpened at hn
  split at hn
  · exact .inl hn
  · simp only at hn
    split at hn
    · simp at hn; rcases hn with h | h; exact .inl h; exact .inr h
    · simp at hn; rcases hn with h | h; exact .inl h; exact .inr h
    · split at hn <;> (simp at hn; rcases hn with h | h; exact .inl h; exact .inr h)
  · exact .inl hn
  · exact .inl hn

/-- every name `mwServe` passes to `config.Filesystem.Open` is one of three -/
theorem mwServe_names (cfg : MwCfg) (t : Tree) (rootSegs : List Str) (name : Str) (next : Next) :
    ∀ n ∈ (mwServe cfg t rootSegs name next).1,
      n = name ∨ n = join2 cfg.root cfg.index ∨ n = join2 name cfg.index := by
  intro n hn
  unfold mwServe at hn
  split at hn
  · simp at hn; exact .inl hn
  · split at hn
    · simp at hn; exact .inl hn
    · split at hn
      · simp only at hn
        split at hn
        · simp at hn; rcases hn with h | h; exact .inl h; exact .inr (.inl h)
        · simp at hn; rcases hn with h | h; exact .inl h; exact .inr (.inl h)
        · rcases serveOpened_names _ _ _ _ _ _ _ n hn with h | h
          · simp at h; rcases h with h | h; exact .inl h; exact .inr (.inl h)
          · exact .inr (.inr h)
      · simp at hn; exact .inl hn
  · rcases serveOpened_names _ _ _ _ _ _ _ n hn with h | h
    · simp at h; exact .inl h
    · exact .inr (.inr h)

/-- configuration sanity for the Index option: a relative path of real elements
    (`index.html`, `pages/home.html`) -/
def IndexOK (index : Str) : Prop := ∀ s ∈ splitOn '/' index, Normal s

theorem mwName_under (cfg : MwCfg) (cPath p : Str) (hroot : RootOK cfg.root) :
    Under cfg.root (mwName cfg cPath p) := by
  unfold mwName
  simp only
  split
  · exact ignoreBase_under cfg.root cPath p hroot
  · exact name0_under cfg.root p hroot

/-- **C16_mw_contained** — for every configuration (any Root that does not climb, any Index of
    real elements, HTML5 / Browse / IgnoreBase on or off, any file-system kind), every routing
    outcome (`c.Path()`, `*` parameter, URL path — hence every request path, encoded or not) and
    every file tree: each name the Static middleware hands to `config.Filesystem.Open` lies
    lexically under `config.Root` (it is `Clean(Root)` followed by real path elements; no `..`). -/
theorem C16_mw_contained (cfg : MwCfg) (t : Tree) (rootSegs : List Str) (cPath star urlPath : Str)
    (next : Next) (hroot : RootOK cfg.root) (hidx : IndexOK cfg.index) :
    ∀ n ∈ (mw cfg t rootSegs cPath star urlPath next).1, Under cfg.root n := by
  intro n hn
  unfold mw at hn
  simp only at hn
  split at hn
  · simp at hn
  · rename_i p _
    have hname := mwName_under cfg cPath p hroot
    rcases mwServe_names _ _ _ _ _ n hn with h | h | h
    · rw [h]; exact hname
    · rw [h]; exact join2_under cfg.root cfg.root cfg.index hroot (under_self _) hidx
    · rw [h]; exact join2_under cfg.root _ cfg.index hroot hname hidx

/-- **C16_httpdir_contained** — `http.Dir`-style containment: whatever name it is given
    (arbitrary bytes, any number of `..`), the path resolved below the directory consists of
    real elements only; it cannot leave the directory. -/
theorem C16_httpdir_contained (t : Tree) (rootSegs : List Str) (name : Str) :
    fsOpen .httpDir t rootSegs name = .invalid ∨
    ∃ L, (∀ s ∈ L, Normal s) ∧ fsOpen .httpDir t rootSegs name = look t (rootSegs ++ L) := by
  unfold fsOpen
  simp only
  split
  · exact .inr ⟨_, (clean_rooted_no_dotdot name).2.2.1, rfl⟩
  · exact .inl rfl


theorem normalSeg_normal (s : Str) (h : normalSeg s = true) (hs : '/' ∉ s) : Normal s := by
  simp [normalSeg] at h
  exact ⟨h.1.1, h.1.2, h.2, hs⟩

theorem validPath_cases (n : Str) (h : validPath n = true) :
    n = dot ∨ ∀ s ∈ splitOn '/' n, Normal s := by
  simp only [validPath, Bool.and_eq_true, Bool.or_eq_true, beq_iff_eq, List.all_eq_true] at h
  rcases h.2 with h' | h'
  · exact .inl h'
  · exact .inr (fun s hs => normalSeg_normal s (h' s hs) (splitOn_no_sep '/' n s hs))

/-- **C16_fs_contained** — a name that passes `fs.ValidPath` (the check every `fs.FS` applies:
    os.DirFS, fs.Sub, embed.FS, fstest.MapFS) has no `..` element and is not absolute. -/
theorem C16_fs_contained (n : Str) (h : validPath n = true) :
    dotdot ∉ splitOn '/' n ∧ isRooted n = false := by
  rcases validPath_cases n h with rfl | hN
  · simp [splitOn, dot, dotdot, isRooted]
  · refine ⟨fun hm => (hN _ hm).2.2.1 rfl, ?_⟩
    cases n with
    | nil => simp [isRooted]
    | cons c r =>
      by_cases hc : c = '/'
      · subst hc
        have := hN [] (by rw [splitOn_cons_sep]; simp)
        exact absurd rfl this.1
      · simp [isRooted, hc]

/-- an `fs.FS` rooted at `rootSegs` only ever resolves names to nodes below `rootSegs` -/
theorem ioOpen_inside (t : Tree) (rootSegs : List Str) (n : Str) :
    ioOpen t rootSegs n = .invalid ∨
    ∃ L, (∀ s ∈ L, Normal s) ∧ ioOpen t rootSegs n = look t (rootSegs ++ L) := by
  unfold ioOpen
  split
  · rename_i hv
    right
    rcases validPath_cases n hv with rfl | hN
    · exact ⟨[], by simp, by simp⟩
    · have hnd : n ≠ dot := by
        intro e; subst e
        have := hN dot (by simp [splitOn, dot]); exact this.2.1 rfl
      exact ⟨splitOn '/' n, hN, by simp [hnd]⟩
  · exact .inl rfl

/-- a `Look` that names a node of the tree below `rootSegs`, or no node at all -/
def Inside (t : Tree) (rootSegs : List Str) (l : Look) : Prop :=
  l = .invalid ∨ l = .notExist ∨ ∃ L, (∀ s ∈ L, Normal s) ∧ l = look t (rootSegs ++ L)

theorem mapOpenErr_go_noNode (t : Tree) (rootSegs : List Str) (parts : List Str) :
    ∀ fuel k, mapOpenErr.go t rootSegs parts k fuel = .invalid ∨ mapOpenErr.go t rootSegs parts k fuel = .notExist := by
  intro fuel
  induction fuel with
  | zero => intro k; left; simp [mapOpenErr.go]
  | succ f ih =>
    intro k
    unfold mapOpenErr.go
    split
    · exact .inl rfl
    · split
      · exact ih (k + 1)
      · split
        · exact ih (k + 1)
        · exact .inr rfl
        · exact .inl rfl

theorem mapOpenErrN_go_noNode (t : Tree) (rootSegs : List Str) (parts : List Str) :
    ∀ fuel k, mapOpenErrN.go t rootSegs parts k fuel = .invalid ∨ mapOpenErrN.go t rootSegs parts k fuel = .notExist := by
  intro fuel
  induction fuel with
  | zero => intro k; left; simp [mapOpenErrN.go]
  | succ f ih =>
    intro k
    unfold mapOpenErrN.go
    split
    · exact .inl rfl
    · split
      · exact ih (k + 1)
      · split
        · exact ih (k + 1)
        · exact .inr rfl
        · exact .inl rfl

theorem ioOpenN_inside (t : Tree) (rootSegs : List Str) (n : Str) :
    ioOpenN t rootSegs n = .invalid ∨ ioOpenN t rootSegs n = ioOpen t rootSegs n := by
  unfold ioOpenN
  split
  · exact .inl rfl
  · exact .inr rfl

/-- **C16_fsopen_inside** — whatever name the middleware passes, each of the modelled
    `http.FileSystem`s (`http.Dir`, `http.FS` over a validating `fs.FS`, `http.FS(MapFS)`) resolves
    it to a node below its own root or to an error: the second line of defence. -/
theorem C16_fsopen_inside (kind : FsKind) (t : Tree) (rootSegs : List Str) (name : Str) :
    Inside t rootSegs (fsOpen kind t rootSegs name) := by
  cases kind with
  | httpDir =>
    rcases C16_httpdir_contained t rootSegs name with h | ⟨L, hL, h⟩
    · exact .inl h
    · exact .inr (.inr ⟨L, hL, h⟩)
  | httpIoFS =>
    simp only [fsOpen]
    generalize hn : (if name = ['/'] then dot else trimPrefixC '/' name) = n
    rcases ioOpen_inside t rootSegs n with h | ⟨L, hL, h⟩
    · rw [h]
      simp only [mapOpenErr]
      rcases mapOpenErr_go_noNode t rootSegs (splitOn '/' n) (splitOn '/' n).length 0 with h' | h'
      · exact .inl h'
      · exact .inr (.inl h')
    · cases hr : ioOpen t rootSegs n with
      | invalid =>
        simp only [mapOpenErr]
        rcases mapOpenErr_go_noNode t rootSegs (splitOn '/' n) (splitOn '/' n).length 0 with h' | h'
        · exact .inl h'
        · exact .inr (.inl h')
      | notExist => exact .inr (.inl rfl)
      | file id => exact .inr (.inr ⟨L, hL, by rw [← h, hr]⟩)
      | dir d => exact .inr (.inr ⟨L, hL, by rw [← h, hr]⟩)
  | httpDirFS =>
    simp only [fsOpen]
    generalize hn : (if name = ['/'] then dot else trimPrefixC '/' name) = n
    have hmap : Inside t rootSegs (mapOpenErrN t rootSegs n) := by
      simp only [mapOpenErrN]
      rcases mapOpenErrN_go_noNode t rootSegs (splitOn '/' n) (splitOn '/' n).length 0 with h' | h'
      · exact .inl h'
      · exact .inr (.inl h')
    rcases ioOpenN_inside t rootSegs n with h | h
    · rw [h]; exact hmap
    · rw [h]
      rcases ioOpen_inside t rootSegs n with h | ⟨L, hL, h⟩
      · rw [h]; exact hmap
      · cases hr : ioOpen t rootSegs n with
        | invalid => exact hmap
        | notExist => exact .inr (.inl rfl)
        | file id => exact .inr (.inr ⟨L, hL, by rw [← h, hr]⟩)
        | dir d => exact .inr (.inr ⟨L, hL, by rw [← h, hr]⟩)
  | httpMapFS =>
    simp only [fsOpen]
    generalize hn : (if name = ['/'] then dot else trimPrefixC '/' name) = n
    rcases ioOpen_inside t rootSegs n with h | ⟨L, hL, h⟩
    · rw [h]; exact .inr (.inl rfl)
    · cases hr : ioOpen t rootSegs n with
      | invalid => exact .inr (.inl rfl)
      | notExist => exact .inr (.inl rfl)
      | file id => exact .inr (.inr ⟨L, hL, by rw [← h, hr]⟩)
      | dir d => exact .inr (.inr ⟨L, hL, by rw [← h, hr]⟩)


theorem unescape_id (p : Str) (h : '%' ∉ p) : unescape p = some p := by
  induction p with
  | nil => simp [unescape]
  | cons c r ih =>
    have hc : c ≠ '%' := fun e => h (by simp [e])
    have hr : '%' ∉ r := fun e => h (by simp [e])
    have ihr := ih hr
    unfold unescape
    split
    · rename_i heq; cases heq
    · rename_i a b r' heq
      cases heq
      exact absurd rfl hc
    · rename_i c' r' _ heq
      cases heq
      simp [hc, ihr]


theorem look_dir (t : Tree) (segs d : List Str) (h : look t segs = .dir d) : d = segs := by
  unfold look at h
  split at h
  · rename_i he; cases h; exact he.symm
  · split at h <;> first | (cases h; rfl) | cases h

theorem inside_file (t : Tree) (rs : List Str) (l : Look) (id : Nat) (h : Inside t rs l) (hl : l = .file id) :
    ∃ L, (∀ s ∈ L, Normal s) ∧ look t (rs ++ L) = .file id := by
  subst hl
  rcases h with h | h | ⟨L, hL, h⟩
  · cases h
  · cases h
  · exact ⟨L, hL, h.symm⟩

theorem inside_dir (t : Tree) (rs : List Str) (l : Look) (d : List Str) (h : Inside t rs l) (hl : l = .dir d) :
    ∃ L, (∀ s ∈ L, Normal s) ∧ d = rs ++ L := by
  subst hl
  rcases h with h | h | ⟨L, hL, h⟩
  · cases h
  · cases h
  · exact ⟨L, hL, look_dir t _ d h.symm⟩

/-- what `serveOpened` can answer with -/
theorem serveOpened_outcome (cfg : MwCfg) (t : Tree) (rs : List Str) (name : Str) (next : Next)
    (opened : List Str) (l : Look) :
    (∀ id, (serveOpened cfg t rs name next opened l).2 = .file id →
      l = .file id ∨ fsOpen cfg.kind t rs (join2 name cfg.index) = .file id) ∧
    (∀ ti ns, (serveOpened cfg t rs name next opened l).2 = .listing ti ns →
      ∃ d, l = .dir d ∧ ns = children t d) := by
  unfold serveOpened
  cases l with
  | notExist => simp
  | invalid => simp
  | file id' => simp
  | dir d =>
    simp only
    cases hi : fsOpen cfg.kind t rs (join2 name cfg.index) with
    | file id' => simp
    | dir d' => simp
    | notExist => cases cfg.browse <;> cases next <;> simp [passNext]
    | invalid => cases cfg.browse <;> cases next <;> simp [passNext]

/-- **C16_mw_serves_inside** — for every configuration, routing outcome and tree: a file the
    middleware serves, and a directory it lists, is a node of the tree below the root of the
    configured file system, reached through real path elements only. -/
theorem C16_mw_serves_inside (cfg : MwCfg) (t : Tree) (rs : List Str) (cPath star urlPath : Str)
    (next : Next) :
    (∀ id, (mw cfg t rs cPath star urlPath next).2 = .file id →
      ∃ L, (∀ s ∈ L, Normal s) ∧ look t (rs ++ L) = .file id) ∧
    (∀ ti ns, (mw cfg t rs cPath star urlPath next).2 = .listing ti ns →
      ∃ L, (∀ s ∈ L, Normal s) ∧ ns = children t (rs ++ L)) := by
  unfold mw
  simp only
  split
  · simp
  · rename_i p _
    generalize mwName cfg cPath p = name
    have hI := C16_fsopen_inside cfg.kind t rs
    have key : ∀ (opened : List Str) (l : Look), Inside t rs l →
        (∀ id, (serveOpened cfg t rs name next opened l).2 = .file id →
          ∃ L, (∀ s ∈ L, Normal s) ∧ look t (rs ++ L) = .file id) ∧
        (∀ ti ns, (serveOpened cfg t rs name next opened l).2 = .listing ti ns →
          ∃ L, (∀ s ∈ L, Normal s) ∧ ns = children t (rs ++ L)) := by
      intro opened l hl
      obtain ⟨h1, h2⟩ := serveOpened_outcome cfg t rs name next opened l
      constructor
      · intro id h
        rcases h1 id h with h' | h'
        · exact inside_file t rs l id hl h'
        · exact inside_file t rs _ id (hI _) h'
      · intro ti ns h
        obtain ⟨d, hd, hns⟩ := h2 ti ns h
        obtain ⟨L, hL, hdL⟩ := inside_dir t rs l d hl hd
        exact ⟨L, hL, by rw [hns, hdL]⟩
    unfold mwServe
    cases h0 : fsOpen cfg.kind t rs name with
    | invalid => simp
    | notExist =>
      cases next with
      | ok => simp
      | notFound =>
        simp only
        split
        · cases h1 : fsOpen cfg.kind t rs (join2 cfg.root cfg.index) with
          | invalid => simp
          | notExist => simp
          | file id => exact key _ _ (h1 ▸ hI _)
          | dir d => exact key _ _ (h1 ▸ hI _)
        · simp
    | file id => exact key _ _ (h0 ▸ hI _)
    | dir d => exact key _ _ (h0 ▸ hI _)

/-- **C16_fs_serves_inside** — `StaticDirectoryHandler` (Echo.Static, StaticFS, Group.Static,
    StaticFS) and `fsFile` (File, FileFS) on a validating `fs.FS`: a served file is a node below
    the root, reached through real path elements only; every request, every tree. -/
theorem C16_fs_serves_inside (t : Tree) (rs : List Str) (star urlPath : Str) (id : Nat)
    (h : (staticDir t rs star urlPath).2 = .file id ∨ (fsFile t rs star).2 = .file id) :
    ∃ L, (∀ s ∈ L, Normal s) ∧ look t (rs ++ L) = .file id := by
  have io : ∀ n, ioOpen t rs n = .file id → ∃ L, (∀ s ∈ L, Normal s) ∧ look t (rs ++ L) = .file id := by
    intro n hn
    rcases ioOpen_inside t rs n with h' | ⟨L, hL, h'⟩
    · rw [hn] at h'; cases h'
    · exact ⟨L, hL, by rw [← h', hn]⟩
  have hfile : ∀ f, (fsFile t rs f).2 = .file id →
      ∃ L, (∀ s ∈ L, Normal s) ∧ look t (rs ++ L) = .file id := by
    intro f hf
    unfold fsFile at hf
    cases h1 : ioOpen t rs f with
    | file id' => rw [h1] at hf; simp at hf; subst hf; exact io f h1
    | dir d =>
      rw [h1] at hf; simp only at hf
      cases h2 : ioOpen t rs (join2 f indexPage) with
      | file id' => rw [h2] at hf; simp at hf; subst hf; exact io _ h2
      | dir d' => rw [h2] at hf; simp at hf
      | notExist => rw [h2] at hf; simp at hf
      | invalid => rw [h2] at hf; simp at hf
    | notExist => rw [h1] at hf; simp at hf
    | invalid => rw [h1] at hf; simp at hf
  rcases h with h | h
  · unfold staticDir at h
    split at h
    · simp at h
    · rename_i p _
      simp only at h
      split at h
      · simp at h
      · simp at h
      · split at h
        · simp at h
        · exact hfile _ h
      · exact hfile _ h
  · exact hfile _ h


/-- `Clean("/" + pre + a/b/c)` for real elements and `pre` empty or a slash -/
theorem clean_rooted_join (F : List Str) (hF : ∀ s ∈ F, Normal s) (hne : F ≠ []) (lead : Bool) :
    clean ('/' :: ((if lead then ['/'] else []) ++ joinSep '/' F)) = '/' :: joinSep '/' F := by
  rw [clean_render _ (by simp)]
  have hr : isRooted ('/' :: ((if lead then ['/'] else []) ++ joinSep '/' F)) = true := by simp [isRooted]
  rw [hr]
  have hs : cleanSegs true (splitOn '/' ('/' :: ((if lead then ['/'] else []) ++ joinSep '/' F))) = F := by
    cases lead with
    | true =>
      simp only [if_true, List.cons_append, List.nil_append, splitOn_cons_sep,
        splitOn_joinSep '/' F hne (fun x hx => normal_no_sep (hF x hx))]
      simp [cleanSegs, cleanStep_empty, foldl_normal true F hF]
    | false =>
      simp only [Bool.false_eq_true, if_false, List.nil_append, splitOn_cons_sep,
        splitOn_joinSep '/' F hne (fun x hx => normal_no_sep (hF x hx))]
      simp [cleanSegs, cleanStep_empty, foldl_normal true F hF]
  rw [hs]; simp [render]

theorem join2_dot (F : List Str) (hF : ∀ s ∈ F, Normal s) (hne : F ≠ []) :
    join2 dot ('/' :: joinSep '/' F) = joinSep '/' F := by
  have hseg : segsOf ('/' :: joinSep '/' F) = F := by
    have := segsOf_render true F hF (.inr rfl)
    simpa [render] using this
  rw [join2_render dot _ (by simp [dot]) (by rw [hseg]; exact hF), hseg]
  have : cleanSegsOf dot = [] := by simp [cleanSegsOf, dot, isRooted, splitOn, cleanSegs, cleanStep]
  rw [this]
  simp [render, isRooted, dot, hne]

/-- **C16_serves_clean_path (middleware)** — an existing regular file below the root,
    requested by its clean path (real elements, nothing to unescape; with or without the leading
    slash, i.e. through `URL.Path` or a `*` parameter), is opened under exactly that name and
    served: with `http.Dir`, Root `"."`, whatever HTML5 / Browse / Index / next are. -/
theorem C16_serves_clean_path (cfg : MwCfg) (t : Tree) (rs : List Str) (F : List Str) (id : Nat)
    (cPath star urlPath : Str) (next : Next) (lead : Bool)
    (hkind : cfg.kind = .httpDir) (hroot : cfg.root = dot) (hib : cfg.ignoreBase = false)
    (hF : ∀ s ∈ F, Normal s) (hne : F ≠ []) (hpct : '%' ∉ joinSep '/' F)
    (hutf : utf8Valid (('/' :: joinSep '/' F).map Char.toNat) = true)
    (hnul : hasNul ('/' :: joinSep '/' F) = false)
    (hfile : look t (rs ++ F) = .file id)
    (hreq : (if hasSuffix cPath ['*'] then star else urlPath) = (if lead then ['/'] else []) ++ joinSep '/' F) :
    mw cfg t rs cPath star urlPath next = ([joinSep '/' F], .file id) := by
  have hun : unescape ((if lead then ['/'] else []) ++ joinSep '/' F) =
      some ((if lead then ['/'] else []) ++ joinSep '/' F) := by
    apply unescape_id
    cases lead <;> simp [hpct]
  have hname : mwName cfg cPath ((if lead then ['/'] else []) ++ joinSep '/' F) = joinSep '/' F := by
    simp only [mwName, hib, Bool.false_eq_true, if_false, hroot]
    rw [clean_rooted_join F hF hne lead, join2_dot F hF hne]
  have hopen : fsOpen cfg.kind t rs (joinSep '/' F) = .file id := by
    rw [hkind]
    simp only [fsOpen]
    have hc := clean_rooted_join F hF hne false
    simp only [Bool.false_eq_true, if_false, List.nil_append] at hc
    rw [hc, hutf]
    have hseg : segsOf ('/' :: joinSep '/' F) = F := by
      have := segsOf_render true F hF (.inr rfl)
      simpa [render] using this
    simp [hseg, hfile, hnul]
  unfold mw
  simp only [hreq, hun, hname]
  unfold mwServe
  rw [hopen]
  simp [serveOpened]

/-- **C16_serves_clean_path (Echo.Static / StaticFS / Group.Static)** — the same for
    `StaticDirectoryHandler` on a validating `fs.FS`. -/
theorem C16_serves_clean_path_fs (t : Tree) (rs : List Str) (F : List Str) (id : Nat)
    (urlPath : Str) (lead : Bool)
    (hF : ∀ s ∈ F, Normal s) (hne : F ≠ []) (hpct : '%' ∉ joinSep '/' F)
    (hutf : utf8Valid ((joinSep '/' F).map Char.toNat) = true)
    (hfile : look t (rs ++ F) = .file id) :
    staticDir t rs ((if lead then ['/'] else []) ++ joinSep '/' F) urlPath =
      ([joinSep '/' F, joinSep '/' F], .file id) := by
  have hun : unescape ((if lead then ['/'] else []) ++ joinSep '/' F) =
      some ((if lead then ['/'] else []) ++ joinSep '/' F) := by
    apply unescape_id
    cases lead <;> simp [hpct]
  have hjne : joinSep '/' F ≠ [] := by
    intro e
    have := (joinSep_eq_nil F (fun s hs => (hF s hs).1)).mp e
    exact hne this
  have hnr : isRooted (joinSep '/' F) = false := by
    have := isRooted_render false F hF
    simpa [render, hne] using this
  have htrim : trimPrefixC '/' ((if lead then ['/'] else []) ++ joinSep '/' F) = joinSep '/' F := by
    cases lead with
    | true => simp [trimPrefixC]
    | false =>
      simp only [Bool.false_eq_true, if_false, List.nil_append]
      cases hj : joinSep '/' F with
      | nil => exact absurd hj hjne
      | cons c r =>
        rw [hj] at hnr
        have : c ≠ '/' := by intro e; simp [isRooted, e] at hnr
        simp [trimPrefixC, this]
  have hclean : clean (joinSep '/' F) = joinSep '/' F := by
    rw [clean_render _ hjne, hnr, splitOn_joinSep '/' F hne (fun x hx => normal_no_sep (hF x hx)),
      cleanSegs_normal false F hF]
    simp [render, hne]
  have hvalid : validPath (joinSep '/' F) = true := by
    simp only [validPath, hutf, Bool.true_and, Bool.or_eq_true, beq_iff_eq, List.all_eq_true]
    right
    rw [splitOn_joinSep '/' F hne (fun x hx => normal_no_sep (hF x hx))]
    intro s hs
    have := hF s hs
    simp [normalSeg, this.1, this.2.1, this.2.2.1]
  have hnd : joinSep '/' F ≠ dot := by
    intro e
    have := splitOn_joinSep '/' F hne (fun x hx => normal_no_sep (hF x hx))
    rw [e] at this
    have h1 : F = [dot] := by simpa [splitOn, dot] using this.symm
    exact (hF dot (by simp [h1])).2.1 rfl
  have hio : ioOpen t rs (joinSep '/' F) = .file id := by
    simp only [ioOpen, hvalid, if_true, hnd, if_false]
    rw [splitOn_joinSep '/' F hne (fun x hx => normal_no_sep (hF x hx))]
    exact hfile
  unfold staticDir
  simp only [hun, htrim, hclean, hio]
  simp [fsFile, hio]


theorem dotdot_ne_dot : dotdot ≠ dot := by decide
theorem dotdot_ne_nil : dotdot ≠ [] := by decide

theorem cleanStep_dd_nil_rooted : cleanStep true [] dotdot = [] := by
  simp [cleanStep, dotdot_ne_nil, dotdot_ne_dot]

theorem cleanStep_dd_nil_rel : cleanStep false [] dotdot = [dotdot] := by
  simp [cleanStep, dotdot_ne_nil, dotdot_ne_dot]

theorem cleanStep_dd_dd (r : Bool) (rest : List Str) :
    cleanStep r (dotdot :: rest) dotdot = dotdot :: dotdot :: rest := by
  simp [cleanStep, dotdot_ne_nil, dotdot_ne_dot]

theorem cleanStep_dd_pop (r : Bool) (top : Str) (rest : List Str) (h : top ≠ dotdot) :
    cleanStep r (top :: rest) dotdot = rest := by
  simp [cleanStep, dotdot_ne_nil, dotdot_ne_dot, h]

/-- rooted and relative cleaning differ only by `..` elements kept at the front -/
theorem foldl_rooted_vs_rel (segs : List Str) :
    ∀ (st : List Str) (k : Nat), (∀ s ∈ st, s ≠ dotdot) →
      ∃ k', segs.foldl (cleanStep false) (st ++ List.replicate k dotdot) =
        segs.foldl (cleanStep true) st ++ List.replicate k' dotdot ∧
        (∀ s ∈ segs.foldl (cleanStep true) st, s ≠ dotdot) := by
  induction segs with
  | nil => intro st k h; exact ⟨k, rfl, h⟩
  | cons x xs ih =>
    intro st k hst
    simp only [List.foldl_cons]
    by_cases h1 : x = [] ∨ x = dot
    · have e1 : ∀ r s, cleanStep r s x = s := by intro r s; simp [cleanStep, h1]
      rw [e1, e1]; exact ih st k hst
    · by_cases h2 : x = dotdot
      · subst h2
        cases st with
        | nil =>
          have e1 := cleanStep_dd_nil_rooted
          have e2 : cleanStep false ([] ++ List.replicate k dotdot) dotdot = [] ++ List.replicate (k + 1) dotdot := by
            cases k with
            | zero => simpa using cleanStep_dd_nil_rel
            | succ k' => simpa [List.replicate_succ] using cleanStep_dd_dd false (List.replicate k' dotdot)
          rw [e1, e2]; exact ih [] (k + 1) (by simp)
        | cons top rest =>
          have htop : top ≠ dotdot := hst top (by simp)
          have e1 := cleanStep_dd_pop true top rest htop
          have e2 : cleanStep false (top :: rest ++ List.replicate k dotdot) dotdot = rest ++ List.replicate k dotdot :=
            cleanStep_dd_pop false top (rest ++ List.replicate k dotdot) htop
          rw [e1, e2]; exact ih rest k (fun s hs => hst s (by simp [hs]))
      · have e1 : ∀ r s, cleanStep r s x = x :: s := by
          intro r s; simp [cleanStep, h1, h2]
        rw [e1, e1]
        have := ih (x :: st) k (by
          intro s hs; rcases List.mem_cons.mp hs with rfl | hs
          · exact h2
          · exact hst s hs)
        simpa using this

theorem cleanSegs_rel_eq_rooted (segs : List Str) (h : ∀ s ∈ cleanSegs false segs, Normal s) :
    cleanSegs true segs = cleanSegs false segs := by
  obtain ⟨k', hk, _⟩ := foldl_rooted_vs_rel segs [] 0 (by simp)
  simp only [List.replicate_zero, List.append_nil] at hk
  cases k' with
  | zero => simp only [cleanSegs]; rw [hk]; simp
  | succ k'' =>
    exfalso
    have : dotdot ∈ cleanSegs false segs := by
      simp only [cleanSegs, hk, List.mem_reverse, List.mem_append, List.mem_replicate]
      right; simp
    exact (h _ this).2.2.1 rfl

/-- how `http.Dir` resolves a name that lies under `Root`: to `Clean(Root)`'s elements followed
    by real elements -/
theorem under_httpdir_segs (root n : Str) (hroot : RootOK root) (hu : Under root n) :
    ∃ L, (∀ s ∈ L, Normal s) ∧ segsOf (clean ('/' :: n)) = cleanSegsOf root ++ L := by
  obtain ⟨_, L, hL, hc⟩ := hu
  refine ⟨L, hL, ?_⟩
  have hall : ∀ s ∈ cleanSegsOf n, Normal s := by
    rw [hc]; intro s hs; rcases List.mem_append.mp hs with h' | h'
    · exact hroot.2 s h'
    · exact hL s h'
  have h1 : cleanSegs true (splitOn '/' ('/' :: n)) = cleanSegsOf n := by
    rw [splitOn_cons_sep]
    have : cleanSegs true ([] :: splitOn '/' n) = cleanSegs true (splitOn '/' n) := by
      simp [cleanSegs, cleanStep_empty]
    rw [this]
    cases hr : isRooted n with
    | true => simp [cleanSegsOf, hr]
    | false =>
      have h' : ∀ s ∈ cleanSegs false (splitOn '/' n), Normal s := by
        simpa [cleanSegsOf, hr] using hall
      rw [cleanSegs_rel_eq_rooted _ h']; simp [cleanSegsOf, hr]
  have hcl : clean ('/' :: n) = render true (cleanSegs true (splitOn '/' ('/' :: n))) := by
    rw [clean_render _ (by simp)]; simp [isRooted]
  rw [hcl, h1, segsOf_render true _ hall (.inr rfl), hc]

theorem serveOpened_file_from (cfg : MwCfg) (t : Tree) (rs : List Str) (name : Str) (next : Next)
    (opened : List Str) (l : Look) (id : Nat)
    (h : (serveOpened cfg t rs name next opened l).2 = .file id) :
    l = .file id ∨ fsOpen cfg.kind t rs (join2 name cfg.index) = .file id :=
  (serveOpened_outcome cfg t rs name next opened l).1 id h

theorem mwServe_file_from (cfg : MwCfg) (t : Tree) (rs : List Str) (name : Str) (next : Next) (id : Nat)
    (h : (mwServe cfg t rs name next).2 = .file id) :
    fsOpen cfg.kind t rs name = .file id ∨
    fsOpen cfg.kind t rs (join2 cfg.root cfg.index) = .file id ∨
    fsOpen cfg.kind t rs (join2 name cfg.index) = .file id := by
  unfold mwServe at h
  cases h0 : fsOpen cfg.kind t rs name with
  | invalid => rw [h0] at h; simp at h
  | notExist =>
    rw [h0] at h
    cases next with
    | ok => simp at h
    | notFound =>
      simp only at h
      split at h
      · cases h1 : fsOpen cfg.kind t rs (join2 cfg.root cfg.index) with
        | invalid => rw [h1] at h; simp at h
        | notExist => rw [h1] at h; simp at h
        | file id' =>
          rw [h1] at h
          rcases serveOpened_file_from _ _ _ _ _ _ _ _ h with h' | h'
          · cases h'; exact .inr (.inl rfl)
          · exact .inr (.inr h')
        | dir d =>
          rw [h1] at h
          rcases serveOpened_file_from _ _ _ _ _ _ _ _ h with h' | h'
          · cases h'
          · exact .inr (.inr h')
      · simp at h
  | file id' =>
    rw [h0] at h
    rcases serveOpened_file_from _ _ _ _ _ _ _ _ h with h' | h'
    · cases h'; exact .inl rfl
    · exact .inr (.inr h')
  | dir d =>
    rw [h0] at h
    rcases serveOpened_file_from _ _ _ _ _ _ _ _ h with h' | h'
    · cases h'
    · exact .inr (.inr h')

/-- **C16_mw_serves_under_root** — end to end, for a file system with `http.Dir` semantics
    rooted anywhere (possibly above `Root`): every file the Static middleware serves is a node
    of the tree below `Root` — at `fsRoot / Clean(Root) / real elements`.  Every configuration
    (Root that does not climb, Index of real elements; HTML5, Browse, IgnoreBase arbitrary),
    every routing outcome, every tree.  (This is the statement F17 violated before the fix.) -/
theorem C16_mw_serves_under_root (cfg : MwCfg) (t : Tree) (rs : List Str) (cPath star urlPath : Str)
    (next : Next) (id : Nat) (hkind : cfg.kind = .httpDir) (hroot : RootOK cfg.root)
    (hidx : IndexOK cfg.index)
    (h : (mw cfg t rs cPath star urlPath next).2 = .file id) :
    ∃ L, (∀ s ∈ L, Normal s) ∧ look t (rs ++ cleanSegsOf cfg.root ++ L) = .file id := by
  unfold mw at h
  simp only at h
  split at h
  · simp at h
  · rename_i p _
    have hname := mwName_under cfg cPath p hroot
    have conv : ∀ nm, Under cfg.root nm → fsOpen cfg.kind t rs nm = .file id →
        ∃ L, (∀ s ∈ L, Normal s) ∧ look t (rs ++ cleanSegsOf cfg.root ++ L) = .file id := by
      intro nm hu ho
      obtain ⟨L, hL, hs⟩ := under_httpdir_segs cfg.root nm hroot hu
      refine ⟨L, hL, ?_⟩
      rw [hkind] at ho
      simp only [fsOpen] at ho
      split at ho
      · rw [hs, ← List.append_assoc] at ho; exact ho
      · cases ho
    rcases mwServe_file_from _ _ _ _ _ _ h with h' | h' | h'
    · exact conv _ hname h'
    · exact conv _ (join2_under cfg.root cfg.root cfg.index hroot (under_self _) hidx) h'
    · exact conv _ (join2_under cfg.root _ cfg.index hroot hname hidx) h'


/-! ## non-vacuity and the witness for the behaviour before the F17 fix -/

section Examples

instance (s : Str) : Decidable (Normal s) := by unfold Normal; exact inferInstance
instance (root : Str) : Decidable (RootOK root) := by unfold RootOK; exact inferInstance
instance (i : Str) : Decidable (IndexOK i) := by unfold IndexOK; exact inferInstance

def S (s : String) : Str := s.toList

/-- work directory with a secret next to the root `public` -/
def exTree : Tree :=
  [(S "index.html", .file 0), (S "public", .dir), (S "public/...", .dir), (S "public/a.txt", .file 1),
   (S "public/dir", .dir), (S "public/dir/b.txt", .file 2), (S "public/index.html", .file 3), (S "secret", .file 4)]

def exCfg (ib : Bool) : MwCfg := ⟨S "public", S "index.html", false, false, ib, .httpDir⟩

-- the hypotheses of C16_mw_contained / C16_mw_serves_under_root are met by ordinary configurations
example : RootOK (S "public") ∧ RootOK (S ".") ∧ RootOK (S "/srv/www/") ∧ RootOK (S "./a/../public") ∧
    ¬ RootOK (S "../up") ∧ ¬ RootOK [] := by decide +kernel
example : IndexOK (S "index.html") ∧ IndexOK (S "pages/home.html") ∧ ¬ IndexOK (S "../x") ∧ ¬ IndexOK (S "/abs") := by
  decide +kernel

-- core lemma on adversarial inputs
example : clean (S "/../../a/./b//../%2e%2e/..") = S "/a" ∧ clean (S "/..") = S "/" ∧
    clean (S "a/../../b") = S "../b" ∧ clean (S "/.../..../. ./") = S "/.../..../. ." := by decide +kernel

-- traversal attempts through the middleware (http.Dir(parent), Root "public", e.Use => c.Path() = "")
example : mw (exCfg false) exTree [] [] [] (S "/%2e%2e/secret") .notFound = ([S "public/secret"], .pass404) := by decide +kernel
example : mw (exCfg false) exTree [] [] [] (S "/..%2f..%2fsecret") .notFound = ([S "public/secret"], .pass404) := by decide +kernel
example : mw (exCfg false) exTree [] [] [] (S "/dir/%2e%2e/a.txt") .notFound = ([S "public/a.txt"], .file 1) := by decide +kernel
example : mw (exCfg false) exTree [] [] [] (S "/%zz") .notFound = ([], .error500) := by decide +kernel
-- IgnoreBase (fixed): the F17 inputs no longer leave the root
example : mw (exCfg true) exTree [] [] [] (S "/.../secret/.") .notFound = ([S "public/.../secret"], .pass404) := by decide +kernel
example : mw (exCfg true) exTree [] [] [] (S "/.../.") .notFound =
    ([S "public/...", S "public/.../index.html"], .pass404) := by decide +kernel
-- IgnoreBase doing what it is for: group /public, request /public/public
example : mw (exCfg true) exTree [] (S "/public/*") (S "public") (S "/public/public") .notFound =
    ([S "public/", S "public/index.html"], .file 3) := by decide +kernel

/-- the rewrite as it was before the fix: remove the last occurrence of the route base -/
def ignoreBaseNameOld (cPath p name : Str) : Option Str :=
  let routePath := base (trimRightSet cPath ['/', '*'])
  if base p = routePath then
    match (List.range (name.length + 1)).foldl
        (fun acc i => if routePath.isPrefixOf (name.drop i) then some i else acc) none with
    | none => none
    | some i => some (name.take i ++ (name.drop i).drop routePath.length)
  else some name

-- F17, negation witness for the unfixed behaviour: the old rewrite produced a name outside Root
-- (`public/../secret`), and indexed out of range (panic) for a name without a dot
example : ignoreBaseNameOld [] (S ".../secret/.") (S "public/.../secret") = some (S "public/../secret") := by decide +kernel
example : ignoreBaseNameOld [] (S "nope/.") (S "public/nope") = some (S "public/nope") ∨
    ignoreBaseNameOld [] (S "nope/.") (S "nope") = none := by decide +kernel
example : ¬ Under (S "public") (S "public/../secret") := by
  rintro ⟨_, L, _, h⟩
  have h1 : cleanSegsOf (S "public/../secret") = [S "secret"] := by decide +kernel +kernel
  have h2 : cleanSegsOf (S "public") = [S "public"] := by decide +kernel +kernel
  rw [h1, h2] at h
  simp at h
  exact absurd h.1 (by decide +kernel)
example : fsOpen .httpDir exTree [] (S "public/../secret") = .file 4 := by decide +kernel

-- C16_serves_clean_path: a concrete instance of all hypotheses
example : mw ⟨dot, S "index.html", true, true, false, .httpDir⟩ exTree [S "public"] (S "/static/*")
    (S "dir/b.txt") (S "/static/dir/b.txt") .notFound = ([S "dir/b.txt"], .file 2) :=
  C16_serves_clean_path _ exTree [S "public"] [S "dir", S "b.txt"] 2 _ _ _ _ false rfl rfl rfl
    (by decide +kernel) (by decide +kernel) (by decide +kernel) (by decide +kernel) (by decide +kernel) (by decide +kernel)
    (by decide +kernel)

-- fs.ValidPath is what keeps Echo.Static inside: `..` survives Clean of a relative name
example : staticDir exTree [S "public"] (S "/%2e%2e/secret") (S "/assets/../secret") = ([S "../secret"], .notFound404) ∧
    validPath (S "../secret") = false ∧ validPath (S "dir/b.txt") = true ∧ validPath (S "/abs") = false := by decide +kernel
example : staticDir exTree [S "public"] (S "/dir") (S "/assets/dir") = ([S "dir"], .redirect) := by decide +kernel

end Examples


end C16
