import EchoModel.C15
/-!
# C15 — theorems: Gzip / Decompress are transparent

All statements are for every `MinLength`, every `Accept-Encoding` value, every handler program
(any length, any chunk sizes, any order of `WriteHeader / Write / Flush / Stream`), and every
left-over state of the pooled gzip writer and buffer.

The proof is one invariant (`Inv`) over the run of the handler program that relates the
concrete state (response writer, gzip writer, `gzipResponseWriter`, `echo.Response`) to a ghost
record of what the handler has done so far (`Ghost`).
-/
namespace C15

/-! ## specification side: what the handler did -/

/-- does the op call `Write` at all (a zero-length `Write` counts; an empty reader does not) -/
def Op.makesWrite : Op → Bool
  | .write _ => true
  | .stream _ cs _ => cs.any (fun c => !c.isEmpty)
  | .streamWT _ d => !d.isEmpty
  | _ => false

/-- the bytes an op passes to `Write` -/
def Op.bytes : Op → Bytes
  | .write b => b
  | .stream _ cs _ => concatAll cs
  | .streamWT _ d => d
  | _ => []

/-- everything the handler wrote, in order -/
def written : List Op → Bytes
  | [] => []
  | op :: ops => op.bytes ++ written ops

/-- the status the handler chose: the first `WriteHeader`/`Stream` code, or 200 if a `Write`
    or `Flush` came first (net/http's rule), or 200 if it did nothing -/
def chosen : List Op → Nat
  | [] => 200
  | .setLen _ :: ops => chosen ops
  | .writeHeader c :: _ => c
  | .write _ :: _ => 200
  | .flush :: _ => 200
  | .stream c _ _ :: _ => c
  | .streamWT c _ :: _ => c

/-- what the handler had written at each of its `Flush` calls (`pre` = written before `ops`) -/
def flushPoints (pre : Bytes) : List Op → List Bytes
  | [] => []
  | .flush :: ops => pre :: flushPoints pre ops
  | op :: ops => flushPoints (pre ++ op.bytes) ops

/-- the counts a correct writer reports -/
def expectedRet : Op → Ret
  | .write b => .wrote b.length
  | .stream _ cs fails => .streamed ((cs.filter (fun c => !c.isEmpty)).map List.length) (if fails then 1 else 0)
  | .streamWT _ d => .streamed (if d.isEmpty then [] else [d.length]) 0
  | _ => .none

/-- handlers set headers before they start the response: no `setLen` after another op -/
def headersFirst : List Op → Bool
  | [] => true
  | .setLen _ :: ops => headersFirst ops
  | _ :: ops => ops.all (fun op => match op with | .setLen _ => false | _ => true)

/-! ## specification side: what the client does -/

def lenient : Canon → Bytes
  | .raw b => b
  | .gzip d _ _ => d
  | .mixed => []

/-- the body is exactly one complete gzip stream -/
def isGzipStream (body : List Item) : Prop := ∃ d, canon body = .gzip d true false

/-- the client undoes the advertised Content-Encoding -/
def clientDecode (r : Raw) : Option Bytes :=
  if r.sent.ce then
    match canon r.body with
    | .gzip d true false => some d
    | _ => none
  else rawBytes r.body

/-! ## wire lemmas -/

def dataOf : List Item → Bytes
  | [] => []
  | .gzData b :: r => b ++ dataOf r
  | _ :: r => dataOf r

/-- only data blocks and sync markers -/
def onlyDS : List Item → Bool
  | [] => true
  | .gzData _ :: r => onlyDS r
  | .gzSync :: r => onlyDS r
  | _ :: _ => false

theorem dataOf_append (a b : List Item) : dataOf (a ++ b) = dataOf a ++ dataOf b := by
  induction a with
  | nil => rfl
  | cons x a ih => cases x <;> simp [dataOf, ih]

theorem onlyDS_append (a b : List Item) : onlyDS (a ++ b) = (onlyDS a && onlyDS b) := by
  induction a with
  | nil => simp [onlyDS]
  | cons x a ih => cases x <;> simp [onlyDS, ih]

theorem gunzip_open (items : List Item) (h : onlyDS items = true) :
    gunzipItems items = (dataOf items, false, false) := by
  induction items with
  | nil => rfl
  | cons x r ih =>
    cases x <;> simp [onlyDS] at h <;> simp [gunzipItems, dataOf, ih h]

theorem gunzip_closed (items : List Item) (p : Bytes) (h : onlyDS items = true) :
    gunzipItems (items ++ [.gzData p, .gzTrailer]) = (dataOf items ++ p, true, false) := by
  induction items with
  | nil => simp [gunzipItems, dataOf]
  | cons x r ih =>
    cases x <;> simp [onlyDS] at h <;> simp [gunzipItems, dataOf, ih h]

theorem canon_open (items : List Item) (h : onlyDS items = true) :
    canon (.gzHeader :: items) = .gzip (dataOf items) false false := by
  simp [canon, gunzip_open items h]

theorem canon_closed (items : List Item) (p : Bytes) (h : onlyDS items = true) :
    canon (.gzHeader :: (items ++ [.gzData p, .gzTrailer])) = .gzip (dataOf items ++ p) true false := by
  simp [canon, gunzip_closed items p h]

theorem rawBytes_append (a : List Item) (b : Bytes) (x : Bytes) (h : rawBytes a = some x) :
    rawBytes (a ++ [.raw b]) = some (x ++ b) := by
  induction a generalizing x with
  | nil => simp [rawBytes] at h ⊢; exact h ▸ rfl
  | cons i a ih =>
    cases i with
    | raw c =>
      simp only [rawBytes, List.cons_append, Option.map_eq_some_iff] at h ⊢
      obtain ⟨y, hy, rfl⟩ := h
      exact ⟨y ++ b, ih y hy, by simp⟩
    | _ => simp [rawBytes] at h

theorem canon_of_raw (body : List Item) (x : Bytes) (h : rawBytes body = some x) :
    canon body = .raw x := by
  cases body with
  | nil => simp [rawBytes] at h; simp [canon, rawBytes, h]
  | cons i r =>
    cases i with
    | raw c => simp [canon, h]
    | _ => simp [rawBytes] at h

/-! ## ghost state and the invariant -/

/-- what the handler has done so far -/
structure Ghost where
  W : Bytes := []            -- bytes passed to Write
  ch : Option Nat := none    -- status chosen (none: nothing that fixes it has happened)
  F : List Bytes := []       -- W at each Flush
  wr : Bool := false         -- a Write call was made
  started : Bool := false    -- an op other than setLen happened
  late : Bool := false       -- a setLen happened after that

def Ghost.choose (g : Ghost) (c : Nat) : Ghost :=
  { g with ch := (match g.ch with | none => some c | some x => some x), started := true }

def Ghost.wrote (g : Ghost) (b : Bytes) : Ghost :=
  { g.choose 200 with W := g.W ++ b, wr := true }

def Ghost.flushed (g : Ghost) : Ghost :=
  { g.choose 200 with F := g.F ++ [g.W] }

def Ghost.setLen (g : Ghost) : Ghost := { g with late := g.late || g.started }

theorem Ghost.choose_eq_self (g : Ghost) (c x : Nat) (h : g.ch = some x) (hs : g.started = true) :
    g.choose c = g := by
  cases g; simp_all [Ghost.choose]

/-- status bookkeeping.  `r` is the underlying writer, `rc`/`rs` are `Response.Committed` /
    `Response.Status`, `wh`/`code` the delayed header of the gzipResponseWriter (`false`/`0`
    when the response writer is used directly) -/
structure InvStatus (g : Ghost) (r : Raw) (rc : Bool) (rs : Nat) (wh : Bool) (code : Nat) : Prop where
  none_ : g.ch = none → r.committed = false ∧ rc = false ∧ wh = false
  some_ : ∀ c, g.ch = some c →
    (r.committed = true → r.status = c) ∧
    (r.committed = false → wh = true ∧ code = c ∧ rc = true)
  st200 : rc = false → rs = 200
  startedC : rc = true → g.started = true

/-- the response writer is used directly (no gzip accepted) -/
structure InvPlain (g : Ghost) (r : Raw) : Prop where
  body : rawBytes r.body = some g.W
  hce : r.hdr.ce = false
  sce : r.committed = true → r.sent.ce = false
  snaps : r.snaps.map (fun b => lenient (canon b)) = g.F
  empty : g.wr = false → r.body = []

/-- gzipResponseWriter, still buffering -/
structure InvBuf (m : Nat) (g : Ghost) (r : Raw) (z : Gz) (w : Grw) : Prop where
  exc : w.exceeded = false
  buf : w.buffer = g.W
  body : r.body = []
  rc : r.committed = false
  hce : r.hdr.ce = false
  gz : z = { toRaw := true }
  snaps : r.snaps = []
  F : g.F = []
  wb : w.wroteBody = g.wr
  small : g.wr = true → g.W.length < m
  nil : g.wr = false → g.W = []

/-- gzipResponseWriter, compressing -/
structure InvGz (g : Ghost) (r : Raw) (z : Gz) (w : Grw) (items : List Item) : Prop where
  exc : w.exceeded = true
  wb : w.wroteBody = true
  rc : r.committed = true
  sce : r.sent.ce = true
  hce : r.hdr.ce = true
  body : r.body = .gzHeader :: items
  ds : onlyDS items = true
  data : dataOf items ++ z.pending = g.W
  gzr : z.toRaw = true
  gzh : z.wroteHeader = true
  gzc : z.closed = false
  snaps : r.snaps.map (fun b => lenient (canon b)) = g.F
  cl : g.late = false → r.sent.cl = none
  act : g.wr = true ∨ g.F ≠ []

inductive Inv (m : Nat) (g : Ghost) (s : St) : Prop where
  | plain (h : s.grw = none) (st : InvStatus g s.raw s.committed s.status false 0)
      (p : InvPlain g s.raw)
  | buf (w : Grw) (h : s.grw = some w) (hm : w.minLength = m)
      (st : InvStatus g s.raw s.committed s.status w.wroteHeader w.code)
      (cl : g.late = false → s.committed = true → s.raw.hdr.cl = none)
      (b : InvBuf m g s.raw s.gz w)
  | gz (w : Grw) (items : List Item) (h : s.grw = some w) (hm : w.minLength = m)
      (st : InvStatus g s.raw s.committed s.status w.wroteHeader w.code)
      (cl : g.late = false → s.committed = true → s.raw.hdr.cl = none)
      (z : InvGz g s.raw s.gz w items)

/-! ## the response writer and the gzip writer, step by step -/

theorem Raw.writeHeader_of_committed (r : Raw) (c : Nat) (h : r.committed = true) :
    r.writeHeader c = r := by simp [Raw.writeHeader, h]

theorem Raw.writeHeader_of_fresh (r : Raw) (c : Nat) (h : r.committed = false) :
    r.writeHeader c = { r with committed := true, status := c, sent := r.hdr } := by
  simp [Raw.writeHeader, h]

theorem Raw.write_of_committed (r : Raw) (it : Item) (h : r.committed = true) :
    r.write it = { r with body := r.body ++ [it] } := by
  simp [Raw.write, Raw.writeHeader, h]

theorem Raw.writeHeader_committed (r : Raw) (c : Nat) : (r.writeHeader c).committed = true := by
  unfold Raw.writeHeader; split <;> simp_all

theorem Raw.writeHeader_body (r : Raw) (c : Nat) : (r.writeHeader c).body = r.body := by
  unfold Raw.writeHeader; split <;> rfl

theorem Raw.writeHeader_snaps (r : Raw) (c : Nat) : (r.writeHeader c).snaps = r.snaps := by
  unfold Raw.writeHeader; split <;> rfl

theorem Raw.writeHeader_hdr (r : Raw) (c : Nat) : (r.writeHeader c).hdr = r.hdr := by
  unfold Raw.writeHeader; split <;> rfl

@[simp] theorem Ghost.choose_W (g : Ghost) (c : Nat) : (g.choose c).W = g.W := rfl
@[simp] theorem Ghost.choose_F (g : Ghost) (c : Nat) : (g.choose c).F = g.F := rfl
@[simp] theorem Ghost.choose_wr (g : Ghost) (c : Nat) : (g.choose c).wr = g.wr := rfl
@[simp] theorem Ghost.choose_late (g : Ghost) (c : Nat) : (g.choose c).late = g.late := rfl
@[simp] theorem Ghost.choose_started (g : Ghost) (c : Nat) : (g.choose c).started = true := rfl
theorem Ghost.choose_ch_none (g : Ghost) (c : Nat) (h : g.ch = none) : (g.choose c).ch = some c := by
  simp [Ghost.choose, h]
theorem Ghost.choose_ch_some (g : Ghost) (c x : Nat) (h : g.ch = some x) : (g.choose c).ch = some x := by
  simp [Ghost.choose, h]
theorem Ghost.choose_ch_ne (g : Ghost) (c : Nat) : (g.choose c).ch ≠ none := by
  cases h : g.ch <;> simp [Ghost.choose, h]

theorem committed_ch {g : Ghost} {r : Raw} {rc : Bool} {rs : Nat} {wh : Bool} {code : Nat}
    (st : InvStatus g r rc rs wh code) (hc : rc = true) : ∃ x, g.ch = some x := by
  cases h : g.ch with
  | none => have := (st.none_ h).2.1; simp_all
  | some x => exact ⟨x, rfl⟩

/-- the status part only looks at `ch` and `started` of the ghost -/
theorem InvStatus.ghost_congr {g g' : Ghost} {r : Raw} {rc : Bool} {rs : Nat} {wh : Bool} {code : Nat}
    (st : InvStatus g r rc rs wh code) (h1 : g'.ch = g.ch) (h2 : g'.started = g.started) :
    InvStatus g' r rc rs wh code :=
  ⟨fun h => st.none_ (h1 ▸ h), fun c h => st.some_ c (h1 ▸ h), st.st200, fun h => h2 ▸ st.startedC h⟩

/-- …and at `committed` / `status` of the writer -/
theorem InvStatus.raw_congr {g : Ghost} {r r' : Raw} {rc : Bool} {rs : Nat} {wh : Bool} {code : Nat}
    (st : InvStatus g r rc rs wh code) (h1 : r'.committed = r.committed) (h2 : r'.status = r.status) :
    InvStatus g r' rc rs wh code :=
  ⟨fun h => by rw [h1]; exact st.none_ h, fun c h => by rw [h1, h2]; exact st.some_ c h, st.st200, st.startedC⟩

/-- a committed writer whose status is the chosen one -/
theorem InvStatus.of_committed {g : Ghost} {r : Raw} {rc : Bool} {rs : Nat} {wh : Bool} {code : Nat}
    (hc : r.committed = true) (hne : g.ch ≠ none) (hs : ∀ c, g.ch = some c → r.status = c)
    (h200 : rc = false → rs = 200) (hst : rc = true → g.started = true) :
    InvStatus g r rc rs wh code :=
  ⟨fun h => absurd h hne, fun c h => ⟨fun _ => hs c h, fun h' => by simp [hc] at h'⟩, h200, hst⟩

/-- Response.WriteHeader reaching the response writer directly -/
theorem status_wh_plain {g : Ghost} {r : Raw} {rs : Nat} (c : Nat)
    (st : InvStatus g r false rs false 0) : InvStatus (g.choose c) (r.writeHeader c) true c false 0 := by
  apply InvStatus.of_committed (Raw.writeHeader_committed r c) (Ghost.choose_ch_ne g c)
  · intro x hx
    cases hg : g.ch with
    | none =>
      rw [Ghost.choose_ch_none g c hg] at hx
      cases hx
      simp [Raw.writeHeader_of_fresh _ _ (st.none_ hg).1]
    | some y =>
      rw [Ghost.choose_ch_some g c y hg] at hx
      cases hx
      have h2 := st.some_ _ hg
      by_cases hr : r.committed = true
      · simp [Raw.writeHeader_of_committed _ _ hr, h2.1 hr]
      · have hr' : r.committed = false := by simpa using hr
        have := (h2.2 hr').1
        simp at this
  · intro h; simp at h
  · intro _; rfl

/-- Response.WriteHeader reaching the gzipResponseWriter: the header is only recorded -/
theorem status_wh_grw {g : Ghost} {r r' : Raw} {rs : Nat} {wh : Bool} {code : Nat} (c : Nat)
    (st : InvStatus g r false rs wh code) (h1 : r'.committed = r.committed) (h2 : r'.status = r.status) :
    InvStatus (g.choose c) r' true c true c := by
  constructor
  · intro h; exact absurd h (Ghost.choose_ch_ne g c)
  · intro x hx
    rw [h1, h2]
    cases hg : g.ch with
    | none =>
      rw [Ghost.choose_ch_none g c hg] at hx
      cases hx
      have := (st.none_ hg).1
      simp [this]
    | some y =>
      rw [Ghost.choose_ch_some g c y hg] at hx
      cases hx
      have h2 := st.some_ _ hg
      refine ⟨h2.1, fun hr => ?_⟩
      have := (h2.2 hr).2.2
      simp at this
  · intro h; simp at h
  · intro _; rfl

theorem respWriteHeader_inv (m : Nat) (g : Ghost) (s : St) (c : Nat) (h : Inv m g s) :
    Inv m (g.choose c) (respWriteHeader s c) := by
  unfold respWriteHeader
  by_cases hc : s.committed = true
  · rw [if_pos hc]
    have : g.choose c = g := by
      cases h with
      | plain h st p =>
        obtain ⟨x, hx⟩ := committed_ch st hc
        exact Ghost.choose_eq_self g c x hx (st.startedC hc)
      | buf w h hm st cl b =>
        obtain ⟨x, hx⟩ := committed_ch st hc
        exact Ghost.choose_eq_self g c x hx (st.startedC hc)
      | gz w items h hm st cl z =>
        obtain ⟨x, hx⟩ := committed_ch st hc
        exact Ghost.choose_eq_self g c x hx (st.startedC hc)
    rw [this]; exact h
  · have hc' : s.committed = false := by simpa using hc
    rw [if_neg hc]
    cases h with
    | plain h st p =>
      simp only [writerWriteHeader, h]
      refine .plain rfl ?_ ?_
      · rw [hc'] at st; exact status_wh_plain c st
      · constructor
        · simpa [Raw.writeHeader_body] using p.body
        · simpa [Raw.writeHeader_hdr] using p.hce
        · intro _
          by_cases hr : s.raw.committed = true
          · simpa [Raw.writeHeader_of_committed _ _ hr] using p.sce hr
          · have hr' : s.raw.committed = false := by simpa using hr
            simpa [Raw.writeHeader_of_fresh _ _ hr'] using p.hce
        · simpa [Raw.writeHeader_snaps] using p.snaps
        · intro hw; simpa [Raw.writeHeader_body] using p.empty hw
    | buf w h hm st cl b =>
      simp only [writerWriteHeader, h, grwWriteHeader]
      refine .buf _ rfl hm ?_ (fun _ _ => rfl) ?_
      · rw [hc'] at st; exact status_wh_grw c st rfl rfl
      · exact ⟨b.exc, b.buf, b.body, b.rc, b.hce, b.gz, b.snaps, b.F, b.wb, b.small, b.nil⟩
    | gz w items h hm st cl z =>
      simp only [writerWriteHeader, h, grwWriteHeader]
      refine .gz _ items rfl hm ?_ (fun _ _ => rfl) ?_
      · rw [hc'] at st; exact status_wh_grw c st rfl rfl
      · exact ⟨z.exc, z.wb, z.rc, z.sce, z.hce, z.body, z.ds, z.data, z.gzr, z.gzh, z.gzc, z.snaps, z.cl, z.act⟩

theorem respWriteHeader_committed (s : St) (c : Nat) : (respWriteHeader s c).committed = true := by
  unfold respWriteHeader
  by_cases hc : s.committed = true
  · simp [hc]
  · simp [hc]

theorem Inv.status200 {m : Nat} {g : Ghost} {s : St} (h : Inv m g s) (hc : s.committed = false) :
    s.status = 200 := by
  cases h with
  | plain _ st _ => exact st.st200 hc
  | buf _ _ _ st _ _ => exact st.st200 hc
  | gz _ _ _ _ st _ _ => exact st.st200 hc

theorem Inv.choose_of_committed {m : Nat} {g : Ghost} {s : St} (h : Inv m g s) (hc : s.committed = true)
    (c : Nat) : g.choose c = g := by
  cases h with
  | plain h st p =>
    obtain ⟨x, hx⟩ := committed_ch st hc
    exact Ghost.choose_eq_self g c x hx (st.startedC hc)
  | buf w h hm st cl b =>
    obtain ⟨x, hx⟩ := committed_ch st hc
    exact Ghost.choose_eq_self g c x hx (st.startedC hc)
  | gz w items h hm st cl z =>
    obtain ⟨x, hx⟩ := committed_ch st hc
    exact Ghost.choose_eq_self g c x hx (st.startedC hc)

def Ghost.body (g : Ghost) (b : Bytes) : Ghost := { g with W := g.W ++ b, wr := true }

theorem Ghost.wrote_eq (g : Ghost) (b : Bytes) : g.wrote b = (g.choose 200).body b := rfl

/-- the write proper, once `Response.Write` has made sure the header call happened -/
def writerWrite (s : St) (b : Bytes) : St × Nat :=
  match s.grw with
  | some w => grwWrite s w b
  | none => ({ s with raw := s.raw.write (.raw b) }, b.length)

theorem writerWrite_inv (m : Nat) (g : Ghost) (s : St) (b : Bytes) (h : Inv m g s)
    (hc : s.committed = true) :
    Inv m (g.body b) (writerWrite s b).1 ∧ (writerWrite s b).2 = b.length := by
  cases h with
  | plain h st p =>
    simp only [writerWrite, h, and_true]
    obtain ⟨x, hx⟩ := committed_ch st hc
    have hr : s.raw.committed = true := by
      by_cases hr : s.raw.committed = true
      · exact hr
      · have := ((st.some_ x hx).2 (by simpa using hr)).1
        simp at this
    rw [Raw.write_of_committed _ _ hr]
    refine .plain rfl ?_ ?_
    · exact (st.ghost_congr (g' := g.body b) rfl rfl).raw_congr rfl rfl
    · exact ⟨rawBytes_append _ _ _ p.body, p.hce, p.sce, p.snaps, fun hw => by simp [Ghost.body] at hw⟩
  | buf w h hm st cl bf =>
    obtain ⟨x, hx⟩ := committed_ch st hc
    have hwh := (st.some_ x hx).2 bf.rc
    simp only [writerWrite, h, grwWrite, bf.exc, Bool.not_false, if_true]
    by_cases hge : (w.buffer ++ b).length ≥ w.minLength
    · -- the write that crosses the threshold
      simp only [hge, if_true, startGzip, hwh.1, gzWrite, gzHeaderIfNeeded, bf.gz, emit,
        List.foldl, Bool.false_eq_true, if_false, and_true]
      rw [Raw.writeHeader_of_fresh _ _ (by simpa using bf.rc)]
      rw [Raw.write_of_committed _ _ rfl]
      refine .gz _ [] rfl hm ?_ ?_ ?_
      · apply InvStatus.of_committed rfl
        · simp [Ghost.body, hx]
        · intro c hc'
          simp only [Ghost.body, hx, Option.some.injEq] at hc'
          simp [← hc', hwh.2.1]
        · intro h'; simp [hc] at h'
        · intro _; exact st.startedC hc
      · intro hl _; exact cl hl hc
      · refine ⟨rfl, rfl, rfl, rfl, rfl, ?_, rfl, ?_, rfl, rfl, rfl, ?_, ?_, Or.inl rfl⟩
        · simp [bf.body]
        · simp [dataOf, bf.buf, Ghost.body]
        · simp [bf.snaps, Ghost.body, bf.F]
        · intro hl; exact cl hl hc
    · -- still below the threshold
      simp only [hge, if_false, and_true]
      refine .buf _ rfl hm ?_ cl ?_
      · exact st.ghost_congr (g' := g.body b) rfl rfl
      · refine ⟨rfl, ?_, bf.body, bf.rc, bf.hce, bf.gz, bf.snaps, bf.F, rfl, ?_, ?_⟩
        · simp [bf.buf, Ghost.body]
        · intro _
          simp only [Ghost.body]
          rw [← bf.buf, ← hm]
          omega
        · intro hw; simp [Ghost.body] at hw
  | gz w items h hm st cl z =>
    simp only [writerWrite, h, grwWrite, z.exc, Bool.not_true, Bool.false_eq_true, if_false,
      gzWrite, gzHeaderIfNeeded, z.gzh, if_true, and_true]
    refine .gz _ items rfl hm ?_ cl ?_
    · exact st.ghost_congr (g' := g.body b) rfl rfl
    · refine ⟨rfl, rfl, z.rc, z.sce, z.hce, z.body, z.ds, ?_, z.gzr, rfl, z.gzc, z.snaps, z.cl, Or.inl rfl⟩
      simp [Ghost.body, ← z.data]

theorem respWrite_eq (s : St) (b : Bytes) :
    respWrite s b = writerWrite (if s.committed then s else respWriteHeader s (if s.status == 0 then 200 else s.status)) b := by
  unfold respWrite writerWrite
  rfl

theorem respWrite_inv (m : Nat) (g : Ghost) (s : St) (b : Bytes) (h : Inv m g s) :
    Inv m (g.wrote b) (respWrite s b).1 ∧ (respWrite s b).2 = b.length := by
  rw [respWrite_eq, Ghost.wrote_eq]
  by_cases hc : s.committed = true
  · rw [if_pos hc]
    rw [h.choose_of_committed hc]
    exact writerWrite_inv m g s b h hc
  · have hc' : s.committed = false := by simpa using hc
    rw [if_neg hc, h.status200 hc']
    exact writerWrite_inv m _ _ b (respWriteHeader_inv m g s 200 h) (respWriteHeader_committed s 200)

theorem Raw.write_of_fresh (r : Raw) (it : Item) (h : r.committed = false) :
    r.write it = { r with committed := true, status := 200, sent := r.hdr, body := r.body ++ [it] } := by
  simp [Raw.write, Raw.writeHeader, h]

theorem Raw.flush_of_committed (r : Raw) (h : r.committed = true) :
    r.flush = { r with snaps := r.snaps ++ [r.body] } := by
  simp [Raw.flush, Raw.writeHeader, h]

/-- status after an operation that certainly commits the writer (a Flush) -/
theorem status_after_flush {g : Ghost} {r r' : Raw} {rc : Bool} {rs : Nat} {wh : Bool} {code : Nat}
    (st : InvStatus g r rc rs wh code) (g' : Ghost) (hch : g'.ch = (g.choose 200).ch) (hst : g'.started = true)
    (hc : r'.committed = true)
    (h1 : r.committed = true → r'.status = r.status)
    (h2 : r.committed = false → wh = false → r'.status = 200)
    (h3 : r.committed = false → wh = true → r'.status = code) :
    InvStatus g' r' rc rs wh code := by
  apply InvStatus.of_committed hc
  · rw [hch]; exact Ghost.choose_ch_ne g 200
  · intro c hc'
    rw [hch] at hc'
    cases hg : g.ch with
    | none =>
      rw [Ghost.choose_ch_none g 200 hg] at hc'
      cases hc'
      have := st.none_ hg
      exact h2 this.1 this.2.2
    | some y =>
      rw [Ghost.choose_ch_some g 200 y hg] at hc'
      cases hc'
      have := st.some_ _ hg
      by_cases hr : r.committed = true
      · rw [h1 hr]; exact this.1 hr
      · have hr' : r.committed = false := by simpa using hr
        have h4 := this.2 hr'
        rw [h3 hr' h4.1]; exact h4.2.1
  · exact st.st200
  · intro _; exact hst

theorem writerFlush_inv (m : Nat) (g : Ghost) (s : St) (h : Inv m g s) :
    Inv m g.flushed (writerFlush s) := by
  cases h with
  | plain h st p =>
    simp only [writerFlush, h]
    refine .plain rfl ?_ ?_
    · refine status_after_flush st g.flushed rfl rfl ?_ ?_ ?_ ?_
      · simp [Raw.flush, Raw.writeHeader_committed]
      · intro hr; simp [Raw.flush, Raw.writeHeader_of_committed _ _ hr]
      · intro hr _; simp [Raw.flush, Raw.writeHeader_of_fresh _ _ hr]
      · intro _ hw; simp at hw
    · constructor
      · simpa [Raw.flush, Raw.writeHeader_body, Ghost.flushed] using p.body
      · simpa [Raw.flush, Raw.writeHeader_hdr] using p.hce
      · intro _
        by_cases hr : s.raw.committed = true
        · simpa [Raw.flush, Raw.writeHeader_of_committed _ _ hr] using p.sce hr
        · have hr' : s.raw.committed = false := by simpa using hr
          simpa [Raw.flush, Raw.writeHeader_of_fresh _ _ hr'] using p.hce
      · have hb : lenient (canon s.raw.body) = g.W := by rw [canon_of_raw _ _ p.body]; rfl
        simp only [Raw.flush, Raw.writeHeader_snaps, Raw.writeHeader_body, List.map_append, p.snaps,
          List.map_cons, List.map_nil, hb]
        rfl
      · intro hw
        simpa [Raw.flush, Raw.writeHeader_body] using p.empty (by simpa [Ghost.flushed] using hw)
  | buf w h hm st cl bf =>
    have hsnap : lenient (canon [.gzHeader, .gzData w.buffer, .gzSync]) = g.W := by
      simp [canon, gunzipItems, lenient, bf.buf]
    by_cases hwh : w.wroteHeader = true
    · simp only [writerFlush, h, grwFlush, bf.exc, Bool.not_false, if_true, startGzip, gzWrite,
        gzHeaderIfNeeded, bf.gz, emit, List.foldl, Bool.false_eq_true, if_false, gzFlush,
        Raw.write, Raw.writeHeader, Raw.flush, bf.rc, bf.body, bf.snaps, hwh, List.nil_append,
        List.cons_append]
      refine .gz _ [.gzData w.buffer, .gzSync] rfl hm ?_ (fun _ _ => rfl) ?_
      · have st' := st
        rw [hwh] at st'
        refine status_after_flush st' g.flushed rfl rfl ?_ ?_ ?_ ?_
        · rfl
        · intro hr; rw [bf.rc] at hr; exact Bool.noConfusion hr
        · intro _ hw; exact Bool.noConfusion hw
        · intro _ _; rfl
      · refine ⟨rfl, rfl, rfl, rfl, rfl, rfl, rfl, ?_, rfl, rfl, rfl, ?_, fun _ => rfl, Or.inr ?_⟩
        · simp [dataOf, bf.buf, Ghost.flushed]
        · simp only [List.map_cons, List.map_nil, hsnap, Ghost.flushed, bf.F, Ghost.choose_W]
          rfl
        · simp [Ghost.flushed]
    · have hwh' : w.wroteHeader = false := by simpa using hwh
      simp only [writerFlush, h, grwFlush, bf.exc, Bool.not_false, if_true, startGzip, gzWrite,
        gzHeaderIfNeeded, bf.gz, emit, List.foldl, Bool.false_eq_true, if_false, gzFlush,
        Raw.write, Raw.writeHeader, Raw.flush, bf.rc, bf.body, bf.snaps, hwh', List.nil_append,
        List.cons_append]
      refine .gz _ [.gzData w.buffer, .gzSync] rfl hm ?_ (fun _ _ => rfl) ?_
      · have st' := st
        rw [hwh'] at st'
        refine status_after_flush st' g.flushed rfl rfl ?_ ?_ ?_ ?_
        · rfl
        · intro hr; rw [bf.rc] at hr; exact Bool.noConfusion hr
        · intro _ _; rfl
        · intro _ hw; exact Bool.noConfusion hw
      · refine ⟨rfl, rfl, rfl, rfl, rfl, rfl, rfl, ?_, rfl, rfl, rfl, ?_, fun _ => rfl, Or.inr ?_⟩
        · simp [dataOf, bf.buf, Ghost.flushed]
        · simp only [List.map_cons, List.map_nil, hsnap, Ghost.flushed, bf.F, Ghost.choose_W]
          rfl
        · simp [Ghost.flushed]
  | gz w items h hm st cl z =>
    have hds : onlyDS (items ++ [.gzData s.gz.pending, .gzSync]) = true := by
      simp [onlyDS_append, z.ds, onlyDS]
    simp only [writerFlush, h, grwFlush, z.exc, Bool.not_true, Bool.false_eq_true, if_false, gzFlush,
      z.gzc, gzHeaderIfNeeded, z.gzh, if_true, emit, z.gzr, List.foldl,
      Raw.write, Raw.writeHeader, Raw.flush, z.rc, z.body]
    have hbody : (Item.gzHeader :: items ++ [.gzData s.gz.pending]) ++ [.gzSync]
        = .gzHeader :: (items ++ [.gzData s.gz.pending, .gzSync]) := by simp
    rw [hbody]
    refine .gz _ (items ++ [.gzData s.gz.pending, .gzSync]) rfl hm ?_ cl ?_
    · refine status_after_flush st g.flushed rfl rfl ?_ ?_ ?_ ?_
      · rfl
      · intro _; rfl
      · intro hr; rw [z.rc] at hr; exact Bool.noConfusion hr
      · intro hr; rw [z.rc] at hr; exact Bool.noConfusion hr
    · refine ⟨z.exc, z.wb, rfl, z.sce, z.hce, rfl, hds, ?_, rfl, rfl, rfl, ?_, z.cl, Or.inr ?_⟩
      · simp [dataOf_append, dataOf, ← z.data, Ghost.flushed]
      · simp only [List.map_append, z.snaps, Ghost.flushed, Ghost.choose_W,
          List.map_cons, List.map_nil]
        rw [canon_open _ hds]
        simp [lenient, dataOf_append, dataOf, ← z.data]
      · simp [Ghost.flushed]

theorem Ghost.choose_flushed (g : Ghost) (c : Nat) : (g.choose c).flushed = { g.choose c with F := g.F ++ [g.W] } := by
  cases hg : g.ch <;> simp [Ghost.flushed, Ghost.choose, hg]

/-- `Response.Flush`: commit (if that has not happened yet), then flush -/
theorem respFlush_inv (m : Nat) (g : Ghost) (s : St) (h : Inv m g s) :
    Inv m g.flushed (respFlush s) := by
  unfold respFlush
  by_cases hc : s.committed = true
  · simp only [hc, if_true]
    exact writerFlush_inv m g s h
  · have hc' : s.committed = false := by simpa using hc
    simp only [hc', Bool.false_eq_true, if_false, h.status200 hc']
    have h1 := writerFlush_inv m _ _ (respWriteHeader_inv m g s 200 h)
    have : (g.choose 200).flushed = g.flushed := by
      rw [Ghost.choose_flushed]; rfl
    rw [this] at h1
    exact h1

/-! ## ghost run of a program -/

def nonEmpty (c : Bytes) : Bool := !c.isEmpty

def Ghost.step (g : Ghost) : Op → Ghost
  | .setLen _ => g.setLen
  | .writeHeader c => g.choose c
  | .write b => g.wrote b
  | .flush => g.flushed
  | .stream c cs _ => (cs.filter (fun c => !c.isEmpty)).foldl Ghost.wrote (g.choose c)
  | .streamWT c d => if d.isEmpty then g.choose c else (g.choose c).wrote d

def Ghost.run (g : Ghost) : List Op → Ghost
  | [] => g
  | op :: ops => (g.step op).run ops

theorem setLen_inv (m : Nat) (g : Ghost) (s : St) (n : Nat) (h : Inv m g s) :
    Inv m g.setLen { s with raw := { s.raw with hdr := { s.raw.hdr with cl := some n } } } := by
  have hlate : g.setLen.late = false → g.late = false ∧ g.started = false := by
    intro hl; simpa [Ghost.setLen] using hl
  cases h with
  | plain h st p =>
    exact .plain h ((st.ghost_congr (g' := g.setLen) rfl rfl).raw_congr rfl rfl)
      ⟨p.body, p.hce, p.sce, p.snaps, p.empty⟩
  | buf w h hm st cl b =>
    refine .buf w h hm ((st.ghost_congr (g' := g.setLen) rfl rfl).raw_congr rfl rfl) ?_
      ⟨b.exc, b.buf, b.body, b.rc, b.hce, b.gz, b.snaps, b.F, b.wb, b.small, b.nil⟩
    intro hl hc
    have := st.startedC hc
    rw [(hlate hl).2] at this
    exact Bool.noConfusion this
  | gz w items h hm st cl z =>
    refine .gz w items h hm ((st.ghost_congr (g' := g.setLen) rfl rfl).raw_congr rfl rfl) ?_
      ⟨z.exc, z.wb, z.rc, z.sce, z.hce, z.body, z.ds, z.data, z.gzr, z.gzh, z.gzc, z.snaps,
        fun hl => z.cl (hlate hl).1, z.act⟩
    intro hl hc
    have := st.startedC hc
    rw [(hlate hl).2] at this
    exact Bool.noConfusion this

theorem copyChunks_inv (m : Nat) (cs : List Bytes) : ∀ (g : Ghost) (s : St), Inv m g s →
    Inv m (cs.foldl Ghost.wrote g) (copyChunks s cs).1 ∧
    (copyChunks s cs).2 = (cs.map List.length, 0) := by
  induction cs with
  | nil => intro g s h; exact ⟨h, rfl⟩
  | cons c cs ih =>
    intro g s h
    obtain ⟨h1, h2⟩ := respWrite_inv m g s c h
    obtain ⟨h3, h4⟩ := ih (g.wrote c) (respWrite s c).1 h1
    simp only [copyChunks, h2, bne_self_eq_false, Bool.false_eq_true, if_false, List.foldl_cons,
      List.map_cons]
    exact ⟨h3, by simp [h4]⟩

theorem step_inv (m : Nat) (g : Ghost) (s : St) (op : Op) (h : Inv m g s) :
    Inv m (g.step op) (step s op).1 ∧ (step s op).2 = expectedRet op := by
  cases op with
  | setLen n => exact ⟨setLen_inv m g s n h, rfl⟩
  | writeHeader c => exact ⟨respWriteHeader_inv m g s c h, rfl⟩
  | write b =>
    obtain ⟨h1, h2⟩ := respWrite_inv m g s b h
    exact ⟨h1, by simp [step, h2, expectedRet]⟩
  | flush => exact ⟨respFlush_inv m g s h, rfl⟩
  | stream c cs fl =>
    obtain ⟨h1, h2⟩ := copyChunks_inv m (cs.filter (fun c => !c.isEmpty)) (g.choose c) _
      (respWriteHeader_inv m g s c h)
    simp only [step, Ghost.step, expectedRet]
    exact ⟨h1, by simp [h2]⟩
  | streamWT c d =>
    by_cases hd : d.isEmpty = true
    · simp only [step, Ghost.step, hd, if_true, expectedRet]
      exact ⟨respWriteHeader_inv m g s c h, trivial⟩
    · obtain ⟨h1, h2⟩ := respWrite_inv m (g.choose c) _ d (respWriteHeader_inv m g s c h)
      simp only [step, Ghost.step, hd, Bool.false_eq_true, if_false, expectedRet, h2]
      refine ⟨h1, ?_⟩
      simp

theorem runProg_inv (m : Nat) (ops : List Op) : ∀ (g : Ghost) (s : St), Inv m g s →
    Inv m (g.run ops) (runProg s ops).1 ∧ (runProg s ops).2 = ops.map expectedRet := by
  induction ops with
  | nil => intro g s h; exact ⟨h, rfl⟩
  | cons op ops ih =>
    intro g s h
    obtain ⟨h1, h2⟩ := step_inv m g s op h
    obtain ⟨h3, h4⟩ := ih _ _ h1
    simp only [runProg, Ghost.run, List.map_cons]
    exact ⟨h3, by rw [h2, h4]⟩


/-! ## what the ghost run computes -/

@[simp] theorem Ghost.wrote_W (g : Ghost) (b : Bytes) : (g.wrote b).W = g.W ++ b := rfl
@[simp] theorem Ghost.wrote_F (g : Ghost) (b : Bytes) : (g.wrote b).F = g.F := rfl
@[simp] theorem Ghost.wrote_wr (g : Ghost) (b : Bytes) : (g.wrote b).wr = true := rfl
@[simp] theorem Ghost.wrote_late (g : Ghost) (b : Bytes) : (g.wrote b).late = g.late := rfl
@[simp] theorem Ghost.wrote_started (g : Ghost) (b : Bytes) : (g.wrote b).started = true := rfl
theorem Ghost.wrote_ch (g : Ghost) (b : Bytes) : (g.wrote b).ch = (g.choose 200).ch := rfl
@[simp] theorem Ghost.flushed_W (g : Ghost) : g.flushed.W = g.W := rfl
@[simp] theorem Ghost.flushed_F (g : Ghost) : g.flushed.F = g.F ++ [g.W] := rfl
@[simp] theorem Ghost.flushed_wr (g : Ghost) : g.flushed.wr = g.wr := rfl
@[simp] theorem Ghost.flushed_late (g : Ghost) : g.flushed.late = g.late := rfl
@[simp] theorem Ghost.flushed_started (g : Ghost) : g.flushed.started = true := rfl
theorem Ghost.flushed_ch (g : Ghost) : g.flushed.ch = (g.choose 200).ch := rfl

theorem concatAll_filter (cs : List Bytes) :
    concatAll (cs.filter (fun c => !c.isEmpty)) = concatAll cs := by
  induction cs with
  | nil => rfl
  | cons c cs ih =>
    cases c with
    | nil => simp [List.filter, concatAll, ih]
    | cons x xs => simp [List.filter, concatAll, ih]

theorem fold_W (cs : List Bytes) : ∀ g : Ghost, (cs.foldl Ghost.wrote g).W = g.W ++ concatAll cs := by
  induction cs with
  | nil => intro g; simp [concatAll]
  | cons c cs ih => intro g; simp [ih, concatAll]

theorem fold_F (cs : List Bytes) : ∀ g : Ghost, (cs.foldl Ghost.wrote g).F = g.F := by
  induction cs with
  | nil => intro g; rfl
  | cons c cs ih => intro g; simp [ih]

theorem fold_late (cs : List Bytes) : ∀ g : Ghost, (cs.foldl Ghost.wrote g).late = g.late := by
  induction cs with
  | nil => intro g; rfl
  | cons c cs ih => intro g; simp [ih]

theorem fold_wr (cs : List Bytes) : ∀ g : Ghost, (cs.foldl Ghost.wrote g).wr = (g.wr || !cs.isEmpty) := by
  induction cs with
  | nil => intro g; simp
  | cons c cs ih => intro g; simp [ih]

theorem fold_started (cs : List Bytes) : ∀ g : Ghost, g.started = true →
    (cs.foldl Ghost.wrote g).started = true := by
  induction cs with
  | nil => intro g h; exact h
  | cons c cs ih => intro g _; exact ih _ rfl

theorem fold_ch (cs : List Bytes) : ∀ (g : Ghost) (x : Nat), g.ch = some x →
    (cs.foldl Ghost.wrote g).ch = some x := by
  induction cs with
  | nil => intro g x h; exact h
  | cons c cs ih =>
    intro g x h
    exact ih _ x (by rw [Ghost.wrote_ch, Ghost.choose_ch_some g 200 x h])

theorem step_W (g : Ghost) (op : Op) : (g.step op).W = g.W ++ op.bytes := by
  cases op with
  | stream c cs fl => simp [Ghost.step, fold_W, concatAll_filter, Op.bytes]
  | streamWT c d =>
    cases d with
    | nil => simp [Ghost.step, Op.bytes]
    | cons x xs => simp [Ghost.step, Op.bytes]
  | _ => simp [Ghost.step, Op.bytes, Ghost.setLen]

theorem run_W (ops : List Op) : ∀ g : Ghost, (g.run ops).W = g.W ++ written ops := by
  induction ops with
  | nil => intro g; simp [Ghost.run, written]
  | cons op ops ih => intro g; simp [Ghost.run, written, ih, step_W]

theorem step_F (g : Ghost) (op : Op) (h : op ≠ .flush) : (g.step op).F = g.F := by
  cases op with
  | flush => exact absurd rfl h
  | stream c cs fl => simp [Ghost.step, fold_F]
  | streamWT c d =>
    cases d with
    | nil => simp [Ghost.step]
    | cons x xs => simp [Ghost.step]
  | _ => simp [Ghost.step, Ghost.setLen]

theorem run_F (ops : List Op) : ∀ g : Ghost, (g.run ops).F = g.F ++ flushPoints g.W ops := by
  induction ops with
  | nil => intro g; simp [Ghost.run, flushPoints]
  | cons op ops ih =>
    intro g
    by_cases hf : op = .flush
    · subst hf; simp [Ghost.run, flushPoints, ih, Ghost.step]
    · rw [Ghost.run, ih, step_F g op hf, step_W]
      cases op <;> first | exact absurd rfl hf | rfl

theorem step_ch_some (g : Ghost) (op : Op) (x : Nat) (h : g.ch = some x) : (g.step op).ch = some x := by
  cases op with
  | setLen n => exact h
  | writeHeader c => exact Ghost.choose_ch_some g c x h
  | write b => rw [Ghost.step, Ghost.wrote_ch]; exact Ghost.choose_ch_some g 200 x h
  | flush => rw [Ghost.step, Ghost.flushed_ch]; exact Ghost.choose_ch_some g 200 x h
  | stream c cs fl => exact fold_ch _ _ x (Ghost.choose_ch_some g c x h)
  | streamWT c d =>
    simp only [Ghost.step]
    split
    · exact Ghost.choose_ch_some g c x h
    · rw [Ghost.wrote_ch]; exact Ghost.choose_ch_some _ 200 x (Ghost.choose_ch_some g c x h)

theorem run_ch_some (ops : List Op) : ∀ (g : Ghost) (x : Nat), g.ch = some x → (g.run ops).ch = some x := by
  induction ops with
  | nil => intro g x h; exact h
  | cons op ops ih => intro g x h; exact ih _ x (step_ch_some g op x h)

theorem run_ch_none (ops : List Op) : ∀ g : Ghost, g.ch = none → (g.run ops).ch.getD 200 = chosen ops := by
  induction ops with
  | nil => intro g h; simp [Ghost.run, h, chosen]
  | cons op ops ih =>
    intro g h
    cases op with
    | setLen n => exact ih _ h
    | writeHeader c =>
      simp [Ghost.run, chosen, run_ch_some ops _ c (by exact Ghost.choose_ch_none g c h : (g.step (.writeHeader c)).ch = some c)]
    | write b =>
      have : (g.step (.write b)).ch = some 200 := by
        rw [Ghost.step, Ghost.wrote_ch]; exact Ghost.choose_ch_none g 200 h
      simp [Ghost.run, chosen, run_ch_some ops _ 200 this]
    | flush =>
      have : (g.step .flush).ch = some 200 := by
        rw [Ghost.step, Ghost.flushed_ch]; exact Ghost.choose_ch_none g 200 h
      simp [Ghost.run, chosen, run_ch_some ops _ 200 this]
    | stream c cs fl =>
      have : (g.step (.stream c cs fl)).ch = some c := fold_ch _ _ c (Ghost.choose_ch_none g c h)
      simp [Ghost.run, chosen, run_ch_some ops _ c this]
    | streamWT c d =>
      have : (g.step (.streamWT c d)).ch = some c := by
        simp only [Ghost.step]
        split
        · exact Ghost.choose_ch_none g c h
        · rw [Ghost.wrote_ch]; exact Ghost.choose_ch_some _ 200 c (Ghost.choose_ch_none g c h)
      simp [Ghost.run, chosen, run_ch_some ops _ c this]

theorem any_nonEmpty (cs : List Bytes) :
    (!(cs.filter (fun c => !c.isEmpty)).isEmpty) = cs.any (fun c => !c.isEmpty) := by
  induction cs with
  | nil => rfl
  | cons c cs ih =>
    cases c with
    | nil => simpa [List.filter] using ih
    | cons x xs => simp [List.filter]

theorem step_wr (g : Ghost) (op : Op) : (g.step op).wr = (g.wr || op.makesWrite) := by
  cases op with
  | stream c cs fl => simp [Ghost.step, fold_wr, Op.makesWrite, any_nonEmpty]
  | streamWT c d =>
    cases d with
    | nil => simp [Ghost.step, Op.makesWrite]
    | cons x xs => simp [Ghost.step, Op.makesWrite]
  | _ => simp [Ghost.step, Op.makesWrite, Ghost.setLen]

theorem run_wr (ops : List Op) : ∀ g : Ghost, (g.run ops).wr = (g.wr || ops.any Op.makesWrite) := by
  induction ops with
  | nil => intro g; simp [Ghost.run]
  | cons op ops ih => intro g; simp [Ghost.run, ih, step_wr, Bool.or_assoc]

/-- no `setLen` in the list -/
def noSetLen (ops : List Op) : Bool := ops.all (fun op => match op with | .setLen _ => false | _ => true)

theorem step_late_started (g : Ghost) (op : Op) (h : ∀ n, op ≠ .setLen n) :
    (g.step op).late = g.late ∧ (g.step op).started = true := by
  cases op with
  | setLen n => exact absurd rfl (h n)
  | stream c cs fl => exact ⟨by simp [Ghost.step, fold_late], fold_started _ _ rfl⟩
  | streamWT c d =>
    cases d with
    | nil => simp [Ghost.step]
    | cons x xs => simp [Ghost.step]
  | _ => simp [Ghost.step]

theorem run_late_started (ops : List Op) : ∀ g : Ghost, g.started = true → noSetLen ops = true →
    (g.run ops).late = g.late := by
  induction ops with
  | nil => intro g _ _; rfl
  | cons op ops ih =>
    intro g hs hn
    simp only [noSetLen, List.all_cons, Bool.and_eq_true] at hn
    have hop : ∀ n, op ≠ .setLen n := by
      intro n hn'; rw [hn'] at hn; simp at hn
    obtain ⟨h1, h2⟩ := step_late_started g op hop
    rw [Ghost.run, ih _ h2 hn.2, h1]

theorem run_late (ops : List Op) : ∀ g : Ghost, g.started = false → g.late = false →
    headersFirst ops = true → (g.run ops).late = false := by
  induction ops with
  | nil => intro g _ hl _; exact hl
  | cons op ops ih =>
    intro g hs hl hh
    cases op with
    | setLen n =>
      exact ih g.setLen hs (by simp [Ghost.setLen, hs, hl]) hh
    | writeHeader c =>
      obtain ⟨h1, h2⟩ := step_late_started g (.writeHeader c) (by intro n; simp)
      rw [Ghost.run, run_late_started ops _ h2 hh, h1, hl]
    | write b =>
      obtain ⟨h1, h2⟩ := step_late_started g (.write b) (by intro n; simp)
      rw [Ghost.run, run_late_started ops _ h2 hh, h1, hl]
    | flush =>
      obtain ⟨h1, h2⟩ := step_late_started g .flush (by intro n; simp)
      rw [Ghost.run, run_late_started ops _ h2 hh, h1, hl]
    | stream c cs fl =>
      obtain ⟨h1, h2⟩ := step_late_started g (.stream c cs fl) (by intro n; simp)
      rw [Ghost.run, run_late_started ops _ h2 hh, h1, hl]
    | streamWT c d =>
      obtain ⟨h1, h2⟩ := step_late_started g (.streamWT c d) (by intro n; simp)
      rw [Ghost.run, run_late_started ops _ h2 hh, h1, hl]

/-- a Write fixes the status -/
def Ghost.ok (g : Ghost) : Prop := g.wr = true → g.ch ≠ none

theorem step_ok (g : Ghost) (op : Op) (h : g.ok) : (g.step op).ok := by
  intro hw
  cases op with
  | setLen n => exact h hw
  | writeHeader c => exact Ghost.choose_ch_ne g c
  | write b => rw [Ghost.step, Ghost.wrote_ch]; exact Ghost.choose_ch_ne g 200
  | flush => rw [Ghost.step, Ghost.flushed_ch]; exact Ghost.choose_ch_ne g 200
  | stream c cs fl =>
    cases hc : (g.choose c).ch with
    | none => exact absurd hc (Ghost.choose_ch_ne g c)
    | some x => simp [Ghost.step, fold_ch _ _ x hc]
  | streamWT c d =>
    cases hc : (g.choose c).ch with
    | none => exact absurd hc (Ghost.choose_ch_ne g c)
    | some x =>
      simp only [Ghost.step]
      split
      · simp [hc]
      · rw [Ghost.wrote_ch, Ghost.choose_ch_some _ 200 x hc]; simp

theorem run_ok (ops : List Op) : ∀ g : Ghost, g.ok → (g.run ops).ok := by
  induction ops with
  | nil => intro g h; exact h
  | cons op ops ih => intro g h; exact ih _ (step_ok g op h)


/-! ## the end of the request -/

/-- what is claimed about the response as it went over the wire (`R`), relative to what the
    handler did (`g`) -/
structure Final (g : Ghost) (R : Raw) : Prop where
  decode : clientDecode R = some g.W
  status : R.status = g.ch.getD 200
  ce_gz : R.sent.ce = true ↔ isGzipStream R.body
  cl : g.late = false → R.sent.ce = true → R.sent.cl = none
  empty : g.wr = false → g.F = [] → R.body = []
  snaps : R.snaps.map (fun b => lenient (canon b)) = g.F

theorem not_gzip_of_raw (body : List Item) (x : Bytes) (h : rawBytes body = some x) :
    ¬ isGzipStream body := by
  rintro ⟨d, hd⟩
  rw [canon_of_raw body x h] at hd
  exact Canon.noConfusion hd

theorem final_plain {m : Nat} {g : Ghost} {s : St} (h : Inv m g s) (hn : s.grw = none) :
    Final g (s.raw.writeHeader 200) := by
  cases h with
  | buf w h' _ _ _ _ => rw [hn] at h'; cases h'
  | gz w _ h' _ _ _ _ => rw [hn] at h'; cases h'
  | plain _ st p =>
    have hce : (s.raw.writeHeader 200).sent.ce = false := by
      by_cases hr : s.raw.committed = true
      · rw [Raw.writeHeader_of_committed _ _ hr]; exact p.sce hr
      · rw [Raw.writeHeader_of_fresh _ _ (by simpa using hr)]; exact p.hce
    constructor
    · simp [clientDecode, hce, Raw.writeHeader_body, p.body]
    · cases hg : g.ch with
      | none => simp [Raw.writeHeader_of_fresh _ _ (st.none_ hg).1]
      | some c =>
        have h2 := st.some_ c hg
        have hr : s.raw.committed = true := by
          by_cases hr : s.raw.committed = true
          · exact hr
          · have := (h2.2 (by simpa using hr)).1
            simp at this
        simp [Raw.writeHeader_of_committed _ _ hr, h2.1 hr]
    · rw [hce, Raw.writeHeader_body]
      exact ⟨fun h => Bool.noConfusion h, fun h => absurd h (not_gzip_of_raw _ _ p.body)⟩
    · intro _ h; rw [hce] at h; exact Bool.noConfusion h
    · intro hw _; rw [Raw.writeHeader_body]; exact p.empty hw
    · rw [Raw.writeHeader_snaps]; exact p.snaps

theorem final_gzip {m : Nat} {g : Ghost} {s : St} {w : Grw} (h : Inv m g s) (hw : s.grw = some w)
    (ok : g.ok) : Final g ((finalise s w).1.raw.writeHeader 200) := by
  cases h with
  | plain h' _ _ => rw [hw] at h'; cases h'
  | buf w' h' hm st cl bf =>
    rw [hw] at h'; cases h'
    by_cases hwb : w.wroteBody = true
    · -- something was written, but less than MinLength: sent as it is
      have hwr : g.wr = true := by rw [← bf.wb]; exact hwb
      obtain ⟨c, hc⟩ : ∃ c, g.ch = some c := by
        cases hg : g.ch with
        | none => exact absurd hg (ok hwr)
        | some c => exact ⟨c, rfl⟩
      have h2 := (st.some_ c hc).2 bf.rc
      by_cases hb : w.buffer.isEmpty = true
      · simp only [finalise, hwb, Bool.not_true, Bool.false_eq_true, if_false, bf.exc, Bool.not_false,
          if_true, h2.1, hb, Gz.reset, gzClose, gzHeaderIfNeeded, emit, Raw.writeHeader, bf.rc,
          Bool.and_self]
        have hW : g.W = [] := by rw [← bf.buf]; simpa using hb
        refine ⟨?_, ?_, ?_, ?_, ?_, ?_⟩
        · simp [clientDecode, bf.hce, bf.body, rawBytes, hW]
        · simp [hc, h2.2.1]
        · simp only [bf.hce, bf.body]
          exact ⟨fun h => Bool.noConfusion h, fun h => absurd h (not_gzip_of_raw [] [] rfl)⟩
        · intro _ h; simp [bf.hce] at h
        · intro hw'; rw [hwr] at hw'; exact Bool.noConfusion hw'
        · simp [bf.snaps, bf.F]
      · have hb' : w.buffer.isEmpty = false := by simpa using hb
        simp only [finalise, hwb, Bool.not_true, Bool.false_eq_true, if_false, bf.exc, Bool.not_false,
          if_true, h2.1, hb', Gz.reset, gzClose, gzHeaderIfNeeded, emit, Raw.writeHeader, Raw.write,
          bf.rc, Bool.and_self]
        refine ⟨?_, ?_, ?_, ?_, ?_, ?_⟩
        · simp [clientDecode, bf.hce, bf.body, rawBytes, bf.buf]
        · simp [hc, h2.2.1]
        · simp only [bf.hce, bf.body]
          exact ⟨fun h => Bool.noConfusion h,
            fun h => absurd h (not_gzip_of_raw _ w.buffer (by simp [rawBytes]))⟩
        · intro _ h; simp [bf.hce] at h
        · intro hw'; rw [hwr] at hw'; exact Bool.noConfusion hw'
        · simp [bf.snaps, bf.F]
    · -- no Write and no Flush: only the status (if any) goes out
      have hwb' : w.wroteBody = false := by simpa using hwb
      have hwr : g.wr = false := by rw [← bf.wb]; exact hwb'
      by_cases hwh : w.wroteHeader = true
      · obtain ⟨c, hc⟩ : ∃ c, g.ch = some c := by
          cases hg : g.ch with
          | none => have := (st.none_ hg).2.2; rw [hwh] at this; exact Bool.noConfusion this
          | some c => exact ⟨c, rfl⟩
        have h2 := (st.some_ c hc).2 bf.rc
        simp only [finalise, hwb', Bool.not_false, if_true, bf.hce, Bool.false_eq_true, if_false, hwh,
          Gz.reset, gzClose, gzHeaderIfNeeded, emit, Raw.writeHeader, bf.rc]
        refine ⟨?_, ?_, ?_, ?_, ?_, ?_⟩
        · simp [clientDecode, bf.hce, bf.body, rawBytes, bf.nil hwr]
        · simp [hc, h2.2.1]
        · simp only [bf.hce, bf.body]
          exact ⟨fun h => Bool.noConfusion h, fun h => absurd h (not_gzip_of_raw [] [] rfl)⟩
        · intro _ h; simp [bf.hce] at h
        · intro _ _; exact bf.body
        · simp [bf.snaps, bf.F]
      · have hwh' : w.wroteHeader = false := by simpa using hwh
        have hc : g.ch = none := by
          cases hg : g.ch with
          | none => rfl
          | some c => have := ((st.some_ c hg).2 bf.rc).1; rw [hwh'] at this; exact Bool.noConfusion this
        simp only [finalise, hwb', Bool.not_false, if_true, bf.hce, Bool.false_eq_true, if_false, hwh',
          Gz.reset, gzClose, gzHeaderIfNeeded, emit, Raw.writeHeader, bf.rc]
        refine ⟨?_, ?_, ?_, ?_, ?_, ?_⟩
        · simp [clientDecode, bf.hce, bf.body, rawBytes, bf.nil hwr]
        · simp [hc]
        · simp only [bf.hce, bf.body]
          exact ⟨fun h => Bool.noConfusion h, fun h => absurd h (not_gzip_of_raw [] [] rfl)⟩
        · intro _ h; simp [bf.hce] at h
        · intro _ _; exact bf.body
        · simp [bf.snaps, bf.F]
  | gz w' items h' hm st cl z =>
    rw [hw] at h'; cases h'
    obtain ⟨c, hc⟩ : ∃ c, g.ch = some c := by
      cases hg : g.ch with
      | none => have := (st.none_ hg).1; rw [z.rc] at this; exact Bool.noConfusion this
      | some c => exact ⟨c, rfl⟩
    simp only [finalise, z.wb, Bool.not_true, Bool.false_eq_true, if_false, z.exc, gzClose, z.gzc,
      gzHeaderIfNeeded, z.gzh, if_true, emit, z.gzr, List.foldl, Raw.write, Raw.writeHeader, z.rc, z.body]
    have hbody : (Item.gzHeader :: items ++ [.gzData s.gz.pending]) ++ [.gzTrailer]
        = .gzHeader :: (items ++ [.gzData s.gz.pending, .gzTrailer]) := by simp
    rw [hbody]
    have hcanon := canon_closed items s.gz.pending z.ds
    rw [z.data] at hcanon
    refine ⟨?_, ?_, ?_, ?_, ?_, ?_⟩
    · simp [clientDecode, z.sce, hcanon]
    · simp [hc, (st.some_ c hc).1 z.rc]
    · simp only [z.sce, true_iff]; exact ⟨g.W, hcanon⟩
    · intro hl _; exact z.cl hl
    · intro hw' hf
      rcases z.act with h | h
      · rw [hw'] at h; exact Bool.noConfusion h
      · exact absurd hf h
    · exact z.snaps


/-! ## from the invariant to the middleware -/

theorem respWriteHeader_grw_none (s : St) (c : Nat) (h : s.grw = none) :
    (respWriteHeader s c).grw = none := by
  unfold respWriteHeader writerWriteHeader
  split <;> simp [h]

theorem respWrite_grw_none (s : St) (b : Bytes) (h : s.grw = none) : (respWrite s b).1.grw = none := by
  have h1 : (if s.committed then s else respWriteHeader s (if s.status == 0 then 200 else s.status)).grw = none := by
    split
    · exact h
    · exact respWriteHeader_grw_none _ _ h
  rw [respWrite_eq]
  generalize (if s.committed then s else respWriteHeader s (if s.status == 0 then 200 else s.status)) = s' at h1
  simp [writerWrite, h1]

theorem copyChunks_grw_none (cs : List Bytes) : ∀ s : St, s.grw = none → (copyChunks s cs).1.grw = none := by
  induction cs with
  | nil => intro s h; exact h
  | cons c cs ih =>
    intro s h
    simp only [copyChunks]
    split
    · exact respWrite_grw_none s c h
    · exact ih _ (respWrite_grw_none s c h)

theorem step_grw_none (s : St) (op : Op) (h : s.grw = none) : (step s op).1.grw = none := by
  cases op with
  | setLen n => exact h
  | writeHeader c => exact respWriteHeader_grw_none s c h
  | write b => exact respWrite_grw_none s b h
  | flush =>
    have h' : (if s.committed = true then s else respWriteHeader s (if s.status == 0 then 200 else s.status)).grw = none := by
      split
      · exact h
      · exact respWriteHeader_grw_none s _ h
    simp only [step, respFlush, writerFlush, h']
  | stream c cs fl => exact copyChunks_grw_none _ _ (respWriteHeader_grw_none s c h)
  | streamWT c d =>
    simp only [step]
    split
    · exact respWriteHeader_grw_none s c h
    · exact respWrite_grw_none _ d (respWriteHeader_grw_none s c h)

theorem runProg_grw_none (ops : List Op) : ∀ s : St, s.grw = none → (runProg s ops).1.grw = none := by
  induction ops with
  | nil => intro s h; exact h
  | cons op ops ih => intro s h; exact ih _ (step_grw_none s op h)

theorem inv_init_gzip (m : Nat) :
    Inv m {} { raw := { hdr := { vary := true } }, gz := { toRaw := true },
               grw := some { minLength := m, buffer := [] } } := by
  refine .buf _ rfl rfl ?_ ?_ ?_
  · exact ⟨fun _ => ⟨rfl, rfl, rfl⟩, fun c h => by simp at h, fun _ => rfl, fun h => by simp at h⟩
  · intro _ h; simp at h
  · exact ⟨rfl, rfl, rfl, rfl, rfl, rfl, rfl, rfl, rfl, fun h => by simp at h, fun _ => rfl⟩

theorem inv_init_plain (m : Nat) : Inv m {} { raw := { hdr := { vary := true } } } := by
  refine .plain rfl ?_ ?_
  · exact ⟨fun _ => ⟨rfl, rfl, rfl⟩, fun c h => by simp at h, fun _ => rfl, fun h => by simp at h⟩
  · exact ⟨rfl, rfl, fun h => by simp at h, rfl, fun _ => rfl⟩

theorem ghost_init_ok : (({} : Ghost)).ok := by intro h; simp at h

/-- everything at once: the response of one request, for any pool state -/
theorem serve_final (m : Nat) (pool : Pool) (rq : Req) :
    Final (Ghost.run {} rq.prog) (serve m pool rq).1.raw ∧
    (serve m pool rq).1.rets = rq.prog.map expectedRet := by
  unfold serve
  by_cases ha : acceptsGzip rq.acceptEncoding = true
  · simp only [ha, if_true, Gz.reset]
    obtain ⟨h1, h2⟩ := runProg_inv m rq.prog {} _ (inv_init_gzip m)
    have hok := run_ok rq.prog {} ghost_init_ok
    split
    · next w hw => exact ⟨final_gzip h1 hw hok, h2⟩
    · next hn => exact ⟨final_plain h1 hn, h2⟩
  · simp only [ha, Bool.false_eq_true, if_false]
    obtain ⟨h1, h2⟩ := runProg_inv m rq.prog {} _ (inv_init_plain m)
    exact ⟨final_plain h1 (runProg_grw_none _ _ rfl), h2⟩

/-! ## the theorems of the property -/

/-- **C15_roundtrip** — a client that undoes the advertised Content-Encoding recovers exactly
    the bytes the handler wrote, and sees the status the handler chose. -/
theorem C15_roundtrip (m : Nat) (pool : Pool) (rq : Req) :
    clientDecode (serve m pool rq).1.raw = some (written rq.prog) ∧
    (serve m pool rq).1.raw.status = chosen rq.prog := by
  have h := (serve_final m pool rq).1
  refine ⟨?_, ?_⟩
  · rw [h.decode, run_W]; rfl
  · rw [h.status, run_ch_none rq.prog {} rfl]

/-- **C15_ce_iff_gzip** — `Content-Encoding: gzip` is on the wire exactly when the body is one
    complete gzip stream. -/
theorem C15_ce_iff_gzip (m : Nat) (pool : Pool) (rq : Req) :
    (serve m pool rq).1.raw.sent.ce = true ↔ isGzipStream (serve m pool rq).1.raw.body :=
  (serve_final m pool rq).1.ce_gz

/-- **C15_write_count** — every `Write` reports exactly the number of bytes passed in; every
    `Stream` copies all its chunks and ends without error or panic. -/
theorem C15_write_count (m : Nat) (pool : Pool) (rq : Req) :
    (serve m pool rq).1.rets = rq.prog.map expectedRet :=
  (serve_final m pool rq).2

/-- **C15_no_stale_length** — when the body goes out compressed, no Content-Length set by the
    handler survives (for handlers that set headers before they start the response). -/
theorem C15_no_stale_length (m : Nat) (pool : Pool) (rq : Req) (hf : headersFirst rq.prog = true)
    (hce : (serve m pool rq).1.raw.sent.ce = true) : (serve m pool rq).1.raw.sent.cl = none :=
  (serve_final m pool rq).1.cl (run_late rq.prog {} rfl rfl hf) hce

theorem flushPoints_none (ops : List Op) (h : ∀ op ∈ ops, op ≠ .flush) : ∀ pre, flushPoints pre ops = [] := by
  induction ops with
  | nil => intro _; rfl
  | cons op ops ih =>
    intro pre
    have h1 := h op (by simp)
    have h2 := ih (fun o ho => h o (by simp [ho]))
    cases op <;> first | exact absurd rfl h1 | exact h2 _

/-- **C15_bodyless_empty** — a handler that makes no `Write` call and no `Flush` (status only:
    404, redirects, 204 …) produces an empty body, whatever was accepted. -/
theorem C15_bodyless_empty (m : Nat) (pool : Pool) (rq : Req)
    (h : ∀ op ∈ rq.prog, op.makesWrite = false ∧ op ≠ .flush) :
    (serve m pool rq).1.raw.body = [] := by
  apply (serve_final m pool rq).1.empty
  · rw [run_wr]
    simp only [Bool.false_or, List.any_eq_false]
    intro op hop; simp [(h op hop).1]
  · rw [run_F, flushPoints_none _ (fun op hop => (h op hop).2)]; rfl

/-- **C15_flush_delivers** — after each `Flush` the client can read everything the handler had
    written up to then (compressed or not). -/
theorem C15_flush_delivers (m : Nat) (pool : Pool) (rq : Req) :
    (serve m pool rq).1.raw.snaps.map (fun b => lenient (canon b)) = flushPoints [] rq.prog := by
  rw [(serve_final m pool rq).1.snaps, run_F]; rfl

/-- **C15_pool_clean** — what a request produces does not depend on what an earlier request
    left in the pooled gzip writer and buffer. -/
theorem C15_pool_clean (m : Nat) (pool pool' : Pool) (rq : Req) :
    (serve m pool rq).1 = (serve m pool' rq).1 := by
  unfold serve
  split
  · simp only [Gz.reset]
    split <;> rfl
  · rfl

/-- every request of a sequence through one middleware instance behaves as if it were alone -/
theorem C15_sequence_independent (m : Nat) (rs : List Req) :
    ∀ p : Pool, serveAll m p rs = rs.map (fun r => (serve m {} r).1) := by
  induction rs with
  | nil => intro _; rfl
  | cons r rs ih =>
    intro p
    simp only [serveAll, List.map_cons]
    rw [ih, C15_pool_clean m p {} r]

/-- clients that did not ask for gzip get the bytes as written -/
theorem C15_identity_when_not_accepted (m : Nat) (pool : Pool) (rq : Req)
    (h : acceptsGzip rq.acceptEncoding = false) :
    (serve m pool rq).1.raw.sent.ce = false ∧
    rawBytes (serve m pool rq).1.raw.body = some (written rq.prog) := by
  have hd := (C15_roundtrip m pool rq).1
  have hce : (serve m pool rq).1.raw.sent.ce = false := by
    cases hc : (serve m pool rq).1.raw.sent.ce with
    | false => rfl
    | true =>
      exfalso
      obtain ⟨d, hg⟩ := (C15_ce_iff_gzip m pool rq).1 hc
      -- in pass-through mode the body consists of raw items only
      have hraw : ∃ x, rawBytes (serve m pool rq).1.raw.body = some x := by
        unfold serve
        simp only [h, Bool.false_eq_true, if_false]
        obtain ⟨h1, _⟩ := runProg_inv m rq.prog {} _ (inv_init_plain m)
        have hn := runProg_grw_none rq.prog { raw := { hdr := { vary := true } } } rfl
        cases h1 with
        | plain _ _ p => exact ⟨_, by rw [Raw.writeHeader_body]; exact p.body⟩
        | buf w h' _ _ _ _ => rw [hn] at h'; cases h'
        | gz w _ h' _ _ _ _ => rw [hn] at h'; cases h'
      obtain ⟨x, hx⟩ := hraw
      exact not_gzip_of_raw _ x hx ⟨d, hg⟩
  refine ⟨hce, ?_⟩
  simpa [clientDecode, hce] using hd

/-! ## Decompress -/

/-- **C15_decompress** — a well-formed gzip body labelled `gzip` reaches the handler
    decompressed (all members, in order), without error. -/
theorem C15_decompress_gzip (lo : Nat) (ms : List Bytes) :
    (decompress lo "gzip".toList (.gzip ms false)).1 = ⟨true, .bytes (concatAll ms), false⟩ := by
  simp [decompress]

/-- any other Content-Encoding value: the handler runs and the body is untouched -/
theorem C15_decompress_other (lo : Nat) (ce : List Char) (body : Body) (h : ce ≠ "gzip".toList) :
    (decompress lo ce body).1 =
      ⟨true, (match body with | .plain b => .bytes b | .gzip _ _ => .untouchedGzip), false⟩ := by
  have h' : ce ≠ ['g', 'z', 'i', 'p'] := h
  cases body <;> simp [decompress, h']

/-- a damaged stream is never passed off as a good one: the handler sees the error -/
theorem C15_decompress_damaged (lo : Nat) (ms : List Bytes) :
    (decompress lo "gzip".toList (.gzip ms true)).1.err = true := by
  simp [decompress]

/-- recycled readers never leak between requests -/
theorem C15_decompress_pool_clean (lo lo' : Nat) (ce : List Char) (body : Body) :
    (decompress lo ce body).1 = (decompress lo' ce body).1 := by
  unfold decompress
  split
  · rfl
  · split <;> rfl

theorem C15_decompress_sequence (rs : List (List Char × Body)) :
    ∀ lo, decompressAll lo rs = rs.map (fun r => (decompress 0 r.1 r.2).1) := by
  induction rs with
  | nil => intro _; rfl
  | cons r rs ih =>
    intro lo
    obtain ⟨ce, b⟩ := r
    simp only [decompressAll, List.map_cons]
    rw [ih, C15_decompress_pool_clean lo 0 ce b]


theorem respWriteHeader_grw_some (s : St) (c : Nat) (h : s.grw.isSome = true) :
    (respWriteHeader s c).grw.isSome = true := by
  unfold respWriteHeader writerWriteHeader
  split
  · exact h
  · cases hg : s.grw with
    | none => rw [hg] at h; exact Bool.noConfusion h
    | some w => simp [grwWriteHeader]

theorem writerWrite_grw_some (s : St) (b : Bytes) (h : s.grw.isSome = true) :
    (writerWrite s b).1.grw.isSome = true := by
  cases hg : s.grw with
  | none => rw [hg] at h; exact Bool.noConfusion h
  | some w =>
    simp only [writerWrite, hg, grwWrite]
    split
    · split <;> simp [startGzip]
    · simp

theorem respWrite_grw_some (s : St) (b : Bytes) (h : s.grw.isSome = true) :
    (respWrite s b).1.grw.isSome = true := by
  rw [respWrite_eq]
  apply writerWrite_grw_some
  split
  · exact h
  · exact respWriteHeader_grw_some _ _ h

theorem copyChunks_grw_some (cs : List Bytes) : ∀ s : St, s.grw.isSome = true →
    (copyChunks s cs).1.grw.isSome = true := by
  induction cs with
  | nil => intro s h; exact h
  | cons c cs ih =>
    intro s h
    simp only [copyChunks]
    split
    · exact respWrite_grw_some s c h
    · exact ih _ (respWrite_grw_some s c h)

theorem step_grw_some (s : St) (op : Op) (h : s.grw.isSome = true) : (step s op).1.grw.isSome = true := by
  cases op with
  | setLen n => exact h
  | writeHeader c => exact respWriteHeader_grw_some s c h
  | write b => exact respWrite_grw_some s b h
  | flush =>
    have h' : (if s.committed = true then s else respWriteHeader s (if s.status == 0 then 200 else s.status)).grw.isSome = true := by
      split
      · exact h
      · exact respWriteHeader_grw_some s _ h
    simp only [step, respFlush, writerFlush]
    generalize (if s.committed = true then s else respWriteHeader s (if s.status == 0 then 200 else s.status)) = s' at h'
    cases hg : s'.grw with
    | none => rw [hg] at h'; exact Bool.noConfusion h'
    | some w => simp [grwFlush]
  | stream c cs fl => exact copyChunks_grw_some _ _ (respWriteHeader_grw_some s c h)
  | streamWT c d =>
    simp only [step]
    split
    · exact respWriteHeader_grw_some s c h
    · exact respWrite_grw_some _ d (respWriteHeader_grw_some s c h)

theorem runProg_grw_some (ops : List Op) : ∀ s : St, s.grw.isSome = true →
    (runProg s ops).1.grw.isSome = true := by
  induction ops with
  | nil => intro s h; exact h
  | cons op ops ih => intro s h; exact ih _ (step_grw_some s op h)

/-! ## the middleware does compress (transparency is not bought by doing nothing) -/

theorem final_gzip_ce {m : Nat} {g : Ghost} {s : St} {w : Grw} (h : Inv m g s) (hw : s.grw = some w)
    (hc : (g.wr = true ∧ m ≤ g.W.length) ∨ g.F ≠ []) :
    ((finalise s w).1.raw.writeHeader 200).sent.ce = true := by
  cases h with
  | plain h' _ _ => rw [hw] at h'; cases h'
  | buf w' h' hm st cl bf =>
    exfalso
    rcases hc with ⟨h1, h2⟩ | h3
    · have := bf.small h1; omega
    · exact h3 bf.F
  | gz w' items h' hm st cl z =>
    rw [hw] at h'; cases h'
    simp only [finalise, z.wb, Bool.not_true, Bool.false_eq_true, if_false, z.exc, gzClose, z.gzc,
      gzHeaderIfNeeded, z.gzh, if_true, emit, z.gzr, List.foldl, Raw.write, Raw.writeHeader, z.rc]
    exact z.sce

/-- **C15_compresses** — when the client accepts gzip, a response whose handler wrote at least
    `MinLength` bytes, or flushed, goes out gzip-encoded. -/
theorem C15_compresses (m : Nat) (pool : Pool) (rq : Req) (ha : acceptsGzip rq.acceptEncoding = true)
    (hc : (rq.prog.any Op.makesWrite = true ∧ m ≤ (written rq.prog).length) ∨ flushPoints [] rq.prog ≠ []) :
    (serve m pool rq).1.raw.sent.ce = true := by
  have hc' : ((Ghost.run {} rq.prog).wr = true ∧ m ≤ (Ghost.run {} rq.prog).W.length) ∨
      (Ghost.run {} rq.prog).F ≠ [] := by
    rcases hc with ⟨h1, h2⟩ | h3
    · left; rw [run_wr, run_W]; exact ⟨by simpa using h1, by simpa using h2⟩
    · right; rw [run_F]; simpa using h3
  unfold serve
  simp only [ha, if_true, Gz.reset]
  obtain ⟨h1, _⟩ := runProg_inv m rq.prog {} _ (inv_init_gzip m)
  split
  · next w hw => exact final_gzip_ce h1 hw hc'
  · next hn =>
    -- cannot happen: the program never unwraps the writer
    have := runProg_grw_some rq.prog
      { raw := { hdr := { vary := true } }, gz := { toRaw := true },
        grw := some { minLength := m, buffer := [] } } rfl
    rw [hn] at this
    exact Bool.noConfusion this


/-! ## F7 / F8 / F20: the behaviour before the repairs (kept only as witnesses) -/

/-- `gzipResponseWriter.Write` at the pinned commit returned the result of writing the whole
    buffer to the gzip writer on the write that crosses the threshold -/
def grwWriteCountBefore (w : Grw) (b : Bytes) : Nat :=
  if !w.exceeded then
    if (w.buffer ++ b).length ≥ w.minLength then (w.buffer ++ b).length else b.length
  else b.length

/-- F7: MinLength 10, 5 bytes buffered, a Write of 10 bytes reported 15 -/
example : grwWriteCountBefore { minLength := 10, buffer := [1,2,3,4,5] } [0,1,2,3,4,5,6,7,8,9] = 15 := by decide
/-- …the repaired writer reports 10 -/
example : (grwWrite { grw := some { minLength := 10, buffer := [1,2,3,4,5] }, gz := { toRaw := true } }
    { minLength := 10, buffer := [1,2,3,4,5] } [0,1,2,3,4,5,6,7,8,9]).2 = 10 := by decide

/-- F8 / F20 before the repair: `Flush` forced compression without marking the body as started
    and without dropping Content-Length -/
def grwFlushBefore (s : St) (w : Grw) : St :=
  let (s, w) := if !w.exceeded then startGzip s w else (s, w)
  let (gz, raw) := gzFlush s.gz s.raw
  { s with raw := raw.flush, gz := gz, grw := some w }

/-- F8: `WriteHeader(201); Flush()` — the finaliser abandoned the stream: header and a sync
    block, no trailer, although `Content-Encoding: gzip` had been sent -/
example :
    let s0 : St := { raw := { hdr := { vary := true } }, gz := { toRaw := true }, grw := some {} }
    let s1 := respWriteHeader s0 201
    let s2 := grwFlushBefore s1 { wroteHeader := true, code := 201 }
    let r := (finalise s2 { wroteHeader := true, code := 201, exceeded := true }).1.raw
    r.sent.ce = true ∧ canon r.body = .gzip [] false false := by decide

/-- F20: `Content-Length: 5; Flush(); Write(5 bytes)` — the stale length went out with the
    gzip body -/
example :
    let s0 : St := { raw := { hdr := { vary := true, cl := some 5 } }, gz := { toRaw := true }, grw := some {} }
    let s1 := grwFlushBefore s0 {}
    s1.raw.sent.ce = true ∧ s1.raw.sent.cl = some 5 := by decide

/-! ## non-vacuity: concrete runs of the repaired model -/

def reqOf (ae : String) (prog : List Op) : Req := ⟨ae.toList, prog⟩

-- F7 input: both writes report their own length, the client reads all 15 bytes from one gzip stream
example : (serve 10 {} (reqOf "gzip" [.write [1,2,3,4,5], .write [0,1,2,3,4,5,6,7,8,9]])).1.rets
    = [.wrote 5, .wrote 10] := by decide
example : canon (serve 10 {} (reqOf "gzip" [.write [1,2,3,4,5], .write [0,1,2,3,4,5,6,7,8,9]])).1.raw.body
    = .gzip [1,2,3,4,5,0,1,2,3,4,5,6,7,8,9] true false := by decide
-- F8 input: a complete gzip stream of the empty string, status 201, Content-Encoding kept
example : let r := (serve 0 {} (reqOf "gzip" [.writeHeader 201, .flush])).1.raw
    r.status = 201 ∧ r.sent.ce = true ∧ canon r.body = .gzip [] true false := by decide
-- F20 input: the Content-Length is gone
example : let r := (serve 0 {} (reqOf "gzip" [.setLen 5, .flush, .write [1,2,3,4,5]])).1.raw
    r.sent.ce = true ∧ r.sent.cl = none ∧ canon r.body = .gzip [1,2,3,4,5] true false := by decide
-- below the threshold: sent as it is, with the delayed status
example : let r := (serve 10 {} (reqOf "br, gzip" [.writeHeader 404, .write [1,2,3]])).1.raw
    r.status = 404 ∧ r.sent.ce = false ∧ r.body = [.raw [1,2,3]] := by decide
-- status only: empty body
example : let r := (serve 0 {} (reqOf "gzip" [.writeHeader 304])).1.raw
    r.status = 304 ∧ r.body = [] ∧ r.sent.ce = false := by decide
-- not accepted: untouched, Content-Length kept
example : let r := (serve 0 {} (reqOf "deflate" [.setLen 3, .write [1,2,3]])).1.raw
    r.sent.ce = false ∧ r.sent.cl = some 3 ∧ r.body = [.raw [1,2,3]] := by decide
-- a dirty pool does not matter
example : (serve 2 ⟨{ toRaw := true, wroteHeader := true, closed := true, pending := [9,9] }, [7,7,7]⟩
    (reqOf "gzip" [.write [1]])).1 = (serve 2 {} (reqOf "gzip" [.write [1]])).1 := by decide
-- hypotheses of the theorems are satisfiable by real programs
example : headersFirst [.setLen 5, .flush, .write [1,2,3,4,5]] = true := by decide
example : headersFirst [.writeHeader 200, .setLen 5, .write [1,2,3,4,5]] = false := by decide
example : chosen [.setLen 3, .flush, .writeHeader 404] = 200 := by decide
example : flushPoints [] [.write [1], .flush, .write [2], .flush] = [[1], [1,2]] := by decide
-- clientDecode is not trivially `some`: a truncated stream or a mislabelled body is rejected
example : clientDecode { sent := { ce := true }, body := [.gzHeader, .gzData [1], .gzSync] } = none := by decide
example : clientDecode { sent := { ce := true }, body := [.raw [1]] } = none := by decide
-- Decompress
example : (decompress 7 "gzip".toList (.gzip [[1,2],[3]] false)).1 = ⟨true, .bytes [1,2,3], false⟩ := by decide
example : (decompress 7 "GZIP".toList (.gzip [[1,2],[3]] false)).1 = ⟨true, .untouchedGzip, false⟩ := by decide


/-! ## nested requests (a handler serving another request through the same middleware instance) -/

theorem runProg_append (a b : List Op) : ∀ s : St,
    runProg s (a ++ b) = ((runProg (runProg s a).1 b).1, (runProg s a).2 ++ (runProg (runProg s a).1 b).2) := by
  induction a with
  | nil => intro s; simp [runProg]
  | cons op a ih => intro s; simp [runProg, ih]

/-- running the ops before and after a nested request is running the program -/
theorem serveSplit_eq (m : Nat) (pool : Pool) (ae : List Char) (a b : List Op) :
    serveSplit m pool ae a b = serve m pool ⟨ae, a ++ b⟩ := by
  unfold serveSplit serve
  simp only [runProg_append]

theorem servePooled_result (m : Nat) (pools : List Pool) (rq : Req) :
    (servePooled m pools rq).1 = (serve m {} rq).1 := by
  unfold servePooled
  split
  · exact C15_pool_clean m _ {} rq
  · rfl

/-- **C15_nested_independent** — a request served from inside another request's handler, through
    the same middleware instance and pools, and the request around it each get exactly the
    response they would get alone; where in the outer program the nested one happens, and what
    the pools held, does not matter. -/
theorem C15_nested_independent (m : Nat) (pools : List Pool) (rq : NReq) :
    (serveNested m pools rq).1 =
      (serve m {} rq.outer).1 :: (match rq.inner with | none => [] | some i => [(serve m {} i).1]) := by
  unfold serveNested
  simp only [serveSplit_eq, List.take_append_drop]
  cases hi : rq.inner with
  | none => simp [C15_pool_clean m _ {} rq.outer]
  | some i => simp [C15_pool_clean m _ {} rq.outer, servePooled_result]

theorem C15_nested_sequence (m : Nat) (rs : List NReq) : ∀ ps : List Pool,
    serveNestedAll m ps rs = rs.flatMap (fun r => (serveNested m [] r).1) := by
  induction rs with
  | nil => intro _; rfl
  | cons r rs ih =>
    intro ps
    simp only [serveNestedAll, List.flatMap_cons]
    rw [ih, C15_nested_independent m ps r, C15_nested_independent m [] r]

theorem decompressPooled_result (pool : List Nat) (ce : List Char) (body : Body) :
    (decompressPooled pool ce body).1 = (decompress 0 ce body).1 := by
  unfold decompressPooled
  split
  · rfl
  · exact C15_decompress_pool_clean _ 0 ce body

/-- **C15_decompress_nested** — a request whose handler serves another (gzip or not) request
    through the same Decompress instance between its own body reads: both handlers see exactly
    their own body, whatever readers the pool held. -/
theorem C15_decompress_nested (pool : List Nat) (rq : DReq) :
    (decompressReq pool rq).1 =
      (decompress 0 rq.ce rq.body).1 ::
        (match rq.nested with
         | none => []
         | some (ce, b) => if (decompress 0 rq.ce rq.body).1.ran then [(decompress 0 ce b).1] else []) := by
  unfold decompressReq
  have h := C15_decompress_pool_clean
  cases hn : rq.nested with
  | none => simp [h _ 0 rq.ce rq.body]
  | some p =>
    obtain ⟨ce, b⟩ := p
    simp only [h _ 0 rq.ce rq.body, List.cons.injEq, true_and]
    split <;> simp [decompressPooled_result]

theorem C15_decompress_nested_sequence (rs : List DReq) : ∀ p : List Nat,
    decompressSeq p rs = rs.flatMap (fun r => (decompressReq [] r).1) := by
  induction rs with
  | nil => intro _; rfl
  | cons r rs ih =>
    intro p
    simp only [decompressSeq, List.flatMap_cons]
    rw [ih, C15_decompress_nested p r, C15_decompress_nested [] r]

-- non-vacuity: the outer request holds the reader an earlier request left (state 1), the nested one
-- gets the next one; both see their own bytes
example : (decompressReq [1, 1] ⟨"gzip".toList, .gzip [[1,2],[3]] false, some ("gzip".toList, .gzip [[9]] false)⟩).1
    = [⟨true, .bytes [1,2,3], false⟩, ⟨true, .bytes [9], false⟩] := by decide
example : (serveNested 2 [] ⟨⟨"gzip".toList, [.write [1], .write [2,3]]⟩, 1, some ⟨"gzip".toList, [.write [7,7,7]]⟩⟩).1.map
    (fun r => canon r.raw.body) = [.gzip [1,2,3] true false, .gzip [7,7,7] true false] := by decide

/-! ## readers that fail (round 8)

`Context.Stream` is `io.Copy`: the bytes a reader hands out TOGETHER with `io.EOF`, or together with
another error, are written before the error is looked at.  In the model such a reader is the same
list of chunks with the flag `fails`; the two theorems say that the flag can only be seen in the
result the handler gets back. -/

/-- the same program with readers that end cleanly -/
def Op.calm : Op → Op
  | .stream c cs _ => .stream c cs false
  | op => op

theorem step_calm (s : St) (op : Op) : (step s op.calm).1 = (step s op).1 := by
  cases op <;> simp [Op.calm, step]

theorem runProg_calm (ops : List Op) : ∀ s : St, (runProg s (ops.map Op.calm)).1 = (runProg s ops).1 := by
  induction ops with
  | nil => intro s; rfl
  | cons op ops ih =>
    intro s
    simp only [List.map_cons, runProg]
    rw [step_calm, ih]

theorem written_calm (ops : List Op) : written (ops.map Op.calm) = written ops := by
  induction ops with
  | nil => rfl
  | cons op ops ih =>
    simp only [List.map_cons, written, ih]
    cases op <;> rfl

/-- **C15_reader_error_invisible** — whether the readers a handler streams from end with `io.EOF` or
    with an error (and whether their last bytes come together with it) changes nothing on the wire:
    status, headers, body and every Flush snapshot are those of the same chunks from readers that end
    cleanly — in particular the client still recovers every byte the readers handed out
    (`C15_roundtrip`: `written` counts all chunks of a failing stream). -/
theorem C15_reader_error_invisible (m : Nat) (pool : Pool) (rq : Req) :
    (serve m pool ⟨rq.acceptEncoding, rq.prog.map Op.calm⟩).1.raw = (serve m pool rq).1.raw := by
  unfold serve
  simp only [runProg_calm]
  split
  · split <;> rfl
  · rfl

/-- **C15_reader_error_reported** — a `Stream` from a failing reader writes every chunk with its own
    length and then reports the failure (result 1, never a panic), wherever it stands in the program. -/
theorem C15_reader_error_reported (m : Nat) (pool : Pool) (ae : List Char) (before after : List Op)
    (code : Nat) (cs : List Bytes) :
    (serve m pool ⟨ae, before ++ .stream code cs true :: after⟩).1.rets[before.length]? =
      some (.streamed ((cs.filter (fun c => !c.isEmpty)).map List.length) 1) := by
  rw [C15_write_count]
  simp [expectedRet]

-- non-vacuity: three chunks (one empty), the reader fails behind the last one; threshold crossed by the second chunk
example : (serve 4 {} ⟨"gzip".toList, [.stream 201 [[1,2],[],[3,4,5]] true]⟩).1.rets = [.streamed [2,3] 1] := by decide
example : canon (serve 4 {} ⟨"gzip".toList, [.stream 201 [[1,2],[],[3,4,5]] true]⟩).1.raw.body = .gzip [1,2,3,4,5] true false := by decide
example : (serve 4 {} ⟨"".toList, [.stream 201 [[1,2]] true, .write [9]]⟩).1.raw.body = [.raw [1,2], .raw [9]] := by decide

end C15
