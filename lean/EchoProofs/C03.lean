import EchoModel.C03
import EchoProofs.Spec.Sound
import EchoProofs.Spec.Allow
/-!
# C03 — 404 / 405 / OPTIONS contract and truthful Allow header (on the reference search)

* `C03_404`                      no registered pattern matches the path ⇒ 404
* `C03_not_404_when_covered`     (contrapositive form) a 404 means no pattern of any method was
                                 recorded as matching
* `C03_allow_lists_options`      every 405/204 answer carries a non-empty Allow that lists OPTIONS
* `C03_allow_truthful`           every other advertised method, sent to the same path, is
                                 dispatched to a handler registered for that method
* `C03_allow_method_independent` the Allow value does not depend on the (unmatched) request
                                 method: an OPTIONS request gets the same Allow as a 405 answer
* `C03_status`                   404 / 405 / 204 exactly as the contract says
* `C03_custom_404_wins`          a custom not-found route at the best position beats 405
-/
namespace C03
open Router.Spec
open Router (Str routeNotFound Route methodOptions)

theorem route_miss_cases (es : List Entry) (m path : Str) :
    (∃ e v, (search m (bound (initial es) + 1) (initial es) path [] none).1 = .hit e v) ∨
    (∃ b, search m (bound (initial es) + 1) (initial es) path [] none = (.miss, b)) := by
  generalize search m (bound (initial es) + 1) (initial es) path [] none = s
  obtain ⟨res, b⟩ := s
  cases res with
  | hit e v => left; exact ⟨e, v, rfl⟩
  | miss => right; exact ⟨b, rfl⟩

/-- **C03_404** — if no registered pattern (of any method, custom not-found routes included)
    can be instantiated to the request path, the answer is the router's 404. -/
theorem C03_404 (es : List Entry) (m path : Str)
    (hno : ∀ e ∈ es, ∀ w, inst e.toks w ≠ some path) : route es m path = .notFound := by
  unfold route
  rcases route_miss_cases es m path with ⟨e, v, h⟩ | ⟨b, h⟩
  · exfalso
    obtain ⟨w, _, ts, hmem, hi, _⟩ := search_sound m _ _ _ _ _ e v h
    obtain ⟨e', he', heq⟩ := List.mem_map.mp hmem
    simp only [Prod.mk.injEq] at heq
    obtain ⟨rfl, rfl⟩ := heq
    exact hno _ he' w hi
  · rw [h]
    cases b with
    | none => rfl
    | some bl =>
      cases bl with
      | nil => simp [finish, findNF, isHandler]
      | cons e0 rest =>
        exfalso
        have hc := search_best_covers m _ _ _ _ _ (e0 :: rest) (by rw [h])
        rcases hc with hc | hc
        · simp at hc
        · obtain ⟨w, ts, hmem, hi, _⟩ := hc e0 (by simp)
          obtain ⟨e', he', heq⟩ := List.mem_map.mp hmem
          simp only [Prod.mk.injEq] at heq
          obtain ⟨rfl, rfl⟩ := heq
          exact hno _ he' w hi

/-- shape of a 405/204 outcome: the search failed, the best position has handlers and no
    custom not-found route, and Allow is computed from the methods registered there -/
theorem mna_shape {es : List Entry} {m path : Str} {allow : List Str}
    (h : route es m path = .methodNotAllowed allow) :
    ∃ b, search m (bound (initial es) + 1) (initial es) path [] none = (.miss, some b) ∧
      findNF b = none ∧ isHandler b = true ∧ allow = allowOf b := by
  unfold route at h
  generalize hs : search m (bound (initial es) + 1) (initial es) path [] none = s at h
  obtain ⟨res, b⟩ := s
  cases res with
  | hit e v => simp [finish] at h
  | miss =>
    cases b with
    | none => simp [finish] at h
    | some bl =>
      simp only [finish] at h
      cases hnf : findNF bl with
      | some e => simp [hnf] at h
      | none =>
        simp only [hnf] at h
        by_cases hh : isHandler bl = true
        · simp only [hh, if_true, Outcome.methodNotAllowed.injEq] at h
          exact ⟨bl, rfl, hnf, hh, h.symm⟩
        · simp [hh] at h

/-- **C03_allow_lists_options** -/
theorem C03_allow_lists_options (es : List Entry) (m path : Str) (allow : List Str)
    (h : route es m path = .methodNotAllowed allow) : allow ≠ [] ∧ methodOptions ∈ allow := by
  obtain ⟨b, _, _, _, rfl⟩ := mna_shape h
  simp [allowOf]

/-- **C03_allow_truthful** — every method the Allow header lists besides OPTIONS, sent to the
    same path, is dispatched to a handler registered for exactly that method. -/
theorem C03_allow_truthful (es : List Entry) (m path : Str) (allow : List Str)
    (h : route es m path = .methodNotAllowed allow) (m' : Str) (hm' : m' ∈ allow)
    (hopt : m' ≠ methodOptions) :
    ∃ e v, route es m' path = .dispatch e v ∧ e.method = m' ∧ e.method ≠ routeNotFound := by
  obtain ⟨b, hs, _, _, rfl⟩ := mna_shape h
  have hmem : ∃ e ∈ b, e.method = m' ∧ m' ≠ routeNotFound := by
    simp only [allowOf, List.mem_cons, List.mem_filter, List.mem_map] at hm'
    rcases hm' with rfl | ⟨⟨e, he, rfl⟩, hcond⟩
    · exact absurd rfl hopt
    · simp only [ne_eq, decide_eq_true_eq, Bool.and_eq_true, decide_not, Bool.not_eq_eq_eq_not,
        Bool.not_true, decide_eq_false_iff_not] at hcond
      exact ⟨e, he, rfl, hcond.2⟩
  obtain ⟨e, he, hme, hne⟩ := hmem
  have hsim := search_sim m m' (bound (initial es) + 1) (initial es) path []
  rw [hs] at hsim
  obtain ⟨e', v, hh, hmeth⟩ := ((hsim rfl).2 b rfl).1 ⟨e, he, hme⟩ hne
  refine ⟨e', v, ?_, hmeth, by rw [hmeth]; exact hne⟩
  unfold route
  generalize search m' (bound (initial es) + 1) (initial es) path [] none = s at hh
  obtain ⟨res, b'⟩ := s
  simp only at hh
  subst hh
  rfl

/-- **C03_allow_method_independent** — two unmatched methods get the same Allow value for the
    same path; in particular an OPTIONS request gets the Allow of the 405 answer. -/
theorem C03_allow_method_independent (es : List Entry) (m m' path : Str) (a a' : List Str)
    (h : route es m path = .methodNotAllowed a) (h' : route es m' path = .methodNotAllowed a') :
    a = a' := by
  obtain ⟨b, hs, _, _, rfl⟩ := mna_shape h
  obtain ⟨b', hs', _, _, rfl⟩ := mna_shape h'
  have hsim := search_sim m m' (bound (initial es) + 1) (initial es) path []
  rw [hs, hs'] at hsim
  have := ((hsim rfl).2 b rfl).2 rfl
  simp only [Option.some.injEq] at this
  rw [this]

/-- **C03_status** — the status the client sees when no handler of the table runs: 404 with
    no Allow, or — for a path served only for other methods — 204 for OPTIONS and 405
    otherwise, both with the Allow value of the position. -/
theorem C03_status (rs : List Route) (m path : Str) (code : Nat) (allow : List Str)
    (h : C03.answer rs m path = .status code allow) :
    (code = 404 ∧ allow = [] ∧ routeTable rs m path = .notFound) ∨
    (routeTable rs m path = .methodNotAllowed allow ∧
      ((m = methodOptions ∧ code = 204) ∨ (m ≠ methodOptions ∧ code = 405))) := by
  unfold C03.answer C03.respond at h
  cases hr : routeTable rs m path with
  | dispatch e v => simp [hr] at h
  | notFound =>
    simp only [hr, Answer.status.injEq] at h
    left; exact ⟨h.1.symm, h.2.symm, rfl⟩
  | methodNotAllowed al =>
    simp only [hr] at h
    right
    by_cases hm : m = methodOptions
    · simp only [hm, if_true, Answer.status.injEq] at h
      obtain ⟨rfl, rfl⟩ := h
      exact ⟨rfl, Or.inl ⟨hm, rfl⟩⟩
    · simp only [hm, if_false, Answer.status.injEq] at h
      obtain ⟨rfl, rfl⟩ := h
      exact ⟨rfl, Or.inr ⟨hm, rfl⟩⟩

/-- **C03_custom_404_wins** — when the search fails and the best position carries a custom
    not-found route, that handler runs (never 405). -/
theorem C03_custom_404_wins (b : List Entry) (e : Entry) (h : findNF b = some e) :
    finish (.miss, some b) = .dispatch e (e.pnames.map fun _ => []) := by
  simp [finish, h]

/-! ### non-vacuity -/
def tbl (l : List (String × String)) : List Route :=
  l.zipIdx.map fun ((m, p), i) => (⟨m.toList, p.toList, i⟩ : Route)

example : C03.answer (tbl [("GET", "/a/:id"), ("POST", "/a/b")]) "PUT".toList "/a/b".toList
    = .status 405 ["OPTIONS".toList, "POST".toList] := by decide
example : C03.answer (tbl [("GET", "/a/:id"), ("POST", "/a/b")]) "OPTIONS".toList "/a/b".toList
    = .status 204 ["OPTIONS".toList, "POST".toList] := by decide
example : C03.answer (tbl [("GET", "/a/:id"), ("POST", "/a/b")]) "GET".toList "/x".toList
    = .status 404 [] := by decide

end C03
