import EchoModel.C01
import EchoProofs.Tree.Dirty
import EchoProofs.Tree.PvLength
/-!
# C01 — `Router.Find` used directly on a context the application made

`Router.Find` is public.  The context it is handed may have been created with `Echo.NewContext` (possibly before
further routes were registered), its values may have been set (`SetParamValues`), grown (`SetParamNames`), it may have
served earlier lookups and may or may not have been reset.  Model: `C01.CtxOp`, `C01.runCtx`, `C01.findAfter`
(`EchoModel/C01.lean`).  Only the value slice matters for the next lookup, and of the value slice only its LENGTH:

* `C01_findVals_length` — a lookup never changes the length of the slice (`Router.Tree.findNode_pv_length`, for every
  tree).
* `C01_ctx_sized` / `C01_ctx_no_panic` — size discipline: as long as no context is made while the table is still
  narrower than the final one (`CtxOp.keepsSize`), the slice keeps at least `maxParam` slots through every operation,
  and no lookup indexes out of range.
* **`C01_ctx_eq_fresh`** — under that discipline the probed lookup gives exactly what a freshly reset context gives,
  whatever was done to the context before.
* **`C01_ctx_sound`** — so what it dispatches to satisfies the C01 statement (`tree_sound_forward`).
* `C01_short_ctx` — a context with FEWER slots than `maxParam` (made before the widest route was registered): the
  lookup either indexes out of range or gives exactly the fresh-context answer.  `C01_ctx_short_or_fresh` lifts this
  to any sequence of context operations without any size discipline.
-/
namespace C01
open Router Router.Spec Router.Tree

/-- the operation does not make the context too small for the table `t`: a context may only be made when the routes
    registered so far already need as many value slots as the whole table -/
def CtxOp.keepsSize (t : List Route) : CtxOp → Prop
  | .newCtx k => maxParam t ≤ maxParam (t.take k)
  | _ => True

instance (t : List Route) (op : CtxOp) : Decidable (op.keepsSize t) := by
  cases op <;> unfold CtxOp.keepsSize <;> infer_instance

/-! ## A1 — the length of the slice -/

/-- **a lookup keeps the length of the value slice** -/
theorem C01_findVals_length {t : List Route} {m p : Str} {pv pv' : List Str}
    (h : findVals t m p pv = some pv') : pv'.length = pv.length := by
  unfold findVals at h
  simp only at h
  split at h
  · cases h
  · simp only [Option.some.injEq] at h
    rw [← h]
    exact findNode_pv_length p m (build t) _

theorem setParamValues_length (pv vs : List Str) : pv.length ≤ (setParamValues pv vs).length := by
  unfold setParamValues
  split
  · omega
  · simp only [List.length_append, List.length_drop]; omega

theorem setParamNames_length (pv : List Str) (n : Nat) : pv.length ≤ (setParamNames pv n).length := by
  unfold setParamNames
  simp

theorem resetVals_length (t : List Route) (pv : List Str) :
    pv.length ≤ (resetVals t pv).length ∧ maxParam t ≤ (resetVals t pv).length := by
  unfold resetVals
  simp only [List.length_replicate]
  omega

/-! ## A2 — size discipline -/

/-- one operation keeps a sufficient slice sufficient -/
theorem stepCtx_sized {t : List Route} {pv pv' : List Str} {op : CtxOp} (hpv : maxParam t ≤ pv.length)
    (hop : op.keepsSize t) (h : stepCtx t pv op = some pv') : maxParam t ≤ pv'.length := by
  cases op with
  | newCtx k =>
    simp only [stepCtx, Option.some.injEq] at h
    rw [← h, List.length_replicate]
    exact hop
  | setVals vs =>
    simp only [stepCtx, Option.some.injEq] at h
    rw [← h]
    exact Nat.le_trans hpv (setParamValues_length pv vs)
  | setNames n =>
    simp only [stepCtx, Option.some.injEq] at h
    rw [← h]
    exact Nat.le_trans hpv (setParamNames_length pv n)
  | find m p =>
    simp only [stepCtx] at h
    rw [C01_findVals_length h]
    exact hpv
  | reset =>
    simp only [stepCtx, Option.some.injEq] at h
    rw [← h]
    exact (resetVals_length t pv).2

/-- **the slice stays wide enough**: starting with at least `maxParam t` slots, after any sequence of context
    operations that keep the size the slice has at least `maxParam t` slots -/
theorem C01_ctx_sized (t : List Route) : ∀ (ops : List CtxOp) (pv pv' : List Str), maxParam t ≤ pv.length →
    (∀ op ∈ ops, op.keepsSize t) → runCtx t pv ops = some pv' → maxParam t ≤ pv'.length := by
  intro ops
  induction ops with
  | nil =>
    intro pv pv' hpv _ h
    simp only [runCtx, Option.some.injEq] at h
    rw [← h]; exact hpv
  | cons op ops ih =>
    intro pv pv' hpv hops h
    simp only [runCtx] at h
    cases hs : stepCtx t pv op with
    | none => rw [hs] at h; cases h
    | some pv1 =>
      rw [hs] at h
      exact ih pv1 pv' (stepCtx_sized hpv (hops op List.mem_cons_self) hs)
        (fun o ho => hops o (List.mem_cons_of_mem _ ho)) h

/-- a lookup on a wide enough slice does not index out of range -/
theorem findVals_ne_none {t : List Route} (hok : okTable t = true) (m p : Str) {pv : List Str}
    (hpv : maxParam t ≤ pv.length) : findVals t m p pv ≠ none := by
  unfold findVals
  simp only
  split
  · rename_i hp
    exact absurd (find_of_panicked hp) (tree_no_panic_forward t hok m p pv hpv)
  · intro h; cases h

/-- **no lookup of the sequence indexes out of range** -/
theorem C01_ctx_no_panic (t : List Route) (hok : okTable t = true) : ∀ (ops : List CtxOp) (pv : List Str),
    maxParam t ≤ pv.length → (∀ op ∈ ops, op.keepsSize t) → runCtx t pv ops ≠ none := by
  intro ops
  induction ops with
  | nil => intro pv _ _ h; simp [runCtx] at h
  | cons op ops ih =>
    intro pv hpv hops
    simp only [runCtx]
    cases hs : stepCtx t pv op with
    | none =>
      exfalso
      cases op with
      | find m p => exact findVals_ne_none hok m p hpv hs
      | newCtx k => simp [stepCtx] at hs
      | setVals vs => simp [stepCtx] at hs
      | setNames n => simp [stepCtx] at hs
      | reset => simp [stepCtx] at hs
    | some pv1 =>
      exact ih pv1 (stepCtx_sized hpv (hops op List.mem_cons_self) hs)
        (fun o ho => hops o (List.mem_cons_of_mem _ ho))

/-! ## A3 — a used context routes like a fresh one -/

/-- on a slice of at least `maxParam` slots the lookup gives the fresh-context answer (content: `find_content_eq`,
    spare slots: `find_replicate_frame`) -/
theorem find_eq_fresh (t : List Route) (hok : okTable t = true) (m p : Str) (pv : List Str)
    (hpv : maxParam t ≤ pv.length) :
    find (build t) m p pv = find (build t) m p (List.replicate (maxParam t) []) := by
  rw [find_content_irrelevant t hok m p pv hpv]
  have hnp := find_table_no_panic_ok t m p (maxParam t) (Nat.le_refl _) hok
  have := find_replicate_frame (build t) m p (maxParam t) hnp (pv.length - maxParam t)
  rw [← this]
  congr 2
  omega

/-- **HEADLINE — whatever the application did to the context before (values set, names set, earlier lookups, resets,
    a new context made when the table was already as wide as it is now), the probed lookup gives exactly what a
    freshly reset context gives.** -/
theorem C01_ctx_eq_fresh (t : List Route) (hok : okTable t = true) (ops : List CtxOp)
    (hops : ∀ op ∈ ops, op.keepsSize t) (m p : Str) :
    findAfter t ops m p = find (build t) m p (List.replicate (maxParam t) []) := by
  have hlen : maxParam t ≤ (List.replicate (maxParam t) ([] : Str)).length := by simp
  unfold findAfter
  cases h : runCtx t (List.replicate (maxParam t) []) ops with
  | none => exact absurd h (C01_ctx_no_panic t hok ops _ hlen hops)
  | some pv =>
    simp only
    exact find_eq_fresh t hok m p pv (C01_ctx_sized t ops _ pv hlen hops h)

/-- in particular the probed lookup never indexes out of range -/
theorem C01_ctx_probe_no_panic (t : List Route) (hok : okTable t = true) (ops : List CtxOp)
    (hops : ∀ op ∈ ops, op.keepsSize t) (m p : Str) : findAfter t ops m p ≠ .panic := by
  rw [C01_ctx_eq_fresh t hok ops hops m p]
  exact find_table_no_panic_ok t m p (maxParam t) (Nat.le_refl _) hok

/-! ## A4 — the values a handler sees after a direct lookup -/

/-- **HEADLINE — C01 for the router used directly on an application-made context**: whatever the probed lookup
    dispatches to, the observed values are those of the request path (the pattern instantiated with them rebuilds the
    path, one value per marker, no `/` in a parameter followed by text) — or it is the F3 fallback and the values are
    blank.  No value set by the application and no text of an earlier lookup shows up. -/
theorem C01_ctx_sound (t : List Route) (hok : okTable t = true) (ops : List CtxOp)
    (hops : ∀ op ∈ ops, op.keepsSize t) (m p : Str) (rm : RouteMethod) (vals : List Str)
    (h : findAfter t ops m p = .dispatch rm vals) :
    (inst (norm rm.ppath).1 vals = some p ∧ SlashFree (norm rm.ppath).1 vals
        ∧ vals.length = arity (norm rm.ppath).1)
    ∨ ((∃ w, inst (norm rm.ppath).1 w = some p) ∧ vals = rm.pnames.map (fun _ => [])) := by
  rw [C01_ctx_eq_fresh t hok ops hops m p] at h
  exact tree_sound_ok t m p (maxParam t) (Nat.le_refl _) hok rm vals h

/-! ## A5 — a context older than the widest route -/

/-- **a lookup on a context with fewer value slots than `maxParam` either indexes out of range or gives exactly the
    fresh-context answer** (`pv` arbitrary: any length, any content).  A run that does not panic never touched a slot
    beyond the slice (`find_frame`), so it is the run on the slice padded to `maxParam` slots. -/
theorem C01_short_ctx (t : List Route) (hok : okTable t = true) (m p : Str) (pv : List Str) :
    find (build t) m p pv = .panic
    ∨ find (build t) m p pv = find (build t) m p (List.replicate (maxParam t) []) := by
  by_cases hlen : maxParam t ≤ pv.length
  · exact Or.inr (find_eq_fresh t hok m p pv hlen)
  · by_cases hp : find (build t) m p pv = .panic
    · exact Or.inl hp
    · refine Or.inr ?_
      have hf := find_frame (build t) m p pv (List.replicate (maxParam t - pv.length) []) hp
      rw [← hf]
      exact find_eq_fresh t hok m p _ (by simp only [List.length_append, List.length_replicate]; omega)

/-- without any size discipline: the probed lookup after ANY sequence of context operations either ends in an
    index out of range (the probe or one of the earlier lookups) or gives the fresh-context answer -/
theorem C01_ctx_short_or_fresh (t : List Route) (hok : okTable t = true) (ops : List CtxOp) (m p : Str) :
    findAfter t ops m p = .panic
    ∨ findAfter t ops m p = find (build t) m p (List.replicate (maxParam t) []) := by
  unfold findAfter
  cases runCtx t (List.replicate (maxParam t) []) ops with
  | none => exact Or.inl rfl
  | some pv => exact C01_short_ctx t hok m p pv

/-! ## concrete instances (the hypotheses are not vacuous) -/

private def GET : Str := "GET".toList
private def POST : Str := "POST".toList

/-- a table with a split node, parameters, an in-segment parameter and a wildcard; the routes needing two value
    slots come last -/
def demoCtx : List Route :=
  [⟨GET, "/users".toList, 1⟩, ⟨GET, "/usage".toList, 2⟩, ⟨GET, "/users/:id".toList, 3⟩, ⟨GET, "/*".toList, 6⟩,
   ⟨POST, "/users/:id/files/*".toList, 4⟩, ⟨GET, "/users/:id/files/v:ver".toList, 5⟩]

/-- what an application might do before the probed lookup: a context made when five of the six routes were
    registered (already two slots), values set (more than there are slots: the slice is replaced), a lookup that
    backtracks out of a parameter branch into the wildcard, names set, a second lookup, a reset, a short value list -/
def demoOps : List CtxOp :=
  [.newCtx 5, .setVals ["S1".toList, "S2/x".toList, "S3".toList], .find GET "/users/42/files/x".toList,
   .setNames 5, .find POST "/users/7/files/a/b".toList, .reset, .setVals ["T".toList]]

example : okTable demoCtx = true := by decide +kernel
example : maxParam demoCtx = 2 := by decide +kernel
example : ∀ op ∈ demoOps, op.keepsSize demoCtx := by decide +kernel
/-- the slice really is dirty and of another length when the probe starts -/
example : runCtx demoCtx (List.replicate (maxParam demoCtx) []) demoOps
    = some ["T".toList, [], [], [], []] := by decide +kernel
example : runCtx demoCtx (List.replicate (maxParam demoCtx) []) (demoOps.take 5)
    = some ["7".toList, "a/b".toList, "S3".toList, [], []] := by decide +kernel

/-- `C01_ctx_eq_fresh` / `C01_ctx_sound` on this case -/
example : findAfter demoCtx demoOps GET "/users/42/files/v7".toList
    = find (build demoCtx) GET "/users/42/files/v7".toList (List.replicate (maxParam demoCtx) []) :=
  C01_ctx_eq_fresh demoCtx (by decide +kernel) demoOps (by decide +kernel) _ _
example : findAfter demoCtx demoOps GET "/users/42/files/v7".toList
    = .dispatch ⟨"/users/:id/files/v:ver".toList, ["id".toList, "ver".toList], 5⟩ ["42".toList, "7".toList] := by
  decide +kernel
example : findAfter demoCtx (demoOps.take 5) GET "/users/42".toList
    = .dispatch ⟨"/users/:id".toList, ["id".toList], 3⟩ ["42".toList] := by decide +kernel
example : (inst (norm "/users/:id/files/v:ver".toList).1 ["42".toList, "7".toList]
      = some "/users/42/files/v7".toList) := by decide +kernel

/-- the size discipline cannot be dropped: a context made when only four routes were registered has one slot; the
    lookup of a two-parameter route on it indexes out of range … -/
example : ¬ (CtxOp.newCtx 4).keepsSize demoCtx := by decide +kernel
example : findAfter demoCtx [.newCtx 4] GET "/users/42/files/v7".toList = .panic := by decide +kernel
/-- … while a lookup that stays within the one slot gives the fresh-context answer (`C01_short_ctx`, both cases) -/
example : findAfter demoCtx [.newCtx 4] GET "/users/42".toList
    = find (build demoCtx) GET "/users/42".toList (List.replicate (maxParam demoCtx) []) := by decide +kernel
example : find (build demoCtx) GET "/users/42/files/v7".toList ["OLD".toList] = .panic := by decide +kernel
example : find (build demoCtx) GET "/users/42".toList ["OLD".toList]
    = .dispatch ⟨"/users/:id".toList, ["id".toList], 3⟩ ["42".toList] := by decide +kernel
/-- an empty slice: static routes and 404 still work -/
example : find (build demoCtx) GET "/usage".toList [] = .dispatch ⟨"/usage".toList, [], 2⟩ [] := by decide +kernel
example : find (build demoCtx) GET "/x".toList [] = .panic := by decide +kernel

end C01
