import EchoModel.C02
import EchoProofs.Spec.Basics
/-!
# C02 — theorems about the order-free priority search (layer L1)

* `C02_perm`          the outcome depends only on the *set* of routes, never on their order
* `C02_literal_wins`  a path equal to a registered literal route is served by that route
* `C02_complete`      a request that some registered pattern matches for its method is
                      dispatched (never 404/405) — also when deeper wildcard or parameter routes
                      exist only for other methods (full backtracking)
* `C02_host_exact` / `C02_host_other`   a host table is used for exactly that Host value

The link between the radix tree of router.go (layer L3, `Router.find ∘ Router.build`) and
this specification is a *tested correspondence*: both are compared with the real code on
every run (checks C01 and C02 share their generators).
-/
namespace C02
open Router.Spec
open Router (Str routeNotFound Route)

/-- outcomes agree up to the order of the Allow set -/
def OutEquiv : Outcome → Outcome → Prop
  | .dispatch e v, .dispatch e' v' => e = e' ∧ v = v'
  | .notFound, .notFound => True
  | .methodNotAllowed a, .methodNotAllowed a' => a.Perm a'
  | _, _ => False

/-- no structurally identical duplicates: no two entries with the same tokens and method -/
def NoDup (es : List Entry) : Prop := Uniq (initial es)

theorem bound_perm {r r' : R} (h : r.Perm r') : bound r = bound r' := by
  unfold bound
  exact (h.map _).sum_nat

theorem allowOf_perm {a b : List Entry} (h : a.Perm b) : (allowOf a).Perm (allowOf b) := by
  unfold allowOf
  exact List.Perm.cons _ ((h.map _).filter _)

/-- **C02_perm** — for a fixed set of routes the outcome of every request is the same
    whatever the order of registration. -/
theorem C02_perm (es es' : List Entry) (h : es.Perm es') (hnd : NoDup es) (m path : Str) :
    OutEquiv (route es m path) (route es' m path) := by
  unfold route
  have hr : (initial es).Perm (initial es') := h.map _
  have hs := search_perm m (bound (initial es) + 1) hr hnd path [] (best := none) (best' := none) trivial
  rw [← bound_perm hr]
  generalize search m (bound (initial es) + 1) (initial es) path [] none = s at hs
  generalize search m (bound (initial es) + 1) (initial es') path [] none = s' at hs
  obtain ⟨res, b⟩ := s
  obtain ⟨res', b'⟩ := s'
  obtain ⟨hres, hb⟩ := hs
  simp only at hres hb
  subst hres
  cases res with
  | hit e v => exact ⟨rfl, rfl⟩
  | miss =>
    cases b with
    | none =>
      cases b' with
      | none => trivial
      | some _ => exact absurd hb (by simp [BRel])
    | some bl =>
      cases b' with
      | none => exact absurd hb (by simp [BRel])
      | some bl' =>
        obtain ⟨hp, hu⟩ := hb
        simp only [finish]
        rw [← findNF_perm hp hu, ← isHandler_perm hp]
        cases findNF bl with
        | some e => exact ⟨rfl, rfl⟩
        | none =>
          simp only
          split
          · exact allowOf_perm hp
          · trivial

/-- tokens of a literal text -/
def lits (p : Str) : List Tok := p.map Tok.lit

theorem search_literal (m : Str) (e : Entry) (hm : e.method = m) (hne : m ≠ routeNotFound) :
    ∀ (fuel : Nat) (r : R) (path : Str) (vals : List Str) (best : Best),
      (lits path, e) ∈ r → Uniq r → path.length < fuel →
      (search m fuel r path vals best).1 = .hit e vals := by
  intro fuel
  induction fuel with
  | zero => intro r path vals best _ _ h; omega
  | succ fuel ih =>
    intro r path vals best hmem hu hlen
    simp only [search]
    cases path with
    | nil =>
      have he : e ∈ ends r := mem_ends.mpr hmem
      have hh : isHandler (ends r) = true := isHandler_of_mem he (hm ▸ hne)
      have hf := findM_eq_of_mem (uniq_ends hu) he hm hne
      simp [stepEnd, hh, hf]
    | cons c rest =>
      have hd : (lits rest, e) ∈ deriv (.lit c) r := mem_deriv.mpr hmem
      have hne' := deriv_ne_nil_of_mem hmem
      have hrec := ih (deriv (.lit c) r) rest vals best hd (uniq_deriv _ hu) (by simpa using hlen)
      simp only [stepEnd, List.isEmpty_cons, Bool.false_eq_true, if_false, litStep, hne']
      generalize search m fuel (deriv (.lit c) r) rest vals best = s at hrec
      obtain ⟨res, b⟩ := s
      simp only at hrec
      subst hrec
      rfl

/-- **C02_literal_wins** — a path equal to a registered literal route is always served by
    that route (with no parameter values), whatever else is registered. -/
theorem C02_literal_wins (es : List Entry) (hnd : NoDup es) (e : Entry) (he : e ∈ es)
    (path : Str) (hlit : e.toks = lits path) (hne : e.method ≠ routeNotFound) :
    route es e.method path = .dispatch e [] := by
  unfold route
  have hmem : (lits path, e) ∈ initial es := by
    unfold initial
    exact List.mem_map.mpr ⟨e, he, by rw [hlit]⟩
  have hb := bound_ge_of_mem hmem
  have := search_literal e.method e rfl hne (bound (initial es) + 1) (initial es) path [] none hmem hnd
    (by simp [lits] at hb; omega)
  generalize search e.method (bound (initial es) + 1) (initial es) path [] none = s at this
  obtain ⟨res, b⟩ := s
  simp only at this
  subst this
  rfl

/-- declarative matching of a request path by a token list (the conservative reading: a
    named parameter takes the maximal `/`-free run — which may be empty only when the path
    goes on — and a wildcard takes the rest, possibly empty) -/
def Matches : List Tok → Str → Prop
  | [], p => p = []
  | .lit c :: ts, p => ∃ rest, p = c :: rest ∧ Matches ts rest
  | .param :: ts, p => p ≠ [] ∧ Matches ts (p.drop (p.takeWhile (· ≠ '/')).length)
  | .any :: _, _ => True

theorem orElse_hit_of_left {x : Res × Best} {k : Best → Res × Best} {e : Entry} {v : List Str}
    (h : x.1 = .hit e v) : (orElse x k).1 = .hit e v := by
  obtain ⟨res, b⟩ := x
  simp only at h
  subst h
  rfl

def IsHit (x : Res × Best) : Prop := ∃ e v, x.1 = .hit e v

theorem orElse_isHit_left {x : Res × Best} {k : Best → Res × Best} (h : IsHit x) :
    IsHit (orElse x k) := by
  obtain ⟨e, v, h⟩ := h
  exact ⟨e, v, orElse_hit_of_left h⟩

theorem orElse_isHit_right {x : Res × Best} {k : Best → Res × Best} (h : ∀ b, IsHit (k b)) :
    IsHit (orElse x k) := by
  obtain ⟨res, b⟩ := x
  cases res with
  | hit e v => exact ⟨e, v, rfl⟩
  | miss => exact h b

theorem search_complete (m : Str) (hne : m ≠ routeNotFound) :
    ∀ (fuel : Nat) (r : R) (path : Str) (vals : List Str) (best : Best) (ts : List Tok) (e : Entry),
      (ts, e) ∈ r → e.method = m → AnyLastR r → Matches ts path → ts.length < fuel →
      IsHit (search m fuel r path vals best) := by
  intro fuel
  induction fuel with
  | zero => intro r path vals best ts e _ _ _ _ h; omega
  | succ fuel ih =>
    intro r path vals best ts e hmem hm hal hmatch hlen
    simp only [search]
    cases ts with
    | nil =>
      simp only [Matches] at hmatch
      subst hmatch
      have he : e ∈ ends r := mem_ends.mpr hmem
      have hh : isHandler (ends r) = true := isHandler_of_mem he (hm ▸ hne)
      obtain ⟨e', hf⟩ := findM_isSome_of_mem he hm hne
      simp only [stepEnd, List.isEmpty_nil, if_true, hh, hf]
      exact ⟨e', vals, rfl⟩
    | cons t ts' =>
      generalize stepEnd m (ends r) path best = s1
      obtain ⟨e1, b1⟩ := s1
      cases e1 with
      | some e1 => exact ⟨e1, vals, rfl⟩
      | none =>
        simp only
        have hlen' : ts'.length < fuel := by simpa using hlen
        cases t with
        | lit c =>
          obtain ⟨rest, rfl, hm'⟩ := hmatch
          apply orElse_isHit_left
          simp only [litStep, deriv_ne_nil_of_mem hmem, Bool.false_eq_true, if_false]
          exact ih _ _ _ _ ts' e (mem_deriv.mpr hmem) hm (anyLastR_deriv hal) hm' hlen'
        | param =>
          obtain ⟨hpne, hm'⟩ := hmatch
          apply orElse_isHit_right
          intro b2
          apply orElse_isHit_left
          unfold paramStep
          have hpe : path.isEmpty = false := by cases path <;> simp_all
          simp only [hpe, deriv_ne_nil_of_mem hmem, Bool.false_eq_true, or_self, if_false]
          by_cases hleaf : (deriv .param r).all (·.1.isEmpty) = true
          · have hts : ts' = [] := by
              have := List.all_eq_true.mp hleaf _ (mem_deriv.mpr hmem)
              simpa using this
            subst hts
            simp only [paramValue, hleaf, if_true, List.drop_length]
            exact ih _ _ _ _ [] e (mem_deriv.mpr hmem) hm (anyLastR_deriv hal) (by simp [Matches]) hlen'
          · simp only [paramValue, hleaf, Bool.false_eq_true, if_false]
            exact ih _ _ _ _ ts' e (mem_deriv.mpr hmem) hm (anyLastR_deriv hal) hm' hlen'
        | any =>
          apply orElse_isHit_right
          intro b2
          apply orElse_isHit_right
          intro b3
          unfold anyStep
          simp only [deriv_ne_nil_of_mem hmem, Bool.false_eq_true, if_false]
          have hts : ts' = [] := by
            have := hal _ hmem
            simpa [anyLast] using this
          subst hts
          have he : e ∈ ends (deriv .any r) := mem_ends.mpr (mem_deriv.mpr hmem)
          obtain ⟨e', hf⟩ := findM_isSome_of_mem he hm hne
          simp only [stepAny, hf]
          exact ⟨e', _, rfl⟩

/-- **C02_complete** — if some registered pattern matches the request path for the
    request's method, the request is dispatched to a registered handler: never the router's
    own 404 or 405, also when a deeper wildcard or parameter route exists only for other
    methods.  (`hal`: in every pattern `*` is the last token — text after `*` is out of scope.) -/
theorem C02_complete (es : List Entry) (hal : ∀ e ∈ es, anyLast e.toks = true)
    (e : Entry) (he : e ∈ es) (hne : e.method ≠ routeNotFound) (path : Str)
    (hmatch : Matches e.toks path) :
    ∃ e' vals, route es e.method path = .dispatch e' vals := by
  unfold route
  have hmem : (e.toks, e) ∈ initial es := List.mem_map.mpr ⟨e, he, rfl⟩
  have halr : AnyLastR (initial es) := by
    intro x hx
    obtain ⟨e0, he0, rfl⟩ := List.mem_map.mp hx
    exact hal e0 he0
  have hb := bound_ge_of_mem hmem
  obtain ⟨e', v, h⟩ := search_complete e.method hne (bound (initial es) + 1) (initial es) path [] none
    e.toks e hmem rfl halr hmatch (by omega)
  generalize search e.method (bound (initial es) + 1) (initial es) path [] none = s at h
  obtain ⟨res, b⟩ := s
  simp only at h
  subst h
  exact ⟨e', v, rfl⟩

/-- **C02_host_exact** — a request whose Host value is registered is routed with that
    host's table. -/
theorem C02_host_exact {α} (hosts : List (Str × α)) (dflt : α) (host : Str) (t : α)
    (h : hosts.find? (·.1 = host) = some (host, t)) : routeHost hosts dflt host = t := by
  simp [routeHost, h]

/-- **C02_host_other** — whichever table serves a request, it is either the default one or
    the table registered for exactly the request's Host value: a host table is never used
    for another Host. -/
theorem C02_host_other {α} (hosts : List (Str × α)) (dflt : α) (host : Str) :
    routeHost hosts dflt host = dflt ∨ (host, routeHost hosts dflt host) ∈ hosts := by
  unfold routeHost
  cases h : hosts.find? (·.1 = host) with
  | none => exact Or.inl rfl
  | some x =>
    obtain ⟨hn, t⟩ := x
    right
    have hm := List.mem_of_find?_eq_some h
    have hp := List.find?_some h
    simp only [decide_eq_true_eq] at hp
    subst hp
    exact hm

/-! ### non-vacuity and the behaviour the F1 repair restored -/

def tbl (l : List (String × String)) : List Entry :=
  (l.zipIdx.map fun ((m, p), i) => (⟨m.toList, p.toList, i⟩ : Route)).map mkEntry

/-- the F1 table: `GET /*`, `POST /ab/*`; `GET /ab/x` is served by `GET /*` -/
example : route (tbl [("GET", "/*"), ("POST", "/ab/*")]) "GET".toList "/ab/x".toList
    = .dispatch (mkEntry ⟨"GET".toList, "/*".toList, 0⟩) ["ab/x".toList] := by
  decide

example : Matches (mkEntry ⟨"GET".toList, "/*".toList, 0⟩).toks "/ab/x".toList := by
  simp [mkEntry, norm, normAux, Router.normalizeSlash, Matches]

end C02
