import EchoProofs.C04
/-!
# C04 — group scoping, registration level

"Group middleware runs … never for requests outside the prefix or for another host."

The first half of that clause is a fact about *registration programs*: whatever sequence of
`Pre/Use/Host/Group/Group.Use/Add` calls built the configuration, a middleware id that was only
ever handed to groups (never to `Add` as route-level middleware) can occur in the snapshot of a
route only if that route belongs to the host, and lies below the prefix, of one of the groups the
id was handed to (`C04_scope_routes`).  The request-level half (a route is only selected for
requests that its pattern matches) is `EchoProofs/C04ScopeReq.lean`.
-/
namespace C04
open Router

/-- a group prefix is empty or starts with `/` -/
def PfxOK (p : Str) : Prop := p = [] ∨ p.head? = some '/'

/-- the (host, prefix) of the group to which `op`, executed in configuration `c`, hands middleware `i` -/
def scopeOfOp (c : Cfg) (i : Mw) : Op → List (Str × Str)
  | .host name ms => if i ∈ ms then [(name, [])] else []
  | .group none pfx ms => if i ∈ ms then [([], pfx)] else []
  | .group (some p) pfx ms =>
    match c.groups[p]? with
    | some g => if i ∈ ms then [(g.host, g.pfx ++ pfx)] else []
    | none => []
  | .groupUse g ms =>
    match c.groups[g]? with
    | some gr => if i ∈ ms then [(gr.host, gr.pfx)] else []
    | none => []
  | _ => []

/-- all scopes in which a program hands out `i`, starting from configuration `c` -/
def scopesFrom (i : Mw) : Cfg → List Op → List (Str × Str)
  | _, [] => []
  | c, op :: ops => scopeOfOp c i op ++ scopesFrom i (exec c op) ops

def scopes (i : Mw) (ops : List Op) : List (Str × Str) := scopesFrom i {} ops

/-- `i` is never passed as route-level middleware -/
def GroupOnlyOp (i : Mw) : Op → Prop
  | .add _ _ _ _ _ ms => i ∉ ms
  | _ => True

/-- every prefix handed to `Group` is empty or starts with `/` -/
def PfxOKOp : Op → Prop
  | .group _ pfx _ => PfxOK pfx
  | _ => True

/-- in scope `s`: same host, below the prefix -/
def InScope (S : List (Str × Str)) (host path : Str) : Prop :=
  ∃ s ∈ S, s.1 = host ∧ s.2 <+: path

theorem InScope.mono {S S' : List (Str × Str)} {h p : Str} (hs : ∀ s ∈ S, s ∈ S') :
    InScope S h p → InScope S' h p := by
  rintro ⟨s, hm, h1, h2⟩; exact ⟨s, hs s hm, h1, h2⟩

/-- the invariant of a configuration with respect to one middleware id and the scopes given so far -/
structure Inv (i : Mw) (S : List (Str × Str)) (c : Cfg) : Prop where
  hostOK : ∀ g ∈ c.groups, g.host = [] ∨ g.host ∈ c.hosts
  pfxOK : ∀ g ∈ c.groups, PfxOK g.pfx
  grp : ∀ g ∈ c.groups, i ∈ g.mws → InScope S g.host g.pfx
  rts : ∀ r ∈ c.routes, i ∈ r.mws → InScope S r.host r.path

theorem Inv.mono {i : Mw} {S S' : List (Str × Str)} {c : Cfg} (hs : ∀ s ∈ S, s ∈ S') (h : Inv i S c) :
    Inv i S' c :=
  ⟨h.hostOK, h.pfxOK, fun g hg hi => (h.grp g hg hi).mono hs, fun r hr hi => (h.rts r hr hi).mono hs⟩

theorem pfxOK_append {p q : Str} (hp : PfxOK p) (hq : PfxOK q) : PfxOK (p ++ q) := by
  rcases hp with rfl | hp
  · simpa using hq
  · right
    cases p with
    | nil => simp at hp
    | cons a as => simpa using hp

/-- below a well-formed prefix, normalisation of the full path does not disturb the prefix -/
theorem prefix_normalize {s p q : Str} (hp : PfxOK p) (h : s <+: p) : s <+: normalizeSlash (p ++ q) := by
  rcases hp with rfl | hp
  · have : s = [] := List.prefix_nil.mp h
    subst this
    exact List.nil_prefix
  · cases p with
    | nil => simp at hp
    | cons a as =>
      simp only [List.head?_cons, Option.some.injEq] at hp
      subst hp
      have : normalizeSlash (('/' :: as) ++ q) = ('/' :: as) ++ q := by
        simp [normalizeSlash]
      rw [this]
      exact h.trans (List.prefix_append _ _)

/-- the host key `Echo.add` files a group's route under is the group's own host -/
theorem addRoute_host (c : Cfg) (host : Str) (hh : host = [] ∨ host ∈ c.hosts) :
    (if c.hosts.contains host then host else []) = host := by
  rcases hh with rfl | hh
  · split <;> rfl
  · have : c.hosts.contains host = true := by simpa using hh
    rw [this]; rfl

theorem addRoute_inv {i : Mw} {S : List (Str × Str)} {c : Cfg} (h : Inv i S c)
    (host method path : Str) (hid : Nat) (fails : Bool) (mws : List Mw)
    (hh : host = [] ∨ host ∈ c.hosts)
    (hnew : i ∈ mws → InScope S host (normalizeSlash path)) :
    Inv i S (addRoute c host method path hid fails mws) := by
  refine ⟨h.hostOK, h.pfxOK, h.grp, ?_⟩
  intro r hr hi
  simp only [addRoute, List.mem_append, List.mem_singleton] at hr
  rcases hr with hr | rfl
  · exact h.rts r hr hi
  · simp only [addRoute_host c host hh]
    exact hnew hi

theorem mem_set_iff {α} {l : List α} {n : Nat} {a x : α} (h : x ∈ l.set n a) :
    x = a ∨ x ∈ l := by
  induction l generalizing n with
  | nil => simp at h
  | cons b bs ih =>
    cases n with
    | zero =>
      simp only [List.set_cons_zero, List.mem_cons] at h
      rcases h with h | h
      · exact Or.inl h
      · exact Or.inr (List.mem_cons_of_mem _ h)
    | succ n =>
      simp only [List.set_cons_succ, List.mem_cons] at h
      rcases h with h | h
      · exact Or.inr (by simp [h])
      · rcases ih h with h | h
        · exact Or.inl h
        · exact Or.inr (List.mem_cons_of_mem _ h)

/-- `Group.Use` keeps the invariant when the new middleware is in scope of that group -/
theorem groupUse_inv {i : Mw} {S : List (Str × Str)} {c : Cfg} (h : Inv i S c) (gid : Nat) (ms : List Mw)
    (hnew : ∀ g, c.groups[gid]? = some g → i ∈ ms → InScope S g.host g.pfx) :
    Inv i S (groupUse c gid ms) := by
  unfold groupUse
  cases hg : c.groups[gid]? with
  | none => exact h
  | some g =>
    simp only
    have hgm : g ∈ c.groups := List.mem_of_getElem? hg
    have hsc : i ∈ g.mws ++ ms → InScope S g.host g.pfx := by
      intro hi
      rcases List.mem_append.mp hi with hi | hi
      · exact h.grp g hgm hi
      · exact hnew g hg hi
    -- the configuration with the group's list extended
    have h1 : Inv i S { c with groups := c.groups.set gid { g with mws := g.mws ++ ms } } := by
      refine ⟨?_, ?_, ?_, h.rts⟩
      · intro g' hg'
        rcases mem_set_iff hg' with rfl | hg'
        · exact h.hostOK g hgm
        · exact h.hostOK g' hg'
      · intro g' hg'
        rcases mem_set_iff hg' with rfl | hg'
        · exact h.pfxOK g hgm
        · exact h.pfxOK g' hg'
      · intro g' hg' hi
        rcases mem_set_iff hg' with rfl | hg'
        · exact hsc hi
        · exact h.grp g' hg' hi
    split
    · exact h1
    · have hp := h.pfxOK g hgm
      have hho := h.hostOK g hgm
      have h2 := addRoute_inv h1 g.host routeNotFound g.pfx 0 true (g.mws ++ ms) hho (by
        intro hi
        obtain ⟨s, hs, hs1, hs2⟩ := hsc hi
        refine ⟨s, hs, hs1, ?_⟩
        have := prefix_normalize (q := []) hp hs2
        simpa using this)
      exact addRoute_inv h2 g.host routeNotFound (g.pfx ++ "/*".toList) 0 true (g.mws ++ ms) hho (by
        intro hi
        obtain ⟨s, hs, hs1, hs2⟩ := hsc hi
        exact ⟨s, hs, hs1, prefix_normalize hp hs2⟩)

theorem inv_init (i : Mw) (S : List (Str × Str)) : Inv i S {} :=
  ⟨by intro g hg; simp at hg, by intro g hg; simp at hg, by intro g hg; simp at hg, by intro r hr; simp at hr⟩

/-- one registration step keeps the invariant, with the scopes extended by what the step hands out -/
theorem exec_inv {i : Mw} {S : List (Str × Str)} {c : Cfg} (h : Inv i S c) (op : Op)
    (hgo : GroupOnlyOp i op) (hpo : PfxOKOp op) : Inv i (S ++ scopeOfOp c i op) (exec c op) := by
  have hS : ∀ s ∈ S, s ∈ S ++ scopeOfOp c i op := fun s hs => List.mem_append_left _ hs
  cases op with
  | pre m => exact ⟨h.hostOK, h.pfxOK, fun g hg hi => (h.grp g hg hi).mono hS, fun r hr hi => (h.rts r hr hi).mono hS⟩
  | use j => exact ⟨h.hostOK, h.pfxOK, fun g hg hi => (h.grp g hg hi).mono hS, fun r hr hi => (h.rts r hr hi).mono hS⟩
  | host name ms =>
    simp only [exec]
    have h0 : Inv i (S ++ scopeOfOp c i (.host name ms))
        { c with hosts := if c.hosts.contains name then c.hosts else c.hosts ++ [name],
                 routes := c.routes.filter (·.host ≠ name),
                 groups := c.groups ++ [⟨name, [], []⟩] } := by
      refine ⟨?_, ?_, ?_, ?_⟩
      · intro g hg
        simp only [List.mem_append, List.mem_singleton] at hg
        rcases hg with hg | rfl
        · rcases h.hostOK g hg with h1 | h1
          · exact Or.inl h1
          · right
            split
            · exact h1
            · exact List.mem_append_left _ h1
        · right
          simp only
          split
          · rename_i hc; simpa using hc
          · simp
      · intro g hg
        simp only [List.mem_append, List.mem_singleton] at hg
        rcases hg with hg | rfl
        · exact h.pfxOK g hg
        · exact Or.inl rfl
      · intro g hg hi
        simp only [List.mem_append, List.mem_singleton] at hg
        rcases hg with hg | rfl
        · exact (h.grp g hg hi).mono hS
        · simp at hi
      · intro r hr hi
        have hr' : r ∈ c.routes := (List.mem_filter.mp hr).1
        exact (h.rts r hr' hi).mono hS
    apply groupUse_inv h0
    intro g hg hi
    simp only [List.length_append, List.length_singleton, Nat.add_sub_cancel] at hg
    rw [List.getElem?_append_right (Nat.le_refl _)] at hg
    simp only [Nat.sub_self, List.getElem?_cons_zero, Option.some.injEq] at hg
    subst hg
    refine ⟨(name, []), ?_, rfl, List.nil_prefix⟩
    simp [scopeOfOp, hi]
  | group parent pfx ms =>
    simp only [exec]
    simp only [PfxOKOp] at hpo
    cases parent with
    | none =>
      simp only
      have h0 : Inv i (S ++ scopeOfOp c i (.group none pfx ms)) { c with groups := c.groups ++ [⟨[], pfx, []⟩] } := by
        refine ⟨?_, ?_, ?_, fun r hr hi => (h.rts r hr hi).mono hS⟩
        · intro g hg
          simp only [List.mem_append, List.mem_singleton] at hg
          rcases hg with hg | rfl
          · exact h.hostOK g hg
          · exact Or.inl rfl
        · intro g hg
          simp only [List.mem_append, List.mem_singleton] at hg
          rcases hg with hg | rfl
          · exact h.pfxOK g hg
          · exact hpo
        · intro g hg hi
          simp only [List.mem_append, List.mem_singleton] at hg
          rcases hg with hg | rfl
          · exact (h.grp g hg hi).mono hS
          · simp at hi
      apply groupUse_inv h0
      intro g hg hi
      simp only [List.length_append, List.length_singleton, Nat.add_sub_cancel] at hg
      rw [List.getElem?_append_right (Nat.le_refl _)] at hg
      simp only [Nat.sub_self, List.getElem?_cons_zero, Option.some.injEq] at hg
      subst hg
      refine ⟨([], pfx), ?_, rfl, List.prefix_refl _⟩
      simp [scopeOfOp, hi]
    | some p =>
      simp only
      cases hp : c.groups[p]? with
      | none => simpa [scopeOfOp, hp] using h
      | some gp =>
        simp only
        have hgpm : gp ∈ c.groups := List.mem_of_getElem? hp
        have h0 : Inv i (S ++ scopeOfOp c i (.group (some p) pfx ms))
            { c with groups := c.groups ++ [⟨gp.host, gp.pfx ++ pfx, []⟩] } := by
          refine ⟨?_, ?_, ?_, fun r hr hi => (h.rts r hr hi).mono hS⟩
          · intro g hg
            simp only [List.mem_append, List.mem_singleton] at hg
            rcases hg with hg | rfl
            · exact h.hostOK g hg
            · exact h.hostOK gp hgpm
          · intro g hg
            simp only [List.mem_append, List.mem_singleton] at hg
            rcases hg with hg | rfl
            · exact h.pfxOK g hg
            · exact pfxOK_append (h.pfxOK gp hgpm) hpo
          · intro g hg hi
            simp only [List.mem_append, List.mem_singleton] at hg
            rcases hg with hg | rfl
            · exact (h.grp g hg hi).mono hS
            · simp at hi
        apply groupUse_inv h0
        intro g hg hi
        simp only [List.length_append, List.length_singleton, Nat.add_sub_cancel] at hg
        rw [List.getElem?_append_right (Nat.le_refl _)] at hg
        simp only [Nat.sub_self, List.getElem?_cons_zero, Option.some.injEq] at hg
        subst hg
        simp only
        rcases List.mem_append.mp hi with hi | hi
        · -- inherited from the parent: the parent's scope contains the child
          obtain ⟨s, hs, hs1, hs2⟩ := h.grp gp hgpm hi
          exact ⟨s, hS s hs, hs1, hs2.trans (List.prefix_append _ _)⟩
        · refine ⟨(gp.host, gp.pfx ++ pfx), ?_, rfl, List.prefix_refl _⟩
          simp [scopeOfOp, hp, hi]
  | groupUse g ms =>
    simp only [exec]
    apply groupUse_inv (h.mono hS)
    intro gr hg hi
    refine ⟨(gr.host, gr.pfx), ?_, rfl, List.prefix_refl _⟩
    simp [scopeOfOp, hg, hi]
  | add g method path hid fails ms =>
    simp only [exec]
    simp only [GroupOnlyOp] at hgo
    cases g with
    | none =>
      simp only
      exact addRoute_inv (h.mono hS) [] method path hid fails ms (Or.inl rfl) (fun hi => absurd hi hgo)
    | some gid =>
      simp only
      cases hg : c.groups[gid]? with
      | none => simpa [scopeOfOp] using h
      | some gr =>
        simp only
        have hgm : gr ∈ c.groups := List.mem_of_getElem? hg
        apply addRoute_inv (h.mono hS) gr.host method (gr.pfx ++ path) hid fails (gr.mws ++ ms) (h.hostOK gr hgm)
        intro hi
        rcases List.mem_append.mp hi with hi | hi
        · obtain ⟨s, hs, hs1, hs2⟩ := h.grp gr hgm hi
          exact ⟨s, hS s hs, hs1, prefix_normalize (h.pfxOK gr hgm) hs2⟩
        · exact absurd hi hgo

theorem run_inv (i : Mw) (ops : List Op) (hgo : ∀ op ∈ ops, GroupOnlyOp i op) (hpo : ∀ op ∈ ops, PfxOKOp op) :
    ∀ (c : Cfg) (S : List (Str × Str)), Inv i S c → Inv i (S ++ scopesFrom i c ops) (ops.foldl exec c) := by
  induction ops with
  | nil => intro c S h; simpa [scopesFrom] using h
  | cons op ops ih =>
    intro c S h
    have h1 := exec_inv h op (hgo op (by simp)) (hpo op (by simp))
    have h2 := ih (fun o ho => hgo o (List.mem_cons_of_mem _ ho)) (fun o ho => hpo o (List.mem_cons_of_mem _ ho)) _ _ h1
    simpa [scopesFrom, List.append_assoc] using h2

/-- **C04_scope_routes** — for every registration program, a middleware id that is only handed to
    groups occurs in the snapshot of a registered route only if the route is filed under the host,
    and its pattern starts with the prefix, of one of the groups the id was handed to. -/
theorem C04_scope_routes (i : Mw) (ops : List Op) (hgo : ∀ op ∈ ops, GroupOnlyOp i op)
    (hpo : ∀ op ∈ ops, PfxOKOp op) (r : RouteRec) (hr : r ∈ (run ops).routes) (hi : i ∈ r.mws) :
    ∃ s ∈ scopes i ops, s.1 = r.host ∧ s.2 <+: r.path := by
  have := run_inv i ops hgo hpo {} [] (inv_init i [])
  simp only [List.nil_append] at this
  exact this.rts r hr hi

/-! ### non-vacuity: the demo program hands middleware 3 to the group `/g` only -/
example : scopes 3 demo = [([], "/g".toList)] := by decide
example : ∀ op ∈ demo, GroupOnlyOp 3 op := by
  intro op hop
  simp only [demo, List.mem_cons, List.mem_nil_iff, or_false] at hop
  rcases hop with rfl | rfl | rfl | rfl | rfl <;> simp [GroupOnlyOp]
example : ∀ op ∈ demo, PfxOKOp op := by
  intro op hop
  simp only [demo, List.mem_cons, List.mem_nil_iff, or_false] at hop
  rcases hop with rfl | rfl | rfl | rfl | rfl <;> simp [PfxOKOp, PfxOK]

end C04
