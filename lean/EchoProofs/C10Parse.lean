import EchoModel.C10
import EchoProofs.C10
/-!
# C10 — `net.ParseIP` made concrete: IPv4 round trip and rejection lemmas

`EchoModel/C10Parse.lean` defines `parseIP` (transcription of `net.ParseIP` of Go 1.23).  This file
proves, for ALL bytes (no enumeration: induction over the decimal digits),

* `parseIP_v4`: the dotted decimal text of any four bytes parses to those bytes (16-byte form);
* `parseIP_ipString_v4`: `ParseIP(ip.String())` for every address with an IPv4 form;
* the rejection lemmas: a field with a leading zero, a field above 255, a zone, any byte outside
  `[0-9a-fA-F.:]` (in particular white space anywhere) make `parseIP` answer `none`.

The IPv6 round trip is in `EchoProofs/C10Parse6.lean`, the instantiation of the C10 theorems with
`parse := parseIP` in `EchoProofs/C10ParseInst.lean`.
-/
namespace C10

/-! ## decimal digits -/
theorem isDig_digitChar {d : Nat} (h : d < 10) : isDig (Nat.digitChar d) = true := by
  simp [isDig, Nat.toNat_digitChar_of_lt_ten h]; omega

theorem digVal_digitChar {d : Nat} (h : d < 10) : digVal (Nat.digitChar d) = d := by
  simp [digVal, Nat.toNat_digitChar_of_lt_ten h]

theorem v4Fields_digit (c : Char) (r : Str) (val dl : Nat) (fs : List Byte) (hc : isDig c = true) :
    v4Fields (c :: r) val dl fs =
      if dl = 1 ∧ val = 0 then none
      else if val * 10 + digVal c > 255 then none
      else v4Fields r (val * 10 + digVal c) (dl + 1) fs := by
  simp only [v4Fields, hc, ↓reduceIte]

theorem v4Fields_toDigits (n : Nat) (hn : n ≤ 255) (t : Str) (fs : List Byte) :
    v4Fields (Nat.toDigits 10 n ++ t) 0 0 fs = v4Fields t n (Nat.toDigits 10 n).length fs := by
  induction n using Nat.strongRecOn generalizing t with
  | ind n ih =>
    rw [Nat.toDigits_eq_if (by omega : 1 < 10)]
    split
    · rename_i h
      simp [v4Fields_digit _ _ _ _ _ (isDig_digitChar h), digVal_digitChar h]
      omega
    · rename_i h
      have hlt : n / 10 < n := by omega
      have hm : n % 10 < 10 := by omega
      rw [List.append_assoc, ih (n / 10) hlt (by omega)]
      simp only [List.singleton_append, List.length_append, List.length_singleton]
      rw [v4Fields_digit _ _ _ _ _ (isDig_digitChar hm), digVal_digitChar hm]
      have h1 : ¬ ((Nat.toDigits 10 (n / 10)).length = 1 ∧ n / 10 = 0) := by omega
      have h2 : ¬ (n > 255) := by omega
      have h3 : n / 10 * 10 + n % 10 = n := by omega
      simp only [h1, h3, h2, if_false]

theorem decStr_eq (n : Nat) : decStr n = Nat.toDigits 10 n := by
  simp [decStr]

theorem isDig_of_mem_toDigits (n : Nat) : ∀ c ∈ Nat.toDigits 10 n, isDig c = true := by
  induction n using Nat.strongRecOn with
  | ind n ih =>
    rw [Nat.toDigits_eq_if (by omega : 1 < 10)]
    split
    · rename_i h
      intro c hc
      simp only [List.mem_singleton] at hc
      subst hc; exact isDig_digitChar h
    · intro c hc
      rcases List.mem_append.mp hc with hc | hc
      · exact ih (n / 10) (by omega) c hc
      · simp only [List.mem_singleton] at hc
        subst hc; exact isDig_digitChar (by omega)

theorem isDig_ne (c : Char) (h : isDig c = true) : c ≠ '.' ∧ c ≠ ':' ∧ c ≠ '%' := by
  refine ⟨?_, ?_, ?_⟩ <;> (intro h'; subst h'; simp [isDig] at h)

theorem v4Fields_dot (r : Str) (val dl : Nat) (fs : List Byte) (hdl : dl ≠ 0) (hr : r ≠ [])
    (hfs : fs.length ≠ 3) :
    v4Fields ('.' :: r) val dl fs = v4Fields r 0 0 (fs ++ [BitVec.ofNat 8 val]) := by
  have : isDig '.' = false := by decide
  simp [v4Fields, this, hdl, hr, hfs]

/-- one complete field followed by a dot -/
theorem v4Fields_field (b : Byte) (r : Str) (fs : List Byte) (hr : r ≠ []) (hfs : fs.length ≠ 3) :
    v4Fields (decStr b.toNat ++ '.' :: r) 0 0 fs = v4Fields r 0 0 (fs ++ [b]) := by
  rw [decStr_eq, v4Fields_toDigits _ (by omega) _ _,
    v4Fields_dot _ _ _ _ (by have := @Nat.length_toDigits_pos 10 b.toNat; omega) hr hfs]
  simp

/-- the last field -/
theorem v4Fields_last (b : Byte) (fs : List Byte) (hfs : fs.length = 3) :
    v4Fields (decStr b.toNat) 0 0 fs = some (fs ++ [b]) := by
  have := v4Fields_toDigits b.toNat (by omega) [] fs
  rw [List.append_nil] at this
  rw [decStr_eq, this]
  simp [v4Fields, hfs]

def dotted (a b c d : Byte) : Str :=
  joinStrs '.' [decStr a.toNat, decStr b.toNat, decStr c.toNat, decStr d.toNat]

/-- the 16-byte form `::ffff:a.b.c.d` that `net.ParseIP` returns for an IPv4 text -/
def v4 (a b c d : Byte) : IP := v4InV6Prefix ++ [a, b, c, d]

theorem dotted_eq (a b c d : Byte) :
    dotted a b c d = decStr a.toNat ++ '.' :: (decStr b.toNat ++ '.' :: (decStr c.toNat ++ '.' :: decStr d.toNat)) := by
  simp [dotted, joinStrs, joinWith]

theorem decStr_ne_nil (n : Nat) : decStr n ≠ [] := by
  rw [decStr_eq]; exact Nat.toDigits_ne_nil

theorem parseV4_dotted (a b c d : Byte) : parseV4 (dotted a b c d) = some (v4 a b c d) := by
  rw [parseV4, dotted_eq]
  rw [v4Fields_field a _ [] (by simp) (by simp), v4Fields_field b _ _ (by simp) (by simp),
    v4Fields_field c _ _ (decStr_ne_nil _) (by simp), v4Fields_last d _ (by simp)]
  simp [v4]

theorem dispatch_digits (s ds r : Str) (h : ∀ c ∈ ds, isDig c = true) :
    dispatch s (ds ++ '.' :: r) = parseV4 s := by
  induction ds with
  | nil => simp [dispatch]
  | cons c ds ih =>
    obtain ⟨h1, h2, h3⟩ := isDig_ne c (h c (by simp))
    simp only [List.cons_append, dispatch, h1, h2, h3, if_false]
    exact ih (fun c' hc' => h c' (by simp [hc']))

/-- **parseIP_v4** — the decimal dotted text of ANY four bytes parses to exactly those bytes
    (in the 16-byte IPv4-mapped form `net.ParseIP` returns). -/
theorem parseIP_v4 (a b c d : Byte) : parseIP (dotted a b c d) = some (v4 a b c d) := by
  rw [parseIP]
  conv => lhs; arg 2; rw [dotted_eq]
  rw [dispatch_digits _ _ _ (by rw [decStr_eq]; exact isDig_of_mem_toDigits _)]
  exact parseV4_dotted a b c d


/-! ## `IP.String` of an address with an IPv4 form -/

theorem to4_some_len (ip p4 : IP) (h : to4 ip = some p4) : p4.length = 4 ∧ (ip.length = 4 ∨ ip.length = 16) := by
  unfold to4 at h
  split at h
  · cases h; omega
  · split at h
    · rename_i h2; cases h; simp [h2.1]
    · cases h

theorem ipString_to4 (ip : IP) (a b c d : Byte) (h : to4 ip = some [a, b, c, d]) :
    ipString ip = dotted a b c d := by
  have hl := (to4_some_len ip _ h).2
  have h0 : ip.length ≠ 0 := by omega
  have h1 : ¬ (ip.length ≠ 4 ∧ ip.length ≠ 16) := by omega
  simp only [ipString, h0, h1, if_false, h]
  rfl

/-- **parseIP_ipString_v4** — for every address with an IPv4 form (`To4() != nil`: the 4-byte
    slices and the 16-byte IPv4-mapped ones) the text `IP.String` prints parses, and gives the
    16-byte IPv4-mapped form of the same four bytes. -/
theorem parseIP_ipString_v4 (ip p4 : IP) (h : to4 ip = some p4) :
    parseIP (ipString ip) = some (v4InV6Prefix ++ p4) := by
  obtain ⟨a, b, c, d, rfl⟩ := len4 p4 (to4_some_len ip p4 h).1
  rw [ipString_to4 ip a b c d h, parseIP_v4]; rfl

theorem parseIP_ipString_len4 (a b c d : Byte) : parseIP (ipString [a, b, c, d]) = some (v4 a b c d) :=
  parseIP_ipString_v4 _ _ (to4_len4 a b c d)

/-- a 16-byte IPv4-mapped address is a fixed point: `ParseIP(ip.String()) = ip` -/
theorem parseIP_ipString_mapped (ip : IP) (h16 : ip.length = 16) (hm : ip.take 12 = v4InV6Prefix) :
    parseIP (ipString ip) = some ip := by
  rw [parseIP_ipString_v4 ip _ (to4_mapped ip h16 hm), ← hm, List.take_append_drop]


/-! ## rejection -/

/-- every byte of a text `parseIPv4Fields` accepts is a decimal digit or a dot -/
theorem v4Fields_chars (s : Str) (val dl : Nat) (fs o : List Byte) (h : v4Fields s val dl fs = some o) :
    ∀ c ∈ s, isDig c = true ∨ c = '.' := by
  induction s generalizing val dl fs with
  | nil => intro c hc; cases hc
  | cons x r ih =>
    intro c hc
    rw [v4Fields] at h
    split at h
    · rename_i hx
      split at h
      · cases h
      · split at h
        · cases h
        · rcases List.mem_cons.mp hc with rfl | hm
          · exact .inl hx
          · exact ih _ _ _ h c hm
    · split at h
      · rename_i hd
        split at h
        · cases h
        · split at h
          · cases h
          · rcases List.mem_cons.mp hc with rfl | hm
            · exact .inr hd
            · exact ih _ _ _ h c hm
      · cases h

/-- a text that `parseIPv4Fields` refuses at the start of a field, whatever was stored before -/
def BadField (s : Str) : Prop := ∀ fs, v4Fields s 0 0 fs = none

/-- a field with a leading zero (`0` followed by another digit) -/
theorem badField_leading_zero (c : Char) (r : Str) (hc : isDig c = true) : BadField ('0' :: c :: r) := by
  intro fs
  have h0 : isDig '0' = true := by decide
  have h1 : digVal '0' = 0 := by decide
  simp [v4Fields, h0, hc, h1]

/-- a field whose decimal value exceeds 255 (any number of digits, whatever follows) -/
theorem badField_gt255 (n : Nat) (hn : n > 255) (t : Str) : BadField (decStr n ++ t) := by
  intro fs
  rw [decStr_eq]
  induction n using Nat.strongRecOn generalizing t with
  | ind n ih =>
    rw [Nat.toDigits_eq_if (by omega : 1 < 10)]
    have h : ¬ n < 10 := by omega
    simp only [h, if_false, List.append_assoc, List.singleton_append]
    by_cases hq : n / 10 > 255
    · exact ih (n / 10) (by omega) hq _
    · have hm : n % 10 < 10 := by omega
      rw [v4Fields_toDigits _ (by omega), v4Fields_digit _ _ _ _ _ (isDig_digitChar hm), digVal_digitChar hm]
      have h2 : n / 10 * 10 + n % 10 > 255 := by omega
      simp [h2]

/-- once a bad field follows a dot, the loop fails whatever it has read before -/
theorem v4Fields_bad_after_dot (q s : Str) (hs : BadField s) (val dl : Nat) (fs : List Byte) :
    v4Fields (q ++ '.' :: s) val dl fs = none := by
  induction q generalizing val dl fs with
  | nil =>
    have : isDig '.' = false := by decide
    simp only [List.nil_append, v4Fields, this, hs (fs ++ [BitVec.ofNat 8 val])]
    simp
  | cons x q ih =>
    simp [v4Fields, ih]

theorem v4Fields_bad (p s : Str) (hp : p = [] ∨ ∃ q, p = q ++ ['.']) (hs : BadField s) :
    v4Fields (p ++ s) 0 0 [] = none := by
  rcases hp with rfl | ⟨q, rfl⟩
  · exact hs []
  · rw [List.append_assoc]; exact v4Fields_bad_after_dot q s hs 0 0 []

theorem dispatch_no_colon (s t : Str) (h : ∀ c ∈ t, c ≠ ':') : dispatch s t = none ∨ dispatch s t = parseV4 s := by
  induction t with
  | nil => exact .inl rfl
  | cons c r ih =>
    have hc : c ≠ ':' := h c (by simp)
    simp only [dispatch, hc, if_false]
    split
    · exact .inr rfl
    · split
      · exact .inl rfl
      · exact ih (fun c' hc' => h c' (by simp [hc']))

/-- a text without a colon is an IPv4 text or nothing -/
theorem parseIP_no_colon (s : Str) (h : ∀ c ∈ s, c ≠ ':') (hv : v4Fields s 0 0 [] = none) : parseIP s = none := by
  rcases dispatch_no_colon s s h with h' | h'
  · exact h'
  · rw [parseIP, h', parseV4, hv]

/-- **parseIP_bad_field** — a dotted text in which some field (the first, or one after a dot) is
    refused by the field parser is not an address, whatever the other fields are. -/
theorem parseIP_bad_field (p s : Str) (hp : p = [] ∨ ∃ q, p = q ++ ['.']) (hs : BadField s)
    (hc : ∀ x ∈ p ++ s, x ≠ ':') : parseIP (p ++ s) = none :=
  parseIP_no_colon _ hc (v4Fields_bad p s hp hs)

/-- **parseIP_leading_zero** — no IPv4 field may have a leading zero (`01.2.3.4`, `1.2.3.04`, …) -/
theorem parseIP_leading_zero (p r : Str) (c : Char) (hp : p = [] ∨ ∃ q, p = q ++ ['.']) (hd : isDig c = true)
    (hc : ∀ x ∈ p ++ '0' :: c :: r, x ≠ ':') : parseIP (p ++ '0' :: c :: r) = none :=
  parseIP_bad_field p _ hp (badField_leading_zero c r hd) hc

/-- **parseIP_field_gt255** — no IPv4 field may exceed 255 (`256.1.1.1`, `1.2.3.1000`, …) -/
theorem parseIP_field_gt255 (p t : Str) (n : Nat) (hn : n > 255) (hp : p = [] ∨ ∃ q, p = q ++ ['.'])
    (hc : ∀ x ∈ p ++ (decStr n ++ t), x ≠ ':') : parseIP (p ++ (decStr n ++ t)) = none :=
  parseIP_bad_field p _ hp (badField_gt255 n hn t) hc

theorem dispatch_zone (s t : Str) (hs : '%' ∈ s) (ht : '%' ∈ t) : dispatch s t = none := by
  induction t with
  | nil => cases ht
  | cons c r ih =>
    simp only [dispatch]
    split
    · -- IPv4: `%` is an unexpected character
      rw [parseV4]
      cases hv : v4Fields s 0 0 [] with
      | none => rfl
      | some o =>
        rcases v4Fields_chars s 0 0 [] o hv '%' hs with h | h
        · simp [isDig] at h
        · simp at h
    · split
      · simp [parseV6, hs]
      · split
        · rfl
        · rename_i h1 h2 h3
          rcases List.mem_cons.mp ht with h | h
          · exact absurd h.symm h3
          · exact ih h

/-- **parseIP_zone** — `net.ParseIP` accepts no zone: any text containing `%` is refused
    (`fe80::1%eth0`, `1.2.3.4%eth0`, `%eth0`, …). -/
theorem parseIP_zone (s : Str) (h : '%' ∈ s) : parseIP s = none := dispatch_zone s s h h

/-! ## the alphabet of accepted texts -/

/-- the alphabet of IP literals: hex digits (both cases), `.` and `:` -/
def okChar (c : Char) : Bool := (hexVal6 c).isSome || c == '.' || c == ':'

theorem okChar_of_isDig (c : Char) (h : isDig c = true) : okChar c = true := by
  simp only [isDig, decide_eq_true_eq] at h
  simp [okChar, hexVal6, h]

theorem readHex_split (s : Str) (acc off a o : Nat) (rest : Str) (h : readHex s acc off = some (a, o, rest)) :
    ∃ ds, s = ds ++ rest ∧ ∀ c ∈ ds, (hexVal6 c).isSome = true := by
  induction s generalizing acc off with
  | nil => simp only [readHex] at h; cases h; exact ⟨[], rfl, by simp⟩
  | cons x r ih =>
    rw [readHex] at h
    split at h
    · cases h; exact ⟨[], rfl, by simp⟩
    · rename_i v hv
      split at h
      · cases h
      · obtain ⟨ds, hds, hall⟩ := ih _ _ h
        refine ⟨x :: ds, by simp [hds], ?_⟩
        intro c hc
        rcases List.mem_cons.mp hc with rfl | hm
        · simp [hv]
        · exact hall c hm

theorem loop6_chars (f : Nat) (s : Str) (ip : List Byte) (ell : Option Nat) (rest : Str) (ip' : List Byte)
    (ell' : Option Nat) (h : loop6 f s ip ell = some (rest, ip', ell')) :
    ∃ pre, s = pre ++ rest ∧ ∀ c ∈ pre, okChar c = true := by
  induction f generalizing s ip ell with
  | zero => simp only [loop6] at h; cases h; exact ⟨[], rfl, by simp⟩
  | succ f ih =>
    rw [loop6] at h
    cases hr : readHex s 0 0 with
    | none => simp only [hr] at h; cases h
    | some t =>
      obtain ⟨acc, off, rst⟩ := t
      simp only [hr] at h
      obtain ⟨ds, hds, hall⟩ := readHex_split s 0 0 acc off rst hr
      have hds' : ∀ c ∈ ds, okChar c = true := fun c hc => by simp [okChar, hall c hc]
      have hcolon : okChar ':' = true := by decide
      by_cases ho : off = 0
      · simp [ho] at h
      · simp only [ho, if_false] at h
        by_cases hdot : rst.head? = some '.'
        · simp only [hdot, if_true] at h
          split at h
          · cases h
          · split at h
            · cases h
            · split at h
              · cases h
              · rename_i f4 hv
                cases h
                refine ⟨s, by simp, ?_⟩
                intro c hc
                rcases v4Fields_chars s 0 0 [] f4 hv c hc with h1 | h1
                · exact okChar_of_isDig c h1
                · simp [okChar, h1]
        · simp only [hdot, if_false] at h
          cases rst with
          | nil => simp only at h; cases h; exact ⟨ds, hds, hds'⟩
          | cons c r1 =>
            by_cases hc : c = ':'
            · subst hc
              simp only [ne_eq, not_true_eq_false, if_false] at h
              cases r1 with
              | nil => simp only at h; cases h
              | cons c2 r2 =>
                by_cases hc2 : c2 = ':'
                · subst hc2
                  simp only [if_true] at h
                  split at h
                  · cases h
                  · split at h
                    · rename_i hr2
                      cases h
                      refine ⟨s, by simp, ?_⟩
                      intro x hx
                      rw [hds, hr2] at hx
                      rcases List.mem_append.mp hx with hx | hx
                      · exact hds' x hx
                      · have : x = ':' := by simpa using hx
                        rw [this]; exact hcolon
                    · obtain ⟨pre, hpre, hok⟩ := ih _ _ _ h
                      refine ⟨ds ++ ':' :: ':' :: pre, by simp [hds, hpre], ?_⟩
                      intro x hx
                      rcases List.mem_append.mp hx with hx | hx
                      · exact hds' x hx
                      · rcases List.mem_cons.mp hx with rfl | hx
                        · exact hcolon
                        · rcases List.mem_cons.mp hx with rfl | hx
                          · exact hcolon
                          · exact hok x hx
                · simp only [hc2, if_false] at h
                  obtain ⟨pre, hpre, hok⟩ := ih _ _ _ h
                  refine ⟨ds ++ ':' :: pre, by simp [hds, hpre], ?_⟩
                  intro x hx
                  rcases List.mem_append.mp hx with hx | hx
                  · exact hds' x hx
                  · rcases List.mem_cons.mp hx with rfl | hx
                    · exact hcolon
                    · exact hok x hx
            · simp [hc] at h

theorem expand6_chars (f : Nat) (s : Str) (ip0 : List Byte) (ell : Option Nat) (ip : IP)
    (h : expand6 (loop6 f s ip0 ell) = some ip) : ∀ c ∈ s, okChar c = true := by
  cases hl : loop6 f s ip0 ell with
  | none => rw [hl] at h; cases h
  | some t =>
    obtain ⟨rest, ip', ell'⟩ := t
    simp only [hl, expand6] at h
    obtain ⟨pre, hpre, hok⟩ := loop6_chars f s ip0 ell rest ip' ell' hl
    by_cases hr : rest = []
    · subst hr; rw [hpre, List.append_nil]; exact hok
    · simp [hr] at h

theorem parseV6_chars (s : Str) (ip : IP) (h : parseV6 s = some ip) : ∀ c ∈ s, okChar c = true := by
  have hcolon : okChar ':' = true := by decide
  by_cases hz : s.contains '%' = true
  · unfold parseV6 at h; rw [if_pos hz] at h; cases h
  · cases s with
    | nil => exact fun c hc => by cases hc
    | cons c1 t =>
      cases t with
      | nil =>
        unfold parseV6 at h; rw [if_neg hz] at h
        exact expand6_chars _ _ _ _ _ h
      | cons c2 r =>
        unfold parseV6 at h; rw [if_neg hz] at h
        dsimp only at h
        split at h
        · rename_i hcc
          obtain ⟨h1, h2⟩ := hcc
          subst h1; subst h2
          split at h
          · rename_i hr; subst hr
            intro c hc
            have : c = ':' := by simpa using hc
            rw [this]; exact hcolon
          · intro c hc
            rcases List.mem_cons.mp hc with rfl | hc
            · exact hcolon
            · rcases List.mem_cons.mp hc with rfl | hc
              · exact hcolon
              · exact expand6_chars _ _ _ _ _ h c hc
        · exact expand6_chars _ _ _ _ _ h

theorem dispatch_some (s t : Str) (ip : IP) (h : dispatch s t = some ip) :
    parseV4 s = some ip ∨ parseV6 s = some ip := by
  induction t with
  | nil => cases h
  | cons c r ih =>
    rw [dispatch] at h
    split at h
    · exact .inl h
    · split at h
      · exact .inr h
      · split at h
        · cases h
        · exact ih h

/-- **parseIP_chars** — an accepted text consists of hex digits, dots and colons only: no white
    space (leading, trailing or inside), no brackets, no port, no zone, no sign, no byte ≥ 0x80
    (so no non-ASCII digit). -/
theorem parseIP_chars (s : Str) (ip : IP) (h : parseIP s = some ip) : ∀ c ∈ s, okChar c = true := by
  rcases dispatch_some s s ip h with h | h
  · rw [parseV4] at h
    cases hv : v4Fields s 0 0 [] with
    | none => rw [hv] at h; cases h
    | some o =>
      intro c hc
      rcases v4Fields_chars s 0 0 [] o hv c hc with h1 | h1
      · exact okChar_of_isDig c h1
      · simp [okChar, h1]
  · exact parseV6_chars s ip h

/-- **parseIP_bad_char** — contrapositive: one byte outside `[0-9a-fA-F.:]` anywhere ⇒ `none` -/
theorem parseIP_bad_char (s : Str) (c : Char) (hc : c ∈ s) (hbad : okChar c = false) : parseIP s = none := by
  cases h : parseIP s with
  | none => rfl
  | some ip => have := parseIP_chars s ip h c hc; rw [hbad] at this; cases this

/-! ## no white space around an accepted text -/

theorem okChar_not_space (c : Char) (h : isAsciiSpace c = true) : okChar c = false := by
  simp only [isAsciiSpace, Bool.or_eq_true, beq_iff_eq] at h
  rcases h with ((((h | h) | h) | h) | h) | h <;> (subst h; decide)

theorem okChar_lt128 (c : Char) (h : okChar c = true) : c.toNat < 128 := by
  simp only [okChar, Bool.or_eq_true, beq_iff_eq] at h
  rcases h with (h | h) | h
  · unfold hexVal6 at h
    split at h
    · omega
    · split at h
      · omega
      · split at h
        · omega
        · cases h
  · subst h; decide
  · subst h; decide

/-- every pattern starts with a byte ≥ 0x80 -/
def highPats (pats : List Str) : Bool :=
  pats.all fun p => match p with | x :: _ => decide (128 ≤ x.toNat) | [] => false

theorem stripOnePrefix_low (pats : List Str) (hp : highPats pats = true) (c : Char) (r : Str) (hc : c.toNat < 128) :
    stripOnePrefix pats (c :: r) = none := by
  induction pats with
  | nil => rfl
  | cons p ps ih =>
    simp only [highPats, List.all_cons, Bool.and_eq_true] at hp
    cases p with
    | nil => simp at hp
    | cons x xs =>
      have hx : 128 ≤ x.toNat := by simpa using hp.1
      have hne : (x == c) = false := by
        rw [beq_eq_false_iff_ne]; intro h; subst h; omega
      simp only [stripOnePrefix, List.findSome?_cons, List.isPrefixOf, hne, Bool.false_and]
      exact ih hp.2

theorem trimLeftFuel_ok (pats : List Str) (hp : highPats pats = true) (n : Nat) (s : Str)
    (h : ∀ c, s.head? = some c → okChar c = true) : trimLeftFuel pats n s = s := by
  cases n with
  | zero => rfl
  | succ n =>
    cases s with
    | nil => rfl
    | cons c r =>
      have hok := h c rfl
      have h1 : isAsciiSpace c = false := by
        cases hs : isAsciiSpace c with
        | false => rfl
        | true => rw [okChar_not_space c hs] at hok; cases hok
      simp [trimLeftFuel, h1, stripOnePrefix_low pats hp c r (okChar_lt128 c hok)]

theorem trimSpace_ok (s : Str) (h : ∀ c ∈ s, okChar c = true) : trimSpace s = s := by
  have h1 : highPats uniSpaces = true := by decide
  have h2 : highPats (uniSpaces.map List.reverse) = true := by decide
  simp only [trimSpace]
  rw [trimLeftFuel_ok _ h1 _ s (fun c hc => h c (List.mem_of_mem_head? hc))]
  rw [trimLeftFuel_ok _ h2 _ s.reverse (fun c hc => h c (by simpa using List.mem_of_mem_head? hc))]
  exact List.reverse_reverse s

/-- **parseIP_no_space** — an accepted text is invariant under `strings.TrimSpace` -/
theorem parseIP_no_space (s : Str) (h : (parseIP s).isSome = true) : trimSpace s = s := by
  cases hp : parseIP s with
  | none => rw [hp] at h; cases h
  | some ip => exact trimSpace_ok s (parseIP_chars s ip hp)

/-- leading white space ⇒ `none` (ASCII white space; the Unicode spaces consist of bytes ≥ 0x80) -/
theorem parseIP_space_left (c : Char) (s : Str) (h : isAsciiSpace c = true ∨ 128 ≤ c.toNat) : parseIP (c :: s) = none := by
  apply parseIP_bad_char _ c (by simp)
  rcases h with h | h
  · exact okChar_not_space c h
  · cases hk : okChar c with
    | false => rfl
    | true => have := okChar_lt128 c hk; omega

/-- trailing white space ⇒ `none` -/
theorem parseIP_space_right (c : Char) (s : Str) (h : isAsciiSpace c = true ∨ 128 ≤ c.toNat) : parseIP (s ++ [c]) = none := by
  apply parseIP_bad_char _ c (by simp)
  rcases h with h | h
  · exact okChar_not_space c h
  · cases hk : okChar c with
    | false => rfl
    | true => have := okChar_lt128 c hk; omega

/-! ## the result has 16 bytes -/

theorem v4Fields_length (s : Str) (val dl : Nat) (fs o : List Byte) (h : v4Fields s val dl fs = some o)
    (hfs : fs.length ≤ 3) : o.length = 4 := by
  induction s generalizing val dl fs with
  | nil =>
    simp only [v4Fields] at h
    split at h
    · cases h
    · cases h; simp; omega
  | cons x r ih =>
    rw [v4Fields] at h
    split at h
    · split at h
      · cases h
      · split at h
        · cases h
        · exact ih _ _ _ h hfs
    · split at h
      · split at h
        · cases h
        · split at h
          · cases h
          · exact ih _ _ _ h (by simp; omega)
      · cases h

theorem loop6_length (f : Nat) (s : Str) (ip : List Byte) (ell : Option Nat) (rest : Str) (ip' : List Byte)
    (ell' : Option Nat) (h : loop6 f s ip ell = some (rest, ip', ell')) (hlen : ip.length + 2 * f ≤ 16) :
    ip'.length ≤ 16 := by
  induction f generalizing s ip ell with
  | zero => simp only [loop6] at h; cases h; omega
  | succ f ih =>
    rw [loop6] at h
    split at h
    · cases h
    · split at h
      · cases h
      · split at h
        · split at h
          · cases h
          · split at h
            · cases h
            · split at h
              · cases h
              · rename_i f4 hv
                cases h
                have := v4Fields_length _ _ _ _ _ hv (by simp)
                simp only [List.length_append]; omega
        · dsimp only at h
          split at h
          · cases h; simp; omega
          · split at h
            · cases h
            · split at h
              · cases h
              · split at h
                · split at h
                  · cases h
                  · split at h
                    · cases h; simp; omega
                    · exact ih _ _ _ h (by simp; omega)
                · exact ih _ _ _ h (by simp; omega)

theorem expand6_length (f : Nat) (s : Str) (ell : Option Nat) (ip : IP) (hf : f ≤ 8)
    (h : expand6 (loop6 f s [] ell) = some ip) : ip.length = 16 := by
  cases hl : loop6 f s [] ell with
  | none => rw [hl] at h; cases h
  | some t =>
    obtain ⟨rest, ip', ell'⟩ := t
    simp only [hl, expand6] at h
    have hle := loop6_length f s [] ell rest ip' ell' hl (by simp; omega)
    split at h
    · cases h
    · split at h
      · split at h
        · cases h
        · cases h
          simp only [List.length_append, List.length_take, List.length_replicate, List.length_drop]
          omega
      · split at h
        · cases h
        · cases h; omega

theorem parseV6_length (s : Str) (ip : IP) (h : parseV6 s = some ip) : ip.length = 16 := by
  by_cases hz : s.contains '%' = true
  · unfold parseV6 at h; rw [if_pos hz] at h; cases h
  · unfold parseV6 at h; rw [if_neg hz] at h
    split at h
    · split at h
      · split at h
        · cases h; simp
        · exact expand6_length _ _ _ _ (by omega) h
      · exact expand6_length _ _ _ _ (by omega) h
    · exact expand6_length _ _ _ _ (by omega) h

/-- **parseIP_length** — like `net.ParseIP`, `parseIP` answers nil or a 16-byte slice -/
theorem parseIP_length (s : Str) (ip : IP) (h : parseIP s = some ip) : ip.length = 16 := by
  rcases dispatch_some s s ip h with h | h
  · rw [parseV4] at h
    cases hv : v4Fields s 0 0 [] with
    | none => rw [hv] at h; cases h
    | some o =>
      rw [hv] at h; cases h
      have := v4Fields_length _ _ _ _ _ hv (by simp)
      simp [v4InV6Prefix, this]
  · exact parseV6_length s ip h

/-! ## non-vacuity -/

example : dotted 192 168 1 1 = "192.168.1.1".toList ∧ dotted 0 0 0 0 = "0.0.0.0".toList ∧
    dotted 255 255 255 255 = "255.255.255.255".toList := by decide
example : parseIP "192.168.1.1".toList = some (v4 192 168 1 1) ∧ parseIP "0.0.0.0".toList = some (v4 0 0 0 0) ∧
    parseIP "255.255.255.255".toList = some (v4 255 255 255 255) := by decide
example : ipString [10, 0, 0, 1] = "10.0.0.1".toList ∧ ipString (v4 10 0 0 1) = "10.0.0.1".toList ∧
    parseIP (ipString [10, 0, 0, 1]) = some (v4 10 0 0 1) := by decide
-- the rejection lemmas speak about real inputs
example : parseIP "01.2.3.4".toList = none ∧ parseIP "1.2.3.04".toList = none ∧ parseIP "1.2.3.256".toList = none ∧
    parseIP "1.2.3.1000".toList = none ∧ parseIP "1.2.3".toList = none ∧ parseIP "1.2.3.4.5".toList = none ∧
    parseIP "1.2.3.4.".toList = none ∧ parseIP "+1.2.3.4".toList = none ∧ parseIP "0x1.2.3.4".toList = none ∧
    parseIP "1.2.3.4%eth0".toList = none ∧ parseIP " 1.2.3.4".toList = none ∧ parseIP "1.2.3.4 ".toList = none ∧
    parseIP "1.2.3.4:80".toList = none ∧ parseIP "".toList = none := by decide
example : BadField "04".toList ∧ BadField ("256".toList ++ ".1".toList) :=
  ⟨badField_leading_zero '4' [] (by decide), badField_gt255 256 (by omega) _⟩
example : okChar ' ' = false ∧ okChar '\t' = false ∧ okChar '%' = false ∧ okChar '[' = false ∧ okChar 'g' = false ∧
    okChar (Char.ofNat 0xa0) = false ∧ okChar 'F' = true ∧ okChar 'f' = true ∧ okChar '9' = true := by decide

end C10
