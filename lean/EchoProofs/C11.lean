import EchoModel.C11
/-!
# C11 — theorems about the CORS model

`Glob` is an inductive specification of the pattern language the property names (`*` any run of
characters, `?` exactly one, everything else literal, whole string); `glob_iff` shows the
executable matcher of the model decides it.  All theorems quantify over every allow-list, every
flag combination and every origin (valid in the sense of `ValidOrigin` where the statement is about
what an entry *means*).
-/
namespace C11

/-- the pattern language of the property, as an independent inductive specification: `*` stands for
    any run of characters (also the empty one), `?` for exactly one character, every other
    character for itself, and the whole string must be matched -/
inductive Glob : Str → Str → Prop
  | nil : Glob [] []
  | star (x : Str) {p s t : Str} : s = x ++ t → Glob p t → Glob ('*' :: p) s
  | any (c : Char) {p t : Str} : Glob p t → Glob ('?' :: p) (c :: t)
  | lit (a : Char) {p t : Str} : a ≠ '*' → a ≠ '?' → Glob p t → Glob (a :: p) (a :: t)

theorem anySuffix_iff (f : Str → Bool) : ∀ s : Str,
    anySuffix f s = true ↔ ∃ x t, s = x ++ t ∧ f t = true
  | [] => by
    simp only [anySuffix]
    constructor
    · intro h; exact ⟨[], [], rfl, h⟩
    · rintro ⟨x, t, h, hf⟩
      have : x = [] ∧ t = [] := by simpa using h.symm
      rw [this.2] at hf; exact hf
  | c :: s => by
    simp only [anySuffix, Bool.or_eq_true]
    rw [anySuffix_iff f s]
    constructor
    · rintro (h | ⟨x, t, hs, hf⟩)
      · exact ⟨[], c :: s, rfl, h⟩
      · exact ⟨c :: x, t, by simp [hs], hf⟩
    · rintro ⟨x, t, hs, hf⟩
      cases x with
      | nil => left; simp only [List.nil_append] at hs; rw [hs]; exact hf
      | cons a x =>
        right
        simp only [List.cons_append, List.cons.injEq] at hs
        exact ⟨x, t, hs.2, hf⟩

/-- the executable matcher decides exactly the specification -/
theorem glob_iff : ∀ (p s : Str), glob p s = true ↔ Glob p s
  | [], s => by
    simp only [glob]
    constructor
    · intro h
      have : s = [] := by simpa using h
      subst this; exact Glob.nil
    · intro h; cases h; rfl
  | a :: p, s => by
    unfold glob
    by_cases ha : a = '*'
    · subst ha
      simp only [if_true]
      rw [anySuffix_iff]
      constructor
      · rintro ⟨x, t, rfl, hf⟩
        exact Glob.star x rfl ((glob_iff p t).mp hf)
      · intro h
        cases h with
        | star x hs h' => exact ⟨x, _, hs, (glob_iff p _).mpr h'⟩
        | lit _ h1 _ _ => exact absurd rfl h1
    · simp only [ha, if_false]
      cases s with
      | nil =>
        simp only []
        constructor
        · intro h; cases h
        · intro h
          cases h with
          | star x _ _ => exact absurd rfl ha
      | cons c t =>
        simp only [Bool.and_eq_true, Bool.or_eq_true, decide_eq_true_eq]
        rw [glob_iff p t]
        constructor
        · rintro ⟨h1 | h1, h2⟩
          · subst h1; exact Glob.any c h2
          · subst h1
            by_cases hq : a = '?'
            · subst hq; exact Glob.any _ h2
            · exact Glob.lit a ha hq h2
        · intro h
          cases h with
          | star x _ h' => exact absurd rfl ha
          | any _ h' => exact ⟨Or.inl rfl, h'⟩
          | lit _ _ _ h' => exact ⟨Or.inr rfl, h'⟩

/-- every string matches itself, whatever wildcard characters it contains -/
theorem Glob.prepend : ∀ (a : Str) {p t : Str}, Glob p t → Glob (a ++ p) (a ++ t)
  | [], _, _, h => h
  | c :: a, p, t, h => by
    have ih := Glob.prepend a h
    by_cases hs : c = '*'
    · subst hs; exact Glob.star ['*'] rfl ih
    · by_cases hq : c = '?'
      · subst hq; exact Glob.any '?' ih
      · exact Glob.lit c hs hq ih

theorem Glob.refl (a : Str) : Glob a a := by
  have := Glob.prepend a Glob.nil
  simpa using this

/-! ## strings.Index -/

theorem indexChar_append (ch : Char) : ∀ (s r : Str), ch ∉ s → indexChar ch (s ++ ch :: r) = some s.length
  | [], r, _ => by simp [indexChar]
  | c :: s, r, h => by
    simp only [List.mem_cons, not_or] at h
    have hc : ¬ c = ch := fun e => h.1 e.symm
    simp [indexChar, hc, indexChar_append ch s r h.2]

theorem indexChar_some (ch : Char) : ∀ (s : Str) (k : Nat), indexChar ch s = some k →
    s = s.take k ++ ch :: s.drop (k + 1) ∧ ch ∉ s.take k
  | [], k, h => by simp [indexChar] at h
  | c :: s, k, h => by
    unfold indexChar at h
    by_cases hc : c = ch
    · simp only [hc, if_true, Option.some.injEq] at h
      subst h; subst hc; simp
    · simp only [hc, if_false, Option.map_eq_some_iff] at h
      obtain ⟨j, hj, rfl⟩ := h
      obtain ⟨h1, h2⟩ := indexChar_some ch s j hj
      refine ⟨?_, ?_⟩
      · simp only [List.take_succ_cons, List.drop_succ_cons, List.cons_append, List.cons.injEq, true_and]
        exact h1
      · simp only [List.take_succ_cons, List.mem_cons, not_or]
        exact ⟨fun e => hc e.symm, h2⟩

theorem indexOf_sep_append : ∀ (s r : Str), ':' ∉ s → indexOf sep (s ++ sep ++ r) = some s.length
  | [], r, _ => by simp [indexOf, sep, List.isPrefixOf]
  | c :: s, r, h => by
    simp only [List.mem_cons, not_or] at h
    have hc : ¬ c = ':' := fun e => h.1 e.symm
    have ih := indexOf_sep_append s r h.2
    have hp : sep.isPrefixOf (c :: (s ++ sep ++ r)) = false := by
      simp [sep, List.isPrefixOf, Ne.symm hc]
    simp only [List.cons_append, indexOf, hp, Bool.false_eq_true, if_false]
    rw [ih]; simp

/-! ## strings.Split -/

/-- `"." + l₁ + "." + l₂ + …` -/
def joinTail : List Str → Str
  | [] => []
  | l :: t => '.' :: (l ++ joinTail t)

theorem joinTail_append : ∀ (a b : List Str), joinTail (a ++ b) = joinTail a ++ joinTail b
  | [], b => rfl
  | l :: a, b => by simp [joinTail, joinTail_append a b]

/-- joining the fields of `strings.Split(s, ".")` with dots gives `s` back -/
theorem split1_join : ∀ s : Str, (split1 '.' s).1 ++ joinTail (split1 '.' s).2 = s
  | [] => rfl
  | c :: r => by
    have ih := split1_join r
    unfold split1
    by_cases hc : c = '.'
    · simp only [hc, if_true, List.nil_append, joinTail]
      rw [ih]
    · simp only [hc, if_false, List.cons_append]
      rw [ih]

/-! ## the label loop -/

/-- the (repaired) loop accepts exactly when the reversed pattern labels are some labels `L`
    followed by a final `*`, and the reversed domain labels are `L` followed by at least one more -/
theorem labelLoop_true : ∀ (ds ps : List Str), labelLoop ds ps = true →
    ∃ L D, ps = L ++ [star] ∧ ds = L ++ D ∧ D ≠ []
  | [], _, h => by simp [labelLoop] at h
  | _ :: _, [], h => by simp [labelLoop] at h
  | v :: ds, p :: ps, h => by
    unfold labelLoop at h
    by_cases hp : p = ['*']
    · simp only [hp, if_true] at h
      have : ps = [] := by simpa using h
      subst this; subst hp
      exact ⟨[], v :: ds, rfl, rfl, by simp⟩
    · simp only [hp, if_false] at h
      by_cases hv : p = v
      · subst hv
        simp only [ne_eq, not_true_eq_false, if_false] at h
        obtain ⟨L, D, h1, h2, h3⟩ := labelLoop_true ds ps h
        exact ⟨p :: L, D, by simp [h1], by simp [h2], h3⟩
      · simp [hv] at h


/-! ## matchSubdomain implies the glob reading of the entry -/

/-- a syntactically valid origin: printable ASCII, `scheme "://" host[:port]`, a single `://`
    (no `:` or `/` in the scheme, no `/` after the separator).  The proofs below use only the
    decomposition with `':' ∉ scheme`; printability is what makes `glob` exact for Go's regexp. -/
structure ValidOrigin (o : Str) : Prop where
  printable : ∀ c ∈ o, 0x20 < c.toNat ∧ c.toNat < 0x7f
  shape : ∃ s h, o = s ++ sep ++ h ∧ s ≠ [] ∧ h ≠ [] ∧ ':' ∉ s ∧ '/' ∉ s ∧ '/' ∉ h

/-- an allow-list entry is origin-shaped: its first colon, if it has one, is the colon of `://` -/
def PatScheme (p : Str) : Prop := ∀ a b, p = a ++ ':' :: b → ':' ∉ a → ∃ r, b = '/' :: '/' :: r

theorem drop_sep (s x : Str) : (s ++ sep ++ x).drop (s.length + 3) = x := by
  have : s ++ sep ++ x = (s ++ sep) ++ x := rfl
  rw [this, show s.length + 3 = (s ++ sep).length by simp [sep]]
  simp

/-- **C11_matchSubdomain_glob** — whenever (the repaired) `matchSubdomain` accepts a valid origin
    for an origin-shaped entry, the entry read as a `*`/`?` pattern over the WHOLE origin matches
    it.  (False before the F9 repair: see the witness at the end of the file.) -/
theorem C11_matchSubdomain_glob (o p : Str) (hv : ValidOrigin o) (hp : PatScheme p)
    (h : matchSubdomain o p = true) : Glob p o := by
  obtain ⟨s, hh, rfl, _, _, hs, _, _⟩ := hv.shape
  have hio : indexChar ':' (s ++ sep ++ hh) = some s.length := by
    have : s ++ sep ++ hh = s ++ ':' :: ('/' :: '/' :: hh) := by simp [sep]
    rw [this]; exact indexChar_append ':' s _ hs
  unfold matchSubdomain at h
  have hms : matchScheme (s ++ sep ++ hh) p = true := by
    cases hm : matchScheme (s ++ sep ++ hh) p with
    | true => rfl
    | false => rw [hm] at h; simp at h
  simp only [hms, Bool.not_true, Bool.false_eq_true, if_false] at h
  -- the pattern starts with the same scheme followed by "://"
  unfold matchScheme at hms
  rw [hio] at hms
  cases hpi : indexChar ':' p with
  | none => rw [hpi] at hms; simp at hms
  | some pi =>
    rw [hpi] at hms
    simp only [beq_iff_eq] at hms
    have htake : (s ++ sep ++ hh).take s.length = s := by
      rw [List.append_assoc]; simp
    rw [htake] at hms
    obtain ⟨hdec, hnc⟩ := indexChar_some ':' p pi hpi
    rw [← hms] at hdec hnc
    obtain ⟨pr, hb⟩ := hp s _ hdec hnc
    have hpeq : p = s ++ sep ++ pr := by
      rw [hdec, hb]; simp [sep]
    subst hpeq
    rw [indexOf_sep_append s hh hs, indexOf_sep_append s pr hs] at h
    simp only [drop_sep] at h
    by_cases hlen : hh.length > 253
    · simp [hlen] at h
    · simp only [hlen, if_false] at h
      obtain ⟨L, D, h1, h2, h3⟩ := labelLoop_true _ _ h
      -- un-reverse the label lists
      have e1 : splitOn '.' pr = star :: L.reverse := by
        have := congrArg List.reverse h1; simpa using this
      have e2 : splitOn '.' hh = D.reverse ++ L.reverse := by
        have := congrArg List.reverse h2; simpa using this
      have hD : D.reverse ≠ [] := by simpa using h3
      cases hDr : D.reverse with
      | nil => exact absurd hDr hD
      | cons d0 D' =>
        rw [hDr] at e2
        simp only [splitOn, List.cons_append, List.cons.injEq] at e1 e2
        have jp := split1_join pr
        have jh := split1_join hh
        rw [e1.1, e1.2] at jp
        rw [e2.1, e2.2, joinTail_append] at jh
        rw [← jp, ← jh]
        have core : Glob (star ++ joinTail L.reverse) (d0 ++ (joinTail D' ++ joinTail L.reverse)) :=
          Glob.star (d0 ++ joinTail D') (by simp) (Glob.refl _)
        have := Glob.prepend (s ++ sep) core
        simpa using this


/-! ## the middleware -/

/-- the configuration allows the origin: the `*` entry, literal equality, or an entry that matches
    the whole origin as a `*`/`?` pattern -/
def Allowed (allow : List Str) (o : Str) : Prop :=
  star ∈ allow ∨ o ∈ allow ∨ ∃ p ∈ allow, Glob p o

theorem allowLoop_sound (cfg : Cfg) (o : Str) : ∀ (os : List Str), allowLoop cfg o os ≠ [] →
    (allowLoop cfg o os = star ∧ star ∈ os) ∨
    (allowLoop cfg o os = o ∧ (star ∈ os ∨ o ∈ os ∨ ∃ p ∈ os, matchSubdomain o p = true))
  | [], h => by simp [allowLoop] at h
  | e :: rest, h => by
    unfold allowLoop at h ⊢
    by_cases h1 : e = star ∧ cfg.creds = true ∧ cfg.unsafeWild = true
    · simp only [h1, and_self, if_true]
      right; exact ⟨trivial, Or.inl (by simp)⟩
    · simp only [h1, if_false] at h ⊢
      by_cases h2 : e = star ∨ e = o
      · simp only [h2, if_true]
        rcases h2 with rfl | rfl
        · left; exact ⟨rfl, by simp⟩
        · right; exact ⟨rfl, Or.inr (Or.inl (by simp))⟩
      · simp only [h2, if_false] at h ⊢
        by_cases h3 : matchSubdomain o e = true
        · simp only [h3, if_true]
          right; exact ⟨trivial, Or.inr (Or.inr ⟨e, by simp, h3⟩)⟩
        · simp only [h3] at h ⊢
          rcases allowLoop_sound cfg o rest h with ⟨e1, m1⟩ | ⟨e1, m1⟩
          · left; exact ⟨e1, by simp [m1]⟩
          · right
            refine ⟨e1, ?_⟩
            rcases m1 with m | m | ⟨p, hp, hm⟩
            · exact Or.inl (by simp [m])
            · exact Or.inr (Or.inl (by simp [m]))
            · exact Or.inr (Or.inr ⟨p, by simp [hp], hm⟩)

theorem allowLoop_complete (cfg : Cfg) (o : Str) (ho : o ≠ []) : ∀ (os : List Str),
    (star ∈ os ∨ o ∈ os) → allowLoop cfg o os ≠ []
  | [], h => by simp at h
  | e :: rest, h => by
    unfold allowLoop
    by_cases h1 : e = star ∧ cfg.creds = true ∧ cfg.unsafeWild = true
    · simp only [h1, and_self, if_true]; exact ho
    · simp only [h1, if_false]
      by_cases h2 : e = star ∨ e = o
      · simp only [h2, if_true]
        rcases h2 with rfl | rfl
        · simp [star]
        · exact ho
      · simp only [h2, if_false]
        by_cases h3 : matchSubdomain o e = true
        · simp only [h3, if_true]; exact ho
        · simp only [h3]
          apply allowLoop_complete cfg o ho rest
          simp only [not_or] at h2
          rcases h with h | h
          · simp only [List.mem_cons] at h
            rcases h with h | h
            · exact absurd h.symm h2.1
            · exact Or.inl h
          · simp only [List.mem_cons] at h
            rcases h with h | h
            · exact absurd h.symm h2.2
            · exact Or.inr h

theorem allowOrigin_sound (cfg : Cfg) (o : Str) (hv : ValidOrigin o)
    (hp : ∀ p ∈ effOrigins cfg, PatScheme p) (h : allowOrigin cfg o ≠ []) :
    ((allowOrigin cfg o = star ∧ star ∈ effOrigins cfg) ∨ allowOrigin cfg o = o) ∧
    Allowed (effOrigins cfg) o := by
  unfold allowOrigin at h ⊢
  by_cases ha : allowLoop cfg o (effOrigins cfg) ≠ []
  · simp only [ha, ne_eq, not_false_eq_true, if_true]
    rcases allowLoop_sound cfg o _ ha with ⟨e1, m1⟩ | ⟨e1, m1⟩
    · exact ⟨Or.inl ⟨e1, m1⟩, Or.inl m1⟩
    · refine ⟨Or.inr e1, ?_⟩
      rcases m1 with m | m | ⟨p, hpm, hm⟩
      · exact Or.inl m
      · exact Or.inr (Or.inl m)
      · exact Or.inr (Or.inr ⟨p, hpm, C11_matchSubdomain_glob o p hv (hp p hpm) hm⟩)
  · simp only [ha, if_false] at h ⊢
    split at h
    · split at h
      · rename_i hguard hany
        simp only [hguard, hany, and_self, if_true]
        refine ⟨Or.inr trivial, ?_⟩
        obtain ⟨p, hpm, hg⟩ := List.any_eq_true.mp hany
        have : p ∈ effOrigins cfg := (List.mem_filter.mp hpm).1
        exact Or.inr (Or.inr ⟨p, this, (glob_iff p o).mp hg⟩)
      · exact absurd rfl h
    · exact absurd rfl h

theorem allowOrigin_complete (cfg : Cfg) (o : Str) (ho : o ≠ [])
    (hlen : o.length ≤ 261) (hsep : (indexOf sep o).isSome = true)
    (ha : Allowed (effOrigins cfg) o) : allowOrigin cfg o ≠ [] := by
  unfold allowOrigin
  by_cases hl : allowLoop cfg o (effOrigins cfg) ≠ []
  · simp only [hl, ne_eq, not_false_eq_true, if_true]
  · simp only [hl, if_false]
    have hguard : o.length ≤ 253 + 3 + 5 ∧ (indexOf sep o).isSome = true := ⟨by omega, hsep⟩
    simp only [hguard, and_self, if_true]
    rcases ha with h | h | ⟨p, hpm, hg⟩
    · exact absurd (allowLoop_complete cfg o ho _ (Or.inl h)) hl
    · exact absurd (allowLoop_complete cfg o ho _ (Or.inr h)) hl
    · by_cases hps : p = star
      · subst hps
        exact absurd (allowLoop_complete cfg o ho _ (Or.inl hpm)) hl
      · have : (patterns cfg).any (fun p => glob p o) = true := by
          apply List.any_eq_true.mpr
          exact ⟨p, List.mem_filter.mpr ⟨hpm, by simpa using hps⟩, (glob_iff p o).mpr hg⟩
        simp only [this, if_true]
        exact ho

/-- the origin the middleware looks at: first value of the Origin header, `[]` when absent -/
def Req.origin (r : Req) : Str := r.origins.headD []

/-- **C11_acao_sound** — Access-Control-Allow-Origin is emitted only for an origin the
    configuration allows (the `*` entry, literal equality, or an entry matching the whole origin
    as a `*`/`?` pattern), and its value is `*` (only if `*` is configured) or the request's
    Origin verbatim. -/
theorem C11_acao_sound (cfg : Cfg) (req : Req) (v : Str) (hv : ValidOrigin req.origin)
    (hp : ∀ p ∈ effOrigins cfg, PatScheme p) (h : (serve cfg req).acao = some v) :
    ((v = star ∧ star ∈ effOrigins cfg) ∨ v = req.origin) ∧ Allowed (effOrigins cfg) req.origin := by
  unfold serve at h
  simp only [] at h
  have hor : req.origins.headD [] = req.origin := rfl
  rw [hor] at h
  by_cases h0 : req.origin = []
  · simp only [h0, if_true] at h; split at h <;> simp at h
  · simp only [h0, if_false] at h
    by_cases ha : allowOrigin cfg req.origin = []
    · simp only [ha, if_true] at h; split at h <;> simp at h
    · simp only [ha, if_false] at h
      have hs := allowOrigin_sound cfg req.origin hv hp ha
      have hv' : v = allowOrigin cfg req.origin := by
        split at h <;> simp at h <;> exact h.symm
      rw [hv']; exact hs

/-- **C11_acao_value** — for EVERY origin string (valid or not) and every allow-list the header
    value is `*` or the request's Origin verbatim. -/
theorem C11_acao_value (cfg : Cfg) (req : Req) (v : Str) (h : (serve cfg req).acao = some v) :
    v = star ∨ v = req.origin := by
  have hval : allowOrigin cfg req.origin ≠ [] →
      allowOrigin cfg req.origin = star ∨ allowOrigin cfg req.origin = req.origin := by
    intro hne
    unfold allowOrigin at hne ⊢
    by_cases ha : allowLoop cfg req.origin (effOrigins cfg) ≠ []
    · simp only [ha, ne_eq, not_false_eq_true, if_true]
      rcases allowLoop_sound cfg req.origin _ ha with ⟨e1, _⟩ | ⟨e1, _⟩
      · exact Or.inl e1
      · exact Or.inr e1
    · simp only [ha, if_false] at hne ⊢
      split at hne
      · split at hne
        · rename_i hguard hany
          simp only [hguard, hany, and_self, if_true]
          exact Or.inr trivial
        · exact absurd rfl hne
      · exact absurd rfl hne
  unfold serve at h
  simp only [] at h
  have hor : req.origins.headD [] = req.origin := rfl
  rw [hor] at h
  by_cases h0 : req.origin = []
  · simp only [h0, if_true] at h; split at h <;> simp at h
  · simp only [h0, if_false] at h
    by_cases ha : allowOrigin cfg req.origin = []
    · simp only [ha, if_true] at h; split at h <;> simp at h
    · simp only [ha, if_false] at h
      have hv' : v = allowOrigin cfg req.origin := by
        split at h <;> simp at h <;> exact h.symm
      rw [hv']; exact hval ha

/-- **C11_acao_complete** — conversely, every allowed valid origin of at most 261 bytes is
    granted access (the compiled patterns cover what `matchSubdomain` no longer accepts). -/
theorem C11_acao_complete (cfg : Cfg) (req : Req) (hv : ValidOrigin req.origin)
    (hlen : req.origin.length ≤ 261) (ha : Allowed (effOrigins cfg) req.origin) :
    (serve cfg req).acao = some (allowOrigin cfg req.origin) ∧ allowOrigin cfg req.origin ≠ [] := by
  obtain ⟨s, hh, ho, hs0, _, hs, _, _⟩ := hv.shape
  have h0 : req.origin ≠ [] := by rw [ho]; simp [hs0]
  have hsep : (indexOf sep req.origin).isSome = true := by
    rw [ho, indexOf_sep_append s hh hs]; rfl
  have hne := allowOrigin_complete cfg req.origin h0 hlen hsep ha
  refine ⟨?_, hne⟩
  unfold serve
  simp only []
  have hor : req.origins.headD [] = req.origin := rfl
  rw [hor]
  simp only [h0, hne, if_false]
  split <;> rfl

/-- **C11_credentials** — Access-Control-Allow-Credentials is sent only when enabled and only
    together with Access-Control-Allow-Origin (hence, by C11_acao_sound, only for an allowed origin). -/
theorem C11_credentials (cfg : Cfg) (req : Req) (h : (serve cfg req).acac = true) :
    cfg.creds = true ∧ (serve cfg req).acao ≠ none := by
  unfold serve at h ⊢
  simp only [] at h ⊢
  split at h
  · split at h <;> simp at h
  · split at h
    · split at h <;> simp at h
    · rename_i h0 ha
      simp only [h0, ha, if_false]
      split at h <;> simp_all

/-- **C11_disallowed_blocked** — a request with an Origin the configuration does not allow gets no
    CORS grant; if it is not a preflight it is answered 401 and never reaches the handler. -/
theorem C11_disallowed_blocked (cfg : Cfg) (req : Req) (hv : ValidOrigin req.origin)
    (hp : ∀ p ∈ effOrigins cfg, PatScheme p) (hna : ¬ Allowed (effOrigins cfg) req.origin) :
    (serve cfg req).acao = none ∧ (serve cfg req).acac = false ∧ (serve cfg req).ran = false ∧
    (req.preflight = false → (serve cfg req).status = 401) := by
  obtain ⟨s, hh, ho, hs0, _, _, _, _⟩ := hv.shape
  have h0 : req.origin ≠ [] := by rw [ho]; simp [hs0]
  have ha : allowOrigin cfg req.origin = [] := by
    cases hx : allowOrigin cfg req.origin with
    | nil => rfl
    | cons a r =>
      have : allowOrigin cfg req.origin ≠ [] := by rw [hx]; simp
      exact absurd (allowOrigin_sound cfg req.origin hv hp this).2 hna
  unfold serve
  simp only []
  have hor : req.origins.headD [] = req.origin := rfl
  rw [hor]
  simp only [h0, ha, if_false, if_true]
  cases req.preflight <;> simp

/-- **C11_preflight** — an OPTIONS request is always answered 204 without running the handler,
    whatever the origin and the configuration. -/
theorem C11_preflight (cfg : Cfg) (req : Req) (h : req.preflight = true) :
    (serve cfg req).status = 204 ∧ (serve cfg req).ran = false := by
  unfold serve
  simp only [h]
  split
  · simp
  · split <;> simp

/-- the handler runs only without an Origin header or with a CORS grant -/
theorem C11_ran_iff (cfg : Cfg) (req : Req) (h : (serve cfg req).ran = true) :
    req.preflight = false ∧ (req.origin = [] ∨ (serve cfg req).acao ≠ none) := by
  unfold serve at h ⊢
  simp only [] at h ⊢
  have hor : req.origins.headD [] = req.origin := rfl
  rw [hor] at h ⊢
  by_cases h0 : req.origin = []
  · simp only [h0, if_true] at h ⊢
    cases hpf : req.preflight <;> simp [hpf] at h ⊢
  · simp only [h0, if_false] at h ⊢
    by_cases ha : allowOrigin cfg req.origin = []
    · simp only [ha, if_true] at h
      cases hpf : req.preflight <;> simp [hpf] at h
    · simp only [ha, if_false] at h ⊢
      cases hpf : req.preflight <;> simp [hpf] at h ⊢


/-! ## the hypotheses are satisfiable: which entries are origin-shaped -/

/-- every entry of the form `scheme://rest` with a colon-free scheme (wildcards allowed anywhere)
    is origin-shaped -/
theorem PatScheme.of_scheme (s r : Str) (hs : ':' ∉ s) : PatScheme (s ++ sep ++ r) := by
  intro a b hab ha
  have h1 : indexChar ':' (s ++ sep ++ r) = some s.length := by
    have : s ++ sep ++ r = s ++ ':' :: ('/' :: '/' :: r) := by simp [sep]
    rw [this]; exact indexChar_append ':' s _ hs
  have h2 : indexChar ':' (s ++ sep ++ r) = some a.length := by
    rw [hab]; exact indexChar_append ':' a b ha
  rw [h1] at h2
  have hlen : s.length = a.length := by simpa using h2
  have : s ++ (sep ++ r) = a ++ (':' :: b) := by simpa using hab
  obtain ⟨e1, e2⟩ := List.append_inj this hlen
  exact ⟨r, by simpa [sep] using e2.symm⟩

/-- so is every entry without a colon (`*`, `null`, …) -/
theorem PatScheme.of_noColon (p : Str) (h : ':' ∉ p) : PatScheme p := by
  intro a b hab _
  exact absurd (by rw [hab]; simp) h

/-! ## non-vacuity and witnesses -/

def oGood : Str := "https://a.b.example.com".toList
def oEvil : Str := "https://evil.b.example.com".toList

theorem oGood_valid : ValidOrigin oGood :=
  ⟨by decide, "https".toList, "a.b.example.com".toList, by decide, by decide, by decide, by decide, by decide, by decide⟩
theorem oEvil_valid : ValidOrigin oEvil :=
  ⟨by decide, "https".toList, "evil.b.example.com".toList, by decide, by decide, by decide, by decide, by decide, by decide⟩

-- hypotheses of C11_matchSubdomain_glob hold for a real sub-domain wildcard …
example : matchSubdomain oGood "https://*.example.com".toList = true := by decide
example : PatScheme "https://*.example.com".toList :=
  PatScheme.of_scheme "https".toList "*.example.com".toList (by decide)
-- … and its conclusion is not trivial: the look-alikes are refused by both readings
example : glob "https://*.example.com".toList "https://a.example.com.evil.io".toList = false ∧
    glob "https://*.example.com".toList "https://evilexample.com".toList = false ∧
    matchSubdomain "https://evilexample.com".toList "https://*.example.com".toList = false := by decide

/-- the label loop as it was before the F9 repair (`return true` at a `*` label) -/
def labelLoopUnfixed : List Str → List Str → Bool
  | [], _ => false
  | _ :: _, [] => false
  | v :: ds, p :: ps =>
    if p = ['*'] then true
    else if p ≠ v then false
    else labelLoopUnfixed ds ps

/-- **F9 witness** — before the repair the loop accepted `evil.b.example.com` for the entry
    `a.*.example.com`, which does not match it as a pattern; the repaired loop refuses it and the
    model of the middleware answers 401 without CORS headers. -/
theorem F9_witness :
    labelLoopUnfixed (splitOn '.' "evil.b.example.com".toList).reverse
        (splitOn '.' "a.*.example.com".toList).reverse = true ∧
    ¬ Glob "https://a.*.example.com".toList oEvil ∧
    matchSubdomain oEvil "https://a.*.example.com".toList = false ∧
    serve ⟨["https://a.*.example.com".toList], true, false⟩ ⟨false, [oEvil]⟩
      = ⟨401, false, none, false, [varyOrigin]⟩ := by
  refine ⟨by decide, ?_, by decide, by decide⟩
  intro h
  have := (glob_iff _ _).mpr h
  revert this
  decide

-- the legitimate reading of that entry still works, through the compiled pattern
example : serve ⟨["https://a.*.example.com".toList], true, false⟩ ⟨false, ["https://a.b.example.com".toList]⟩
    = ⟨200, true, some "https://a.b.example.com".toList, true, [varyOrigin]⟩ := by decide
-- preflight from an allowed and from a disallowed origin
example : serve ⟨["https://*.example.com".toList], false, false⟩ ⟨true, [oGood]⟩
    = ⟨204, false, some oGood, false, varyOrigin :: varyPreflight⟩ := by decide
example : serve ⟨["https://*.example.com".toList], false, false⟩ ⟨true, ["https://example.org".toList]⟩
    = ⟨204, false, none, false, [varyOrigin]⟩ := by decide
-- `*` entry: value `*`, unless the unsafe flag echoes the origin
example : (serve ⟨[star], true, false⟩ ⟨false, [oEvil]⟩).acao = some star ∧
    (serve ⟨[star], true, true⟩ ⟨false, [oEvil]⟩).acao = some oEvil ∧
    (serve ⟨[], false, false⟩ ⟨false, [oEvil]⟩).acao = some star := by decide
-- `?` and a wildcard in the scheme and the port, regexp metacharacters literal
example : glob "http?://a+b.example.com:80?0".toList "https://a+b.example.com:8080".toList = true ∧
    glob "http?://a+b.example.com:80?0".toList "https://aab.example.com:8080".toList = false ∧
    glob "https://a.example.com".toList "https://aXexample.com".toList = false := by decide

/-- the origin-shape hypothesis of C11_matchSubdomain_glob cannot be dropped: for an entry with a
    stray colon before `://` the scheme comparison and the `://` search cut at different places -/
theorem PatScheme_needed :
    matchSubdomain "a://x.c".toList "a:b://*.c".toList = true ∧
    glob "a:b://*.c".toList "a://x.c".toList = false := by decide

end C11
