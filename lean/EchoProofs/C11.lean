import EchoModel.C11
/-!
# C11 — theorems about the CORS model

`Glob` is an inductive specification of the pattern language the property names (`*` any run of
characters, `?` exactly one, everything else literal, whole string); `glob_iff` shows the
executable matcher of the model decides it.  All theorems quantify over every allow-list, every
flag combination and every origin (valid in the sense of `ValidOrigin` where the statement is about
what an entry *means*).
-/
namespace C11

/-- the pattern language of the property, as an independent inductive specification: `*` stands for
    any run of characters (also the empty one), `?` for exactly one character, every other
    character for itself, and the whole string must be matched -/
inductive Glob : Str → Str → Prop
  | nil : Glob [] []
  | star (x : Str) {p s t : Str} : s = x ++ t → Glob p t → Glob ('*' :: p) s
  | any (c : Char) {p t : Str} : Glob p t → Glob ('?' :: p) (c :: t)
  | lit (a : Char) {p t : Str} : a ≠ '*' → a ≠ '?' → Glob p t → Glob (a :: p) (a :: t)

theorem anySuffix_iff (f : Str → Bool) : ∀ s : Str,
    anySuffix f s = true ↔ ∃ x t, s = x ++ t ∧ f t = true
  | [] => by
    simp only [anySuffix]
    constructor
    · intro h; exact ⟨[], [], rfl, h⟩
    · rintro ⟨x, t, h, hf⟩
      have : x = [] ∧ t = [] := by simpa using h.symm
      rw [this.2] at hf; exact hf
  | c :: s => by
    simp only [anySuffix, Bool.or_eq_true]
    rw [anySuffix_iff f s]
    constructor
    · rintro (h | ⟨x, t, hs, hf⟩)
      · exact ⟨[], c :: s, rfl, h⟩
      · exact ⟨c :: x, t, by simp [hs], hf⟩
    · rintro ⟨x, t, hs, hf⟩
      cases x with
      | nil => left; simp only [List.nil_append] at hs; rw [hs]; exact hf
      | cons a x =>
        right
        simp only [List.cons_append, List.cons.injEq] at hs
        exact ⟨x, t, hs.2, hf⟩

/-- the executable matcher decides exactly the specification -/
theorem glob_iff : ∀ (p s : Str), glob p s = true ↔ Glob p s
  | [], s => by
    simp only [glob]
    constructor
    · intro h
      have : s = [] := by simpa using h
      subst this; exact Glob.nil
    · intro h; cases h; rfl
  | a :: p, s => by
    unfold glob
    by_cases ha : a = '*'
    · subst ha
      simp only [if_true]
      rw [anySuffix_iff]
      constructor
      · rintro ⟨x, t, rfl, hf⟩
        exact Glob.star x rfl ((glob_iff p t).mp hf)
      · intro h
        cases h with
        | star x hs h' => exact ⟨x, _, hs, (glob_iff p _).mpr h'⟩
        | lit _ h1 _ _ => exact absurd rfl h1
    · simp only [ha, if_false]
      cases s with
      | nil =>
        simp only []
        constructor
        · intro h; cases h
        · intro h
          cases h with
          | star x _ _ => exact absurd rfl ha
      | cons c t =>
        simp only [Bool.and_eq_true, Bool.or_eq_true, decide_eq_true_eq]
        rw [glob_iff p t]
        constructor
        · rintro ⟨h1 | h1, h2⟩
          · subst h1; exact Glob.any c h2
          · subst h1
            by_cases hq : a = '?'
            · subst hq; exact Glob.any _ h2
            · exact Glob.lit a ha hq h2
        · intro h
          cases h with
          | star x _ h' => exact absurd rfl ha
          | any _ h' => exact ⟨Or.inl rfl, h'⟩
          | lit _ _ _ h' => exact ⟨Or.inr rfl, h'⟩

/-- every string matches itself, whatever wildcard characters it contains -/
theorem Glob.prepend : ∀ (a : Str) {p t : Str}, Glob p t → Glob (a ++ p) (a ++ t)
  | [], _, _, h => h
  | c :: a, p, t, h => by
    have ih := Glob.prepend a h
    by_cases hs : c = '*'
    · subst hs; exact Glob.star ['*'] rfl ih
    · by_cases hq : c = '?'
      · subst hq; exact Glob.any '?' ih
      · exact Glob.lit c hs hq ih

theorem Glob.refl (a : Str) : Glob a a := by
  have := Glob.prepend a Glob.nil
  simpa using this

/-! ## strings.Index -/

theorem indexChar_append (ch : Char) : ∀ (s r : Str), ch ∉ s → indexChar ch (s ++ ch :: r) = some s.length
  | [], r, _ => by simp [indexChar]
  | c :: s, r, h => by
    simp only [List.mem_cons, not_or] at h
    have hc : ¬ c = ch := fun e => h.1 e.symm
    simp [indexChar, hc, indexChar_append ch s r h.2]

theorem indexChar_some (ch : Char) : ∀ (s : Str) (k : Nat), indexChar ch s = some k →
    s = s.take k ++ ch :: s.drop (k + 1) ∧ ch ∉ s.take k
  | [], k, h => by simp [indexChar] at h
  | c :: s, k, h => by
    unfold indexChar at h
    by_cases hc : c = ch
    · simp only [hc, if_true, Option.some.injEq] at h
      subst h; subst hc; simp
    · simp only [hc, if_false, Option.map_eq_some_iff] at h
      obtain ⟨j, hj, rfl⟩ := h
      obtain ⟨h1, h2⟩ := indexChar_some ch s j hj
      refine ⟨?_, ?_⟩
      · simp only [List.take_succ_cons, List.drop_succ_cons, List.cons_append, List.cons.injEq, true_and]
        exact h1
      · simp only [List.take_succ_cons, List.mem_cons, not_or]
        exact ⟨fun e => hc e.symm, h2⟩

theorem indexOf_sep_append : ∀ (s r : Str), ':' ∉ s → indexOf sep (s ++ sep ++ r) = some s.length
  | [], r, _ => by simp [indexOf, sep, List.isPrefixOf]
  | c :: s, r, h => by
    simp only [List.mem_cons, not_or] at h
    have hc : ¬ c = ':' := fun e => h.1 e.symm
    have ih := indexOf_sep_append s r h.2
    have hp : sep.isPrefixOf (c :: (s ++ sep ++ r)) = false := by
      simp [sep, List.isPrefixOf, Ne.symm hc]
    simp only [List.cons_append, indexOf, hp, Bool.false_eq_true, if_false]
    rw [ih]; simp

/-! ## strings.Split -/

/-- `"." + l₁ + "." + l₂ + …` -/
def joinTail : List Str → Str
  | [] => []
  | l :: t => '.' :: (l ++ joinTail t)

theorem joinTail_append : ∀ (a b : List Str), joinTail (a ++ b) = joinTail a ++ joinTail b
  | [], b => rfl
  | l :: a, b => by simp [joinTail, joinTail_append a b]

/-- joining the fields of `strings.Split(s, ".")` with dots gives `s` back -/
theorem split1_join : ∀ s : Str, (split1 '.' s).1 ++ joinTail (split1 '.' s).2 = s
  | [] => rfl
  | c :: r => by
    have ih := split1_join r
    unfold split1
    by_cases hc : c = '.'
    · simp only [hc, if_true, List.nil_append, joinTail]
      rw [ih]
    · simp only [hc, if_false, List.cons_append]
      rw [ih]

/-! ## the label loop -/

/-- the (repaired) loop accepts exactly when the reversed pattern labels are some labels `L`
    followed by a final `*`, and the reversed domain labels are `L` followed by at least one more -/
theorem labelLoop_true : ∀ (ds ps : List Str), labelLoop ds ps = true →
    ∃ L D, ps = L ++ [star] ∧ ds = L ++ D ∧ D ≠ []
  | [], _, h => by simp [labelLoop] at h
  | _ :: _, [], h => by simp [labelLoop] at h
  | v :: ds, p :: ps, h => by
    unfold labelLoop at h
    by_cases hp : p = ['*']
    · simp only [hp, if_true] at h
      have : ps = [] := by simpa using h
      subst this; subst hp
      exact ⟨[], v :: ds, rfl, rfl, by simp⟩
    · simp only [hp, if_false] at h
      by_cases hv : p = v
      · subst hv
        simp only [ne_eq, not_true_eq_false, if_false] at h
        obtain ⟨L, D, h1, h2, h3⟩ := labelLoop_true ds ps h
        exact ⟨p :: L, D, by simp [h1], by simp [h2], h3⟩
      · simp [hv] at h


/-! ## matchSubdomain implies the glob reading of the entry -/

/-- a syntactically valid origin: printable ASCII, `scheme "://" host[:port]`, a single `://`
    (no `:` or `/` in the scheme, no `/` after the separator).  The proofs below use only the
    decomposition with `':' ∉ scheme`; printability is what makes `glob` exact for Go's regexp. -/
structure ValidOrigin (o : Str) : Prop where
  printable : ∀ c ∈ o, 0x20 < c.toNat ∧ c.toNat < 0x7f
  shape : ∃ s h, o = s ++ sep ++ h ∧ s ≠ [] ∧ h ≠ [] ∧ ':' ∉ s ∧ '/' ∉ s ∧ '/' ∉ h

/-- an allow-list entry is origin-shaped: its first colon, if it has one, is the colon of `://` -/
def PatScheme (p : Str) : Prop := ∀ a b, p = a ++ ':' :: b → ':' ∉ a → ∃ r, b = '/' :: '/' :: r

theorem drop_sep (s x : Str) : (s ++ sep ++ x).drop (s.length + 3) = x := by
  have : s ++ sep ++ x = (s ++ sep) ++ x := rfl
  rw [this, show s.length + 3 = (s ++ sep).length by simp [sep]]
  simp

/-- **C11_matchSubdomain_glob** — whenever (the repaired) `matchSubdomain` accepts a valid origin
    for an origin-shaped entry, the entry read as a `*`/`?` pattern over the WHOLE origin matches
    it.  (False before the F9 repair: see the witness at the end of the file.) -/
theorem C11_matchSubdomain_glob (o p : Str) (hv : ValidOrigin o) (hp : PatScheme p)
    (h : matchSubdomain o p = true) : Glob p o := by
  obtain ⟨s, hh, rfl, _, _, hs, _, _⟩ := hv.shape
  have hio : indexChar ':' (s ++ sep ++ hh) = some s.length := by
    have : s ++ sep ++ hh = s ++ ':' :: ('/' :: '/' :: hh) := by simp [sep]
    rw [this]; exact indexChar_append ':' s _ hs
  unfold matchSubdomain at h
  have hms : matchScheme (s ++ sep ++ hh) p = true := by
    cases hm : matchScheme (s ++ sep ++ hh) p with
    | true => rfl
    | false => rw [hm] at h; simp at h
  simp only [hms, Bool.not_true, Bool.false_eq_true, if_false] at h
  -- the pattern starts with the same scheme followed by "://"
  unfold matchScheme at hms
  rw [hio] at hms
  cases hpi : indexChar ':' p with
  | none => rw [hpi] at hms; simp at hms
  | some pi =>
    rw [hpi] at hms
    simp only [beq_iff_eq] at hms
    have htake : (s ++ sep ++ hh).take s.length = s := by
      rw [List.append_assoc]; simp
    rw [htake] at hms
    obtain ⟨hdec, hnc⟩ := indexChar_some ':' p pi hpi
    rw [← hms] at hdec hnc
    obtain ⟨pr, hb⟩ := hp s _ hdec hnc
    have hpeq : p = s ++ sep ++ pr := by
      rw [hdec, hb]; simp [sep]
    subst hpeq
    rw [indexOf_sep_append s hh hs, indexOf_sep_append s pr hs] at h
    simp only [drop_sep] at h
    by_cases hlen : hh.length > 253
    · simp [hlen] at h
    · simp only [hlen, if_false] at h
      obtain ⟨L, D, h1, h2, h3⟩ := labelLoop_true _ _ h
      -- un-reverse the label lists
      have e1 : splitOn '.' pr = star :: L.reverse := by
        have := congrArg List.reverse h1; simpa using this
      have e2 : splitOn '.' hh = D.reverse ++ L.reverse := by
        have := congrArg List.reverse h2; simpa using this
      have hD : D.reverse ≠ [] := by simpa using h3
      cases hDr : D.reverse with
      | nil => exact absurd hDr hD
      | cons d0 D' =>
        rw [hDr] at e2
        simp only [splitOn, List.cons_append, List.cons.injEq] at e1 e2
        have jp := split1_join pr
        have jh := split1_join hh
        rw [e1.1, e1.2] at jp
        rw [e2.1, e2.2, joinTail_append] at jh
        rw [← jp, ← jh]
        have core : Glob (star ++ joinTail L.reverse) (d0 ++ (joinTail D' ++ joinTail L.reverse)) :=
          Glob.star (d0 ++ joinTail D') (by simp) (Glob.refl _)
        have := Glob.prepend (s ++ sep) core
        simpa using this


/-! ## the middleware -/

/-- the configuration allows the origin: the `*` entry, literal equality, or an entry that matches
    the whole origin as a `*`/`?` pattern -/
def Allowed (allow : List Str) (o : Str) : Prop :=
  star ∈ allow ∨ o ∈ allow ∨ ∃ p ∈ allow, Glob p o

theorem allowLoop_sound (cfg : Cfg) (o : Str) : ∀ (os : List Str), allowLoop cfg o os ≠ [] →
    (allowLoop cfg o os = star ∧ star ∈ os) ∨
    (allowLoop cfg o os = o ∧ (star ∈ os ∨ o ∈ os ∨ ∃ p ∈ os, matchSubdomain o p = true))
  | [], h => by simp [allowLoop] at h
  | e :: rest, h => by
    unfold allowLoop at h ⊢
    by_cases h1 : e = star ∧ cfg.creds = true ∧ cfg.unsafeWild = true
    · simp only [h1, and_self, if_true]
      right; exact ⟨trivial, Or.inl (by simp)⟩
    · simp only [h1, if_false] at h ⊢
      by_cases h2 : e = star ∨ e = o
      · simp only [h2, if_true]
        rcases h2 with rfl | rfl
        · left; exact ⟨rfl, by simp⟩
        · right; exact ⟨rfl, Or.inr (Or.inl (by simp))⟩
      · simp only [h2, if_false] at h ⊢
        by_cases h3 : matchSubdomain o e = true
        · simp only [h3, if_true]
          right; exact ⟨trivial, Or.inr (Or.inr ⟨e, by simp, h3⟩)⟩
        · simp only [h3] at h ⊢
          rcases allowLoop_sound cfg o rest h with ⟨e1, m1⟩ | ⟨e1, m1⟩
          · left; exact ⟨e1, by simp [m1]⟩
          · right
            refine ⟨e1, ?_⟩
            rcases m1 with m | m | ⟨p, hp, hm⟩
            · exact Or.inl (by simp [m])
            · exact Or.inr (Or.inl (by simp [m]))
            · exact Or.inr (Or.inr ⟨p, by simp [hp], hm⟩)

theorem allowLoop_complete (cfg : Cfg) (o : Str) (ho : o ≠ []) : ∀ (os : List Str),
    (star ∈ os ∨ o ∈ os) → allowLoop cfg o os ≠ []
  | [], h => by simp at h
  | e :: rest, h => by
    unfold allowLoop
    by_cases h1 : e = star ∧ cfg.creds = true ∧ cfg.unsafeWild = true
    · simp only [h1, and_self, if_true]; exact ho
    · simp only [h1, if_false]
      by_cases h2 : e = star ∨ e = o
      · simp only [h2, if_true]
        rcases h2 with rfl | rfl
        · simp [star]
        · exact ho
      · simp only [h2, if_false]
        by_cases h3 : matchSubdomain o e = true
        · simp only [h3, if_true]; exact ho
        · simp only [h3]
          apply allowLoop_complete cfg o ho rest
          simp only [not_or] at h2
          rcases h with h | h
          · simp only [List.mem_cons] at h
            rcases h with h | h
            · exact absurd h.symm h2.1
            · exact Or.inl h
          · simp only [List.mem_cons] at h
            rcases h with h | h
            · exact absurd h.symm h2.2
            · exact Or.inr h

theorem allowOrigin_sound (cfg : Cfg) (o : Str) (hv : ValidOrigin o)
    (hp : ∀ p ∈ effOrigins cfg, PatScheme p) (h : allowOrigin cfg o ≠ []) :
    ((allowOrigin cfg o = star ∧ star ∈ effOrigins cfg) ∨ allowOrigin cfg o = o) ∧
    Allowed (effOrigins cfg) o := by
  unfold allowOrigin at h ⊢
  by_cases ha : allowLoop cfg o (effOrigins cfg) ≠ []
  · simp only [ha, ne_eq, not_false_eq_true, if_true]
    rcases allowLoop_sound cfg o _ ha with ⟨e1, m1⟩ | ⟨e1, m1⟩
    · exact ⟨Or.inl ⟨e1, m1⟩, Or.inl m1⟩
    · refine ⟨Or.inr e1, ?_⟩
      rcases m1 with m | m | ⟨p, hpm, hm⟩
      · exact Or.inl m
      · exact Or.inr (Or.inl m)
      · exact Or.inr (Or.inr ⟨p, hpm, C11_matchSubdomain_glob o p hv (hp p hpm) hm⟩)
  · simp only [ha, if_false] at h ⊢
    split at h
    · split at h
      · rename_i hguard hany
        simp only [hguard, hany, and_self, if_true]
        refine ⟨Or.inr trivial, ?_⟩
        obtain ⟨p, hpm, hg⟩ := List.any_eq_true.mp hany
        have : p ∈ effOrigins cfg := (List.mem_filter.mp hpm).1
        exact Or.inr (Or.inr ⟨p, this, (glob_iff p o).mp hg⟩)
      · exact absurd rfl h
    · exact absurd rfl h

theorem allowOrigin_complete (cfg : Cfg) (o : Str) (ho : o ≠ [])
    (hlen : o.length ≤ 261) (hsep : (indexOf sep o).isSome = true)
    (hc : ∀ p ∈ effOrigins cfg, compiles p = true)
    (ha : Allowed (effOrigins cfg) o) : allowOrigin cfg o ≠ [] := by
  unfold allowOrigin
  by_cases hl : allowLoop cfg o (effOrigins cfg) ≠ []
  · simp only [hl, ne_eq, not_false_eq_true, if_true]
  · simp only [hl, if_false]
    have hguard : o.length ≤ 253 + 3 + 5 ∧ (indexOf sep o).isSome = true := ⟨by omega, hsep⟩
    simp only [hguard, and_self, if_true]
    rcases ha with h | h | ⟨p, hpm, hg⟩
    · exact absurd (allowLoop_complete cfg o ho _ (Or.inl h)) hl
    · exact absurd (allowLoop_complete cfg o ho _ (Or.inr h)) hl
    · by_cases hps : p = star
      · subst hps
        exact absurd (allowLoop_complete cfg o ho _ (Or.inl hpm)) hl
      · have : (patterns cfg).any (fun p => glob p o) = true := by
          apply List.any_eq_true.mpr
          exact ⟨p, List.mem_filter.mpr ⟨hpm, by simp [hps, hc p hpm]⟩, (glob_iff p o).mpr hg⟩
        simp only [this, if_true]
        exact ho

/-- the origin the middleware looks at: first value of the Origin header, `[]` when absent -/
def Req.origin (r : Req) : Str := r.origins.headD []

/-- **C11_acao_sound** — Access-Control-Allow-Origin is emitted only for an origin the
    configuration allows (the `*` entry, literal equality, or an entry matching the whole origin
    as a `*`/`?` pattern), and its value is `*` (only if `*` is configured) or the request's
    Origin verbatim. -/
theorem C11_acao_sound (cfg : Cfg) (req : Req) (v : Str) (hv : ValidOrigin req.origin)
    (hp : ∀ p ∈ effOrigins cfg, PatScheme p) (h : (serve cfg req).acao = some v) :
    ((v = star ∧ star ∈ effOrigins cfg) ∨ v = req.origin) ∧ Allowed (effOrigins cfg) req.origin := by
  unfold serve at h
  simp only [] at h
  have hor : req.origins.headD [] = req.origin := rfl
  rw [hor] at h
  by_cases h0 : req.origin = []
  · simp only [h0, if_true] at h; split at h <;> simp at h
  · simp only [h0, if_false] at h
    by_cases ha : allowOrigin cfg req.origin = []
    · simp only [ha, if_true] at h; split at h <;> simp at h
    · simp only [ha, if_false] at h
      have hs := allowOrigin_sound cfg req.origin hv hp ha
      have hv' : v = allowOrigin cfg req.origin := by
        split at h <;> simp at h <;> exact h.symm
      rw [hv']; exact hs

/-- **C11_acao_value** — for EVERY origin string (valid or not) and every allow-list the header
    value is `*` or the request's Origin verbatim. -/
theorem C11_acao_value (cfg : Cfg) (req : Req) (v : Str) (h : (serve cfg req).acao = some v) :
    v = star ∨ v = req.origin := by
  have hval : allowOrigin cfg req.origin ≠ [] →
      allowOrigin cfg req.origin = star ∨ allowOrigin cfg req.origin = req.origin := by
    intro hne
    unfold allowOrigin at hne ⊢
    by_cases ha : allowLoop cfg req.origin (effOrigins cfg) ≠ []
    · simp only [ha, ne_eq, not_false_eq_true, if_true]
      rcases allowLoop_sound cfg req.origin _ ha with ⟨e1, _⟩ | ⟨e1, _⟩
      · exact Or.inl e1
      · exact Or.inr e1
    · simp only [ha, if_false] at hne ⊢
      split at hne
      · split at hne
        · rename_i hguard hany
          simp only [hguard, hany, and_self, if_true]
          exact Or.inr trivial
        · exact absurd rfl hne
      · exact absurd rfl hne
  unfold serve at h
  simp only [] at h
  have hor : req.origins.headD [] = req.origin := rfl
  rw [hor] at h
  by_cases h0 : req.origin = []
  · simp only [h0, if_true] at h; split at h <;> simp at h
  · simp only [h0, if_false] at h
    by_cases ha : allowOrigin cfg req.origin = []
    · simp only [ha, if_true] at h; split at h <;> simp at h
    · simp only [ha, if_false] at h
      have hv' : v = allowOrigin cfg req.origin := by
        split at h <;> simp at h <;> exact h.symm
      rw [hv']; exact hval ha

/-- **C11_acao_complete** — conversely, every allowed valid origin of at most 261 bytes is
    granted access (the compiled patterns cover what `matchSubdomain` no longer accepts), provided
    every entry compiles, i.e. is valid UTF-8 (`compiles_of_ascii`: every ASCII entry does;
    `compiles_needed`: the hypothesis cannot be dropped). -/
theorem C11_acao_complete (cfg : Cfg) (req : Req) (hv : ValidOrigin req.origin)
    (hlen : req.origin.length ≤ 261) (hc : ∀ p ∈ effOrigins cfg, compiles p = true)
    (ha : Allowed (effOrigins cfg) req.origin) :
    (serve cfg req).acao = some (allowOrigin cfg req.origin) ∧ allowOrigin cfg req.origin ≠ [] := by
  obtain ⟨s, hh, ho, hs0, _, hs, _, _⟩ := hv.shape
  have h0 : req.origin ≠ [] := by rw [ho]; simp [hs0]
  have hsep : (indexOf sep req.origin).isSome = true := by
    rw [ho, indexOf_sep_append s hh hs]; rfl
  have hne := allowOrigin_complete cfg req.origin h0 hlen hsep hc ha
  refine ⟨?_, hne⟩
  unfold serve
  simp only []
  have hor : req.origins.headD [] = req.origin := rfl
  rw [hor]
  simp only [h0, hne, if_false]
  split <;> rfl

/-- **C11_credentials** — Access-Control-Allow-Credentials is sent only when enabled and only
    together with Access-Control-Allow-Origin (hence, by C11_acao_sound, only for an allowed origin). -/
theorem C11_credentials (cfg : Cfg) (req : Req) (h : (serve cfg req).acac = true) :
    cfg.creds = true ∧ (serve cfg req).acao ≠ none := by
  unfold serve at h ⊢
  simp only [] at h ⊢
  split at h
  · split at h <;> simp at h
  · split at h
    · split at h <;> simp at h
    · rename_i h0 ha
      simp only [h0, ha, if_false]
      split at h <;> simp_all

/-- **C11_disallowed_blocked** — a request with an Origin the configuration does not allow gets no
    CORS grant; if it is not a preflight it is answered 401 and never reaches the handler. -/
theorem C11_disallowed_blocked (cfg : Cfg) (req : Req) (hv : ValidOrigin req.origin)
    (hp : ∀ p ∈ effOrigins cfg, PatScheme p) (hna : ¬ Allowed (effOrigins cfg) req.origin) :
    (serve cfg req).acao = none ∧ (serve cfg req).acac = false ∧ (serve cfg req).ran = false ∧
    (req.preflight = false → (serve cfg req).status = 401) := by
  obtain ⟨s, hh, ho, hs0, _, _, _, _⟩ := hv.shape
  have h0 : req.origin ≠ [] := by rw [ho]; simp [hs0]
  have ha : allowOrigin cfg req.origin = [] := by
    cases hx : allowOrigin cfg req.origin with
    | nil => rfl
    | cons a r =>
      have : allowOrigin cfg req.origin ≠ [] := by rw [hx]; simp
      exact absurd (allowOrigin_sound cfg req.origin hv hp this).2 hna
  unfold serve
  simp only []
  have hor : req.origins.headD [] = req.origin := rfl
  rw [hor]
  simp only [h0, ha, if_false, if_true]
  cases req.preflight <;> simp

/-- **C11_preflight** — an OPTIONS request is always answered 204 without running the handler,
    whatever the origin and the configuration. -/
theorem C11_preflight (cfg : Cfg) (req : Req) (h : req.preflight = true) :
    (serve cfg req).status = 204 ∧ (serve cfg req).ran = false := by
  unfold serve
  simp only [h]
  split
  · simp
  · split <;> simp

/-- the handler runs only without an Origin header or with a CORS grant -/
theorem C11_ran_iff (cfg : Cfg) (req : Req) (h : (serve cfg req).ran = true) :
    req.preflight = false ∧ (req.origin = [] ∨ (serve cfg req).acao ≠ none) := by
  unfold serve at h ⊢
  simp only [] at h ⊢
  have hor : req.origins.headD [] = req.origin := rfl
  rw [hor] at h ⊢
  by_cases h0 : req.origin = []
  · simp only [h0, if_true] at h ⊢
    cases hpf : req.preflight <;> simp [hpf] at h ⊢
  · simp only [h0, if_false] at h ⊢
    by_cases ha : allowOrigin cfg req.origin = []
    · simp only [ha, if_true] at h
      cases hpf : req.preflight <;> simp [hpf] at h
    · simp only [ha, if_false] at h ⊢
      cases hpf : req.preflight <;> simp [hpf] at h ⊢


/-! ## the hypotheses are satisfiable: which entries are origin-shaped -/

/-- every entry of the form `scheme://rest` with a colon-free scheme (wildcards allowed anywhere)
    is origin-shaped -/
theorem PatScheme.of_scheme (s r : Str) (hs : ':' ∉ s) : PatScheme (s ++ sep ++ r) := by
  intro a b hab ha
  have h1 : indexChar ':' (s ++ sep ++ r) = some s.length := by
    have : s ++ sep ++ r = s ++ ':' :: ('/' :: '/' :: r) := by simp [sep]
    rw [this]; exact indexChar_append ':' s _ hs
  have h2 : indexChar ':' (s ++ sep ++ r) = some a.length := by
    rw [hab]; exact indexChar_append ':' a b ha
  rw [h1] at h2
  have hlen : s.length = a.length := by simpa using h2
  have : s ++ (sep ++ r) = a ++ (':' :: b) := by simpa using hab
  obtain ⟨e1, e2⟩ := List.append_inj this hlen
  exact ⟨r, by simpa [sep] using e2.symm⟩

/-- so is every entry without a colon (`*`, `null`, …) -/
theorem PatScheme.of_noColon (p : Str) (h : ':' ∉ p) : PatScheme p := by
  intro a b hab _
  exact absurd (by rw [hab]; simp) h

/-! ## non-vacuity and witnesses -/

def oGood : Str := "https://a.b.example.com".toList
def oEvil : Str := "https://evil.b.example.com".toList

theorem oGood_valid : ValidOrigin oGood :=
  ⟨by decide, "https".toList, "a.b.example.com".toList, by decide, by decide, by decide, by decide, by decide, by decide⟩
theorem oEvil_valid : ValidOrigin oEvil :=
  ⟨by decide, "https".toList, "evil.b.example.com".toList, by decide, by decide, by decide, by decide, by decide, by decide⟩

-- hypotheses of C11_matchSubdomain_glob hold for a real sub-domain wildcard …
example : matchSubdomain oGood "https://*.example.com".toList = true := by decide
example : PatScheme "https://*.example.com".toList :=
  PatScheme.of_scheme "https".toList "*.example.com".toList (by decide)
-- … and its conclusion is not trivial: the look-alikes are refused by both readings
example : glob "https://*.example.com".toList "https://a.example.com.evil.io".toList = false ∧
    glob "https://*.example.com".toList "https://evilexample.com".toList = false ∧
    matchSubdomain "https://evilexample.com".toList "https://*.example.com".toList = false := by decide

/-- the label loop as it was before the F9 repair (`return true` at a `*` label) -/
def labelLoopUnfixed : List Str → List Str → Bool
  | [], _ => false
  | _ :: _, [] => false
  | v :: ds, p :: ps =>
    if p = ['*'] then true
    else if p ≠ v then false
    else labelLoopUnfixed ds ps

/-- **F9 witness** — before the repair the loop accepted `evil.b.example.com` for the entry
    `a.*.example.com`, which does not match it as a pattern; the repaired loop refuses it and the
    model of the middleware answers 401 without CORS headers. -/
theorem F9_witness :
    labelLoopUnfixed (splitOn '.' "evil.b.example.com".toList).reverse
        (splitOn '.' "a.*.example.com".toList).reverse = true ∧
    ¬ Glob "https://a.*.example.com".toList oEvil ∧
    matchSubdomain oEvil "https://a.*.example.com".toList = false ∧
    serve ⟨["https://a.*.example.com".toList], true, false, [star]⟩ ⟨false, [oEvil]⟩
      = ⟨401, false, none, false, [varyOrigin]⟩ := by
  refine ⟨by decide, ?_, by decide, by decide⟩
  intro h
  have := (glob_iff _ _).mpr h
  revert this
  decide

-- the legitimate reading of that entry still works, through the compiled pattern
example : serve ⟨["https://a.*.example.com".toList], true, false, [star]⟩ ⟨false, ["https://a.b.example.com".toList]⟩
    = ⟨200, true, some "https://a.b.example.com".toList, true, [varyOrigin]⟩ := by decide
-- preflight from an allowed and from a disallowed origin
example : serve ⟨["https://*.example.com".toList], false, false, [star]⟩ ⟨true, [oGood]⟩
    = ⟨204, false, some oGood, false, varyOrigin :: varyPreflight⟩ := by decide
example : serve ⟨["https://*.example.com".toList], false, false, [star]⟩ ⟨true, ["https://example.org".toList]⟩
    = ⟨204, false, none, false, [varyOrigin]⟩ := by decide
-- `*` entry: value `*`, unless the unsafe flag echoes the origin
example : (serve ⟨[star], true, false, [star]⟩ ⟨false, [oEvil]⟩).acao = some star ∧
    (serve ⟨[star], true, true, [star]⟩ ⟨false, [oEvil]⟩).acao = some oEvil ∧
    (serve ⟨[], false, false, [star]⟩ ⟨false, [oEvil]⟩).acao = some star := by decide
-- `?` and a wildcard in the scheme and the port, regexp metacharacters literal
example : glob "http?://a+b.example.com:80?0".toList "https://a+b.example.com:8080".toList = true ∧
    glob "http?://a+b.example.com:80?0".toList "https://aab.example.com:8080".toList = false ∧
    glob "https://a.example.com".toList "https://aXexample.com".toList = false := by decide

/-- the origin-shape hypothesis of C11_matchSubdomain_glob cannot be dropped: for an entry with a
    stray colon before `://` the scheme comparison and the `://` search cut at different places -/
theorem PatScheme_needed :
    matchSubdomain "a://x.c".toList "a:b://*.c".toList = true ∧
    glob "a:b://*.c".toList "a://x.c".toList = false := by decide


/-! ## round 4: entries that do not compile -/

theorem utf8Go_ascii : ∀ p : Str, (∀ c ∈ p, c.toNat < 0x80) → utf8Go 0 0 0 p = true
  | [], _ => by simp [utf8Go]
  | a :: r, h => by
    have ha : a.toNat < 0x80 := h a (by simp)
    unfold utf8Go
    simp only [ha, if_true]
    exact utf8Go_ascii r (fun c hc => h c (by simp [hc]))

/-- every ASCII entry compiles (so for ASCII allow-lists `C11_acao_complete` has no extra hypothesis) -/
theorem compiles_of_ascii (p : Str) (h : ∀ c ∈ p, c.toNat < 0x80) : compiles p = true :=
  utf8Go_ascii p h

/-- an entry that does not compile is never consulted as a pattern — it can only match through the
    literal comparison or `matchSubdomain` of the allow loop -/
theorem C11_invalid_entry_dropped (cfg : Cfg) (p : Str) (h : compiles p = false) : p ∉ patterns cfg := by
  intro hm
  have := (List.mem_filter.mp hm).2
  simp [h] at this

/-- the `compiles` hypothesis of `C11_acao_complete` cannot be dropped: the entry `https://\xff*.c`
    read as a pattern matches `https://\xffa.c`, yet the middleware refuses that origin, because
    the entry is not valid UTF-8 and was silently dropped when the patterns were compiled -/
theorem compiles_needed :
    let p : Str := "https://".toList ++ [Char.ofNat 0xff] ++ "*.c".toList
    let o : Str := "https://".toList ++ [Char.ofNat 0xff] ++ "a.c".toList
    glob p o = true ∧ compiles p = false ∧ allowOrigin ⟨[p], false, false, [star]⟩ o = [] ∧
    (serve ⟨[p], false, false, [star]⟩ ⟨false, [o]⟩).status = 401 := by decide

/-! ## round 4: the complete middleware (`serveFull`) -/

def FReq.origin (fr : FReq) : Str := fr.core.origin

/-- `routerAllowMethods`: the router's value is read on OPTIONS only -/
def rAllowOf (fr : FReq) : Str := if fr.core.preflight then fr.routerAllow else []
/-- the `Allow` response header -/
def allowHdrOf (fr : FReq) : Option Str := if rAllowOf fr = [] then none else some (rAllowOf fr)
def acamOf (fc : Full) (fr : FReq) : Str :=
  if fc.methods = [] ∧ rAllowOf fr ≠ [] then rAllowOf fr
  else joinComma (if fc.methods = [] then fc.dfltMethods else fc.methods)
def acahOf (fc : Full) (fr : FReq) : Option Str :=
  if joinComma fc.headers ≠ [] then some (joinComma fc.headers)
  else if fr.reqHeaders ≠ [] then some fr.reqHeaders else none
def acehOf (fc : Full) : Option Str := if joinComma fc.expose = [] then none else some (joinComma fc.expose)
def maxAgeOf (fc : Full) : Option Str := if fc.maxAge = 0 then none else some (maxAgeStr fc.maxAge)

theorem decideOrigin_func (fc : Full) (f : Str → FRes) (hf : fc.func = some f) (o : Str) :
    (∀ st, f o = .err st → decideOrigin fc o = .error st) ∧
    (f o = .allow → decideOrigin fc o = .ok o) ∧ (f o = .deny → decideOrigin fc o = .ok []) :=
  ⟨fun st h => by simp [decideOrigin, hf, h], fun h => by simp [decideOrigin, hf, h],
   fun h => by simp [decideOrigin, hf, h]⟩

/-- shape of every answer of the complete middleware -/
theorem serveFull_cases (fc : Full) (fr : FReq) :
    (fr.skip = true ∧ serveFull fc fr = noHeaders ⟨200, true, none, false, []⟩ none) ∨
    (fr.skip = false ∧
      ((fr.origin = [] ∧ ((fr.core.preflight = false ∧
            serveFull fc fr = noHeaders ⟨200, true, none, false, [varyOrigin]⟩ (allowHdrOf fr)) ∨
          (fr.core.preflight = true ∧
            serveFull fc fr = noHeaders ⟨204, false, none, false, [varyOrigin]⟩ (allowHdrOf fr)))) ∨
       (fr.origin ≠ [] ∧ ∃ st, decideOrigin fc fr.origin = .error st ∧
          serveFull fc fr = noHeaders ⟨st, false, none, false, [varyOrigin]⟩ (allowHdrOf fr)) ∨
       (fr.origin ≠ [] ∧ decideOrigin fc fr.origin = .ok [] ∧
          ((fr.core.preflight = false ∧
              serveFull fc fr = noHeaders ⟨401, false, none, false, [varyOrigin]⟩ (allowHdrOf fr)) ∨
           (fr.core.preflight = true ∧
              serveFull fc fr = noHeaders ⟨204, false, none, false, [varyOrigin]⟩ (allowHdrOf fr)))) ∨
       (fr.origin ≠ [] ∧ ∃ a, a ≠ [] ∧ decideOrigin fc fr.origin = .ok a ∧
          ((fr.core.preflight = false ∧
              serveFull fc fr = ⟨⟨200, true, some a, fc.core.creds, [varyOrigin]⟩, none, none, none, acehOf fc, none⟩) ∨
           (fr.core.preflight = true ∧
              serveFull fc fr = ⟨⟨204, false, some a, fc.core.creds, varyOrigin :: varyPreflight⟩,
                allowHdrOf fr, some (acamOf fc fr), acahOf fc fr, none, maxAgeOf fc⟩))))) := by
  cases hs : fr.skip with
  | true => left; exact ⟨rfl, by simp [serveFull, hs]⟩
  | false =>
    right
    refine ⟨rfl, ?_⟩
    have hor : fr.core.origins.headD [] = fr.origin := rfl
    unfold serveFull
    simp only [hs, Bool.false_eq_true, if_false, hor]
    by_cases h0 : fr.origin = []
    · left
      refine ⟨h0, ?_⟩
      simp only [h0, if_true]
      cases hp : fr.core.preflight
      · left; exact ⟨rfl, by simp [allowHdrOf, rAllowOf, hp]⟩
      · right; exact ⟨rfl, by simp [allowHdrOf, rAllowOf, hp]⟩
    · right
      simp only [h0, if_false]
      cases hd : decideOrigin fc fr.origin with
      | error st => left; exact ⟨h0, st, rfl, by simp [allowHdrOf, rAllowOf]⟩
      | ok a =>
        right
        by_cases ha : a = []
        · left
          subst ha
          refine ⟨h0, rfl, ?_⟩
          simp only [if_true]
          cases hp : fr.core.preflight
          · left; exact ⟨rfl, by simp [allowHdrOf, rAllowOf, hp]⟩
          · right; exact ⟨rfl, by simp [allowHdrOf, rAllowOf, hp]⟩
        · right
          refine ⟨h0, a, ha, rfl, ?_⟩
          simp only [ha, if_false]
          cases hp : fr.core.preflight
          · left; exact ⟨rfl, by simp [acehOf]⟩
          · right; exact ⟨rfl, by simp [allowHdrOf, rAllowOf, hp, acamOf, acahOf, maxAgeOf]⟩

/-- **serveFull_core** — with `AllowOriginFunc` unset and a Skipper that does not skip, the complete
    middleware answers exactly as the core model on status / handler / ACAO / ACAC / Vary; hence
    `C11_acao_sound`, `C11_acao_complete`, `C11_disallowed_blocked`, … speak about it. -/
theorem serveFull_core (fc : Full) (fr : FReq) (hf : fc.func = none) (hs : fr.skip = false) :
    (serveFull fc fr).core = serve fc.core fr.core := by
  have hor : fr.core.origins.headD [] = fr.origin := rfl
  have hd : decideOrigin fc fr.origin = .ok (allowOrigin fc.core fr.origin) := by
    simp [decideOrigin, hf]
  unfold serveFull serve
  simp only [hs, Bool.false_eq_true, if_false, hor, hd]
  by_cases h0 : fr.origin = []
  · simp only [h0, if_true]; cases fr.core.preflight <;> simp [noHeaders]
  · simp only [h0, if_false]
    by_cases ha : allowOrigin fc.core fr.origin = []
    · simp only [ha, if_true]; cases fr.core.preflight <;> simp [noHeaders]
    · simp only [ha, if_false]; cases fr.core.preflight <;> simp

/-- **C11_full_acao_sound** — the complete middleware (any Skipper answer, `AllowOriginFunc` unset):
    Access-Control-Allow-Origin only for an allowed origin, value `*` or the Origin verbatim. -/
theorem C11_full_acao_sound (fc : Full) (fr : FReq) (v : Str) (hf : fc.func = none)
    (hv : ValidOrigin fr.origin) (hp : ∀ p ∈ effOrigins fc.core, PatScheme p)
    (h : (serveFull fc fr).core.acao = some v) :
    ((v = star ∧ star ∈ effOrigins fc.core) ∨ v = fr.origin) ∧ Allowed (effOrigins fc.core) fr.origin := by
  cases hs : fr.skip with
  | true => simp [serveFull, hs, noHeaders] at h
  | false =>
    rw [serveFull_core fc fr hf hs] at h
    exact C11_acao_sound fc.core fr.core v hv hp h

/-- **C11_func_sound** — with `AllowOriginFunc` set the allow-list is ignored: ACAO is emitted only
    when the function, asked about the request's Origin verbatim, allowed it, and its value is
    that Origin verbatim (never `*`). -/
theorem C11_func_sound (fc : Full) (fr : FReq) (f : Str → FRes) (v : Str) (hf : fc.func = some f)
    (h : (serveFull fc fr).core.acao = some v) :
    v = fr.origin ∧ f fr.origin = .allow ∧ fr.skip = false := by
  obtain ⟨he, hal, hde⟩ := decideOrigin_func fc f hf fr.origin
  have hd : ∀ a, decideOrigin fc fr.origin = .ok a → a ≠ [] → a = fr.origin ∧ f fr.origin = .allow := by
    intro a ha hne
    cases hfo : f fr.origin with
    | err st => rw [he st hfo] at ha; cases ha
    | allow => rw [hal hfo] at ha; cases ha; exact ⟨rfl, rfl⟩
    | deny => rw [hde hfo] at ha; cases ha; exact absurd rfl hne
  rcases serveFull_cases fc fr with ⟨_, e⟩ | ⟨hs, hc⟩
  · rw [e] at h; simp [noHeaders] at h
  · rcases hc with ⟨_, ⟨_, e⟩ | ⟨_, e⟩⟩ | ⟨_, st, _, e⟩ | ⟨_, _, ⟨_, e⟩ | ⟨_, e⟩⟩ |
        ⟨_, a, ha, hda, ⟨_, e⟩ | ⟨_, e⟩⟩
    all_goals rw [e] at h
    all_goals first
      | (simp [noHeaders] at h; done)
      | (have hv : a = v := by simpa using h
         subst hv
         exact ⟨(hd a hda ha).1, (hd a hda ha).2, hs⟩)

/-- **C11_func_blocks** — when the function does not allow the Origin, nothing is granted and the
    handler does not run; its error is what the middleware returns (also on a preflight). -/
theorem C11_func_blocks (fc : Full) (fr : FReq) (f : Str → FRes) (hf : fc.func = some f)
    (hs : fr.skip = false) (ho : fr.origin ≠ []) (hna : f fr.origin ≠ .allow) :
    (serveFull fc fr).core.acao = none ∧ (serveFull fc fr).core.acac = false ∧
    (serveFull fc fr).core.ran = false ∧
    (∀ st, f fr.origin = .err st → (serveFull fc fr).core.status = st) ∧
    (f fr.origin = .deny → (serveFull fc fr).core.status = if fr.core.preflight then 204 else 401) := by
  obtain ⟨he, hal, hdn⟩ := decideOrigin_func fc f hf fr.origin
  rcases serveFull_cases fc fr with ⟨hs', _⟩ | ⟨_, hc⟩
  · rw [hs] at hs'; cases hs'
  · rcases hc with ⟨h0, _⟩ | ⟨_, st, hde, e⟩ | ⟨_, hde, ⟨hp, e⟩ | ⟨hp, e⟩⟩ | ⟨_, a, ha, hda, _⟩
    · exact absurd h0 ho
    · rw [e]
      cases hfo : f fr.origin with
      | err st' => rw [he st' hfo] at hde; cases hde; simp [noHeaders]
      | allow => exact absurd hfo hna
      | deny => rw [hdn hfo] at hde; cases hde
    · rw [e]
      cases hfo : f fr.origin with
      | err st' => rw [he st' hfo] at hde; cases hde
      | allow => exact absurd hfo hna
      | deny => simp [noHeaders, hp]
    · rw [e]
      cases hfo : f fr.origin with
      | err st' => rw [he st' hfo] at hde; cases hde
      | allow => exact absurd hfo hna
      | deny => simp [noHeaders, hp]
    · cases hfo : f fr.origin with
      | err st' => rw [he st' hfo] at hda; cases hda
      | allow => exact absurd hfo hna
      | deny => rw [hdn hfo] at hda; cases hda; exact absurd rfl ha

/-- **C11_skip** — a request the configured Skipper takes out of the middleware reaches the handler
    and the middleware adds nothing to the response (no ACAO / ACAC / Vary / Allow / preflight headers). -/
theorem C11_skip (fc : Full) (fr : FReq) (hs : fr.skip = true) :
    serveFull fc fr = noHeaders ⟨200, true, none, false, []⟩ none := by
  simp [serveFull, hs]

/-- **C11_full_credentials** — Access-Control-Allow-Credentials only when enabled, only together
    with ACAO, never on a skipped request — whichever way the origin was decided. -/
theorem C11_full_credentials (fc : Full) (fr : FReq) (h : (serveFull fc fr).core.acac = true) :
    fc.core.creds = true ∧ (serveFull fc fr).core.acao ≠ none ∧ fr.skip = false := by
  rcases serveFull_cases fc fr with ⟨_, e⟩ | ⟨hs, hc⟩
  · rw [e] at h; simp [noHeaders] at h
  · rcases hc with ⟨_, ⟨_, e⟩ | ⟨_, e⟩⟩ | ⟨_, st, _, e⟩ | ⟨_, _, ⟨_, e⟩ | ⟨_, e⟩⟩ |
        ⟨_, a, ha, hda, ⟨_, e⟩ | ⟨_, e⟩⟩
    all_goals rw [e] at h ⊢
    all_goals first
      | (simp [noHeaders] at h; done)
      | exact ⟨by simpa using h, by simp, hs⟩

/-- **C11_full_preflight** — an OPTIONS request that is not skipped never runs the handler and is
    answered 204, the one exception being an error returned by `AllowOriginFunc`. -/
theorem C11_full_preflight (fc : Full) (fr : FReq) (hs : fr.skip = false) (hp : fr.core.preflight = true) :
    (serveFull fc fr).core.ran = false ∧
    ((serveFull fc fr).core.status = 204 ∨
     ∃ f st, fc.func = some f ∧ f fr.origin = .err st ∧ (serveFull fc fr).core.status = st) := by
  rcases serveFull_cases fc fr with ⟨hs', _⟩ | ⟨_, hc⟩
  · rw [hs] at hs'; cases hs'
  · rcases hc with ⟨_, ⟨hp', e⟩ | ⟨_, e⟩⟩ | ⟨_, st, hde, e⟩ | ⟨_, _, ⟨hp', e⟩ | ⟨_, e⟩⟩ |
        ⟨_, a, ha, hda, ⟨hp', e⟩ | ⟨_, e⟩⟩
    · rw [hp] at hp'; cases hp'
    · rw [e]; simp [noHeaders]
    · rw [e]
      refine ⟨by simp [noHeaders], Or.inr ?_⟩
      cases hfn : fc.func with
      | none => simp [decideOrigin, hfn] at hde
      | some f =>
        obtain ⟨he, hal, hdn⟩ := decideOrigin_func fc f hfn fr.origin
        cases hfo : f fr.origin with
        | err st' => rw [he st' hfo] at hde; cases hde; exact ⟨f, _, rfl, hfo, by simp [noHeaders]⟩
        | allow => rw [hal hfo] at hde; cases hde
        | deny => rw [hdn hfo] at hde; cases hde
    · rw [hp] at hp'; cases hp'
    · rw [e]; simp [noHeaders]
    · rw [hp] at hp'; cases hp'
    · rw [e]; simp

/-- **C11_full_ran** — the handler runs only for a skipped request, a request without Origin, or
    a non-preflight request that was granted ACAO. -/
theorem C11_full_ran (fc : Full) (fr : FReq) (h : (serveFull fc fr).core.ran = true) :
    fr.skip = true ∨
    (fr.core.preflight = false ∧ (fr.origin = [] ∨ (serveFull fc fr).core.acao ≠ none)) := by
  rcases serveFull_cases fc fr with ⟨hs, _⟩ | ⟨_, hc⟩
  · exact Or.inl hs
  · right
    rcases hc with ⟨h0, ⟨hp, e⟩ | ⟨_, e⟩⟩ | ⟨_, st, _, e⟩ | ⟨_, _, ⟨_, e⟩ | ⟨_, e⟩⟩ |
        ⟨_, a, ha, hda, ⟨hp, e⟩ | ⟨_, e⟩⟩
    · exact ⟨hp, Or.inl h0⟩
    all_goals rw [e] at h ⊢
    all_goals first
      | (simp [noHeaders] at h; done)
      | exact ⟨hp, Or.inr (by simp)⟩

/-- **C11_grant_headers** — the other CORS response headers never leak to an origin that was not
    granted: Allow-Methods / Allow-Headers / Max-Age appear only on a granted preflight,
    Expose-Headers only on a granted simple request, Max-Age only when configured, and a negative
    `MaxAge` is sent as `0`. -/
theorem C11_grant_headers (fc : Full) (fr : FReq) :
    (((serveFull fc fr).acam ≠ none ∨ (serveFull fc fr).acah ≠ none ∨ (serveFull fc fr).maxAge ≠ none) →
      (serveFull fc fr).core.acao ≠ none ∧ fr.core.preflight = true) ∧
    ((serveFull fc fr).aceh ≠ none → (serveFull fc fr).core.acao ≠ none ∧ fr.core.preflight = false) ∧
    (∀ v, (serveFull fc fr).maxAge = some v → fc.maxAge ≠ 0 ∧ (fc.maxAge < 0 → v = ['0'])) := by
  have hma : ∀ v, maxAgeOf fc = some v → fc.maxAge ≠ 0 ∧ (fc.maxAge < 0 → v = ['0']) := by
    intro v hv
    unfold maxAgeOf at hv
    by_cases h0 : fc.maxAge = 0
    · simp [h0] at hv
    · simp only [h0, if_false, Option.some.injEq] at hv
      refine ⟨h0, fun hneg => ?_⟩
      have : ¬ fc.maxAge > 0 := by omega
      rw [← hv]; simp [maxAgeStr, this]
  rcases serveFull_cases fc fr with ⟨_, e⟩ | ⟨_, hc⟩
  · rw [e]; simp [noHeaders]
  · rcases hc with ⟨_, ⟨_, e⟩ | ⟨_, e⟩⟩ | ⟨_, st, _, e⟩ | ⟨_, _, ⟨_, e⟩ | ⟨_, e⟩⟩ |
        ⟨_, a, ha, hda, ⟨hp, e⟩ | ⟨hp, e⟩⟩
    all_goals rw [e]
    all_goals first
      | (simp [noHeaders]; done)
      | (simp [hp]; done)
      | (refine ⟨fun _ => ⟨by simp, hp⟩, fun h => by simp at h, fun v hv => hma v (by simpa using hv)⟩)

theorem maxAgeStr_neg (n : Int) (h : n < 0) : maxAgeStr n = ['0'] := by
  have : ¬ n > 0 := by omega
  simp [maxAgeStr, this]

/-- **C11_allow_methods** — on a granted preflight Access-Control-Allow-Methods is the router's
    Allow value exactly when `AllowMethods` was left empty and the router provided one; otherwise
    the configured list (when empty: `DefaultCORSConfig.AllowMethods` as it was when the constructor ran), joined
    with commas. -/
theorem C11_allow_methods (fc : Full) (fr : FReq) (hs : fr.skip = false) (hp : fr.core.preflight = true)
    (hg : (serveFull fc fr).core.acao ≠ none) :
    (serveFull fc fr).acam = some (if fc.methods = [] ∧ fr.routerAllow ≠ [] then fr.routerAllow
      else joinComma (if fc.methods = [] then fc.dfltMethods else fc.methods)) ∧
    (serveFull fc fr).allow = (if fr.routerAllow = [] then none else some fr.routerAllow) := by
  have hor : fr.core.origins.headD [] = fr.origin := rfl
  unfold serveFull at hg ⊢
  simp only [hs, Bool.false_eq_true, if_false, hor, hp, if_true] at hg ⊢
  by_cases h0 : fr.origin = []
  · simp [h0, noHeaders] at hg
  · simp only [h0, if_false] at hg ⊢
    cases hd : decideOrigin fc fr.origin with
    | error st => rw [hd] at hg; simp [noHeaders] at hg
    | ok a =>
      rw [hd] at hg
      simp only [] at hg ⊢
      by_cases ha : a = []
      · simp [ha, noHeaders] at hg
      · simp [ha]

/-- **C11_ctor_default** — `CORS()` (= `CORSWithConfig(DefaultCORSConfig)`): every origin is answered
    `Access-Control-Allow-Origin: *`, credentials are never allowed, and because the default
    AllowMethods are set the preflight lists them whatever the router knows about the path. -/
theorem C11_ctor_default (fr : FReq) (hs : fr.skip = false) (ho : fr.origin ≠ []) :
    (serveFull defaultFull fr).core.acao = some star ∧ (serveFull defaultFull fr).core.acac = false ∧
    (fr.core.preflight = true →
      (serveFull defaultFull fr).acam = some "GET,HEAD,PUT,PATCH,POST,DELETE".toList) ∧
    (serveFull defaultFull fr).maxAge = none ∧ (serveFull defaultFull fr).aceh = none := by
  have hor : fr.core.origins.headD [] = fr.origin := rfl
  have hd : decideOrigin defaultFull fr.origin = .ok star := by
    simp [decideOrigin, defaultFull, allowOrigin, effOrigins, allowLoop, star]
  have hj : joinComma defaultMethods = "GET,HEAD,PUT,PATCH,POST,DELETE".toList := by decide
  have hm : defaultFull.methods = defaultMethods := rfl
  have hm' : defaultMethods ≠ [] := by decide
  unfold serveFull
  simp only [hs, Bool.false_eq_true, if_false, hor, ho, hd]
  have hs' : star ≠ [] := by decide
  simp only [hs', if_false]
  cases hp : fr.core.preflight
  · simp [defaultFull, joinComma]
  · simp [hm', hj, defaultFull, joinComma]

-- non-vacuity of the round-4 statements
def fGood : Str → FRes := fun o => if o = oGood then .allow else if o = oEvil then .err 403 else .deny
def fullDemo : Full := ⟨⟨["https://unrelated.test".toList], true, false, [star]⟩, some fGood, [], ["X-A".toList, "X-B".toList],
  ["X-E".toList], -5, defaultMethods⟩
-- AllowOriginFunc replaces the allow-list; preflight headers; negative MaxAge sent as 0; router Allow used
example : serveFull fullDemo ⟨⟨true, [oGood]⟩, false, "OPTIONS, GET".toList, "X-Req".toList⟩ =
    ⟨⟨204, false, some oGood, true, varyOrigin :: varyPreflight⟩, some "OPTIONS, GET".toList,
      some "OPTIONS, GET".toList, some "X-A,X-B".toList, none, some ['0']⟩ := by decide
-- its error is returned even on a preflight; a refusal is a bare 204 / 401
example : (serveFull fullDemo ⟨⟨true, [oEvil]⟩, false, [], []⟩).core = ⟨403, false, none, false, [varyOrigin]⟩ ∧
    (serveFull fullDemo ⟨⟨false, ["https://unrelated.test".toList]⟩, false, [], []⟩).core
      = ⟨401, false, none, false, [varyOrigin]⟩ := by decide
-- simple request: Expose-Headers; skipped request: nothing
example : serveFull fullDemo ⟨⟨false, [oGood]⟩, false, [], []⟩ =
    ⟨⟨200, true, some oGood, true, [varyOrigin]⟩, none, none, none, some "X-E".toList, none⟩ ∧
    serveFull fullDemo ⟨⟨true, [oEvil]⟩, true, "OPTIONS, GET".toList, []⟩ = noHeaders ⟨200, true, none, false, []⟩ none := by
  decide
-- CORSWithConfig(CORSConfig{}) takes the router's Allow, CORS() does not; Request-Headers echoed
example : (serveFull ⟨⟨[], false, false, [star]⟩, none, [], [], [], 0, defaultMethods⟩ ⟨⟨true, [oGood]⟩, false, "OPTIONS, GET".toList, "X-Req".toList⟩).acam
      = some "OPTIONS, GET".toList ∧
    (serveFull defaultFull ⟨⟨true, [oGood]⟩, false, "OPTIONS, GET".toList, "X-Req".toList⟩).acam
      = some "GET,HEAD,PUT,PATCH,POST,DELETE".toList ∧
    (serveFull defaultFull ⟨⟨true, [oGood]⟩, false, "OPTIONS, GET".toList, "X-Req".toList⟩).acah = some "X-Req".toList := by
  decide
example : compiles ("https://".toList ++ [Char.ofNat 0xc3, Char.ofNat 0xa9] ++ ".example".toList) = true := by decide
example : compiles ("https://".toList ++ [Char.ofNat 0xed, Char.ofNat 0xa0, Char.ofNat 0x80]) = false ∧
    compiles ("https://".toList ++ [Char.ofNat 0xc0, Char.ofNat 0x80]) = false ∧
    compiles ("https://".toList ++ [Char.ofNat 0xe2, Char.ofNat 0x82]) = false ∧
    compiles ("https://".toList ++ [Char.ofNat 0xe2, Char.ofNat 0x82, Char.ofNat 0xac]) = true ∧
    compiles ("https://".toList ++ [Char.ofNat 0xf4, Char.ofNat 0x90, Char.ofNat 0x80, Char.ofNat 0x80]) = false := by decide


/-! ## round 5: several instances on the path of one request (`serveStack`) -/

/-- a single instance in front of the handler is exactly `serveFull` (the round-4 statements are the
    one-layer case of the stack) -/
theorem serveStack_single (fr : FReq) (l : Layer) : serveStack fr [l] = l.run fr := by
  unfold serveStack serveStack
  simp only []
  cases hr : (l.run fr).core.ran with
  | false => simp
  | true =>
    simp only [if_true]
    -- an instance that passes the request on answered 200 so far and the handler adds nothing
    have hst : (l.run fr).core.status = 200 := by
      unfold Layer.run at hr ⊢
      rcases serveFull_cases l.cfg (layerReq fr l) with ⟨_, e⟩ | ⟨_, hc⟩
      · rw [e]; rfl
      · rcases hc with ⟨_, ⟨_, e⟩ | ⟨_, e⟩⟩ | ⟨_, st, _, e⟩ | ⟨_, _, ⟨_, e⟩ | ⟨_, e⟩⟩ |
            ⟨_, a, _, _, ⟨_, e⟩ | ⟨_, e⟩⟩
        all_goals rw [e] at hr ⊢
        all_goals first
          | rfl
          | (simp [noHeaders] at hr; done)
    cases ho : l.run fr with
    | mk core al am ah ae ma =>
      cases core with
      | mk st rn ao ac vy =>
        rw [ho] at hr hst
        simp only at hr hst
        subst hr; subst hst
        simp [mergeObs, handlerObs, noHeaders]

/-- **C11_stack_ran_iff** — behind any stack every instance must pass the request on its own: the
    handler runs iff each instance, looking at the request as it was sent, calls `next`.  No instance
    can make another one skip its decision (an `Access-Control-Allow-Origin` already in the response,
    set by an enclosing instance, does not count for anything). -/
theorem C11_stack_ran_iff (fr : FReq) : ∀ ls : List Layer,
    (serveStack fr ls).core.ran = true ↔ ∀ l ∈ ls, (l.run fr).core.ran = true
  | [] => by simp [serveStack, handlerObs, noHeaders]
  | l :: rest => by
    have ih := C11_stack_ran_iff fr rest
    unfold serveStack
    simp only []
    cases hr : (l.run fr).core.ran with
    | false => simp [hr]
    | true => simp [hr, mergeObs, ih]

/-- **C11_stack_every_instance** — the handler ran behind a stack ⇒ every instance either was told
    by its Skipper to stand aside, or saw a non-preflight request that carries no Origin or an
    Origin it granted itself. -/
theorem C11_stack_every_instance (fr : FReq) (ls : List Layer) (h : (serveStack fr ls).core.ran = true)
    (l : Layer) (hl : l ∈ ls) :
    l.skip = true ∨ (fr.core.preflight = false ∧ (fr.origin = [] ∨ (l.run fr).core.acao ≠ none)) := by
  have hr := (C11_stack_ran_iff fr ls).mp h l hl
  exact C11_full_ran l.cfg (layerReq fr l) hr

/-- **C11_stack_disallowed_blocked** — a request from an Origin that ONE unskipped allow-list
    instance anywhere on the path does not allow never reaches the handler, however permissive the
    other instances are (the statement the "already negotiated by an enclosing CORS" shortcut breaks). -/
theorem C11_stack_disallowed_blocked (fr : FReq) (ls : List Layer) (l : Layer) (hl : l ∈ ls)
    (hs : l.skip = false) (hf : l.cfg.func = none) (hv : ValidOrigin fr.origin)
    (hp : ∀ p ∈ effOrigins l.cfg.core, PatScheme p) (hna : ¬ Allowed (effOrigins l.cfg.core) fr.origin) :
    (serveStack fr ls).core.ran = false := by
  cases hr : (serveStack fr ls).core.ran with
  | false => rfl
  | true =>
    exfalso
    have h1 := (C11_stack_ran_iff fr ls).mp hr l hl
    unfold Layer.run at h1
    rw [serveFull_core l.cfg (layerReq fr l) hf hs] at h1
    have := (C11_disallowed_blocked l.cfg.core (layerReq fr l).core hv hp hna).2.2.1
    rw [this] at h1; cases h1

/-- the same for an instance that decides by `AllowOriginFunc` -/
theorem C11_stack_func_blocked (fr : FReq) (ls : List Layer) (l : Layer) (hl : l ∈ ls)
    (hs : l.skip = false) (f : Str → FRes) (hf : l.cfg.func = some f) (ho : fr.origin ≠ [])
    (hna : f fr.origin ≠ .allow) : (serveStack fr ls).core.ran = false := by
  cases hr : (serveStack fr ls).core.ran with
  | false => rfl
  | true =>
    exfalso
    have h1 := (C11_stack_ran_iff fr ls).mp hr l hl
    have := (C11_func_blocks l.cfg (layerReq fr l) f hf hs ho hna).2.2.1
    unfold Layer.run at h1
    rw [this] at h1; cases h1

/-- **C11_stack_grants_from_instance** — what leaves the stack as Access-Control-Allow-Origin /
    -Credentials was put there by one of the instances for this very request (so `C11_full_acao_sound`,
    `C11_func_sound`, `C11_full_credentials` apply to that instance). -/
theorem C11_stack_grants_from_instance (fr : FReq) : ∀ ls : List Layer,
    (∀ v, (serveStack fr ls).core.acao = some v → ∃ l ∈ ls, (l.run fr).core.acao = some v) ∧
    ((serveStack fr ls).core.acac = true → ∃ l ∈ ls, (l.run fr).core.acac = true)
  | [] => by simp [serveStack, handlerObs, noHeaders]
  | l :: rest => by
    obtain ⟨ih1, ih2⟩ := C11_stack_grants_from_instance fr rest
    unfold serveStack
    simp only []
    cases hr : (l.run fr).core.ran with
    | false =>
      simp only [Bool.false_eq_true, if_false]
      exact ⟨fun v hv => ⟨l, by simp, hv⟩, fun hc => ⟨l, by simp, hc⟩⟩
    | true =>
      simp only [if_true, mergeObs]
      constructor
      · intro v hv
        cases hi : (serveStack fr rest).core.acao with
        | some w =>
          rw [hi] at hv
          have : w = v := by simpa using hv
          subst this
          obtain ⟨l', hl', h'⟩ := ih1 w hi
          exact ⟨l', by simp [hl'], h'⟩
        | none =>
          rw [hi] at hv
          exact ⟨l, by simp, by simpa using hv⟩
      · intro hc
        cases hi : (serveStack fr rest).core.acac with
        | true =>
          obtain ⟨l', hl', h'⟩ := ih2 hi
          exact ⟨l', by simp [hl'], h'⟩
        | false =>
          rw [hi] at hc
          exact ⟨l, by simp, by simpa using hc⟩

-- non-vacuity: CORS() on the root, a strict instance inside; the evil origin is stopped by the inner
-- one (and the 401 still carries the outer `*`), the listed origin passes both and gets the inner grant
def strictLayer : Layer := ⟨⟨⟨["https://a.b.example.com".toList], true, false, [star]⟩, none, [], [], [], 0, defaultMethods⟩, false, []⟩
def rootLayer : Layer := ⟨defaultFull, false, []⟩
example : serveStack ⟨⟨false, [oEvil]⟩, false, [], []⟩ [rootLayer, strictLayer] =
    ⟨⟨401, false, some star, false, [varyOrigin, varyOrigin]⟩, none, none, none, none, none⟩ := by decide
example : serveStack ⟨⟨false, [oGood]⟩, false, [], []⟩ [rootLayer, strictLayer] =
    ⟨⟨200, true, some oGood, true, [varyOrigin, varyOrigin]⟩, none, none, none, none, none⟩ := by decide
example : ¬ Allowed (effOrigins strictLayer.cfg.core) oEvil := by
  intro h
  rcases h with h | h | ⟨p, hp, hg⟩
  · revert h; decide
  · revert h; decide
  · have hp' : p = "https://a.b.example.com".toList := by simpa [strictLayer, effOrigins] using hp
    subst hp'
    have := (glob_iff _ _).mpr hg
    revert this; decide


/-! ## round 6: the whole request head — method, `Origin`, `Access-Control-Request-Headers`, nothing else -/

/-- a header line under another name does not change what is read under `name` -/
theorem hdrValues_cons_ne (n v name : Str) (hs : List (Str × Str)) (h : n ≠ name) :
    hdrValues ((n, v) :: hs) name = hdrValues hs name := by
  simp [hdrValues, List.filter, h]

/-- **C11_req_preflight_iff** — a request is treated as a preflight exactly when its method is
    `OPTIONS`: the presence or absence of `Access-Control-Request-Method` (or of any other header)
    plays no part. -/
theorem C11_req_preflight_iff (method : Str) (headers : List (Str × Str)) :
    (reqOf method headers).core.preflight = true ↔ method = "OPTIONS".toList := by
  unfold reqOf
  exact decide_eq_true_iff

/-- **C11_req_decoys_ignored** — a header that is neither `Origin` nor
    `Access-Control-Request-Headers` changes nothing: same answer from any stack of instances
    (given the same Skipper answers and context values). -/
theorem C11_req_decoys_ignored (method n v : Str) (headers : List (Str × Str))
    (h1 : n ≠ "Origin".toList) (h2 : n ≠ "Access-Control-Request-Headers".toList) (ls : List Layer) :
    serveStack (reqOf method ((n, v) :: headers)) ls = serveStack (reqOf method headers) ls := by
  have : reqOf method ((n, v) :: headers) = reqOf method headers := by
    unfold reqOf
    rw [hdrValues_cons_ne _ _ _ _ h1, hdrValues_cons_ne _ _ _ _ h2]
  rw [this]

/-- **C11_req_options_never_runs** — whatever else an `OPTIONS` request carries, no unskipped
    instance lets it through to the handler. -/
theorem C11_req_options_never_runs (headers : List (Str × Str)) (ls : List Layer) (l : Layer)
    (hl : l ∈ ls) (hs : l.skip = false) :
    (serveStack (reqOf "OPTIONS".toList headers) ls).core.ran = false := by
  cases hr : (serveStack (reqOf "OPTIONS".toList headers) ls).core.ran with
  | false => rfl
  | true =>
    exfalso
    have h1 := (C11_stack_ran_iff _ ls).mp hr l hl
    have hp : (layerReq (reqOf "OPTIONS".toList headers) l).core.preflight = true := by
      show decide ("OPTIONS".toList = "OPTIONS".toList) = true
      exact decide_eq_true rfl
    have := (C11_full_preflight l.cfg (layerReq (reqOf "OPTIONS".toList headers) l) hs hp).1
    unfold Layer.run at h1
    rw [this] at h1; cases h1

/-- **C11_req_origin_verbatim** — the Origin is compared as it was sent: the first `Origin` value,
    byte for byte, is what `Allowed` is decided on and what is echoed; another spelling of "the same"
    origin (default port, trailing dot or slash, other letter case, padding blanks) is another origin. -/
theorem C11_req_origin_verbatim (method : Str) (headers : List (Str × Str)) :
    (reqOf method headers).origin = (hdrValues headers "Origin".toList).headD [] := rfl

-- the spellings are different origins for the model, as for the code
example :
    let cfg : Cfg := ⟨["https://app.example.com".toList, "https://*.example.org".toList], true, false, [star]⟩
    allowOrigin cfg "https://app.example.com:443".toList = [] ∧ allowOrigin cfg "https://app.example.com.".toList = [] ∧
    allowOrigin cfg "https://a.example.org:443".toList = [] ∧
    allowOrigin cfg "https://app.example.com".toList = "https://app.example.com".toList := by decide
-- OPTIONS with and without Access-Control-Request-Method, with Sec-Fetch-Site: same-origin: always a bare 204 / grant
example : (serveStack (reqOf "OPTIONS".toList [("Origin".toList, oEvil), ("Sec-Fetch-Site".toList, "same-origin".toList)])
      [strictLayer]).core = ⟨204, false, none, false, [varyOrigin]⟩ ∧
    (serveStack (reqOf "OPTIONS".toList [("Access-Control-Request-Method".toList, "GET".toList), ("Origin".toList, oGood)])
      [strictLayer]).core = ⟨204, false, some oGood, true, varyOrigin :: varyPreflight⟩ := by decide


/-! ## round 7: the state of the shared response when the first instance is entered -/

/-- **C11_entry_same_decision** — whatever an earlier middleware did to the response (CORS-looking
    headers already there, response already started with some status), who reaches the handler is
    decided exactly as on an untouched response: by every instance on its own. -/
theorem C11_entry_same_decision (en : Entry) (fr : FReq) (ls : List Layer) :
    (serveEntry en fr ls).core.ran = (serveStack fr ls).core.ran := by
  unfold serveEntry
  cases en.committed <;> simp [mergeObs, noHeaders]

/-- hence: a request from an Origin that one unskipped allow-list instance does not allow never
    reaches the handler, also when the response was already started or already carries an
    `Access-Control-Allow-Origin` -/
theorem C11_entry_disallowed_blocked (en : Entry) (fr : FReq) (ls : List Layer) (l : Layer) (hl : l ∈ ls)
    (hs : l.skip = false) (hf : l.cfg.func = none) (hv : ValidOrigin fr.origin)
    (hp : ∀ p ∈ effOrigins l.cfg.core, PatScheme p) (hna : ¬ Allowed (effOrigins l.cfg.core) fr.origin) :
    (serveEntry en fr ls).core.ran = false := by
  rw [C11_entry_same_decision]
  exact C11_stack_disallowed_blocked fr ls l hl hs hf hv hp hna

/-- and an OPTIONS request never runs the handler past an unskipped instance -/
theorem C11_entry_options_never_runs (en : Entry) (headers : List (Str × Str)) (ls : List Layer) (l : Layer)
    (hl : l ∈ ls) (hs : l.skip = false) :
    (serveEntry en (reqOf "OPTIONS".toList headers) ls).core.ran = false := by
  rw [C11_entry_same_decision]
  exact C11_req_options_never_runs headers ls l hl hs

/-- an untouched response: `serveEntry` is `serveStack` -/
theorem serveEntry_plain (fr : FReq) (ls : List Layer) :
    serveEntry ⟨none, none, false, []⟩ fr ls = serveStack fr ls := by
  unfold serveEntry
  simp only [mergeObs, entryObs, noHeaders]
  cases h : serveStack fr ls with
  | mk core al am ah ae ma =>
    cases core with
    | mk st rn ao ac vy =>
      simp

/-- **C11_entry_grants** — an `Access-Control-Allow-Origin` the client sees was either already in
    the response when the middleware was entered, or set by one of the instances for this request;
    once the response is started, nothing the instances set is seen at all. -/
theorem C11_entry_grants (en : Entry) (fr : FReq) (ls : List Layer) (v : Str)
    (h : (serveEntry en fr ls).core.acao = some v) :
    en.acao = some v ∨ (en.committed = none ∧ ∃ l ∈ ls, (l.run fr).core.acao = some v) := by
  unfold serveEntry at h
  cases hc : en.committed with
  | some st => rw [hc] at h; left; simpa [noHeaders] using h
  | none =>
    rw [hc] at h
    simp only [mergeObs, entryObs, noHeaders] at h
    cases hi : (serveStack fr ls).core.acao with
    | some w =>
      rw [hi] at h
      have : w = v := by simpa using h
      subst this
      exact Or.inr ⟨rfl, (C11_stack_grants_from_instance fr ls).1 w hi⟩
    | none =>
      rw [hi] at h
      left; simpa using h

-- a response already started with 202: the disallowed origin is still refused (handler not run), the client keeps
-- seeing 202 and the headers sent with it; on an untouched response the same request gets 401
example : serveEntry ⟨some 202, some star, false, [varyOrigin]⟩ ⟨⟨false, [oEvil]⟩, false, [], []⟩ [strictLayer]
      = noHeaders ⟨202, false, some star, false, [varyOrigin]⟩ none ∧
    (serveEntry ⟨none, some star, false, []⟩ ⟨⟨false, [oEvil]⟩, false, [], []⟩ [strictLayer]).core
      = ⟨401, false, some star, false, [varyOrigin]⟩ ∧
    (serveEntry ⟨none, some star, false, []⟩ ⟨⟨false, [oGood]⟩, false, [], []⟩ [strictLayer]).core
      = ⟨200, true, some oGood, true, [varyOrigin]⟩ := by decide

/-! ## round 8: the package variable `DefaultCORSConfig` and the order of the set-up calls

`setup d ops` is the list of instances on the request's path after the script `ops`, started while the
variable holds `d`.  The statements: an instance is determined by the value the variable holds WHEN ITS
constructor is called — not by any constructor call before it (no "built once" memory), not by any
assignment after it; and the configuration in force of `CORS()` is the variable's, so every earlier
soundness statement applies with the variable's list. -/

theorem current_append (d : Defaults) (a b : List SetupOp) :
    current d (a ++ b) = current (current d a) b := by
  induction a generalizing d with
  | nil => rfl
  | cons op r ih => cases op <;> simp [current, ih]

theorem setup_append (d : Defaults) (a b : List SetupOp) :
    setup d (a ++ b) = setup d a ++ setup (current d a) b := by
  induction a generalizing d with
  | nil => rfl
  | cons op r ih =>
    cases op with
    | assign d' => simp [setup, current, ih]
    | call keep k => cases keep <;> simp [setup, current, ih]

/-- **C11_setup_no_memory** — the instances on the path after a script: whatever was assigned and
    whichever constructors were called before (`pre`) or afterwards (`post`), a kept constructor call
    yields exactly `k.build` of the value the variable holds at that moment (`current d pre`: the last
    value assigned before the call, `d` when there was none), in its place on the path. -/
theorem C11_setup_no_memory (d : Defaults) (pre post : List SetupOp) (k : Call) :
    setup d (pre ++ .call true k :: post)
      = setup d pre ++ k.build (current d pre) :: setup (current d pre) post := by
  rw [setup_append]; simp [setup]

/-- the value of the variable is the last one assigned; constructor calls do not touch it -/
theorem current_assign_last (d d' : Defaults) (pre post : List SetupOp)
    (hpost : ∀ op ∈ post, ∃ keep k, op = .call keep k) :
    current d (pre ++ .assign d' :: post) = d' := by
  rw [current_append]
  simp only [current]
  induction post generalizing d' with
  | nil => rfl
  | cons op r ih =>
    obtain ⟨keep, k, rfl⟩ := hpost op (by simp)
    simp only [current]
    exact ih d' (fun o ho => hpost o (by simp [ho]))

def SetupOp.isDroppedCall : SetupOp → Bool
  | .call false _ => true
  | _ => false

/-- **C11_setup_dropped_calls_irrelevant** — constructor calls whose instance is not on the path (an
    earlier `CORS()` of a library, of another group, of another Echo) can be deleted from the script:
    they leave nothing behind. -/
theorem C11_setup_dropped_calls_irrelevant (d : Defaults) (ops : List SetupOp) :
    setup d (ops.filter (fun op => !op.isDroppedCall)) = setup d ops := by
  induction ops generalizing d with
  | nil => rfl
  | cons op r ih =>
    cases op with
    | assign d' =>
      have : (SetupOp.assign d' :: r).filter (fun op => !op.isDroppedCall)
          = .assign d' :: r.filter (fun op => !op.isDroppedCall) := by simp [List.filter, SetupOp.isDroppedCall]
      rw [this]; simp only [setup]; exact ih d'
    | call keep k =>
      cases keep with
      | false =>
        have : (SetupOp.call false k :: r).filter (fun op => !op.isDroppedCall)
            = r.filter (fun op => !op.isDroppedCall) := by simp [List.filter, SetupOp.isDroppedCall]
        rw [this]; simp only [setup]; exact ih d
      | true =>
        have : (SetupOp.call true k :: r).filter (fun op => !op.isDroppedCall)
            = .call true k :: r.filter (fun op => !op.isDroppedCall) := by simp [List.filter, SetupOp.isDroppedCall]
        rw [this]; simp only [setup, if_true]; rw [ih d]

/-- **C11_setup_late_assignment_irrelevant** — assignments after the last constructor call do not
    reach the instances already built. -/
theorem C11_setup_late_assignment_irrelevant (d : Defaults) (ops late : List SetupOp)
    (hl : ∀ op ∈ late, ∃ d', op = .assign d') : setup d (ops ++ late) = setup d ops := by
  rw [setup_append]
  suffices h : ∀ (e : Defaults), setup e late = [] by simp [h]
  intro e
  induction late generalizing e with
  | nil => rfl
  | cons op r ih =>
    obtain ⟨d', rfl⟩ := hl op (by simp)
    simp only [setup]
    exact ih (fun o ho => hl o (by simp [ho])) d'

/-- **C11_variable_in_force** — what the two constructors take from the variable's value `d`:
    `CORS()` everything; `CORSWithConfig(fc)` the allow-list when its own is empty, the method list when
    its own is empty (then not "custom"), nothing else. -/
theorem C11_variable_in_force (d : Defaults) (fc : Full) :
    effOrigins (corsDefault d).core = d.origins ∧ (corsDefault d).core.creds = d.creds ∧
    (corsDefault d).core.unsafeWild = d.unsafeWild ∧ (corsDefault d).func = d.func ∧
    (corsDefault d).methods = d.methods ∧ (corsDefault d).expose = d.expose ∧
    (corsDefault d).headers = d.headers ∧ (corsDefault d).maxAge = d.maxAge ∧
    effOrigins (withConfig d fc).core = (if fc.core.origins = [] then d.origins else fc.core.origins) ∧
    (withConfig d fc).core.creds = fc.core.creds ∧ (withConfig d fc).core.unsafeWild = fc.core.unsafeWild ∧
    (withConfig d fc).func = fc.func ∧ (withConfig d fc).methods = fc.methods ∧
    (withConfig d fc).dfltMethods = d.methods := by
  refine ⟨?_, rfl, rfl, rfl, rfl, rfl, rfl, rfl, rfl, rfl, rfl, rfl, rfl, rfl⟩
  simp only [corsDefault, withConfig, Defaults.asConfig, effOrigins]
  exact ite_self _

/-- under the value the package is shipped with the constructors are the ones of the earlier rounds -/
theorem C11_pristine (fc : Full) (ho : fc.core.dfltOrigins = [star]) (hm : fc.dfltMethods = defaultMethods) :
    corsDefault pristine = defaultFull ∧ withConfig pristine fc = fc := by
  refine ⟨rfl, ?_⟩
  cases fc with
  | mk core f m h e a dm =>
    cases core with
    | mk o c u dd =>
      simp only at ho hm
      subst ho hm
      rfl

/-- **C11_variable_acao_sound** — `CORS()` called while the variable holds `d` (no `AllowOriginFunc` in
    it): Access-Control-Allow-Origin only for an origin `d.origins` allows — the list at the time of
    THIS call —, value `*` or the Origin verbatim; credentials only when `d.creds`. -/
theorem C11_variable_acao_sound (d : Defaults) (fr : FReq) (v : Str) (hf : d.func = none)
    (hv : ValidOrigin fr.origin) (hp : ∀ p ∈ d.origins, PatScheme p)
    (h : (serveFull (corsDefault d) fr).core.acao = some v) :
    ((v = star ∧ star ∈ d.origins) ∨ v = fr.origin) ∧ Allowed d.origins fr.origin := by
  have he := (C11_variable_in_force d (corsDefault d)).1
  have := C11_full_acao_sound (corsDefault d) fr v hf hv (by rw [he]; exact hp) h
  rwa [he] at this

theorem C11_variable_credentials (d : Defaults) (fr : FReq)
    (h : (serveFull (corsDefault d) fr).core.acac = true) : d.creds = true :=
  (C11_full_credentials (corsDefault d) fr h).1

/-- **C11_setup_disallowed_blocked** — the statement the "default middleware is built once" shortcut
    breaks: after ANY script, if an instance on the path was made by `CORS()` while the variable held a
    value whose list does not allow the request's Origin (its Skipper not skipping, no `AllowOriginFunc`),
    the request does not reach the handler — whatever `CORS()` / `CORSWithConfig` calls came before under
    more permissive values, whatever is on the path besides, whatever the response state at entry. -/
theorem C11_setup_disallowed_blocked (en : Entry) (d0 : Defaults) (pre post : List SetupOp) (k : Call) (fr : FReq)
    (hk : k.ctor = 1) (hs : (current d0 pre).skip = false) (hf : (current d0 pre).func = none)
    (hv : ValidOrigin fr.origin) (hp : ∀ p ∈ (current d0 pre).origins, PatScheme p)
    (hna : ¬ Allowed (current d0 pre).origins fr.origin) :
    (serveEntry en fr (setup d0 (pre ++ .call true k :: post))).core.ran = false := by
  have he := (C11_variable_in_force (current d0 pre) (corsDefault (current d0 pre))).1
  have hb : k.build (current d0 pre) = ⟨corsDefault (current d0 pre), (current d0 pre).skip, k.routerAllow⟩ := by
    simp [Call.build, hk]
  apply C11_entry_disallowed_blocked en fr _ (k.build (current d0 pre))
  · rw [C11_setup_no_memory]; simp
  · rw [hb]; exact hs
  · rw [hb]; exact hf
  · exact hv
  · rw [hb]; simp only; rw [he]; exact hp
  · rw [hb]; simp only; rw [he]; exact hna

/-- the same for `CORSWithConfig(fc)` with a list of its own: the variable's list does not matter -/
theorem C11_setup_own_list_blocked (en : Entry) (d0 : Defaults) (pre post : List SetupOp) (k : Call) (fr : FReq)
    (hk : k.ctor ≠ 1) (hs : k.ownSkip.getD (current d0 pre).skip = false) (hf : k.cfg.func = none)
    (hne : k.cfg.core.origins ≠ [])
    (hv : ValidOrigin fr.origin) (hp : ∀ p ∈ k.cfg.core.origins, PatScheme p)
    (hna : ¬ Allowed k.cfg.core.origins fr.origin) :
    (serveEntry en fr (setup d0 (pre ++ .call true k :: post))).core.ran = false := by
  have he : effOrigins (withConfig (current d0 pre) k.cfg).core = k.cfg.core.origins := by
    rw [(C11_variable_in_force (current d0 pre) k.cfg).2.2.2.2.2.2.2.2.1]; simp [hne]
  have hb : k.build (current d0 pre)
      = ⟨withConfig (current d0 pre) k.cfg, k.ownSkip.getD (current d0 pre).skip, k.routerAllow⟩ := by
    simp [Call.build, hk]
  apply C11_entry_disallowed_blocked en fr _ (k.build (current d0 pre))
  · rw [C11_setup_no_memory]; simp
  · rw [hb]; exact hs
  · rw [hb]; exact hf
  · exact hv
  · rw [hb]; simp only; rw [he]; exact hp
  · rw [hb]; simp only; rw [he]; exact hna

/-- **C11_empty_lists_allow_nothing** — an instance whose own list AND the variable's list were empty
    when it was built allows no origin at all: no grant, a non-preflight request with an Origin gets 401. -/
theorem C11_empty_lists_allow_nothing (fc : Full) (fr : FReq) (hf : fc.func = none) (hs : fr.skip = false)
    (he : effOrigins fc.core = []) (ho : fr.origin ≠ []) :
    (serveFull fc fr).core.acao = none ∧ (serveFull fc fr).core.ran = false := by
  have ha : allowOrigin fc.core fr.origin = [] := by
    simp [allowOrigin, patterns, he, allowLoop]
  rw [serveFull_core fc fr hf hs]
  have hor : fr.core.origins.headD [] = fr.origin := rfl
  unfold serve
  simp only [hor, ho, if_false, ha, if_true]
  cases fr.core.preflight <;> simp

-- non-vacuity: the witness of the missed change.  `CORS()` once under the pristine value (dropped: it sits on
-- another group), then the application assigns a strict list with credentials and calls `CORS()` again.
def dStrict : Defaults := ⟨["https://app.example.com".toList], true, false, none, defaultMethods, [], [], 0, false⟩
def callCORS : Call := ⟨1, ⟨⟨[], false, false, [star]⟩, none, [], [], [], 0, defaultMethods⟩, none, []⟩
def witnessScript : List SetupOp := [.call false callCORS, .assign dStrict, .call true callCORS]
example : (serveEntry ⟨none, none, false, []⟩ ⟨⟨false, [oEvil]⟩, false, [], []⟩ (setup pristine witnessScript)).core
      = ⟨401, false, none, false, [varyOrigin]⟩ ∧
    (serveEntry ⟨none, none, false, []⟩ ⟨⟨false, ["https://app.example.com".toList]⟩, false, [], []⟩
        (setup pristine witnessScript)).core
      = ⟨200, true, some "https://app.example.com".toList, true, [varyOrigin]⟩ := by decide
-- the hypotheses of C11_setup_disallowed_blocked hold for it
example : current pristine [.call false callCORS, .assign dStrict] = dStrict ∧
    ¬ Allowed dStrict.origins oEvil ∧ (∀ p ∈ dStrict.origins, PatScheme p) := by
  refine ⟨rfl, ?_, ?_⟩
  · intro h
    rcases h with h | h | ⟨p, hp, hg⟩
    · revert h; decide
    · revert h; decide
    · have hp' : p = "https://app.example.com".toList := by simpa [dStrict] using hp
      subst hp'
      have := (glob_iff _ _).mpr hg
      revert this; decide
  · intro p hp
    have hp' : p = "https://app.example.com".toList := by simpa [dStrict] using hp
    subst hp'
    exact PatScheme.of_scheme "https".toList "app.example.com".toList (by decide)
-- an assignment AFTER the call does not reach the instance; root built under the pristine value, group after the
-- assignment: two different instances on one path
example : setup pristine [.call true callCORS, .assign dStrict] = [⟨defaultFull, false, []⟩] ∧
    setup pristine [.call true callCORS, .assign dStrict, .call true callCORS]
      = [⟨defaultFull, false, []⟩, ⟨corsDefault dStrict, false, []⟩] := ⟨rfl, rfl⟩
-- CORSWithConfig(CORSConfig{}) takes the variable's list; when both are empty nothing is allowed
example : effOrigins (withConfig dStrict callCORS.cfg).core = ["https://app.example.com".toList] ∧
    (serveFull (withConfig { dStrict with origins := [] } callCORS.cfg) ⟨⟨false, [oGood]⟩, false, [], []⟩).core
      = ⟨401, false, none, false, [varyOrigin]⟩ := by decide

end C11
