import EchoProofs.C16Ext
/-!
# C16 — round 8: `StaticDirectoryHandler(fsys, true)` (path unescaping disabled)

The exported handler behind `Echo.StaticFS` / `Group.StaticFS` has a second mode for applications whose
router already unescapes path parameters: the parameter is used as it is.  Mounted by hand
(`e.GET(prefix+"*", echo.StaticDirectoryHandler(fsys, true))`) it is a Static route like the others:

* containment: a served file is a node below the root reached through real elements only;
* with unescaping it IS `staticDirF` on the decoded parameter;
* the positive clause holds WITHOUT the `%` restriction of known finding F18: a file whose name contains
  `%` is served by its clean path (there is no second decoding).
-/
namespace C16

/-- **C16_staticDirF_decoded** — the unescaping handler is the raw handler on the decoded parameter -/
theorem C16_staticDirF_decoded (f : Faults) (t : Tree) (rs : List Str) (star p urlPath : Str)
    (h : unescape star = some p) : staticDirF f t rs star urlPath = staticDirRawF f t rs p urlPath := by
  unfold staticDirF staticDirRawF
  simp only [h]

/-- **C16_raw_serves_inside** — containment for the raw handler, any parameter, any failing files -/
theorem C16_raw_serves_inside (f : Faults) (t : Tree) (rs : List Str) (p urlPath : Str) (id : Nat)
    (h : (staticDirRawF f t rs p urlPath).2 = .file id) :
    ∃ L, (∀ s ∈ L, Normal s) ∧ look t (rs ++ L) = .file id := by
  have key : (fsFileF f .io t rs (clean (trimPrefixC '/' p))).2 = .file id := by
    unfold staticDirRawF at h
    simp only at h
    split at h
    · simp at h
    · simp at h
    · by_cases h0 : f.statDir = true
      · simp [h0] at h
      · simp only [h0] at h
        by_cases hu : urlPath ≠ [] ∧ urlPath.getLast? ≠ some '/'
        · simp [hu] at h
        · simp only [hu, if_false] at h
          exact h
    · by_cases h0 : f.statFile = true
      · simp [h0] at h
      · simp only [h0] at h
        exact h
  exact C16_fs_serves_inside t rs _ urlPath id (.inr (fsFileF_file f t rs _ id key))

/-- **C16_raw_serves_clean_path** — an existing regular file under the root requested by its clean path is
    served, also when its name contains `%` (no hypothesis on `%`: F18 does not exist in this mode) -/
theorem C16_raw_serves_clean_path (t : Tree) (rs : List Str) (F : List Str) (id : Nat)
    (urlPath : Str) (lead : Bool)
    (hF : ∀ s ∈ F, Normal s) (hne : F ≠ [])
    (hutf : utf8Valid ((joinSep '/' F).map Char.toNat) = true)
    (hfile : look t (rs ++ F) = .file id) :
    staticDirRawF noFaults t rs ((if lead then ['/'] else []) ++ joinSep '/' F) urlPath =
      ([joinSep '/' F, joinSep '/' F], .file id) := by
  have hjne : joinSep '/' F ≠ [] := by
    intro e
    have := (joinSep_eq_nil F (fun s hs => (hF s hs).1)).mp e
    exact hne this
  have hnr : isRooted (joinSep '/' F) = false := by
    have := isRooted_render false F hF
    simpa [render, hne] using this
  have htrim : trimPrefixC '/' ((if lead then ['/'] else []) ++ joinSep '/' F) = joinSep '/' F := by
    cases lead with
    | true => simp [trimPrefixC]
    | false =>
      simp only [Bool.false_eq_true, if_false, List.nil_append]
      cases hj : joinSep '/' F with
      | nil => exact absurd hj hjne
      | cons c r =>
        rw [hj] at hnr
        have : c ≠ '/' := by intro e; simp [isRooted, e] at hnr
        simp [trimPrefixC, this]
  have hclean : clean (joinSep '/' F) = joinSep '/' F := by
    rw [clean_render _ hjne, hnr, splitOn_joinSep '/' F hne (fun x hx => normal_no_sep (hF x hx)),
      cleanSegs_normal false F hF]
    simp [render, hne]
  have hvalid : validPath (joinSep '/' F) = true := by
    simp only [validPath, hutf, Bool.true_and, Bool.or_eq_true, beq_iff_eq, List.all_eq_true]
    right
    rw [splitOn_joinSep '/' F hne (fun x hx => normal_no_sep (hF x hx))]
    intro s hs
    have := hF s hs
    simp [normalSeg, this.1, this.2.1, this.2.2.1]
  have hnd : joinSep '/' F ≠ dot := by
    intro e
    have := splitOn_joinSep '/' F hne (fun x hx => normal_no_sep (hF x hx))
    rw [e] at this
    have h1 : F = [dot] := by simpa [splitOn, dot] using this.symm
    exact (hF dot (by simp [h1])).2.1 rfl
  have hio : ioOpen t rs (joinSep '/' F) = .file id := by
    simp only [ioOpen, hvalid, if_true, hnd, if_false]
    rw [splitOn_joinSep '/' F hne (fun x hx => normal_no_sep (hF x hx))]
    exact hfile
  unfold staticDirRawF
  simp only [htrim, hclean, hio]
  simp [fsFileF, openBy, hio, noFaults]

section Examples
private def S9 (s : String) : Str := s.toList
private def t9 : Tree := [(S9 "public", .dir), (S9 "public/100%.txt", .file 1), (S9 "public/pct%2e.txt", .file 2), (S9 "public/pct..txt", .file 3), (S9 "secret", .file 4)]

-- the name with a literal `%` is served as it is; the unescaping handler refuses / decodes it (F18)
example : staticDirRawF noFaults t9 [S9 "public"] (S9 "/100%.txt") (S9 "/s/100%.txt") = ([S9 "100%.txt", S9 "100%.txt"], .file 1) ∧
    staticDirF noFaults t9 [S9 "public"] (S9 "/100%.txt") (S9 "/s/100%.txt") = ([], .error500) ∧
    staticDirRawF noFaults t9 [S9 "public"] (S9 "/pct%2e.txt") (S9 "/s/pct%2e.txt") = ([S9 "pct%2e.txt", S9 "pct%2e.txt"], .file 2) ∧
    staticDirF noFaults t9 [S9 "public"] (S9 "/pct%2e.txt") (S9 "/s/pct%2e.txt") = ([S9 "pct..txt", S9 "pct..txt"], .file 3) ∧
    -- an encoded dot-dot is an ordinary (missing) name, a real one is refused by the file system
    staticDirRawF noFaults t9 [S9 "public"] (S9 "/%2e%2e/secret") (S9 "/s/%2e%2e/secret") = ([S9 "%2e%2e/secret"], .notFound404) ∧
    staticDirRawF noFaults t9 [S9 "public"] (S9 "/../secret") (S9 "/s/../secret") = ([S9 "../secret"], .notFound404) := by
  decide +kernel
end Examples

end C16
