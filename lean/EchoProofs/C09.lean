import EchoModel.C09
/-!
# C09 — theorems: explicit source tags, and path < query < body

`maskF src P` is the specification device for "nothing else changes": it replaces by a
placeholder exactly the fields selected by `P` and descends exactly where the walk of
`bindData src` descends (exported, untagged plain structs and embedded non-nil pointers to
structs).  `maskF … after = maskF … before` therefore says: every field NOT selected by `P`, at
any depth the walk can reach or not, is exactly as before.

Headline theorems (all for every shape, every value, every request)
* `C09_untagged_untouched` — `P` = "has a tag for `src`": a source never changes a field without its tag.
* `C09_key_must_equal_tag` — `P` = "has a tag for `src` AND some key equals it under case folding".
* `C09_bind_untagged` — the same through the whole of `Bind` (path, query, form/multipart), for every outcome.
* `C09_precedence` — final value of a field = last of path → query (GET/DELETE/HEAD) → form body that carries its key.
* `C09_400` — a malformed text in any applied source never ends in success.
* `C09_415`, `C09_415_exact`, `C09_empty_body`, `C09_query_only_gdh`, `C09_no_panic`.
-/
namespace C09
open C08 (Elem SVal FVal structElem structElems zeroOf parseElem)

mutual
def maskF (src : Src) (P : FMeta → Bool) : Fields → List Val → List Val
  | .nil, vs => vs
  | .cons _ _ _, [] => []
  | .cons m s rest, v :: vs => maskS src P m s v :: maskF src P rest vs
def maskS (src : Src) (P : FMeta → Bool) (m : FMeta) : Shape → Val → Val
  | .struct fs, .struct vs =>
    if P m = true then .other
    else if m.exported = true ∧ m.tags.get src = [] then .struct (maskF src P fs vs) else .struct vs
  | .ptrStruct fs, .struct vs =>
    if P m = true then .other
    else if m.exported = true ∧ m.anonymous = true ∧ m.tags.get src = [] then .struct (maskF src P fs vs)
    else .struct vs
  | _, v => if P m = true then .other else v
end

theorem setField_struct (fs : Fields) (vs : List Val) (values) :
    (setField (.struct fs) (.struct vs) values).1 = .struct vs := by
  unfold setField; cases values <;> simp

theorem setField_ptrStruct (fs : Fields) (vs : List Val) (values) :
    (setField (.ptrStruct fs) (.struct vs) values).1 = .struct vs := by
  unfold setField; cases values <;> simp

theorem maskS_hidden (src P m) (hp : P m = true) (s : Shape) (v : Val) : maskS src P m s v = .other := by
  cases s <;> cases v <;> simp [maskS, hp]

/-- a tagged step changes the value only if the key is there -/
theorem taggedStep_miss (src data m sh v) (h : lookup data (m.tags.get src) = none) :
    taggedStep src data m sh v = (v, none) := by
  simp [taggedStep, h]

def descends : Shape → Val → Bool
  | .struct _, .struct _ => true
  | .ptrStruct _, .struct _ => true
  | _, _ => false

theorem exported_true {m : FMeta} (h : ¬ m.exported = false) : m.exported = true := by
  cases hm : m.exported <;> simp_all

/-- without a key for the field's tag nothing is written by the tagged step -/
theorem tagged_same (src : Src) (data : Data) (P : FMeta → Bool)
    (hP : ∀ m : FMeta, m.tags.get src ≠ [] → (lookup data (m.tags.get src)).isSome = true → P m = true)
    (m : FMeta) (hp : ¬ P m = true) (htag : m.tags.get src ≠ []) (sh : Shape) (v : Val) :
    taggedStep src data m sh v = (v, none) := by
  cases hl : lookup data (m.tags.get src) with
  | none => exact taggedStep_miss _ _ _ _ _ hl
  | some values => exact absurd (hP m htag (by simp [hl])) hp

theorem bindS_nondesc (src : Src) (data : Data) (P : FMeta → Bool)
    (hP : ∀ m : FMeta, m.tags.get src ≠ [] → (lookup data (m.tags.get src)).isSome = true → P m = true)
    (m : FMeta) (hp : ¬ P m = true) (s : Shape) (v : Val) (hnd : descends s v = false) :
    (bindS src data m s v).1 = v := by
  cases s <;> cases v <;> simp only [descends] at hnd <;> try (exact absurd hnd (by decide))
  all_goals
    unfold bindS
    repeat' split
    all_goals first
      | rfl
      | (rename_i htag; rw [tagged_same src data P hP m hp htag])
      | skip

mutual
theorem maskF_bind (src : Src) (data : Data) (P : FMeta → Bool)
    (hP : ∀ m : FMeta, m.tags.get src ≠ [] → (lookup data (m.tags.get src)).isSome = true → P m = true) :
    ∀ (fs : Fields) (vs : List Val), maskF src P fs (bindF src data fs vs).1 = maskF src P fs vs
  | .nil, vs => by simp [bindF]
  | .cons m s rest, [] => by simp [bindF]
  | .cons m s rest, v :: vs => by
    have h1 := maskS_bind src data P hP m s v
    have h2 := maskF_bind src data P hP rest vs
    unfold bindF
    cases hb : bindS src data m s v with
    | mk v' e =>
      rw [hb] at h1
      cases e with
      | some e => simp [maskF, h1]
      | none => simp [maskF, h1, h2]
theorem maskS_bind (src : Src) (data : Data) (P : FMeta → Bool)
    (hP : ∀ m : FMeta, m.tags.get src ≠ [] → (lookup data (m.tags.get src)).isSome = true → P m = true) :
    ∀ (m : FMeta) (s : Shape) (v : Val), maskS src P m s (bindS src data m s v).1 = maskS src P m s v
  | m, .struct fs, .struct vs => by
    have ih := maskF_bind src data P hP fs vs
    unfold bindS
    by_cases hp : P m = true
    · simp [maskS_hidden src P m hp]
    · split
      · rfl
      · split
        · rfl
        · split
          · rename_i hexp _ htag
            simp only [maskS, hp, if_false, exported_true hexp, htag, and_self, if_true, ih]
          · rename_i htag
            rw [tagged_same src data P hP m hp htag]
  | m, .ptrStruct fs, .struct vs => by
    have ih := maskF_bind src data P hP fs vs
    unfold bindS
    by_cases hp : P m = true
    · simp [maskS_hidden src P m hp]
    · split
      · rfl
      · split
        · split
          · rfl
          · rename_i hexp hanon htag
            have htag' : m.tags.get src = [] := by simpa using htag
            simp only [maskS, hp, if_false, exported_true hexp, hanon, htag', and_self, if_true, ih]
        · split
          · rfl
          · rename_i htag
            rw [tagged_same src data P hP m hp htag]
  | m, .struct fs, .leaf x => by
    by_cases hp : P m = true
    · simp [maskS_hidden src P m hp]
    · rw [bindS_nondesc src data P hP m hp _ _ rfl]
  | m, .struct fs, .nilStruct => by
    by_cases hp : P m = true
    · simp [maskS_hidden src P m hp]
    · rw [bindS_nondesc src data P hP m hp _ _ rfl]
  | m, .struct fs, .other => by
    by_cases hp : P m = true
    · simp [maskS_hidden src P m hp]
    · rw [bindS_nondesc src data P hP m hp _ _ rfl]
  | m, .ptrStruct fs, .leaf x => by
    by_cases hp : P m = true
    · simp [maskS_hidden src P m hp]
    · rw [bindS_nondesc src data P hP m hp _ _ rfl]
  | m, .ptrStruct fs, .nilStruct => by
    by_cases hp : P m = true
    · simp [maskS_hidden src P m hp]
    · rw [bindS_nondesc src data P hP m hp _ _ rfl]
  | m, .ptrStruct fs, .other => by
    by_cases hp : P m = true
    · simp [maskS_hidden src P m hp]
    · rw [bindS_nondesc src data P hP m hp _ _ rfl]
  | m, .scalar e, v => by
    by_cases hp : P m = true
    · simp [maskS_hidden src P m hp]
    · rw [bindS_nondesc src data P hP m hp _ _ (by cases v <;> rfl)]
  | m, .ptr e, v => by
    by_cases hp : P m = true
    · simp [maskS_hidden src P m hp]
    · rw [bindS_nondesc src data P hP m hp _ _ (by cases v <;> rfl)]
  | m, .slice e, v => by
    by_cases hp : P m = true
    · simp [maskS_hidden src P m hp]
    · rw [bindS_nondesc src data P hP m hp _ _ (by cases v <;> rfl)]
  | m, .other, v => by
    by_cases hp : P m = true
    · simp [maskS_hidden src P m hp]
    · rw [bindS_nondesc src data P hP m hp _ _ (by cases v <;> rfl)]
  | m, .unm, v => by
    by_cases hp : P m = true
    · simp [maskS_hidden src P m hp]
    · rw [bindS_nondesc src data P hP m hp _ _ (by cases v <;> rfl)]
end
/-! ## keys -/

theorem foldEq_refl (a : List Char) : foldEq a a = true := by simp [foldEq]

/-- a successful lookup comes from a key that equals the tag under case folding -/
theorem lookup_some_key (data : Data) (t : List Char) (vals : List (List Char))
    (h : lookup data t = some vals) : ∃ kv ∈ data, foldEq kv.1 t = true ∧ kv.2 = vals := by
  unfold lookup at h
  split at h
  · rename_i kv hf
    have hm := List.mem_of_find?_eq_some hf
    have hp := List.find?_some hf
    simp only [beq_iff_eq] at hp
    cases h
    exact ⟨kv, hm, by rw [hp]; exact foldEq_refl t, rfl⟩
  · split at h
    · rename_i kv hf
      have hm := List.mem_of_find?_eq_some hf
      have hp := List.find?_some hf
      cases h
      exact ⟨kv, hm, hp, rfl⟩
    · cases h

def tagged (src : Src) (m : FMeta) : Bool := m.tags.get src != []

def keyed (src : Src) (data : Data) (m : FMeta) : Bool :=
  m.tags.get src != [] && data.any (fun kv => foldEq kv.1 (m.tags.get src))

/-- **C09_untagged_untouched** — for every shape, every value, every request data: after
    `bindData src`, everything except the fields that carry a tag for `src` is exactly as before
    (`maskF` hides the tagged fields and nothing else; it descends exactly where the walk does).
    No key the client can send reaches a field without the tag. -/
theorem C09_untagged_untouched (src : Src) (data : Data) (fs : Fields) (vs : List Val) :
    maskF src (tagged src) fs (bindF src data fs vs).1 = maskF src (tagged src) fs vs :=
  maskF_bind src data (tagged src) (fun m h _ => by simp [tagged, h]) fs vs

/-- **C09_key_must_equal_tag** — the same with a finer mask: only fields whose tag equals, under
    case folding, some key of the data can change. -/
theorem C09_key_must_equal_tag (src : Src) (data : Data) (fs : Fields) (vs : List Val) :
    maskF src (keyed src data) fs (bindF src data fs vs).1 = maskF src (keyed src data) fs vs := by
  refine maskF_bind src data (keyed src data) ?_ fs vs
  intro m htag hl
  cases h : lookup data (m.tags.get src) with
  | none => simp [h] at hl
  | some vals =>
    obtain ⟨kv, hm, hf, _⟩ := lookup_some_key data _ vals h
    simp only [keyed, Bool.and_eq_true, bne_iff_ne, ne_eq, htag, not_false_eq_true, true_and,
      List.any_eq_true]
    exact ⟨kv, hm, hf⟩

/-! ## top-level fields: what a source writes -/

def fieldAt : Fields → Nat → Option (FMeta × Shape)
  | .nil, _ => none
  | .cons m s _, 0 => some (m, s)
  | .cons _ _ rest, i + 1 => fieldAt rest i

/-- a visible (unmasked, not descended) untagged field is literally unchanged -/
theorem untagged_field_same (src : Src) (data : Data) :
    ∀ (fs : Fields) (vs : List Val) (i : Nat) (m : FMeta) (s : Shape),
      fieldAt fs i = some (m, s) → m.tags.get src = [] → (∀ v, descends s v = false) →
      (bindF src data fs vs).1[i]? = vs[i]?
  | .nil, _, _, _, _, h, _, _ => by simp [fieldAt] at h
  | .cons m0 s0 rest, [], i, m, s, _, _, _ => by simp [bindF]
  | .cons m0 s0 rest, v :: vs, 0, m, s, h, ht, hd => by
    simp only [fieldAt, Option.some.injEq, Prod.mk.injEq] at h
    obtain ⟨rfl, rfl⟩ := h
    have : (bindS src data m0 s0 v).1 = v :=
      bindS_nondesc src data (tagged src) (fun m h _ => by simp [tagged, h]) m0 (by simp [tagged, ht]) s0 v (hd v)
    unfold bindF
    cases hb : bindS src data m0 s0 v with
    | mk v' e => rw [hb] at this; cases e <;> simp_all
  | .cons m0 s0 rest, v :: vs, i + 1, m, s, h, ht, hd => by
    have ih := untagged_field_same src data rest vs i m s (by simpa [fieldAt] using h) ht hd
    unfold bindF
    cases hb : bindS src data m0 s0 v with
    | mk v' e => cases e <;> simp [ih]

/-- what one source does to a scalar field with tag `tag` -/
def stepLeaf (e : Elem) (tag : List Char) (data : Data) (cur : Option Val) : Option Val :=
  if tag = [] then cur
  else
    match lookup data tag with
    | none => cur
    | some values =>
      match structElem noExt e (values.headD []) with
      | some y => some (.leaf (.one y))
      | none => cur

/-- the field's text in `data` is not convertible -/
def badIn (e : Elem) (tag : List Char) (data : Data) : Prop :=
  tag ≠ [] ∧ ∃ values, lookup data tag = some values ∧ structElem noExt e (values.headD []) = none

theorem bindF_length (src : Src) (data : Data) :
    ∀ (fs : Fields) (vs : List Val), (bindF src data fs vs).1.length = vs.length
  | .nil, vs => by simp [bindF]
  | .cons _ _ _, [] => by simp [bindF]
  | .cons m s rest, v :: vs => by
    have ih := bindF_length src data rest vs
    unfold bindF
    cases hb : bindS src data m s v with
    | mk v' e => cases e <;> simp [ih]

theorem bindS_scalar (src : Src) (data : Data) (m : FMeta) (e : Elem) (v : Val)
    (hexp : m.exported = true) (hok : (bindS src data m (.scalar e) v).2 = none) :
    some (bindS src data m (.scalar e) v).1 = stepLeaf e (m.tags.get src) data (some v)
    ∧ ¬ badIn e (m.tags.get src) data := by
  have hb : bindS src data m (.scalar e) v =
      if m.exported = false then (v, none)
      else if m.tags.get src = [] then (v, none)
      else taggedStep src data m (.scalar e) v := by
    cases v <;> simp [bindS]
  rw [hb] at hok ⊢
  simp only [hexp, Bool.true_eq_false, if_false] at hok ⊢
  unfold stepLeaf badIn
  by_cases ht : m.tags.get src = []
  · simp [ht]
  · simp only [ht, if_false] at hok ⊢
    unfold taggedStep at hok ⊢
    cases hl : lookup data (m.tags.get src) with
    | none => simp
    | some values =>
      simp only [hl] at hok ⊢
      unfold setField at hok ⊢
      cases values with
      | nil => simp at hok
      | cons x0 xs =>
        simp only [List.headD_cons] at hok ⊢
        cases hs : structElem noExt e x0 with
        | none => simp [hs] at hok
        | some y => simp [hs]

/-- **what a source writes** — if the walk over a source succeeds, a top-level exported scalar
    field holds the conversion of the first value of the key matching its tag, or its previous
    value if the source has no such key (or the field no tag); and its text was convertible. -/
theorem bindF_top (src : Src) (data : Data) :
    ∀ (fs : Fields) (vs : List Val) (i : Nat) (m : FMeta) (e : Elem),
      fieldAt fs i = some (m, .scalar e) → m.exported = true → i < vs.length →
      (bindF src data fs vs).2 = none →
      (bindF src data fs vs).1[i]? = stepLeaf e (m.tags.get src) data vs[i]?
      ∧ ¬ badIn e (m.tags.get src) data
  | .nil, _, _, _, _, h, _, _, _ => by simp [fieldAt] at h
  | .cons m0 s0 rest, [], i, m, e, _, _, hi, _ => by simp at hi
  | .cons m0 s0 rest, v :: vs, 0, m, e, h, hexp, _, hok => by
    simp only [fieldAt, Option.some.injEq, Prod.mk.injEq] at h
    obtain ⟨rfl, rfl⟩ := h
    unfold bindF at hok ⊢
    cases hb : bindS src data m0 (.scalar e) v with
    | mk v' er =>
      rw [hb] at hok
      cases er with
      | some er => simp at hok
      | none =>
        have := bindS_scalar src data m0 e v hexp (by rw [hb])
        rw [hb] at this
        simpa using this
  | .cons m0 s0 rest, v :: vs, i + 1, m, e, h, hexp, hi, hok => by
    unfold bindF at hok ⊢
    cases hb : bindS src data m0 s0 v with
    | mk v' er =>
      rw [hb] at hok
      cases er with
      | some er => simp at hok
      | none =>
        have ih := bindF_top src data rest vs i m e (by simpa [fieldAt] using h) hexp
          (by simpa using hi) (by simpa using hok)
        simpa using ih

/-! ## Bind: path, then query (GET / DELETE / HEAD), then body -/

theorem lookup_nil (t : List Char) : lookup [] t = none := by simp [lookup]

theorem stepLeaf_nil (e : Elem) (t : List Char) (cur : Option Val) : stepLeaf e t [] cur = cur := by
  simp [stepLeaf, lookup_nil]

theorem not_badIn_nil (e : Elem) (t : List Char) : ¬ badIn e t [] := by
  simp [badIn, lookup_nil]

/-- one source on a struct destination -/
theorem bindData_top (src : Src) (data : Data) (fs : Fields) (vs : List Val) (i : Nat) (m : FMeta)
    (e : Elem) (hf : fieldAt fs i = some (m, .scalar e)) (hexp : m.exported = true)
    (hi : i < vs.length) (hok : (bindData src data (.struct fs) (.struct vs)).2 = none) :
    ∃ vs', (bindData src data (.struct fs) (.struct vs)).1 = .struct vs' ∧ vs'.length = vs.length
      ∧ vs'[i]? = stepLeaf e (m.tags.get src) data vs[i]? ∧ ¬ badIn e (m.tags.get src) data := by
  unfold bindData at hok ⊢
  by_cases hd : data = []
  · subst hd
    exact ⟨vs, by simp, rfl, by rw [stepLeaf_nil], not_badIn_nil _ _⟩
  · simp only [hd, if_false] at hok ⊢
    obtain ⟨h1, h2⟩ := bindF_top src data fs vs i m e hf hexp hi hok
    exact ⟨_, rfl, bindF_length src data fs vs, h1, h2⟩

/-- the query data that `Bind` uses -/
def queryOf (r : BindReq) : Data := if queryMethods.contains r.method then r.query else []

/-- the form data that `Bind` uses (empty if the body step is not a form step) -/
def formOf (r : BindReq) : Data :=
  if r.hasBody = false then []
  else if mediaType r.ctype = mJSON then []
  else if mediaType r.ctype = mXML ∨ mediaType r.ctype = mTextXML then []
  else if mediaType r.ctype = mForm then
    (if bodyFormMethods.contains r.method then
      (match r.formBody with | none => [] | some b => mergeData b r.query)
     else r.query)
  else if mediaType r.ctype = mMultipart then (match r.multipart with | none => [] | some b => b)
  else []

/-- the body is handed to encoding/json or encoding/xml -/
def decoded (r : BindReq) : Prop :=
  r.hasBody = true ∧ (mediaType r.ctype = mJSON ∨ mediaType r.ctype = mXML ∨ mediaType r.ctype = mTextXML)

theorem statusOf_ok (e : Option Err) : statusOf e = .ok ↔ e = none := by
  cases e with
  | none => simp [statusOf]
  | some e => cases e <;> simp [statusOf]

theorem bindBody_top (fs : Fields) (vs : List Val) (r : BindReq) (i : Nat) (m : FMeta) (e : Elem)
    (hf : fieldAt fs i = some (m, .scalar e)) (hexp : m.exported = true) (hi : i < vs.length)
    (hnd : ¬ decoded r) (v' : DVal) (h : bindBody (.struct fs) (.struct vs) r = (v', .ok)) :
    ∃ vs', v' = .struct vs' ∧ vs'.length = vs.length
      ∧ vs'[i]? = stepLeaf e m.tags.form (formOf r) vs[i]? ∧ ¬ badIn e m.tags.form (formOf r) := by
  unfold bindBody at h
  unfold formOf
  unfold decoded at hnd
  by_cases hb : r.hasBody = false
  · simp only [hb, if_true, Prod.mk.injEq] at h ⊢
    exact ⟨vs, h.1.symm, rfl, by rw [stepLeaf_nil], not_badIn_nil _ _⟩
  · have hb' : r.hasBody = true := by cases hh : r.hasBody <;> simp_all
    simp only [hb', Bool.true_eq_false, if_false] at h ⊢
    by_cases h1 : mediaType r.ctype = mJSON
    · exact absurd ⟨hb', Or.inl h1⟩ hnd
    · by_cases h2 : mediaType r.ctype = mXML ∨ mediaType r.ctype = mTextXML
      · exact absurd ⟨hb', Or.inr h2⟩ hnd
      · simp only [h1, h2, if_false] at h ⊢
        by_cases h3 : mediaType r.ctype = mForm
        · simp only [h3, if_true] at h ⊢
          by_cases h4 : bodyFormMethods.contains r.method = true
          · simp only [h4, if_true] at h ⊢
            cases hfb : r.formBody with
            | none => simp [hfb] at h
            | some body =>
              simp only [hfb, Prod.mk.injEq] at h ⊢
              obtain ⟨vs', a, b, c, d⟩ := bindData_top .form (mergeData body r.query) fs vs i m e hf hexp hi
                ((statusOf_ok _).1 h.2)
              exact ⟨vs', by rw [← h.1, a], b, c, d⟩
          · simp only [h4, Bool.false_eq_true, if_false, Prod.mk.injEq] at h ⊢
            obtain ⟨vs', a, b, c, d⟩ := bindData_top .form r.query fs vs i m e hf hexp hi
              ((statusOf_ok _).1 h.2)
            exact ⟨vs', by rw [← h.1, a], b, c, d⟩
        · simp only [h3, if_false] at h ⊢
          by_cases h5 : mediaType r.ctype = mMultipart
          · simp only [h5, if_true] at h ⊢
            cases hmp : r.multipart with
            | none => simp [hmp] at h
            | some body =>
              simp only [hmp, Prod.mk.injEq] at h ⊢
              obtain ⟨vs', a, b, c, d⟩ := bindData_top .form body fs vs i m e hf hexp hi
                ((statusOf_ok _).1 h.2)
              exact ⟨vs', by rw [← h.1, a], b, c, d⟩
          · simp [h5] at h

/-- **C09_precedence** (+ **C09_400**) — if `Bind` succeeds (and the body is not handed to
    encoding/json|xml), a top-level exported scalar field holds what the LAST of the sources
    path → query (GET/DELETE/HEAD only) → form body that carries a key for the field's tag
    wrote, else its previous value; and none of the applied sources carried a malformed text
    for it (contrapositive: a malformed text in any applied source never ends in success). -/
theorem C09_precedence (fs : Fields) (vs : List Val) (r : BindReq) (i : Nat) (m : FMeta) (e : Elem)
    (hf : fieldAt fs i = some (m, .scalar e)) (hexp : m.exported = true) (hi : i < vs.length)
    (hnd : ¬ decoded r) (v' : DVal) (h : bind (.struct fs) (.struct vs) r = (v', .ok)) :
    ∃ vs', v' = .struct vs'
      ∧ vs'[i]? = stepLeaf e m.tags.form (formOf r)
                    (stepLeaf e m.tags.query (queryOf r)
                      (stepLeaf e m.tags.param r.params vs[i]?))
      ∧ ¬ badIn e m.tags.param r.params ∧ ¬ badIn e m.tags.query (queryOf r)
      ∧ ¬ badIn e m.tags.form (formOf r) := by
  unfold bind at h
  simp only at h
  cases h1 : (bindData .param r.params (.struct fs) (.struct vs)).2 with
  | some er => rw [h1] at h; cases er <;> simp [statusOf] at h
  | none =>
    rw [h1] at h
    simp only at h
    obtain ⟨vs1, a1, b1, c1, d1⟩ := bindData_top .param r.params fs vs i m e hf hexp hi h1
    rw [a1] at h
    unfold queryOf
    by_cases hq : queryMethods.contains r.method = true
    · simp only [hq, if_true] at h ⊢
      cases h2 : (bindData .query r.query (.struct fs) (.struct vs1)).2 with
      | some er => rw [h2] at h; cases er <;> simp [statusOf] at h
      | none =>
        rw [h2] at h
        simp only at h
        obtain ⟨vs2, a2, b2, c2, d2⟩ := bindData_top .query r.query fs vs1 i m e hf hexp (by omega) h2
        rw [a2] at h
        obtain ⟨vs3, a3, _, c3, d3⟩ := bindBody_top fs vs2 r i m e hf hexp (by omega) hnd v' h
        exact ⟨vs3, a3, by rw [c3, c2, c1]; rfl, d1, d2, d3⟩
    · simp only [hq, Bool.false_eq_true, if_false] at h ⊢
      obtain ⟨vs3, a3, _, c3, d3⟩ := bindBody_top fs vs1 r i m e hf hexp (by omega) hnd v' h
      exact ⟨vs3, a3, by rw [c3, stepLeaf_nil, c1]; rfl, d1, not_badIn_nil _ _, d3⟩

/-- **C09_400** — never bound in silence: a malformed text for a (top-level, exported, scalar)
    field in ANY applied source makes `Bind` fail, whatever the other sources carry -/
theorem C09_400 (fs : Fields) (vs : List Val) (r : BindReq) (i : Nat) (m : FMeta) (e : Elem)
    (hf : fieldAt fs i = some (m, .scalar e)) (hexp : m.exported = true) (hi : i < vs.length)
    (hnd : ¬ decoded r)
    (hbad : badIn e m.tags.param r.params ∨ badIn e m.tags.query (queryOf r)
      ∨ badIn e m.tags.form (formOf r)) :
    (bind (.struct fs) (.struct vs) r).2 ≠ .ok := by
  intro hok
  obtain ⟨_, _, _, d1, d2, d3⟩ := C09_precedence fs vs r i m e hf hexp hi hnd
    (bind (.struct fs) (.struct vs) r).1 (by rw [← hok])
  rcases hbad with hb | hb | hb
  · exact d1 hb
  · exact d2 hb
  · exact d3 hb

/-- **C09_415** — a non-empty body whose media type is none of the five supported ones is
    rejected with 415 and the body step leaves the destination as it was; `Bind` as a whole
    then never succeeds, and answers exactly 415 whenever the path and query steps were fine -/
theorem C09_415 (d : Dest) (v : DVal) (r : BindReq) (hb : r.hasBody = true)
    (hm : mediaType r.ctype ≠ mJSON ∧ mediaType r.ctype ≠ mXML ∧ mediaType r.ctype ≠ mTextXML
      ∧ mediaType r.ctype ≠ mForm ∧ mediaType r.ctype ≠ mMultipart) :
    bindBody d v r = (v, .unsupported) ∧ (bind d v r).2 ≠ .ok := by
  have hbody : ∀ w, bindBody d w r = (w, .unsupported) := by
    intro w
    unfold bindBody
    simp [hb, hm.1, hm.2.1, hm.2.2.1, hm.2.2.2.1, hm.2.2.2.2]
  refine ⟨hbody v, ?_⟩
  unfold bind
  simp only
  cases h1 : (bindData .param r.params d v).2 with
  | some er => cases er <;> simp [statusOf]
  | none =>
    simp only
    split
    · cases h2 : (bindData .query r.query d (bindData .param r.params d v).1).2 with
      | some er => cases er <;> simp [statusOf]
      | none => simp [hbody]
    · simp [hbody]

theorem C09_415_exact (d : Dest) (v : DVal) (r : BindReq) (hb : r.hasBody = true)
    (hm : mediaType r.ctype ≠ mJSON ∧ mediaType r.ctype ≠ mXML ∧ mediaType r.ctype ≠ mTextXML
      ∧ mediaType r.ctype ≠ mForm ∧ mediaType r.ctype ≠ mMultipart)
    (h1 : (bindData .param r.params d v).2 = none)
    (h2 : (bindData .query (queryOf r) d (bindData .param r.params d v).1).2 = none) :
    bind d v r = ((bindData .query (queryOf r) d (bindData .param r.params d v).1).1, .unsupported) := by
  have hbody : ∀ w, bindBody d w r = (w, .unsupported) := fun w => (C09_415 d w r hb hm).1
  unfold bind queryOf at *
  simp only [h1]
  by_cases hq : queryMethods.contains r.method = true
  · simp only [hq, if_true] at h2 ⊢
    simp [h2, hbody]
  · simp only [hq, Bool.false_eq_true, if_false] at h2 ⊢
    have : bindData .query [] d (bindData .param r.params d v).1 = ((bindData .param r.params d v).1, none) := by
      simp [bindData]
    simp [this, hbody]

/-- an empty body (ContentLength = 0) is never looked at, whatever the Content-Type says -/
theorem C09_empty_body (d : Dest) (v : DVal) (r : BindReq) (hb : r.hasBody = false) :
    bindBody d v r = (v, .ok) := by
  simp [bindBody, hb]

/-- query parameters are not bound for methods other than GET, DELETE, HEAD: the result does not
    depend on the query string at all unless the body is a form (ParseForm merges the URL query) -/
theorem C09_query_only_gdh (d : Dest) (v : DVal) (r : BindReq) (q' : Data)
    (hq : queryMethods.contains r.method = false) (hnf : mediaType r.ctype ≠ mForm) :
    bind d v { r with query := q' } = bind d v r := by
  unfold bind
  simp only [hq]
  unfold bindBody
  simp [hnf]

/-! ## the whole of Bind never touches a field that carries none of the three tags -/

def tagged3 (m : FMeta) : Bool := tagged .param m || tagged .query m || tagged .form m

theorem tagged3_false {m : FMeta} (h : ¬ tagged3 m = true) :
    m.tags.get .param = [] ∧ m.tags.get .query = [] ∧ m.tags.get .form = [] := by
  simp only [tagged3, tagged, Bool.or_eq_true, bne_iff_ne, ne_eq, not_or, Decidable.not_not] at h
  exact ⟨h.1.1, h.1.2, h.2⟩

mutual
theorem maskF_src (s1 s2 : Src) (P : FMeta → Bool)
    (hP : ∀ m, ¬ P m = true → m.tags.get s1 = [] ∧ m.tags.get s2 = []) :
    ∀ (fs : Fields) (vs : List Val), maskF s1 P fs vs = maskF s2 P fs vs
  | .nil, vs => by simp [maskF]
  | .cons m s rest, [] => by simp [maskF]
  | .cons m s rest, v :: vs => by
    simp only [maskF, maskS_src s1 s2 P hP m s v, maskF_src s1 s2 P hP rest vs]
theorem maskS_src (s1 s2 : Src) (P : FMeta → Bool)
    (hP : ∀ m, ¬ P m = true → m.tags.get s1 = [] ∧ m.tags.get s2 = []) :
    ∀ (m : FMeta) (s : Shape) (v : Val), maskS s1 P m s v = maskS s2 P m s v
  | m, .struct fs, .struct vs => by
    by_cases hp : P m = true
    · simp [maskS, hp]
    · simp only [maskS, hp, if_false, (hP m hp).1, (hP m hp).2, maskF_src s1 s2 P hP fs vs]
  | m, .ptrStruct fs, .struct vs => by
    by_cases hp : P m = true
    · simp [maskS, hp]
    · simp only [maskS, hp, if_false, (hP m hp).1, (hP m hp).2, maskF_src s1 s2 P hP fs vs]
  | m, .struct fs, .leaf x => by simp [maskS]
  | m, .struct fs, .nilStruct => by simp [maskS]
  | m, .struct fs, .other => by simp [maskS]
  | m, .ptrStruct fs, .leaf x => by simp [maskS]
  | m, .ptrStruct fs, .nilStruct => by simp [maskS]
  | m, .ptrStruct fs, .other => by simp [maskS]
  | m, .scalar e, v => by cases v <;> simp [maskS]
  | m, .ptr e, v => by cases v <;> simp [maskS]
  | m, .slice e, v => by cases v <;> simp [maskS]
  | m, .other, v => by cases v <;> simp [maskS]
  | m, .unm, v => by cases v <;> simp [maskS]
end

/-- one `bindData` step on a struct, seen through the three-source mask -/
theorem bindData_mask3 (src : Src) (hs : src = .param ∨ src = .query ∨ src = .form) (data : Data)
    (fs : Fields) (vs : List Val) :
    ∃ vs', (bindData src data (.struct fs) (.struct vs)).1 = .struct vs'
      ∧ maskF .param tagged3 fs vs' = maskF .param tagged3 fs vs := by
  unfold bindData
  by_cases hd : data = []
  · exact ⟨vs, by simp [hd], rfl⟩
  · refine ⟨(bindF src data fs vs).1, by simp [hd], ?_⟩
    have h := maskF_bind src data tagged3 (by
      intro m ht _
      rcases hs with rfl | rfl | rfl <;> simp [tagged3, tagged, ht]) fs (vs)
    have hsrc : ∀ ws, maskF src tagged3 fs ws = maskF .param tagged3 fs ws := by
      intro ws
      apply maskF_src
      intro m hp
      have := tagged3_false hp
      rcases hs with rfl | rfl | rfl
      · exact ⟨this.1, this.1⟩
      · exact ⟨this.2.1, this.1⟩
      · exact ⟨this.2.2, this.1⟩
    rw [← hsrc, ← hsrc, h]

/-- **no mass assignment through `Bind`** — whatever the method, the keys, the values, the
    Content-Type and the outcome (success, 400, 415): unless the body is handed to
    encoding/json|xml, everything in the destination except the fields tagged `param`, `query`
    or `form` is exactly as before. -/
theorem C09_bind_untagged (fs : Fields) (vs : List Val) (r : BindReq) (hnd : ¬ decoded r) :
    ∃ vs', (bind (.struct fs) (.struct vs) r).1 = .struct vs'
      ∧ maskF .param tagged3 fs vs' = maskF .param tagged3 fs vs := by
  have hbody : ∀ ws, ∃ vs', (bindBody (.struct fs) (.struct ws) r).1 = .struct vs'
      ∧ maskF .param tagged3 fs vs' = maskF .param tagged3 fs ws := by
    intro ws
    unfold bindBody
    unfold decoded at hnd
    by_cases hb : r.hasBody = false
    · exact ⟨ws, by simp [hb], rfl⟩
    · have hb' : r.hasBody = true := by cases hh : r.hasBody <;> simp_all
      simp only [hb', Bool.true_eq_false, if_false]
      by_cases h1 : mediaType r.ctype = mJSON
      · exact absurd ⟨hb', Or.inl h1⟩ hnd
      · by_cases h2 : mediaType r.ctype = mXML ∨ mediaType r.ctype = mTextXML
        · exact absurd ⟨hb', Or.inr h2⟩ hnd
        · simp only [h1, h2, if_false]
          by_cases h3 : mediaType r.ctype = mForm
          · simp only [h3, if_true]
            by_cases h4 : bodyFormMethods.contains r.method = true
            · simp only [h4, if_true]
              cases r.formBody with
              | none => exact ⟨ws, rfl, rfl⟩
              | some body => exact bindData_mask3 .form (by simp) _ fs ws
            · simp only [h4, Bool.false_eq_true, if_false]
              exact bindData_mask3 .form (by simp) _ fs ws
          · simp only [h3, if_false]
            by_cases h5 : mediaType r.ctype = mMultipart
            · simp only [h5, if_true]
              cases r.multipart with
              | none => exact ⟨ws, rfl, rfl⟩
              | some body => exact bindData_mask3 .form (by simp) _ fs ws
            · simp only [h5, if_false]
              exact ⟨ws, rfl, rfl⟩
  obtain ⟨vs1, a1, m1⟩ := bindData_mask3 .param (by simp) r.params fs vs
  unfold bind
  simp only
  cases h1 : (bindData .param r.params (.struct fs) (.struct vs)).2 with
  | some er => exact ⟨vs1, a1, m1⟩
  | none =>
    simp only
    rw [a1]
    split
    · obtain ⟨vs2, a2, m2⟩ := bindData_mask3 .query (by simp) r.query fs vs1
      cases h2 : (bindData .query r.query (.struct fs) (.struct vs1)).2 with
      | some er => exact ⟨vs2, a2, by rw [m2, m1]⟩
      | none =>
        simp only
        rw [a2]
        obtain ⟨vs3, a3, m3⟩ := hbody vs2
        exact ⟨vs3, a3, by rw [m3, m2, m1]⟩
    · obtain ⟨vs3, a3, m3⟩ := hbody vs1
      exact ⟨vs3, a3, by rw [m3, m1]⟩

/-! ## no panic -/

theorem lookup_nonempty (data : Data) (hne : ∀ kv ∈ data, kv.2 ≠ []) (t : List Char)
    (vals : List (List Char)) (h : lookup data t = some vals) : vals ≠ [] := by
  obtain ⟨kv, hm, _, hv⟩ := lookup_some_key data t vals h
  rw [← hv]; exact hne kv hm

theorem setField_no_panic (sh : Shape) (v : Val) (values : List (List Char)) (hne : values ≠ []) :
    (setField sh v values).2 ≠ some .panic := by
  unfold setField
  cases values with
  | nil => exact absurd rfl hne
  | cons x0 xs =>
    cases sh <;> simp only <;> (try split) <;> simp

theorem taggedStep_no_panic (src : Src) (data : Data) (hne : ∀ kv ∈ data, kv.2 ≠ []) (m : FMeta)
    (sh : Shape) (v : Val) : (taggedStep src data m sh v).2 ≠ some .panic := by
  unfold taggedStep
  cases hl : lookup data (m.tags.get src) with
  | none => simp
  | some values => exact setField_no_panic sh v values (lookup_nonempty data hne _ values hl)

theorem bindS_nondesc_no_panic (src : Src) (data : Data) (hne : ∀ kv ∈ data, kv.2 ≠ []) (m : FMeta)
    (s : Shape) (v : Val) (hnd : descends s v = false) : (bindS src data m s v).2 ≠ some .panic := by
  cases s <;> cases v <;> simp only [descends] at hnd <;> try (exact absurd hnd (by decide))
  all_goals
    unfold bindS
    repeat' split
    all_goals first
      | exact taggedStep_no_panic src data hne m _ _
      | simp

mutual
theorem bindF_no_panic (src : Src) (data : Data) (hne : ∀ kv ∈ data, kv.2 ≠ []) :
    ∀ (fs : Fields) (vs : List Val), (bindF src data fs vs).2 ≠ some .panic
  | .nil, vs => by simp [bindF]
  | .cons m s rest, [] => by simp [bindF]
  | .cons m s rest, v :: vs => by
    have h1 := bindS_no_panic src data hne m s v
    have h2 := bindF_no_panic src data hne rest vs
    unfold bindF
    cases hb : bindS src data m s v with
    | mk v' e =>
      rw [hb] at h1
      cases e with
      | some e => simpa using h1
      | none => simpa using h2
theorem bindS_no_panic (src : Src) (data : Data) (hne : ∀ kv ∈ data, kv.2 ≠ []) :
    ∀ (m : FMeta) (s : Shape) (v : Val), (bindS src data m s v).2 ≠ some .panic
  | m, .struct fs, .struct vs => by
    have ih := bindF_no_panic src data hne fs vs
    unfold bindS
    repeat' split
    all_goals first
      | exact ih
      | exact taggedStep_no_panic src data hne m _ _
      | simp
  | m, .ptrStruct fs, .struct vs => by
    have ih := bindF_no_panic src data hne fs vs
    unfold bindS
    repeat' split
    all_goals first
      | exact ih
      | exact taggedStep_no_panic src data hne m _ _
      | simp
  | m, .struct fs, .leaf x => bindS_nondesc_no_panic src data hne m _ _ rfl
  | m, .struct fs, .nilStruct => bindS_nondesc_no_panic src data hne m _ _ rfl
  | m, .struct fs, .other => bindS_nondesc_no_panic src data hne m _ _ rfl
  | m, .ptrStruct fs, .leaf x => bindS_nondesc_no_panic src data hne m _ _ rfl
  | m, .ptrStruct fs, .nilStruct => bindS_nondesc_no_panic src data hne m _ _ rfl
  | m, .ptrStruct fs, .other => bindS_nondesc_no_panic src data hne m _ _ rfl
  | m, .scalar e, v => bindS_nondesc_no_panic src data hne m _ _ (by cases v <;> rfl)
  | m, .ptr e, v => bindS_nondesc_no_panic src data hne m _ _ (by cases v <;> rfl)
  | m, .slice e, v => bindS_nondesc_no_panic src data hne m _ _ (by cases v <;> rfl)
  | m, .other, v => bindS_nondesc_no_panic src data hne m _ _ (by cases v <;> rfl)
  | m, .unm, v => bindS_nondesc_no_panic src data hne m _ _ (by cases v <;> rfl)
end

/-- **no panic** — with data as net/http produces them (every key has at least one value) the
    struct walk never reaches its only partial operation (`inputValue[0]`) -/
theorem C09_no_panic (src : Src) (data : Data) (hne : ∀ kv ∈ data, kv.2 ≠ []) (fs : Fields)
    (vs : List Val) : (bindData src data (.struct fs) (.struct vs)).2 ≠ some .panic := by
  unfold bindData
  by_cases hd : data = []
  · simp [hd]
  · simp only [hd, if_false]
    exact bindF_no_panic src data hne fs vs

/-! ## non-vacuity: a mass-assignment attempt on a concrete destination

`Val` is a nested inductive without derived `DecidableEq`; the examples compare the pre-order
flattening `flatVs` (tokens with decidable equality), evaluated by the kernel. -/

inductive Tok where
  | leaf (v : FVal) | struct (n : Nat) | nilStruct | other
deriving DecidableEq, Repr

mutual
def flatV : Val → List Tok
  | .leaf v => [.leaf v]
  | .struct vs => .struct (lenVals vs) :: flatVs vs
  | .nilStruct => [.nilStruct]
  | .other => [.other]
def flatVs : List Val → List Tok
  | [] => []
  | v :: vs => flatV v ++ flatVs vs
end

def flatD : DVal → List Tok
  | .struct vs => flatVs vs
  | _ => [.other]


/-- `struct { ID int `param:"id" query:"id"`; IsAdmin bool; Nested struct { Note string `query:"n" form:"n"` }; P *int8 `form:"p"` }` -/
def exFs : Fields :=
  .cons ⟨⟨['i','d'], ['i','d'], [], []⟩, false, true⟩ (.scalar (.num (.structInt .wInt)))
  (.cons ⟨⟨[], [], [], []⟩, false, true⟩ (.scalar .bool)
  (.cons ⟨⟨[], [], [], []⟩, false, true⟩
      (.struct (.cons ⟨⟨[], ['n'], ['n'], []⟩, false, true⟩ (.scalar .str) .nil))
  (.cons ⟨⟨[], [], ['p'], []⟩, false, true⟩ (.ptr (.num (.structInt .w8))) .nil)))

def exVs : List Val :=
  [.leaf (.one (.int 1)), .leaf (.one (.bool false)), .struct [.leaf (.one (.opq ['o']))], .leaf .nil]

/-- the client sends `id=7&IsAdmin=true&isadmin=1&N=x&p=5` -/
def exData : Data :=
  [(['i','d'], [['7']]), (['I','s','A','d','m','i','n'], [['t','r','u','e']]),
   (['i','s','a','d','m','i','n'], [['1']]), (['N'], [['x']]), (['p'], [['5']])]

-- the query source writes ID and (through the case-insensitive fallback) Nested.Note, nothing else
example : flatVs (bindF .query exData exFs exVs).1
      = flatVs [.leaf (.one (.int 7)), .leaf (.one (.bool false)), .struct [.leaf (.one (.opq ['x']))], .leaf .nil]
    ∧ (bindF .query exData exFs exVs).2 = none := by
  decide +kernel
-- the mask of C09_untagged_untouched hides exactly the two query-tagged fields and keeps the rest visible
example : flatVs (maskF .query (tagged .query) exFs exVs)
    = flatVs [.other, .leaf (.one (.bool false)), .struct [.other], .leaf .nil] := by decide +kernel
-- the finer mask of C09_key_must_equal_tag with data that has no key for `n`
example : flatVs (maskF .query (keyed .query [(['i','d'], [['7']])]) exFs exVs)
    = flatVs [.other, .leaf (.one (.bool false)), .struct [.leaf (.one (.opq ['o']))], .leaf .nil] := by decide +kernel
-- a malformed value: 400 and the pointer field is left allocated; fields before it are bound
example : flatVs (bindF .form [(['n'], [['y']]), (['p'], [['1','2','8']])] exFs exVs).1
      = flatVs [.leaf (.one (.int 1)), .leaf (.one (.bool false)), .struct [.leaf (.one (.opq ['y']))],
        .leaf (.one (.int 0))]
    ∧ (bindF .form [(['n'], [['y']]), (['p'], [['1','2','8']])] exFs exVs).2 = some .bad := by decide +kernel
example : badIn (.num (.structInt .w8)) ['p'] [(['p'], [['1','2','8']])] := by
  refine ⟨by decide, [['1','2','8']], by decide, by decide⟩

def exReq (method ctype : List Char) (hasBody : Bool) : BindReq :=
  { method := method, params := [(['i','d'], [['1','0']])], query := [(['i','d'], [['2','0']]), (['n'], [['q']])],
    hasBody := hasBody, ctype := ctype, json := (.opaque, false), xml := (.opaque, false),
    formBody := some [(['n'], [['f']]), (['i','d'], [['3','0']])], multipart := none }

-- GET: path then query; the form tag is not consulted without a body
example : flatD (bind (.struct exFs) (.struct exVs) (exReq ['G','E','T'] [] false)).1
      = flatVs [.leaf (.one (.int 20)), .leaf (.one (.bool false)), .struct [.leaf (.one (.opq ['q']))], .leaf .nil]
    ∧ (bind (.struct exFs) (.struct exVs) (exReq ['G','E','T'] [] false)).2 = .ok := by
  decide +kernel
-- POST with a form body: the query string is NOT bound through the `query` tag (ID stays 10), the
-- form body wins for `n`
example : flatD (bind (.struct exFs) (.struct exVs) (exReq ['P','O','S','T'] mForm true)).1
      = flatVs [.leaf (.one (.int 10)), .leaf (.one (.bool false)), .struct [.leaf (.one (.opq ['f']))], .leaf .nil]
    ∧ (bind (.struct exFs) (.struct exVs) (exReq ['P','O','S','T'] mForm true)).2 = .ok := by
  decide +kernel
-- the hypotheses of C09_precedence / C09_415 are satisfiable
example : ¬ decoded (exReq ['P','O','S','T'] mForm true) := by
  intro h; exact absurd h.2 (by decide)
example : (bind (.struct exFs) (.struct exVs) (exReq ['P','O','S','T'] ['t','e','x','t','/','p','l','a','i','n'] true)).2
    = .unsupported := by decide
example : mediaType ['t','e','x','t','/','p','l','a','i','n'] ≠ mJSON ∧ mediaType [' ','a','p','p','l','i','c','a','t','i','o','n','/','j','s','o','n',';','x'] = mJSON := by
  decide
-- a tagged embedded struct is an error as soon as the source has any data; a tagged plain struct only when its key is sent
example : (bindF .query [(['z'], [['1']])]
    (.cons ⟨⟨[], ['e'], [], []⟩, true, true⟩ (.struct .nil) .nil) [.struct []]).2 = some .bad := by decide
example : (bindF .query [(['z'], [['1']])]
    (.cons ⟨⟨[], ['e'], [], []⟩, false, true⟩ (.struct .nil) .nil) [.struct []]).2 = none := by decide
-- the partial operation: an empty value list (not producible by net/http)
example : (bindF .query [(['i','d'], [])] exFs exVs).2 = some .panic := by decide

end C09
