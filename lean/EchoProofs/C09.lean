import EchoModel.C09
import EchoProofs.C08
/-!
# C09 — theorems: explicit source tags, and path < query < body

`maskF src P` is the specification device for "nothing else changes": it replaces by a
placeholder exactly the fields selected by `P` and descends exactly where the walk of
`bindData src` descends (exported, untagged plain structs and embedded non-nil pointers to
structs).  `maskF … after = maskF … before` therefore says: every field NOT selected by `P`, at
any depth the walk can reach or not, is exactly as before.

Headline theorems (all for every shape, every value, every request)
* `C09_untagged_untouched` — `P` = "has a tag for `src`": a source never changes a field without its tag.
* `C09_key_must_equal_tag` — `P` = "has a tag for `src` AND some key equals it under case folding".
* `C09_bind_untagged` — the same through the whole of `Bind` (path, query, form/multipart), for every outcome.
* `C09_precedence` — final value of a field = last of path → query (GET/DELETE/HEAD) → form body that carries its key.
* `C09_400` — a malformed text in any applied source never ends in success.
* `C09_415`, `C09_415_exact`, `C09_empty_body`, `C09_query_only_gdh`, `C09_no_panic`.

Round 4
* `C09_key_must_equal_tag` now also covers uploaded files: a file reaches a field only under the EXACT name of its tag.
* `C09_file_set`, `C09_file_plain_rejected`, `C09_files_only_multipart` — multipart file fields.
* `C09_multi_all_values` — `UnmarshalParams` destinations get all values of the key.
* `C09_body_untagged` — `BindBody` called on its own.
* `C09_map_precedence` — map destinations: per key, the last source that carries the key wins, every
  other entry survives (`mapGet_mapInsert`, `mapBind_get`).

Round 8
* `foldEq_exact_off_letters`, `C09_key_differs_in_letter_case_only`, `C09_separator_variant_misses` — a key that
  reaches a tag has the tag's length and agrees with it at every non-letter byte: `X_Is_Admin` is not `X-Is-Admin`.
* `C09_xml_types_agree` — `text/xml` and `application/xml` (any parameters / padding) are one branch.
* `C09_decoded_malformed_400` — a body the selected decoder rejects is a 400 through `BindBody` and `Bind`.
-/
namespace C09
open C08 (Elem SVal FVal structElem structElems zeroOf parseElem multiParse)

mutual
def maskF (src : Src) (P : FMeta → Bool) : Fields → List Val → List Val
  | .nil, vs => vs
  | .cons _ _ _, [] => []
  | .cons m s rest, v :: vs => maskS src P m s v :: maskF src P rest vs
def maskS (src : Src) (P : FMeta → Bool) (m : FMeta) : Shape → Val → Val
  | .struct fs, .struct vs =>
    if P m = true then .other
    else if m.exported = true ∧ m.tags.get src = [] then .struct (maskF src P fs vs) else .struct vs
  | .ptrStruct fs, .struct vs =>
    if P m = true then .other
    else if m.exported = true ∧ m.anonymous = true ∧ m.tags.get src = [] then .struct (maskF src P fs vs)
    else .struct vs
  | _, v => if P m = true then .other else v
end

theorem setField_struct (fs : Fields) (vs : List Val) (values) :
    (setField (.struct fs) (.struct vs) values).1 = .struct vs := by
  unfold setField; cases values <;> simp

theorem setField_ptrStruct (fs : Fields) (vs : List Val) (values) :
    (setField (.ptrStruct fs) (.struct vs) values).1 = .struct vs := by
  unfold setField; cases values <;> simp

theorem maskS_hidden (src P m) (hp : P m = true) (s : Shape) (v : Val) : maskS src P m s v = .other := by
  cases s <;> cases v <;> simp [maskS, hp]

/-- the request carries something for this tag: a value key equal to it under case folding
    (`lookup`), or an uploaded file under exactly this name -/
def carries (data files : Data) (t : List Char) : Bool :=
  (lookup data t).isSome || (fileLookup files t).isSome

theorem fileStep_some_val (files : Data) (t : List Char) (sh : Shape) (v : Val) (r : Val × Option Err)
    (h : fileStep files t sh v = some r) : r.1 = v ∨ (fileLookup files t).isSome = true := by
  unfold fileStep at h
  split at h
  · cases h
  · split at h
    · cases h; exact Or.inl rfl
    · split at h
      · rename_i hl
        exact Or.inr (by simp [hl])
      · cases h
    · cases h

/-- a tagged step changes the value only if the request carries something for the tag -/
theorem taggedStep_miss (src data files m sh v) (h : carries data files (m.tags.get src) = false) :
    (taggedStep src data files m sh v).1 = v := by
  simp only [carries, Bool.or_eq_false_iff] at h
  unfold taggedStep
  cases hf : fileStep files (m.tags.get src) sh v with
  | some r =>
    cases fileStep_some_val files _ sh v r hf with
    | inl h' => exact h'
    | inr h' => rw [h.2] at h'; cases h'
  | none =>
    cases hl : lookup data (m.tags.get src) with
    | none => rfl
    | some values => rw [hl] at h; simp at h

def descends : Shape → Val → Bool
  | .struct _, .struct _ => true
  | .ptrStruct _, .struct _ => true
  | _, _ => false

theorem exported_true {m : FMeta} (h : ¬ m.exported = false) : m.exported = true := by
  cases hm : m.exported <;> simp_all

/-- without anything for the field's tag nothing is written by the tagged step -/
theorem tagged_same (src : Src) (data files : Data) (P : FMeta → Bool)
    (hP : ∀ m : FMeta, m.tags.get src ≠ [] → carries data files (m.tags.get src) = true → P m = true)
    (m : FMeta) (hp : ¬ P m = true) (htag : m.tags.get src ≠ []) (sh : Shape) (v : Val) :
    (taggedStep src data files m sh v).1 = v := by
  cases hc : carries data files (m.tags.get src) with
  | false => exact taggedStep_miss _ _ _ _ _ _ hc
  | true => exact absurd (hP m htag hc) hp

theorem bindS_nondesc (src : Src) (data files : Data) (P : FMeta → Bool)
    (hP : ∀ m : FMeta, m.tags.get src ≠ [] → carries data files (m.tags.get src) = true → P m = true)
    (m : FMeta) (hp : ¬ P m = true) (s : Shape) (v : Val) (hnd : descends s v = false) :
    (bindS src data files m s v).1 = v := by
  cases s <;> cases v <;> simp only [descends] at hnd <;> try (exact absurd hnd (by decide))
  all_goals
    unfold bindS
    repeat' split
    all_goals first
      | rfl
      | (rename_i htag; rw [tagged_same src data files P hP m hp htag])
      | skip

mutual
theorem maskF_bind (src : Src) (data files : Data) (P : FMeta → Bool)
    (hP : ∀ m : FMeta, m.tags.get src ≠ [] → carries data files (m.tags.get src) = true → P m = true) :
    ∀ (fs : Fields) (vs : List Val), maskF src P fs (bindF src data files fs vs).1 = maskF src P fs vs
  | .nil, vs => by simp [bindF]
  | .cons m s rest, [] => by simp [bindF]
  | .cons m s rest, v :: vs => by
    have h1 := maskS_bind src data files P hP m s v
    have h2 := maskF_bind src data files P hP rest vs
    unfold bindF
    cases hb : bindS src data files m s v with
    | mk v' e =>
      rw [hb] at h1
      cases e with
      | some e => simp [maskF, h1]
      | none => simp [maskF, h1, h2]
theorem maskS_bind (src : Src) (data files : Data) (P : FMeta → Bool)
    (hP : ∀ m : FMeta, m.tags.get src ≠ [] → carries data files (m.tags.get src) = true → P m = true) :
    ∀ (m : FMeta) (s : Shape) (v : Val), maskS src P m s (bindS src data files m s v).1 = maskS src P m s v
  | m, .struct fs, .struct vs => by
    have ih := maskF_bind src data files P hP fs vs
    unfold bindS
    by_cases hp : P m = true
    · simp [maskS_hidden src P m hp]
    · split
      · rfl
      · split
        · rfl
        · split
          · rename_i hexp _ htag
            simp only [maskS, hp, if_false, exported_true hexp, htag, and_self, if_true, ih]
          · rename_i htag
            rw [tagged_same src data files P hP m hp htag]
  | m, .ptrStruct fs, .struct vs => by
    have ih := maskF_bind src data files P hP fs vs
    unfold bindS
    by_cases hp : P m = true
    · simp [maskS_hidden src P m hp]
    · split
      · rfl
      · split
        · split
          · rfl
          · rename_i hexp hanon htag
            have htag' : m.tags.get src = [] := by simpa using htag
            simp only [maskS, hp, if_false, exported_true hexp, hanon, htag', and_self, if_true, ih]
        · split
          · rfl
          · rename_i htag
            rw [tagged_same src data files P hP m hp htag]
  | m, .struct fs, .leaf x => by
    by_cases hp : P m = true
    · simp [maskS_hidden src P m hp]
    · rw [bindS_nondesc src data files P hP m hp _ _ rfl]
  | m, .struct fs, .nilStruct => by
    by_cases hp : P m = true
    · simp [maskS_hidden src P m hp]
    · rw [bindS_nondesc src data files P hP m hp _ _ rfl]
  | m, .struct fs, .other => by
    by_cases hp : P m = true
    · simp [maskS_hidden src P m hp]
    · rw [bindS_nondesc src data files P hP m hp _ _ rfl]
  | m, .ptrStruct fs, .leaf x => by
    by_cases hp : P m = true
    · simp [maskS_hidden src P m hp]
    · rw [bindS_nondesc src data files P hP m hp _ _ rfl]
  | m, .ptrStruct fs, .nilStruct => by
    by_cases hp : P m = true
    · simp [maskS_hidden src P m hp]
    · rw [bindS_nondesc src data files P hP m hp _ _ rfl]
  | m, .ptrStruct fs, .other => by
    by_cases hp : P m = true
    · simp [maskS_hidden src P m hp]
    · rw [bindS_nondesc src data files P hP m hp _ _ rfl]
  | m, .scalar e, v => by
    by_cases hp : P m = true
    · simp [maskS_hidden src P m hp]
    · rw [bindS_nondesc src data files P hP m hp _ _ (by cases v <;> rfl)]
  | m, .ptr e, v => by
    by_cases hp : P m = true
    · simp [maskS_hidden src P m hp]
    · rw [bindS_nondesc src data files P hP m hp _ _ (by cases v <;> rfl)]
  | m, .slice e, v => by
    by_cases hp : P m = true
    · simp [maskS_hidden src P m hp]
    · rw [bindS_nondesc src data files P hP m hp _ _ (by cases v <;> rfl)]
  | m, .other, v => by
    by_cases hp : P m = true
    · simp [maskS_hidden src P m hp]
    · rw [bindS_nondesc src data files P hP m hp _ _ (by cases v <;> rfl)]
  | m, .unm, v => by
    by_cases hp : P m = true
    · simp [maskS_hidden src P m hp]
    · rw [bindS_nondesc src data files P hP m hp _ _ (by cases v <;> rfl)]
  | m, .multi, v => by
    by_cases hp : P m = true
    · simp [maskS_hidden src P m hp]
    · rw [bindS_nondesc src data files P hP m hp _ _ (by cases v <;> rfl)]
  | m, .file k, v => by
    by_cases hp : P m = true
    · simp [maskS_hidden src P m hp]
    · rw [bindS_nondesc src data files P hP m hp _ _ (by cases v <;> rfl)]
end
/-! ## keys -/

theorem foldEq_refl (a : List Char) : foldEq a a = true := by simp [foldEq]

/-- a successful lookup comes from a key that equals the tag under case folding -/
theorem lookup_some_key (data : Data) (t : List Char) (vals : List (List Char))
    (h : lookup data t = some vals) : ∃ kv ∈ data, foldEq kv.1 t = true ∧ kv.2 = vals := by
  unfold lookup at h
  split at h
  · rename_i kv hf
    have hm := List.mem_of_find?_eq_some hf
    have hp := List.find?_some hf
    simp only [beq_iff_eq] at hp
    cases h
    exact ⟨kv, hm, by rw [hp]; exact foldEq_refl t, rfl⟩
  · split at h
    · rename_i kv hf
      have hm := List.mem_of_find?_eq_some hf
      have hp := List.find?_some hf
      cases h
      exact ⟨kv, hm, hp, rfl⟩
    · cases h

def tagged (src : Src) (m : FMeta) : Bool := m.tags.get src != []

/-- the field has a tag for `src` and the request carries a value key equal to it under case
    folding, or an uploaded file whose name equals it EXACTLY -/
def keyed (src : Src) (data files : Data) (m : FMeta) : Bool :=
  m.tags.get src != [] &&
    (data.any (fun kv => foldEq kv.1 (m.tags.get src)) || files.any (fun kv => kv.1 == m.tags.get src))

/-- **C09_untagged_untouched** — for every shape, every value, every request data: after
    `bindData src`, everything except the fields that carry a tag for `src` is exactly as before
    (`maskF` hides the tagged fields and nothing else; it descends exactly where the walk does).
    No key the client can send reaches a field without the tag. -/
theorem C09_untagged_untouched (src : Src) (data files : Data) (fs : Fields) (vs : List Val) :
    maskF src (tagged src) fs (bindF src data files fs vs).1 = maskF src (tagged src) fs vs :=
  maskF_bind src data files (tagged src) (fun m h _ => by simp [tagged, h]) fs vs

theorem fileLookup_some_key (files : Data) (t : List Char) (h : (fileLookup files t).isSome = true) :
    files.any (fun kv => kv.1 == t) = true := by
  unfold fileLookup at h
  cases hf : files.find? (fun kv => kv.1 == t) with
  | none => simp [hf] at h
  | some kv =>
    have hm := List.mem_of_find?_eq_some hf
    have hp := List.find?_some hf
    exact List.any_eq_true.mpr ⟨kv, hm, hp⟩

/-- **C09_key_must_equal_tag** — the same with a finer mask: only fields whose tag equals, under
    case folding, some key of the data (or, exactly, the name of an uploaded file) can change. -/
theorem C09_key_must_equal_tag (src : Src) (data files : Data) (fs : Fields) (vs : List Val) :
    maskF src (keyed src data files) fs (bindF src data files fs vs).1 = maskF src (keyed src data files) fs vs := by
  refine maskF_bind src data files (keyed src data files) ?_ fs vs
  intro m htag hl
  simp only [carries, Bool.or_eq_true] at hl
  simp only [keyed, Bool.and_eq_true, bne_iff_ne, ne_eq, htag, not_false_eq_true, true_and, Bool.or_eq_true]
  cases hl with
  | inl hl =>
    cases h : lookup data (m.tags.get src) with
    | none => simp [h] at hl
    | some vals =>
      obtain ⟨kv, hm, hf, _⟩ := lookup_some_key data _ vals h
      exact Or.inl (List.any_eq_true.mpr ⟨kv, hm, hf⟩)
  | inr hl => exact Or.inr (fileLookup_some_key files _ hl)

/-! ## top-level fields: what a source writes -/

def fieldAt : Fields → Nat → Option (FMeta × Shape)
  | .nil, _ => none
  | .cons m s _, 0 => some (m, s)
  | .cons _ _ rest, i + 1 => fieldAt rest i

/-- a visible (unmasked, not descended) untagged field is literally unchanged -/
theorem untagged_field_same (src : Src) (data files : Data) :
    ∀ (fs : Fields) (vs : List Val) (i : Nat) (m : FMeta) (s : Shape),
      fieldAt fs i = some (m, s) → m.tags.get src = [] → (∀ v, descends s v = false) →
      (bindF src data files fs vs).1[i]? = vs[i]?
  | .nil, _, _, _, _, h, _, _ => by simp [fieldAt] at h
  | .cons m0 s0 rest, [], i, m, s, _, _, _ => by simp [bindF]
  | .cons m0 s0 rest, v :: vs, 0, m, s, h, ht, hd => by
    simp only [fieldAt, Option.some.injEq, Prod.mk.injEq] at h
    obtain ⟨rfl, rfl⟩ := h
    have : (bindS src data files m0 s0 v).1 = v :=
      bindS_nondesc src data files (tagged src) (fun m h _ => by simp [tagged, h]) m0 (by simp [tagged, ht]) s0 v (hd v)
    unfold bindF
    cases hb : bindS src data files m0 s0 v with
    | mk v' e => rw [hb] at this; cases e <;> simp_all
  | .cons m0 s0 rest, v :: vs, i + 1, m, s, h, ht, hd => by
    have ih := untagged_field_same src data files rest vs i m s (by simpa [fieldAt] using h) ht hd
    unfold bindF
    cases hb : bindS src data files m0 s0 v with
    | mk v' e => cases e <;> simp [ih]

/-- what one source does to a scalar field with tag `tag` -/
def stepLeaf (e : Elem) (tag : List Char) (data : Data) (cur : Option Val) : Option Val :=
  if tag = [] then cur
  else
    match lookup data tag with
    | none => cur
    | some values =>
      match structElem noExt e (values.headD []) with
      | some y => some (.leaf (.one y))
      | none => cur

/-- the field's text in `data` is not convertible -/
def badIn (e : Elem) (tag : List Char) (data : Data) : Prop :=
  tag ≠ [] ∧ ∃ values, lookup data tag = some values ∧ structElem noExt e (values.headD []) = none

theorem bindF_length (src : Src) (data files : Data) :
    ∀ (fs : Fields) (vs : List Val), (bindF src data files fs vs).1.length = vs.length
  | .nil, vs => by simp [bindF]
  | .cons _ _ _, [] => by simp [bindF]
  | .cons m s rest, v :: vs => by
    have ih := bindF_length src data files rest vs
    unfold bindF
    cases hb : bindS src data files m s v with
    | mk v' e => cases e <;> simp [ih]

theorem bindS_scalar (src : Src) (data files : Data) (m : FMeta) (e : Elem) (v : Val)
    (hexp : m.exported = true) (hok : (bindS src data files m (.scalar e) v).2 = none) :
    some (bindS src data files m (.scalar e) v).1 = stepLeaf e (m.tags.get src) data (some v)
    ∧ ¬ badIn e (m.tags.get src) data := by
  have hb : bindS src data files m (.scalar e) v =
      if m.exported = false then (v, none)
      else if m.tags.get src = [] then (v, none)
      else taggedStep src data files m (.scalar e) v := by
    cases v <;> simp [bindS]
  rw [hb] at hok ⊢
  simp only [hexp, Bool.true_eq_false, if_false] at hok ⊢
  unfold stepLeaf badIn
  by_cases ht : m.tags.get src = []
  · simp [ht]
  · simp only [ht, if_false] at hok ⊢
    have hfs : fileStep files (m.tags.get src) (.scalar e) v = none := by
      unfold fileStep; split <;> rfl
    unfold taggedStep at hok ⊢
    simp only [hfs] at hok ⊢
    cases hl : lookup data (m.tags.get src) with
    | none => simp
    | some values =>
      simp only [hl] at hok ⊢
      unfold setField at hok ⊢
      cases values with
      | nil => simp at hok
      | cons x0 xs =>
        simp only [List.headD_cons] at hok ⊢
        cases hs : structElem noExt e x0 with
        | none => simp [hs] at hok
        | some y => simp [hs]

/-- **what a source writes** — if the walk over a source succeeds, a top-level exported scalar
    field holds the conversion of the first value of the key matching its tag, or its previous
    value if the source has no such key (or the field no tag); and its text was convertible. -/
theorem bindF_top (src : Src) (data files : Data) :
    ∀ (fs : Fields) (vs : List Val) (i : Nat) (m : FMeta) (e : Elem),
      fieldAt fs i = some (m, .scalar e) → m.exported = true → i < vs.length →
      (bindF src data files fs vs).2 = none →
      (bindF src data files fs vs).1[i]? = stepLeaf e (m.tags.get src) data vs[i]?
      ∧ ¬ badIn e (m.tags.get src) data
  | .nil, _, _, _, _, h, _, _, _ => by simp [fieldAt] at h
  | .cons m0 s0 rest, [], i, m, e, _, _, hi, _ => by simp at hi
  | .cons m0 s0 rest, v :: vs, 0, m, e, h, hexp, _, hok => by
    simp only [fieldAt, Option.some.injEq, Prod.mk.injEq] at h
    obtain ⟨rfl, rfl⟩ := h
    unfold bindF at hok ⊢
    cases hb : bindS src data files m0 (.scalar e) v with
    | mk v' er =>
      rw [hb] at hok
      cases er with
      | some er => simp at hok
      | none =>
        have := bindS_scalar src data files m0 e v hexp (by rw [hb])
        rw [hb] at this
        simpa using this
  | .cons m0 s0 rest, v :: vs, i + 1, m, e, h, hexp, hi, hok => by
    unfold bindF at hok ⊢
    cases hb : bindS src data files m0 s0 v with
    | mk v' er =>
      rw [hb] at hok
      cases er with
      | some er => simp at hok
      | none =>
        have ih := bindF_top src data files rest vs i m e (by simpa [fieldAt] using h) hexp
          (by simpa using hi) (by simpa using hok)
        simpa using ih

/-- **C09_empty_value_overrides** (round 7) — a source that carries the key with an EMPTY first
    value (`?name=`, form `name=`) still writes the field: whatever it held — the value an earlier
    source bound, a default of the caller — it ends up as the zero value of its kind.  (With
    `C09_precedence`: path `name=joe`, query `name=` ⇒ `""`.) -/
theorem C09_empty_value_overrides (e : Elem) (tag : List Char) (data : Data) (cur : Option Val)
    (rest : List (List Char)) (ht : tag ≠ []) (hl : lookup data tag = some ([] :: rest)) :
    (∀ d, e = .num d → stepLeaf e tag data cur = some (.leaf (.one (.int 0))))
    ∧ (e = .bool → stepLeaf e tag data cur = some (.leaf (.one (.bool false))))
    ∧ (e = .str → stepLeaf e tag data cur = some (.leaf (.one (.opq [])))) := by
  refine ⟨?_, ?_, ?_⟩
  · intro d he
    subst he
    simp [stepLeaf, ht, hl, (C08.C08_empty_struct noExt d).1]
  · intro he
    subst he
    simp [stepLeaf, ht, hl, (C08.C08_empty_struct noExt .vbUnix).2.1]
  · intro he
    subst he
    simp [stepLeaf, ht, hl, (C08.C08_empty_struct noExt .vbUnix).2.2]

/-! ## Bind: path, then query (GET / DELETE / HEAD), then body -/

theorem lookup_nil (t : List Char) : lookup [] t = none := by simp [lookup]

theorem stepLeaf_nil (e : Elem) (t : List Char) (cur : Option Val) : stepLeaf e t [] cur = cur := by
  simp [stepLeaf, lookup_nil]

theorem not_badIn_nil (e : Elem) (t : List Char) : ¬ badIn e t [] := by
  simp [badIn, lookup_nil]

/-- one source on a struct destination -/
theorem bindData_top (src : Src) (data files : Data) (fs : Fields) (vs : List Val) (i : Nat) (m : FMeta)
    (e : Elem) (hf : fieldAt fs i = some (m, .scalar e)) (hexp : m.exported = true)
    (hi : i < vs.length) (hok : (bindData src data files (.struct fs) (.struct vs)).2 = none) :
    ∃ vs', (bindData src data files (.struct fs) (.struct vs)).1 = .struct vs' ∧ vs'.length = vs.length
      ∧ vs'[i]? = stepLeaf e (m.tags.get src) data vs[i]? ∧ ¬ badIn e (m.tags.get src) data := by
  unfold bindData at hok ⊢
  by_cases hd : data = [] ∧ files = []
  · obtain ⟨hd1, hd2⟩ := hd
    subst hd1
    exact ⟨vs, by simp [hd2], rfl, by rw [stepLeaf_nil], not_badIn_nil _ _⟩
  · simp only [hd, if_false] at hok ⊢
    obtain ⟨h1, h2⟩ := bindF_top src data files fs vs i m e hf hexp hi hok
    exact ⟨_, rfl, bindF_length src data files fs vs, h1, h2⟩

/-- the query data that `Bind` uses -/
def queryOf (r : BindReq) : Data := if queryMethods.contains r.method then r.query else []

/-- the form data that `Bind` uses (empty if the body step is not a form step) -/
def formOf (r : BindReq) : Data :=
  if r.hasBody = false then []
  else if mediaType r.ctype = mJSON then []
  else if mediaType r.ctype = mXML ∨ mediaType r.ctype = mTextXML then []
  else if mediaType r.ctype = mForm then
    (if r.queryOK = false then []
     else if bodyFormMethods.contains r.method then
      (match r.formBody with | none => [] | some b => mergeData b r.query)
     else r.query)
  else if mediaType r.ctype = mMultipart then
    (if r.queryOK = false then [] else (match r.multipart with | none => [] | some b => b))
  else []

/-- the body is handed to encoding/json or encoding/xml -/
def decoded (r : BindReq) : Prop :=
  r.hasBody = true ∧ (mediaType r.ctype = mJSON ∨ mediaType r.ctype = mXML ∨ mediaType r.ctype = mTextXML)

theorem statusOf_ok (e : Option Err) : statusOf e = .ok ↔ e = none := by
  cases e with
  | none => simp [statusOf]
  | some e => cases e <;> simp [statusOf]

theorem bindBody_top (fs : Fields) (vs : List Val) (r : BindReq) (i : Nat) (m : FMeta) (e : Elem)
    (hf : fieldAt fs i = some (m, .scalar e)) (hexp : m.exported = true) (hi : i < vs.length)
    (hnd : ¬ decoded r) (v' : DVal) (h : bindBody (.struct fs) (.struct vs) r = (v', .ok)) :
    ∃ vs', v' = .struct vs' ∧ vs'.length = vs.length
      ∧ vs'[i]? = stepLeaf e m.tags.form (formOf r) vs[i]? ∧ ¬ badIn e m.tags.form (formOf r) := by
  unfold bindBody at h
  unfold formOf
  unfold decoded at hnd
  by_cases hb : r.hasBody = false
  · simp only [hb, if_true, Prod.mk.injEq] at h ⊢
    exact ⟨vs, h.1.symm, rfl, by rw [stepLeaf_nil], not_badIn_nil _ _⟩
  · have hb' : r.hasBody = true := by cases hh : r.hasBody <;> simp_all
    simp only [hb', Bool.true_eq_false, if_false] at h ⊢
    by_cases h1 : mediaType r.ctype = mJSON
    · exact absurd ⟨hb', Or.inl h1⟩ hnd
    · by_cases h2 : mediaType r.ctype = mXML ∨ mediaType r.ctype = mTextXML
      · exact absurd ⟨hb', Or.inr h2⟩ hnd
      · simp only [h1, h2, if_false] at h ⊢
        by_cases h3 : mediaType r.ctype = mForm
        · simp only [h3, if_true] at h ⊢
          by_cases hq : r.queryOK = false
          · simp [hq] at h
          have hq' : r.queryOK = true := by cases hh : r.queryOK <;> simp_all
          simp only [hq', Bool.true_eq_false, if_false] at h ⊢
          by_cases h4 : bodyFormMethods.contains r.method = true
          · simp only [h4, if_true] at h ⊢
            cases hfb : r.formBody with
            | none => simp [hfb] at h
            | some body =>
              simp only [hfb, Prod.mk.injEq] at h ⊢
              obtain ⟨vs', a, b, c, d⟩ := bindData_top .form (mergeData body r.query) [] fs vs i m e hf hexp hi
                ((statusOf_ok _).1 h.2)
              exact ⟨vs', by rw [← h.1, a], b, c, d⟩
          · simp only [h4, Bool.false_eq_true, if_false, Prod.mk.injEq] at h ⊢
            obtain ⟨vs', a, b, c, d⟩ := bindData_top .form r.query [] fs vs i m e hf hexp hi
              ((statusOf_ok _).1 h.2)
            exact ⟨vs', by rw [← h.1, a], b, c, d⟩
        · simp only [h3, if_false] at h ⊢
          by_cases h5 : mediaType r.ctype = mMultipart
          · simp only [h5, if_true] at h ⊢
            by_cases hq : r.queryOK = false
            · simp [hq] at h
            have hq' : r.queryOK = true := by cases hh : r.queryOK <;> simp_all
            simp only [hq', Bool.true_eq_false, if_false] at h ⊢
            cases hmp : r.multipart with
            | none => simp [hmp] at h
            | some body =>
              simp only [hmp, Prod.mk.injEq] at h ⊢
              obtain ⟨vs', a, b, c, d⟩ := bindData_top .form body r.files fs vs i m e hf hexp hi
                ((statusOf_ok _).1 h.2)
              exact ⟨vs', by rw [← h.1, a], b, c, d⟩
          · simp [h5] at h

/-- **C09_precedence** (+ **C09_400**) — if `Bind` succeeds (and the body is not handed to
    encoding/json|xml), a top-level exported scalar field holds what the LAST of the sources
    path → query (GET/DELETE/HEAD only) → form body that carries a key for the field's tag
    wrote, else its previous value; and none of the applied sources carried a malformed text
    for it (contrapositive: a malformed text in any applied source never ends in success). -/
theorem C09_precedence (fs : Fields) (vs : List Val) (r : BindReq) (i : Nat) (m : FMeta) (e : Elem)
    (hf : fieldAt fs i = some (m, .scalar e)) (hexp : m.exported = true) (hi : i < vs.length)
    (hnd : ¬ decoded r) (v' : DVal) (h : bind (.struct fs) (.struct vs) r = (v', .ok)) :
    ∃ vs', v' = .struct vs'
      ∧ vs'[i]? = stepLeaf e m.tags.form (formOf r)
                    (stepLeaf e m.tags.query (queryOf r)
                      (stepLeaf e m.tags.param r.params vs[i]?))
      ∧ ¬ badIn e m.tags.param r.params ∧ ¬ badIn e m.tags.query (queryOf r)
      ∧ ¬ badIn e m.tags.form (formOf r) := by
  unfold bind at h
  simp only at h
  cases h1 : (bindData .param r.params [] (.struct fs) (.struct vs)).2 with
  | some er => rw [h1] at h; cases er <;> simp [statusOf] at h
  | none =>
    rw [h1] at h
    simp only at h
    obtain ⟨vs1, a1, b1, c1, d1⟩ := bindData_top .param r.params [] fs vs i m e hf hexp hi h1
    rw [a1] at h
    unfold queryOf
    by_cases hq : queryMethods.contains r.method = true
    · simp only [hq, if_true] at h ⊢
      cases h2 : (bindData .query r.query [] (.struct fs) (.struct vs1)).2 with
      | some er => rw [h2] at h; cases er <;> simp [statusOf] at h
      | none =>
        rw [h2] at h
        simp only at h
        obtain ⟨vs2, a2, b2, c2, d2⟩ := bindData_top .query r.query [] fs vs1 i m e hf hexp (by omega) h2
        rw [a2] at h
        obtain ⟨vs3, a3, _, c3, d3⟩ := bindBody_top fs vs2 r i m e hf hexp (by omega) hnd v' h
        exact ⟨vs3, a3, by rw [c3, c2, c1]; rfl, d1, d2, d3⟩
    · simp only [hq, Bool.false_eq_true, if_false] at h ⊢
      obtain ⟨vs3, a3, _, c3, d3⟩ := bindBody_top fs vs1 r i m e hf hexp (by omega) hnd v' h
      exact ⟨vs3, a3, by rw [c3, stepLeaf_nil, c1]; rfl, d1, not_badIn_nil _ _, d3⟩

/-- **C09_400** — never bound in silence: a malformed text for a (top-level, exported, scalar)
    field in ANY applied source makes `Bind` fail, whatever the other sources carry -/
theorem C09_400 (fs : Fields) (vs : List Val) (r : BindReq) (i : Nat) (m : FMeta) (e : Elem)
    (hf : fieldAt fs i = some (m, .scalar e)) (hexp : m.exported = true) (hi : i < vs.length)
    (hnd : ¬ decoded r)
    (hbad : badIn e m.tags.param r.params ∨ badIn e m.tags.query (queryOf r)
      ∨ badIn e m.tags.form (formOf r)) :
    (bind (.struct fs) (.struct vs) r).2 ≠ .ok := by
  intro hok
  obtain ⟨_, _, _, d1, d2, d3⟩ := C09_precedence fs vs r i m e hf hexp hi hnd
    (bind (.struct fs) (.struct vs) r).1 (by rw [← hok])
  rcases hbad with hb | hb | hb
  · exact d1 hb
  · exact d2 hb
  · exact d3 hb

/-- **C09_415** — a non-empty body whose media type is none of the five supported ones is
    rejected with 415 and the body step leaves the destination as it was; `Bind` as a whole
    then never succeeds, and answers exactly 415 whenever the path and query steps were fine -/
theorem C09_415 (d : Dest) (v : DVal) (r : BindReq) (hb : r.hasBody = true)
    (hm : mediaType r.ctype ≠ mJSON ∧ mediaType r.ctype ≠ mXML ∧ mediaType r.ctype ≠ mTextXML
      ∧ mediaType r.ctype ≠ mForm ∧ mediaType r.ctype ≠ mMultipart) :
    bindBody d v r = (v, .unsupported) ∧ (bind d v r).2 ≠ .ok := by
  have hbody : ∀ w, bindBody d w r = (w, .unsupported) := by
    intro w
    unfold bindBody
    simp [hb, hm.1, hm.2.1, hm.2.2.1, hm.2.2.2.1, hm.2.2.2.2]
  refine ⟨hbody v, ?_⟩
  unfold bind
  simp only
  cases h1 : (bindData .param r.params [] d v).2 with
  | some er => cases er <;> simp [statusOf]
  | none =>
    simp only
    split
    · cases h2 : (bindData .query r.query [] d (bindData .param r.params [] d v).1).2 with
      | some er => cases er <;> simp [statusOf]
      | none => simp [hbody]
    · simp [hbody]

theorem C09_415_exact (d : Dest) (v : DVal) (r : BindReq) (hb : r.hasBody = true)
    (hm : mediaType r.ctype ≠ mJSON ∧ mediaType r.ctype ≠ mXML ∧ mediaType r.ctype ≠ mTextXML
      ∧ mediaType r.ctype ≠ mForm ∧ mediaType r.ctype ≠ mMultipart)
    (h1 : (bindData .param r.params [] d v).2 = none)
    (h2 : (bindData .query (queryOf r) [] d (bindData .param r.params [] d v).1).2 = none) :
    bind d v r = ((bindData .query (queryOf r) [] d (bindData .param r.params [] d v).1).1, .unsupported) := by
  have hbody : ∀ w, bindBody d w r = (w, .unsupported) := fun w => (C09_415 d w r hb hm).1
  unfold bind queryOf at *
  simp only [h1]
  by_cases hq : queryMethods.contains r.method = true
  · simp only [hq, if_true] at h2 ⊢
    simp [h2, hbody]
  · simp only [hq, Bool.false_eq_true, if_false] at h2 ⊢
    have : bindData .query [] [] d (bindData .param r.params [] d v).1 = ((bindData .param r.params [] d v).1, none) := by
      simp [bindData]
    simp [this, hbody]

/-- an empty body (ContentLength = 0) is never looked at, whatever the Content-Type says -/
theorem C09_empty_body (d : Dest) (v : DVal) (r : BindReq) (hb : r.hasBody = false) :
    bindBody d v r = (v, .ok) := by
  simp [bindBody, hb]

/-- query parameters are not bound for methods other than GET, DELETE, HEAD: the result does not
    depend on the query string at all unless the body is a form (ParseForm merges the URL query) -/
theorem C09_query_only_gdh (d : Dest) (v : DVal) (r : BindReq) (q' : Data)
    (hq : queryMethods.contains r.method = false) (hnf : mediaType r.ctype ≠ mForm) :
    bind d v { r with query := q' } = bind d v r := by
  unfold bind
  simp only [hq]
  unfold bindBody
  simp [hnf]

/-! ## the whole of Bind never touches a field that carries none of the three tags -/

def tagged3 (m : FMeta) : Bool := tagged .param m || tagged .query m || tagged .form m

theorem tagged3_false {m : FMeta} (h : ¬ tagged3 m = true) :
    m.tags.get .param = [] ∧ m.tags.get .query = [] ∧ m.tags.get .form = [] := by
  simp only [tagged3, tagged, Bool.or_eq_true, bne_iff_ne, ne_eq, not_or, Decidable.not_not] at h
  exact ⟨h.1.1, h.1.2, h.2⟩

mutual
theorem maskF_src (s1 s2 : Src) (P : FMeta → Bool)
    (hP : ∀ m, ¬ P m = true → m.tags.get s1 = [] ∧ m.tags.get s2 = []) :
    ∀ (fs : Fields) (vs : List Val), maskF s1 P fs vs = maskF s2 P fs vs
  | .nil, vs => by simp [maskF]
  | .cons m s rest, [] => by simp [maskF]
  | .cons m s rest, v :: vs => by
    simp only [maskF, maskS_src s1 s2 P hP m s v, maskF_src s1 s2 P hP rest vs]
theorem maskS_src (s1 s2 : Src) (P : FMeta → Bool)
    (hP : ∀ m, ¬ P m = true → m.tags.get s1 = [] ∧ m.tags.get s2 = []) :
    ∀ (m : FMeta) (s : Shape) (v : Val), maskS s1 P m s v = maskS s2 P m s v
  | m, .struct fs, .struct vs => by
    by_cases hp : P m = true
    · simp [maskS, hp]
    · simp only [maskS, hp, if_false, (hP m hp).1, (hP m hp).2, maskF_src s1 s2 P hP fs vs]
  | m, .ptrStruct fs, .struct vs => by
    by_cases hp : P m = true
    · simp [maskS, hp]
    · simp only [maskS, hp, if_false, (hP m hp).1, (hP m hp).2, maskF_src s1 s2 P hP fs vs]
  | m, .struct fs, .leaf x => by simp [maskS]
  | m, .struct fs, .nilStruct => by simp [maskS]
  | m, .struct fs, .other => by simp [maskS]
  | m, .ptrStruct fs, .leaf x => by simp [maskS]
  | m, .ptrStruct fs, .nilStruct => by simp [maskS]
  | m, .ptrStruct fs, .other => by simp [maskS]
  | m, .scalar e, v => by cases v <;> simp [maskS]
  | m, .ptr e, v => by cases v <;> simp [maskS]
  | m, .slice e, v => by cases v <;> simp [maskS]
  | m, .other, v => by cases v <;> simp [maskS]
  | m, .unm, v => by cases v <;> simp [maskS]
  | m, .multi, v => by cases v <;> simp [maskS]
  | m, .file k, v => by cases v <;> simp [maskS]
end

/-- one `bindData` step on a struct, seen through the three-source mask -/
theorem bindData_mask3 (src : Src) (hs : src = .param ∨ src = .query ∨ src = .form) (data files : Data)
    (fs : Fields) (vs : List Val) :
    ∃ vs', (bindData src data files (.struct fs) (.struct vs)).1 = .struct vs'
      ∧ maskF .param tagged3 fs vs' = maskF .param tagged3 fs vs := by
  unfold bindData
  by_cases hd : data = [] ∧ files = []
  · exact ⟨vs, by simp [hd], rfl⟩
  · refine ⟨(bindF src data files fs vs).1, by simp [hd], ?_⟩
    have h := maskF_bind src data files tagged3 (by
      intro m ht _
      rcases hs with rfl | rfl | rfl <;> simp [tagged3, tagged, ht]) fs (vs)
    have hsrc : ∀ ws, maskF src tagged3 fs ws = maskF .param tagged3 fs ws := by
      intro ws
      apply maskF_src
      intro m hp
      have := tagged3_false hp
      rcases hs with rfl | rfl | rfl
      · exact ⟨this.1, this.1⟩
      · exact ⟨this.2.1, this.1⟩
      · exact ⟨this.2.2, this.1⟩
    rw [← hsrc, ← hsrc, h]

/-- **`BindBody` on its own** — whatever the method, Content-Type, body and outcome: unless the
    body is handed to encoding/json|xml, the body step changes nothing but `form`-tagged fields
    (seen through the three-source mask, which hides them) -/
theorem C09_body_untagged (fs : Fields) (ws : List Val) (r : BindReq) (hnd : ¬ decoded r) :
    ∃ vs', (bindBody (.struct fs) (.struct ws) r).1 = .struct vs'
      ∧ maskF .param tagged3 fs vs' = maskF .param tagged3 fs ws := by
  unfold bindBody
  unfold decoded at hnd
  by_cases hb : r.hasBody = false
  · exact ⟨ws, by simp [hb], rfl⟩
  · have hb' : r.hasBody = true := by cases hh : r.hasBody <;> simp_all
    simp only [hb', Bool.true_eq_false, if_false]
    by_cases h1 : mediaType r.ctype = mJSON
    · exact absurd ⟨hb', Or.inl h1⟩ hnd
    · by_cases h2 : mediaType r.ctype = mXML ∨ mediaType r.ctype = mTextXML
      · exact absurd ⟨hb', Or.inr h2⟩ hnd
      · simp only [h1, h2, if_false]
        by_cases h3 : mediaType r.ctype = mForm
        · simp only [h3, if_true]
          by_cases hq : r.queryOK = false
          · exact ⟨ws, by simp [hq], rfl⟩
          have hq' : r.queryOK = true := by cases hh : r.queryOK <;> simp_all
          simp only [hq', Bool.true_eq_false, if_false]
          by_cases h4 : bodyFormMethods.contains r.method = true
          · simp only [h4, if_true]
            cases r.formBody with
            | none => exact ⟨ws, rfl, rfl⟩
            | some body => exact bindData_mask3 .form (by simp) _ _ fs ws
          · simp only [h4, Bool.false_eq_true, if_false]
            exact bindData_mask3 .form (by simp) _ _ fs ws
        · simp only [h3, if_false]
          by_cases h5 : mediaType r.ctype = mMultipart
          · simp only [h5, if_true]
            by_cases hq : r.queryOK = false
            · exact ⟨ws, by simp [hq], rfl⟩
            have hq' : r.queryOK = true := by cases hh : r.queryOK <;> simp_all
            simp only [hq', Bool.true_eq_false, if_false]
            cases r.multipart with
            | none => exact ⟨ws, rfl, rfl⟩
            | some body => exact bindData_mask3 .form (by simp) _ _ fs ws
          · simp only [h5, if_false]
            exact ⟨ws, rfl, rfl⟩

/-- **no mass assignment through `Bind`** — whatever the method, the keys, the values, the
    Content-Type and the outcome (success, 400, 415): unless the body is handed to
    encoding/json|xml, everything in the destination except the fields tagged `param`, `query`
    or `form` is exactly as before. -/
theorem C09_bind_untagged (fs : Fields) (vs : List Val) (r : BindReq) (hnd : ¬ decoded r) :
    ∃ vs', (bind (.struct fs) (.struct vs) r).1 = .struct vs'
      ∧ maskF .param tagged3 fs vs' = maskF .param tagged3 fs vs := by
  have hbody := fun ws => C09_body_untagged fs ws r hnd
  obtain ⟨vs1, a1, m1⟩ := bindData_mask3 .param (by simp) r.params [] fs vs
  unfold bind
  simp only
  cases h1 : (bindData .param r.params [] (.struct fs) (.struct vs)).2 with
  | some er => exact ⟨vs1, a1, m1⟩
  | none =>
    simp only
    rw [a1]
    split
    · obtain ⟨vs2, a2, m2⟩ := bindData_mask3 .query (by simp) r.query [] fs vs1
      cases h2 : (bindData .query r.query [] (.struct fs) (.struct vs1)).2 with
      | some er => exact ⟨vs2, a2, by rw [m2, m1]⟩
      | none =>
        simp only
        rw [a2]
        obtain ⟨vs3, a3, m3⟩ := hbody vs2
        exact ⟨vs3, a3, by rw [m3, m2, m1]⟩
    · obtain ⟨vs3, a3, m3⟩ := hbody vs1
      exact ⟨vs3, a3, by rw [m3, m1]⟩

/-! ## no panic -/

theorem lookup_nonempty (data : Data) (hne : ∀ kv ∈ data, kv.2 ≠ []) (t : List Char)
    (vals : List (List Char)) (h : lookup data t = some vals) : vals ≠ [] := by
  obtain ⟨kv, hm, _, hv⟩ := lookup_some_key data t vals h
  rw [← hv]; exact hne kv hm

theorem setField_no_panic (sh : Shape) (v : Val) (values : List (List Char)) (hne : values ≠ []) :
    (setField sh v values).2 ≠ some .panic := by
  unfold setField
  cases values with
  | nil => exact absurd rfl hne
  | cons x0 xs =>
    cases sh with
    | file k => cases k <;> simp
    | _ => simp only <;> (try split) <;> simp

theorem fileStep_no_panic (files : Data) (t : List Char) (sh : Shape) (v : Val) (r : Val × Option Err)
    (h : fileStep files t sh v = some r) : r.2 ≠ some .panic := by
  unfold fileStep at h
  split at h
  · cases h
  · split at h
    · cases h; simp
    · split at h
      · split at h <;> (cases h; simp)
      · cases h
    · cases h

theorem taggedStep_no_panic (src : Src) (data files : Data) (hne : ∀ kv ∈ data, kv.2 ≠ []) (m : FMeta)
    (sh : Shape) (v : Val) : (taggedStep src data files m sh v).2 ≠ some .panic := by
  unfold taggedStep
  cases hf : fileStep files (m.tags.get src) sh v with
  | some r => exact fileStep_no_panic files _ sh v r hf
  | none =>
    cases hl : lookup data (m.tags.get src) with
    | none => simp
    | some values =>
      simp only
      split
      · split <;> simp
      · exact setField_no_panic sh v values (lookup_nonempty data hne _ values hl)

theorem bindS_nondesc_no_panic (src : Src) (data files : Data) (hne : ∀ kv ∈ data, kv.2 ≠ []) (m : FMeta)
    (s : Shape) (v : Val) (hnd : descends s v = false) : (bindS src data files m s v).2 ≠ some .panic := by
  cases s <;> cases v <;> simp only [descends] at hnd <;> try (exact absurd hnd (by decide))
  all_goals
    unfold bindS
    repeat' split
    all_goals first
      | exact taggedStep_no_panic src data files hne m _ _
      | simp

mutual
theorem bindF_no_panic (src : Src) (data files : Data) (hne : ∀ kv ∈ data, kv.2 ≠ []) :
    ∀ (fs : Fields) (vs : List Val), (bindF src data files fs vs).2 ≠ some .panic
  | .nil, vs => by simp [bindF]
  | .cons m s rest, [] => by simp [bindF]
  | .cons m s rest, v :: vs => by
    have h1 := bindS_no_panic src data files hne m s v
    have h2 := bindF_no_panic src data files hne rest vs
    unfold bindF
    cases hb : bindS src data files m s v with
    | mk v' e =>
      rw [hb] at h1
      cases e with
      | some e => simpa using h1
      | none => simpa using h2
theorem bindS_no_panic (src : Src) (data files : Data) (hne : ∀ kv ∈ data, kv.2 ≠ []) :
    ∀ (m : FMeta) (s : Shape) (v : Val), (bindS src data files m s v).2 ≠ some .panic
  | m, .struct fs, .struct vs => by
    have ih := bindF_no_panic src data files hne fs vs
    unfold bindS
    repeat' split
    all_goals first
      | exact ih
      | exact taggedStep_no_panic src data files hne m _ _
      | simp
  | m, .ptrStruct fs, .struct vs => by
    have ih := bindF_no_panic src data files hne fs vs
    unfold bindS
    repeat' split
    all_goals first
      | exact ih
      | exact taggedStep_no_panic src data files hne m _ _
      | simp
  | m, .struct fs, .leaf x => bindS_nondesc_no_panic src data files hne m _ _ rfl
  | m, .struct fs, .nilStruct => bindS_nondesc_no_panic src data files hne m _ _ rfl
  | m, .struct fs, .other => bindS_nondesc_no_panic src data files hne m _ _ rfl
  | m, .ptrStruct fs, .leaf x => bindS_nondesc_no_panic src data files hne m _ _ rfl
  | m, .ptrStruct fs, .nilStruct => bindS_nondesc_no_panic src data files hne m _ _ rfl
  | m, .ptrStruct fs, .other => bindS_nondesc_no_panic src data files hne m _ _ rfl
  | m, .scalar e, v => bindS_nondesc_no_panic src data files hne m _ _ (by cases v <;> rfl)
  | m, .ptr e, v => bindS_nondesc_no_panic src data files hne m _ _ (by cases v <;> rfl)
  | m, .slice e, v => bindS_nondesc_no_panic src data files hne m _ _ (by cases v <;> rfl)
  | m, .other, v => bindS_nondesc_no_panic src data files hne m _ _ (by cases v <;> rfl)
  | m, .unm, v => bindS_nondesc_no_panic src data files hne m _ _ (by cases v <;> rfl)
  | m, .multi, v => bindS_nondesc_no_panic src data files hne m _ _ (by cases v <;> rfl)
  | m, .file k, v => bindS_nondesc_no_panic src data files hne m _ _ (by cases v <;> rfl)
end

/-- **no panic** — with data as net/http produces them (every key has at least one value) the
    struct walk never reaches its only partial operation (`inputValue[0]`); uploaded files and
    multi-value destinations never touch it at all -/
theorem C09_no_panic (src : Src) (data files : Data) (hne : ∀ kv ∈ data, kv.2 ≠ []) (fs : Fields)
    (vs : List Val) : (bindData src data files (.struct fs) (.struct vs)).2 ≠ some .panic := by
  unfold bindData
  by_cases hd : data = [] ∧ files = []
  · simp [hd]
  · simp only [hd, if_false]
    exact bindF_no_panic src data files hne fs vs

/-! ## an untagged leaf is not even looked up (round 5) -/

/-- **C09_untagged_ignores_request** — for a field without a tag for the source that the walk does
    not descend into (every scalar, pointer, slice, map, interface, unmarshaler, file field, nil or
    non-embedded pointer to struct), the step does not depend on the request at all: whatever keys
    (the key of length 0 included), values and uploads are sent, it returns the field as it was,
    without error.  The lookup is never made with an empty name. -/
theorem C09_untagged_ignores_request (src : Src) (data files : Data) (m : FMeta) (s : Shape) (v : Val)
    (ht : m.tags.get src = []) (hd : descends s v = false) :
    bindS src data files m s v = (v, none) := by
  cases s <;> cases v <;> simp only [descends] at hd <;> try (exact absurd hd (by decide))
  all_goals
    unfold bindS
    simp [ht]

/-! ## uploaded files and multi-value destinations (round 4) -/

theorem bindS_file (src : Src) (data files : Data) (m : FMeta) (k : FileKind) (v : Val)
    (hexp : m.exported = true) (ht : m.tags.get src ≠ []) :
    bindS src data files m (.file k) v = taggedStep src data files m (.file k) v := by
  cases v <;> simp [bindS, hexp, ht]

theorem fileLookup_ne_nil (files : Data) (t : List Char) (x) (h : fileLookup files t = some x) : files ≠ [] := by
  intro hn; subst hn; simp [fileLookup] at h

/-- **C09_file_set** — an exported file field (`*FileHeader`, `[]*FileHeader`, `[]FileHeader`)
    whose tag for the source equals EXACTLY the name under which files were uploaded is set to
    these files (the pointer form to the first one), without error, and the value keys are not
    consulted for it at all -/
theorem C09_file_set (src : Src) (data files : Data) (m : FMeta) (k : FileKind) (v : Val)
    (hexp : m.exported = true) (ht : m.tags.get src ≠ []) (hk : k ≠ .plain) (f0 : List Char)
    (fs : List (List Char)) (hl : fileLookup files (m.tags.get src) = some (f0 :: fs)) :
    bindS src data files m (.file k) v =
      ((match k with
        | .ptr => .leaf (.one (.opq f0))
        | _ => .leaf (.many ((f0 :: fs).map .opq))), none) := by
  rw [bindS_file src data files m k v hexp ht]
  have hne := fileLookup_ne_nil files _ _ hl
  unfold taggedStep fileStep
  cases k with
  | plain => exact absurd rfl hk
  | _ => simp_all

/-- a plain `multipart.FileHeader` field with a tag is rejected as soon as the request carries files -/
theorem C09_file_plain_rejected (src : Src) (data files : Data) (m : FMeta) (v : Val)
    (hexp : m.exported = true) (ht : m.tags.get src ≠ []) (hf : files ≠ []) :
    bindS src data files m (.file .plain) v = (v, some .bad) := by
  rw [bindS_file src data files m .plain v hexp ht]
  unfold taggedStep fileStep
  simp [hf]

/-- **files reach the destination only through a multipart body**: unless the body step is the
    multipart step, the result of `Bind` does not depend on the uploaded files at all -/
theorem C09_files_only_multipart (d : Dest) (v : DVal) (r : BindReq) (fs' : Data)
    (h : r.hasBody = false ∨ mediaType r.ctype ≠ mMultipart) :
    bind d v { r with files := fs' } = bind d v r := by
  unfold bind bindBody
  rcases h with h | h <;> simp [h]

/-- **C09_multi_all_values** — a destination implementing `UnmarshalParams([]string)` receives
    ALL values of the key matching its tag, in order (not only the first) -/
theorem C09_multi_all_values (src : Src) (data files : Data) (m : FMeta) (v : Val)
    (hexp : m.exported = true) (ht : m.tags.get src ≠ []) (values : List (List Char))
    (hl : lookup data (m.tags.get src) = some values) :
    ((∀ s ∈ values, s.head? ≠ some '!') →
        bindS src data files m .multi v = (.leaf (.many (values.map .opq)), none))
    ∧ ((∃ s ∈ values, s.head? = some '!') → bindS src data files m .multi v = (v, some .bad)) := by
  have hb : bindS src data files m .multi v = taggedStep src data files m .multi v := by
    cases v <;> simp [bindS, hexp, ht]
  have hfs : fileStep files (m.tags.get src) .multi v = none := by
    unfold fileStep; split <;> rfl
  rw [hb]
  unfold taggedStep
  simp only [hfs, hl, multiParse]
  constructor
  · intro hall
    have : values.any (fun s => s.head? = some '!') = false := by
      simp only [List.any_eq_false, decide_eq_true_eq]
      exact hall
    simp [this]
  · intro hex
    have : values.any (fun s => s.head? = some '!') = true := by
      simp only [List.any_eq_true, decide_eq_true_eq]
      exact hex
    simp [this]

/-- **C09_malformed_query_400** — a form or multipart body step on a request whose URL query
    string does not parse is rejected with 400 and binds nothing (ParseForm / ParseMultipartForm
    report the error; contrast: the query step itself goes through `URL.Query()`, which drops the
    malformed pairs in silence — see the delivery note) -/
theorem C09_malformed_query_400 (d : Dest) (v : DVal) (r : BindReq) (hb : r.hasBody = true)
    (hm : mediaType r.ctype = mForm ∨ mediaType r.ctype = mMultipart) (hq : r.queryOK = false) :
    bindBody d v r = (v, .bad) := by
  have e1 : mForm ≠ mJSON := by decide
  have e2 : mForm ≠ mXML := by decide
  have e3 : mForm ≠ mTextXML := by decide
  have e4 : mMultipart ≠ mJSON := by decide
  have e5 : mMultipart ≠ mXML := by decide
  have e6 : mMultipart ≠ mTextXML := by decide
  have e7 : mMultipart ≠ mForm := by decide
  unfold bindBody
  rcases hm with hm | hm <;> simp [hb, hm, hq, e1, e2, e3, e4, e5, e6, e7]

/-- **C09_unknown_length_like_known** (round 6) — a body of unknown length (`ContentLength = -1`) is
    bound exactly like the same body with any non-zero declared length: same destination, same
    status, for every destination, method, Content-Type and content.  (`BindReq` carries nothing of
    the declared length but `hasBody`; the parsed body contents are the same bytes either way.) -/
theorem C09_unknown_length_like_known (d : Dest) (v : DVal) (r : BindReq) (n : Nat) (hn : n ≠ 0) :
    bind d v { r with hasBody := (BodyLen.known n).hasBody }
      = bind d v { r with hasBody := BodyLen.unknown.hasBody }
    ∧ bindBody d v { r with hasBody := (BodyLen.known n).hasBody }
      = bindBody d v { r with hasBody := BodyLen.unknown.hasBody } := by
  have : (BodyLen.known n).hasBody = BodyLen.unknown.hasBody := by
    cases n with
    | zero => exact absurd rfl hn
    | succ k => rfl
  rw [this]
  exact ⟨rfl, rfl⟩

/-! ## map destinations: later sources override only the keys they carry (round 4) -/

/-- the entry of a map destination under `key` -/
def mapGet (entries : Data) (key : List Char) : Option (List (List Char)) :=
  (entries.find? (fun kv => kv.1 == key)).map (·.2)

theorem mapGet_mapInsert (k : List Char) (v : List (List Char)) :
    ∀ (entries : Data) (key : List Char),
      mapGet (mapInsert k v entries) key = if key = k then some v else mapGet entries key
  | [], key => by
    by_cases h : key = k
    · subst h; simp [mapInsert, mapGet]
    · have : ¬ k = key := fun e => h e.symm
      simp [mapInsert, mapGet, h, this]
  | (k', v') :: rest, key => by
    have ih := mapGet_mapInsert k v rest key
    unfold mapInsert
    by_cases hk : k = k'
    · subst hk
      by_cases h : key = k
      · subst h; simp [mapGet]
      · have : ¬ k = key := fun e => h e.symm
        simp [mapGet, h, this]
    · have hk' : (k == k') = false := by simpa using hk
      simp only [hk', Bool.false_eq_true, if_false]
      by_cases hle : leChars k k' = true
      · simp only [hle, if_true]
        by_cases h : key = k
        · subst h; simp [mapGet]
        · have : ¬ k = key := fun e => h e.symm
          simp [mapGet, h, this]
      · simp only [hle, Bool.false_eq_true, if_false]
        by_cases h' : k' = key
        · subst h'
          have : ¬ k' = k := fun e => hk e.symm
          simp [mapGet, this]
        · have e1 : mapGet ((k', v') :: mapInsert k v rest) key = mapGet (mapInsert k v rest) key := by
            simp [mapGet, h']
          have e2 : mapGet ((k', v') :: rest) key = mapGet rest key := by
            simp [mapGet, h']
          rw [e1, e2, ih]

/-- what a map of element kind `kind` stores for a value list -/
def mapNorm (kind : MapKind) (vs : List (List Char)) : List (List Char) :=
  match kind with
  | .strs => vs
  | _ => vs.take 1

/-- the value one source contributes for `key` (none = the source does not carry the key) -/
def srcGet (kind : MapKind) : Data → List Char → Option (List (List Char))
  | [], _ => none
  | (k, vs) :: rest, key =>
    match srcGet kind rest key with
    | some x => some x
    | none => if key = k then some (mapNorm kind vs) else none

/-- one source laid over what was there -/
def overlay (kind : MapKind) (data : Data) (key : List Char) (base : Option (List (List Char))) :
    Option (List (List Char)) :=
  match srcGet kind data key with
  | some x => some x
  | none => base

theorem mapBind_get (kind : MapKind) :
    ∀ (data : Data) (acc : Data), (∀ kv ∈ data, kv.2 ≠ []) →
      (mapBind kind data acc).2 = none
      ∧ ∀ key, mapGet (mapBind kind data acc).1 key = overlay kind data key (mapGet acc key)
  | [], acc, _ => by simp [mapBind, overlay, srcGet]
  | (k, vs) :: rest, acc, hne => by
    have hvs : vs ≠ [] := hne (k, vs) (by simp)
    have hrest : ∀ kv ∈ rest, kv.2 ≠ [] := fun kv h => hne kv (List.mem_cons_of_mem _ h)
    cases vs with
    | nil => exact absurd rfl hvs
    | cons v0 vr =>
      have key_step : mapBind kind ((k, v0 :: vr) :: rest) acc
          = mapBind kind rest (mapInsert k (mapNorm kind (v0 :: vr)) acc) := by
        cases kind <;> simp [mapBind, mapNorm]
      rw [key_step]
      obtain ⟨i1, i2⟩ := mapBind_get kind rest (mapInsert k (mapNorm kind (v0 :: vr)) acc) hrest
      refine ⟨i1, ?_⟩
      intro key
      rw [i2 key, mapGet_mapInsert]
      unfold overlay
      simp only [srcGet]
      cases srcGet kind rest key with
      | some x => simp
      | none => by_cases hkk : key = k <;> simp [hkk]

/-- one `bindData` step on a supported map destination -/
theorem bindData_map (src : Src) (data files : Data) (kind : MapKind) (hk : kind ≠ .unsupported)
    (isNil : Bool) (entries : Data) (hne : ∀ kv ∈ data, kv.2 ≠ []) :
    ∃ isNil' entries', bindData src data files (.map kind) (.map isNil entries) = (.map isNil' entries', none)
      ∧ ∀ key, mapGet entries' key = overlay kind data key (mapGet entries key) := by
  unfold bindData
  by_cases hd : data = [] ∧ files = []
  · refine ⟨isNil, entries, by simp [hd], ?_⟩
    intro key
    simp [hd.1, overlay, srcGet]
  · obtain ⟨h1, h2⟩ := mapBind_get kind data entries hne
    refine ⟨false, (mapBind kind data entries).1, ?_, h2⟩
    cases kind <;> simp_all

theorem overlay_nil (kind : MapKind) (key : List Char) (base) : overlay kind [] key base = base := by
  simp [overlay, srcGet]

theorem bindBody_map (kind : MapKind) (hk : kind ≠ .unsupported) (isNil : Bool) (entries : Data)
    (r : BindReq) (hf : ∀ kv ∈ formOf r, kv.2 ≠ []) (hnd : ¬ decoded r) (v' : DVal)
    (h : bindBody (.map kind) (.map isNil entries) r = (v', .ok)) :
    ∃ isNil' entries', v' = .map isNil' entries'
      ∧ ∀ key, mapGet entries' key = overlay kind (formOf r) key (mapGet entries key) := by
  unfold bindBody at h
  unfold formOf at hf ⊢
  unfold decoded at hnd
  by_cases hb : r.hasBody = false
  · simp only [hb, if_true, Prod.mk.injEq] at h ⊢
    exact ⟨isNil, entries, h.1.symm, fun key => by rw [overlay_nil]⟩
  · have hb' : r.hasBody = true := by cases hh : r.hasBody <;> simp_all
    simp only [hb', Bool.true_eq_false, if_false] at h hf ⊢
    by_cases h1 : mediaType r.ctype = mJSON
    · exact absurd ⟨hb', Or.inl h1⟩ hnd
    · by_cases h2 : mediaType r.ctype = mXML ∨ mediaType r.ctype = mTextXML
      · exact absurd ⟨hb', Or.inr h2⟩ hnd
      · simp only [h1, h2, if_false] at h hf ⊢
        by_cases h3 : mediaType r.ctype = mForm
        · simp only [h3, if_true] at h hf ⊢
          by_cases hq : r.queryOK = false
          · simp [hq] at h
          have hq' : r.queryOK = true := by cases hh : r.queryOK <;> simp_all
          simp only [hq', Bool.true_eq_false, if_false] at h hf ⊢
          by_cases h4 : bodyFormMethods.contains r.method = true
          · simp only [h4, if_true] at h hf ⊢
            cases hfb : r.formBody with
            | none => simp [hfb] at h
            | some body =>
              simp only [hfb] at h hf ⊢
              obtain ⟨n', e', a, b⟩ := bindData_map .form (mergeData body r.query) [] kind hk isNil entries hf
              rw [a] at h
              simp only [Prod.mk.injEq] at h
              exact ⟨n', e', h.1.symm, b⟩
          · simp only [h4, Bool.false_eq_true, if_false] at h hf ⊢
            obtain ⟨n', e', a, b⟩ := bindData_map .form r.query [] kind hk isNil entries hf
            rw [a] at h
            simp only [Prod.mk.injEq] at h
            exact ⟨n', e', h.1.symm, b⟩
        · simp only [h3, if_false] at h hf ⊢
          by_cases h5 : mediaType r.ctype = mMultipart
          · simp only [h5, if_true] at h hf ⊢
            by_cases hq : r.queryOK = false
            · simp [hq] at h
            have hq' : r.queryOK = true := by cases hh : r.queryOK <;> simp_all
            simp only [hq', Bool.true_eq_false, if_false] at h hf ⊢
            cases hmp : r.multipart with
            | none => simp [hmp] at h
            | some body =>
              simp only [hmp] at h hf ⊢
              obtain ⟨n', e', a, b⟩ := bindData_map .form body r.files kind hk isNil entries hf
              rw [a] at h
              simp only [Prod.mk.injEq] at h
              exact ⟨n', e', h.1.symm, b⟩
          · simp [h5] at h

/-- **C09_map_precedence** — `Bind` into `map[string]string`, `map[string]interface{}` or
    `map[string][]string`: if it succeeds, the entry under every key is what the LAST of the
    sources path → query (GET/DELETE/HEAD only) → form/multipart body that carries this very key
    (keys of a map are compared exactly) contributes — first value, or all values for
    `[]string` elements — and the entry the map held before if no source carries the key.  A
    later source overrides only the keys it carries; nothing else is dropped. -/
theorem C09_map_precedence (kind : MapKind) (hk : kind ≠ .unsupported) (isNil : Bool) (entries : Data)
    (r : BindReq) (hp : ∀ kv ∈ r.params, kv.2 ≠ []) (hq : ∀ kv ∈ queryOf r, kv.2 ≠ [])
    (hf : ∀ kv ∈ formOf r, kv.2 ≠ []) (hnd : ¬ decoded r) (v' : DVal)
    (h : bind (.map kind) (.map isNil entries) r = (v', .ok)) :
    ∃ isNil' entries', v' = .map isNil' entries'
      ∧ ∀ key, mapGet entries' key =
          overlay kind (formOf r) key
            (overlay kind (queryOf r) key
              (overlay kind r.params key (mapGet entries key))) := by
  unfold bind at h
  simp only at h
  obtain ⟨n1, e1, a1, b1⟩ := bindData_map .param r.params [] kind hk isNil entries hp
  rw [a1] at h
  simp only at h
  unfold queryOf at hq ⊢
  by_cases hm : queryMethods.contains r.method = true
  · simp only [hm, if_true] at h hq ⊢
    obtain ⟨n2, e2, a2, b2⟩ := bindData_map .query r.query [] kind hk n1 e1 hq
    rw [a2] at h
    simp only at h
    obtain ⟨n3, e3, a3, b3⟩ := bindBody_map kind hk n2 e2 r hf hnd v' h
    exact ⟨n3, e3, a3, fun key => by rw [b3, b2, b1]⟩
  · simp only [hm, Bool.false_eq_true, if_false] at h ⊢
    obtain ⟨n3, e3, a3, b3⟩ := bindBody_map kind hk n1 e1 r hf hnd v' h
    exact ⟨n3, e3, a3, fun key => by rw [b3, overlay_nil, b1]⟩

/-! ## non-vacuity: a mass-assignment attempt on a concrete destination

`Val` is a nested inductive without derived `DecidableEq`; the examples compare the pre-order
flattening `flatVs` (tokens with decidable equality), evaluated by the kernel. -/

inductive Tok where
  | leaf (v : FVal) | struct (n : Nat) | nilStruct | other
deriving DecidableEq, Repr

mutual
def flatV : Val → List Tok
  | .leaf v => [.leaf v]
  | .struct vs => .struct (lenVals vs) :: flatVs vs
  | .nilStruct => [.nilStruct]
  | .other => [.other]
def flatVs : List Val → List Tok
  | [] => []
  | v :: vs => flatV v ++ flatVs vs
end

def flatD : DVal → List Tok
  | .struct vs => flatVs vs
  | _ => [.other]


/-- `struct { ID int `param:"id" query:"id"`; IsAdmin bool; Nested struct { Note string `query:"n" form:"n"` }; P *int8 `form:"p"` }` -/
def exFs : Fields :=
  .cons ⟨⟨['i','d'], ['i','d'], [], []⟩, false, true⟩ (.scalar (.num (.structInt .wInt)))
  (.cons ⟨⟨[], [], [], []⟩, false, true⟩ (.scalar .bool)
  (.cons ⟨⟨[], [], [], []⟩, false, true⟩
      (.struct (.cons ⟨⟨[], ['n'], ['n'], []⟩, false, true⟩ (.scalar .str) .nil))
  (.cons ⟨⟨[], [], ['p'], []⟩, false, true⟩ (.ptr (.num (.structInt .w8))) .nil)))

def exVs : List Val :=
  [.leaf (.one (.int 1)), .leaf (.one (.bool false)), .struct [.leaf (.one (.opq ['o']))], .leaf .nil]

/-- the client sends `id=7&IsAdmin=true&isadmin=1&N=x&p=5` -/
def exData : Data :=
  [(['i','d'], [['7']]), (['I','s','A','d','m','i','n'], [['t','r','u','e']]),
   (['i','s','a','d','m','i','n'], [['1']]), (['N'], [['x']]), (['p'], [['5']])]

-- the query source writes ID and (through the case-insensitive fallback) Nested.Note, nothing else
example : flatVs (bindF .query exData [] exFs exVs).1
      = flatVs [.leaf (.one (.int 7)), .leaf (.one (.bool false)), .struct [.leaf (.one (.opq ['x']))], .leaf .nil]
    ∧ (bindF .query exData [] exFs exVs).2 = none := by
  decide +kernel
-- the mask of C09_untagged_untouched hides exactly the two query-tagged fields and keeps the rest visible
example : flatVs (maskF .query (tagged .query) exFs exVs)
    = flatVs [.other, .leaf (.one (.bool false)), .struct [.other], .leaf .nil] := by decide +kernel
-- the finer mask of C09_key_must_equal_tag with data that has no key for `n`
example : flatVs (maskF .query (keyed .query [(['i','d'], [['7']])] []) exFs exVs)
    = flatVs [.other, .leaf (.one (.bool false)), .struct [.leaf (.one (.opq ['o']))], .leaf .nil] := by decide +kernel
-- a malformed value: 400 and the pointer field is left allocated; fields before it are bound
example : flatVs (bindF .form [(['n'], [['y']]), (['p'], [['1','2','8']])] [] exFs exVs).1
      = flatVs [.leaf (.one (.int 1)), .leaf (.one (.bool false)), .struct [.leaf (.one (.opq ['y']))],
        .leaf (.one (.int 0))]
    ∧ (bindF .form [(['n'], [['y']]), (['p'], [['1','2','8']])] [] exFs exVs).2 = some .bad := by decide +kernel
example : badIn (.num (.structInt .w8)) ['p'] [(['p'], [['1','2','8']])] := by
  refine ⟨by decide, [['1','2','8']], by decide, by decide⟩

def exReq (method ctype : List Char) (hasBody : Bool) : BindReq :=
  { method := method, params := [(['i','d'], [['1','0']])], query := [(['i','d'], [['2','0']]), (['n'], [['q']])],
    hasBody := hasBody, ctype := ctype, json := (.opaque, false), xml := (.opaque, false),
    formBody := some [(['n'], [['f']]), (['i','d'], [['3','0']])], multipart := none, files := [], queryOK := true }

-- GET: path then query; the form tag is not consulted without a body
example : flatD (bind (.struct exFs) (.struct exVs) (exReq ['G','E','T'] [] false)).1
      = flatVs [.leaf (.one (.int 20)), .leaf (.one (.bool false)), .struct [.leaf (.one (.opq ['q']))], .leaf .nil]
    ∧ (bind (.struct exFs) (.struct exVs) (exReq ['G','E','T'] [] false)).2 = .ok := by
  decide +kernel
-- POST with a form body: the query string is NOT bound through the `query` tag (ID stays 10), the
-- form body wins for `n`
example : flatD (bind (.struct exFs) (.struct exVs) (exReq ['P','O','S','T'] mForm true)).1
      = flatVs [.leaf (.one (.int 10)), .leaf (.one (.bool false)), .struct [.leaf (.one (.opq ['f']))], .leaf .nil]
    ∧ (bind (.struct exFs) (.struct exVs) (exReq ['P','O','S','T'] mForm true)).2 = .ok := by
  decide +kernel
-- the hypotheses of C09_precedence / C09_415 are satisfiable
example : ¬ decoded (exReq ['P','O','S','T'] mForm true) := by
  intro h; exact absurd h.2 (by decide)
example : (bind (.struct exFs) (.struct exVs) (exReq ['P','O','S','T'] ['t','e','x','t','/','p','l','a','i','n'] true)).2
    = .unsupported := by decide
example : mediaType ['t','e','x','t','/','p','l','a','i','n'] ≠ mJSON ∧ mediaType [' ','a','p','p','l','i','c','a','t','i','o','n','/','j','s','o','n',';','x'] = mJSON := by
  decide
-- a tagged embedded struct is an error as soon as the source has any data; a tagged plain struct only when its key is sent
example : (bindF .query [(['z'], [['1']])] []
    (.cons ⟨⟨[], ['e'], [], []⟩, true, true⟩ (.struct .nil) .nil) [.struct []]).2 = some .bad := by decide
example : (bindF .query [(['z'], [['1']])] []
    (.cons ⟨⟨[], ['e'], [], []⟩, false, true⟩ (.struct .nil) .nil) [.struct []]).2 = none := by decide
-- the partial operation: an empty value list (not producible by net/http)
example : (bindF .query [(['i','d'], [])] [] exFs exVs).2 = some .panic := by decide

-- round 4 --------------------------------------------------------------------------------------

/-- `struct { Doc *multipart.FileHeader `form:"doc"`; All []*multipart.FileHeader `form:"all"`;
     Name string `form:"name"`; M Multi `form:"m"` }` -/
def exFileFs : Fields :=
  .cons ⟨⟨[], [], ['d','o','c'], []⟩, false, true⟩ (.file .ptr)
  (.cons ⟨⟨[], [], ['a','l','l'], []⟩, false, true⟩ (.file .ptrSlice)
  (.cons ⟨⟨[], [], ['n','a','m','e'], []⟩, false, true⟩ (.scalar .str)
  (.cons ⟨⟨[], [], ['m'], []⟩, false, true⟩ .multi .nil)))

def exFileVs : List Val := [.leaf .nil, .leaf .nil, .leaf (.one (.opq ['o'])), .leaf (.many [])]

-- files `doc` (two of them) and `ALL`, values `name=n`, `M=1`, `M=2`: Doc gets the first file, the
-- upload named `ALL` does NOT reach the tag `all` (exact names only), the multi-value field gets
-- both values through the case-insensitive value lookup
example : flatVs (bindF .form [(['n','a','m','e'], [['n']]), (['M'], [['1'], ['2']])]
      [(['d','o','c'], [['a'], ['b']]), (['A','L','L'], [['c']])] exFileFs exFileVs).1
    = flatVs [.leaf (.one (.opq ['a'])), .leaf .nil, .leaf (.one (.opq ['n'])), .leaf (.many [.opq ['1'], .opq ['2']])]
    ∧ (bindF .form [(['n','a','m','e'], [['n']]), (['M'], [['1'], ['2']])]
      [(['d','o','c'], [['a'], ['b']]), (['A','L','L'], [['c']])] exFileFs exFileVs).2 = none := by
  decide +kernel
-- a TEXT under the name of a file field is an error (and the nil pointer is left allocated) …
example : (bindF .form [(['d','o','c'], [['t']])] [] exFileFs exFileVs).2 = some .bad := by decide +kernel
-- … unless a file was uploaded under that name: the field is set and the text is not looked at
example : (bindF .form [(['d','o','c'], [['t']])] [(['d','o','c'], [['a']])] exFileFs exFileVs).2 = none := by
  decide +kernel
-- hypotheses of C09_file_set / C09_file_plain_rejected / C09_multi_all_values are satisfiable
example : fileLookup [(['d','o','c'], [['a'], ['b']])] ['d','o','c'] = some [['a'], ['b']] := by decide
example : (bindS .form [] [(['x'], [['a']])] ⟨⟨[], [], ['f'], []⟩, false, true⟩ (.file .plain) (.leaf (.one (.opq [])))).2
    = some .bad := by decide
example : lookup [(['M'], [['1'], ['2']])] ['m'] = some [['1'], ['2']] := by decide
-- the finer mask: an upload named `ALL` does not select the field tagged `all`, one named `all` does
example : keyed .form [] [(['A','L','L'], [['c']])] ⟨⟨[], [], ['a','l','l'], []⟩, false, true⟩ = false
    ∧ keyed .form [] [(['a','l','l'], [['c']])] ⟨⟨[], [], ['a','l','l'], []⟩, false, true⟩ = true := by decide

/-- GET /:id/:p?id=q1&q=q2 with a urlencoded body `id=f1&f=f2` (GET: the body is not read, the
    form step sees the URL query) into a map that already holds `old` and `id` -/
def exMapReq (method : List Char) : BindReq :=
  { method := method, params := [(['i','d'], [['p','1']]), (['p'], [['p','2']])],
    query := [(['i','d'], [['q','1'], ['q','x']]), (['q'], [['q','2']])],
    hasBody := true, ctype := mForm, json := (.opaque, false), xml := (.opaque, false),
    formBody := some [(['i','d'], [['f','1']]), (['f'], [['f','2']])], multipart := none, files := [], queryOK := true }

def exMapInit : Data := [(['i','d'], [['0']]), (['o','l','d'], [['i']])]

def mapOf : DVal → Data
  | .map _ e => e
  | _ => []

-- POST: path, then the form body merged with the URL query (body first): id = f1, and the entries
-- only one source carries (`p`, `f`, `q`) as well as the old entry survive
example : (bind (.map .str) (.map false exMapInit) (exMapReq ['P','O','S','T'])).2 = .ok
    ∧ mapGet (mapOf (bind (.map .str) (.map false exMapInit) (exMapReq ['P','O','S','T'])).1) ['i','d'] = some [['f','1']]
    ∧ mapGet (mapOf (bind (.map .str) (.map false exMapInit) (exMapReq ['P','O','S','T'])).1) ['p'] = some [['p','2']]
    ∧ mapGet (mapOf (bind (.map .str) (.map false exMapInit) (exMapReq ['P','O','S','T'])).1) ['q'] = some [['q','2']]
    ∧ mapGet (mapOf (bind (.map .str) (.map false exMapInit) (exMapReq ['P','O','S','T'])).1) ['o','l','d'] = some [['i']] := by
  decide +kernel
-- GET: path, then query: id = q1 (first value; both values for map[string][]string)
example : mapGet (mapOf (bind (.map .str) (.map false exMapInit) (exMapReq ['G','E','T'])).1) ['i','d'] = some [['q','1']]
    ∧ mapGet (mapOf (bind (.map .strs) (.map false exMapInit) (exMapReq ['G','E','T'])).1) ['i','d'] = some [['q','1'], ['q','x']]
    ∧ mapGet (mapOf (bind (.map .str) (.map false exMapInit) (exMapReq ['G','E','T'])).1) ['f'] = none := by
  decide +kernel
example : ¬ decoded (exMapReq ['P','O','S','T']) := by
  intro h; exact absurd h.2 (by decide)
-- the same request with an unparsable URL query: 400, the map is left alone
example : (bind (.map .str) (.map false exMapInit) { exMapReq ['P','O','S','T'] with queryOK := false }).2 = .bad
    ∧ mapGet (mapOf (bind (.map .str) (.map false exMapInit) { exMapReq ['P','O','S','T'] with queryOK := false }).1) ['f'] = none := by
  decide +kernel

-- round 5: the client sends the key of length 0 (`?=admin`, body `=admin`): nothing is bound —
-- neither the untagged `IsAdmin`, nor the tagged fields (their tags are not empty)
example : flatVs (bindF .query [([], [['a','d','m','i','n']]), ([], [['1']])] [] exFs exVs).1 = flatVs exVs
    ∧ (bindF .query [([], [['a','d','m','i','n']])] [] exFs exVs).2 = none := by decide +kernel
-- `lookup` WOULD find the empty key if it were asked for the empty name — the walk never asks
example : lookup [([], [['x']])] [] = some [['x']] := by decide

-- round 6: ContentLength 0 skips the body whatever it is, -1 and 17 do not
example : (BodyLen.known 0).hasBody = false ∧ (BodyLen.known 17).hasBody = true ∧ BodyLen.unknown.hasBody = true := by decide
example : (bind (.struct exFs) (.struct exVs) { exReq ['P','O','S','T'] mForm true with hasBody := BodyLen.unknown.hasBody }).2 = .ok
    ∧ flatD (bind (.struct exFs) (.struct exVs) { exReq ['P','O','S','T'] mForm true with hasBody := BodyLen.unknown.hasBody }).1
      = flatVs [.leaf (.one (.int 10)), .leaf (.one (.bool false)), .struct [.leaf (.one (.opq ['f']))], .leaf .nil] := by
  decide +kernel

-- round 7: GET /:id?id= — the path gives 10, the query carries `id` with an empty value: 0, not 10;
-- and `n=` clears the nested string that held "o"
example : flatD (bind (.struct exFs) (.struct exVs)
      { exReq ['G','E','T'] [] false with query := [(['i','d'], [[]]), (['n'], [[]])] }).1
    = flatVs [.leaf (.one (.int 0)), .leaf (.one (.bool false)), .struct [.leaf (.one (.opq []))], .leaf .nil] := by
  decide +kernel
example : lookup [(['i','d'], [[]])] ['i','d'] = some [[]] := by decide


/-! ## round 8: the only freedom a key has is letter case; every decoder media type maps a rejected
    document to 400 -/

/-- ASCII letter -/
def isLetter (c : Char) : Bool := (65 ≤ c.toNat && c.toNat ≤ 90) || (97 ≤ c.toNat && c.toNat ≤ 122)

theorem lowerC_eq_of_not_letter (a b : Char) (hb : isLetter b = false) (h : lowerC a = lowerC b) : a = b := by
  have hb' : lowerC b = b := by
    unfold lowerC
    split
    · rename_i hu; simp [isLetter] at hb; omega
    · rfl
  rw [hb'] at h
  unfold lowerC at h
  split at h
  · rename_i hu
    exfalso
    have hv : (a.toNat + 32).isValidChar := by
      unfold Nat.isValidChar; omega
    have : b.toNat = a.toNat + 32 := by
      rw [← h, Char.ofNat, dif_pos hv]; rfl
    simp [isLetter] at hb
    omega
  · exact h

theorem foldEq_cons (a b : Char) (as bs : List Char) :
    foldEq (a :: as) (b :: bs) = true ↔ lowerC a = lowerC b ∧ foldEq as bs = true := by
  simp [foldEq]

/-- **fold-equal strings differ in letter case only**: same length, and wherever the tag has a byte
    that is not a letter — `-`, `_`, `.`, a blank, a digit, a bracket — the key has the very same byte -/
theorem foldEq_exact_off_letters : ∀ (k t : List Char), foldEq k t = true →
    k.length = t.length ∧ ∀ (i : Nat) (c : Char), t[i]? = some c → isLetter c = false → k[i]? = some c
  | [], [] => by intro _; simp
  | [], _ :: _ => by intro h; simp [foldEq] at h
  | _ :: _, [] => by intro h; simp [foldEq] at h
  | a :: as, b :: bs => by
    intro h
    obtain ⟨h1, h2⟩ := (foldEq_cons a b as bs).1 h
    obtain ⟨il, ie⟩ := foldEq_exact_off_letters as bs h2
    refine ⟨by simp [il], ?_⟩
    intro i c hc hl
    cases i with
    | zero =>
      simp only [List.getElem?_cons_zero, Option.some.injEq] at hc ⊢
      subst hc
      exact lowerC_eq_of_not_letter a b hl h1
    | succ j =>
      simp only [List.getElem?_cons_succ] at hc ⊢
      exact ie j c hc hl

/-- **C09_key_differs_in_letter_case_only** — whatever value list `bindData` finds for a tag comes from
    a key of the same length that agrees with the tag at every non-letter position: no other
    separator (`x_is_admin` for `x-is-admin`), no dropped or added separator, no affix.
    Together with `C09_key_must_equal_tag`: only such keys can make a field change. -/
theorem C09_key_differs_in_letter_case_only (data : Data) (tag : List Char) (vals : List (List Char))
    (h : lookup data tag = some vals) :
    ∃ kv ∈ data, kv.2 = vals ∧ kv.1.length = tag.length
      ∧ ∀ (i : Nat) (c : Char), tag[i]? = some c → isLetter c = false → kv.1[i]? = some c := by
  obtain ⟨kv, hm, hf, hv⟩ := lookup_some_key data tag vals h
  obtain ⟨hl, he⟩ := foldEq_exact_off_letters kv.1 tag hf
  exact ⟨kv, hm, hv, hl, he⟩

/-- a key that differs from the tag in one non-letter byte finds nothing -/
theorem C09_separator_variant_misses (key tag : List Char) (vals : List (List Char)) (i : Nat) (c d : Char)
    (ht : tag[i]? = some c) (hk : key[i]? = some d) (hcd : d ≠ c) (hl : isLetter c = false) :
    lookup [(key, vals)] tag = none := by
  cases h : lookup [(key, vals)] tag with
  | none => rfl
  | some w =>
    obtain ⟨kv, hm, _, _, he⟩ := C09_key_differs_in_letter_case_only _ _ _ h
    simp only [List.mem_singleton] at hm
    subst hm
    have := he i c ht hl
    simp only at this
    rw [hk] at this
    exact absurd (Option.some.inj this) hcd

/-! ### decoded bodies -/

theorem mediaType_mXML : mediaType mXML = mXML := by decide +kernel
theorem mediaType_mTextXML : mediaType mTextXML = mTextXML := by decide +kernel
theorem mTextXML_ne : mTextXML ≠ mJSON ∧ mTextXML ≠ mXML ∧ mXML ≠ mJSON := by decide +kernel

/-- **C09_xml_types_agree** — `BindBody` (and `Bind`) treat every Content-Type whose media type is
    `text/xml` exactly like `application/xml`: the same decoder answer, the same status, for every
    destination, value and request.  No XML media type has a decoder, or an error mapping, of its own. -/
theorem C09_xml_types_agree (d : Dest) (v : DVal) (r : BindReq) (ct1 ct2 : List Char)
    (h1 : mediaType ct1 = mXML ∨ mediaType ct1 = mTextXML) (h2 : mediaType ct2 = mXML ∨ mediaType ct2 = mTextXML) :
    bindBody d v { r with ctype := ct1 } = bindBody d v { r with ctype := ct2 }
    ∧ bind d v { r with ctype := ct1 } = bind d v { r with ctype := ct2 } := by
  have hj : ∀ ct, (mediaType ct = mXML ∨ mediaType ct = mTextXML) → mediaType ct ≠ mJSON := by
    intro ct h hh
    cases h with
    | inl h => rw [h] at hh; exact mTextXML_ne.2.2 hh
    | inr h => rw [h] at hh; exact mTextXML_ne.1 hh
  have key : ∀ ct, (mediaType ct = mXML ∨ mediaType ct = mTextXML) → ∀ w,
      bindBody d w { r with ctype := ct } = if r.hasBody = false then (w, .ok) else (r.xml.1, if r.xml.2 then .ok else .bad) := by
    intro ct h w
    unfold bindBody
    simp only [hj ct h, h, if_false, if_true]
  have hb : ∀ w, bindBody d w { r with ctype := ct1 } = bindBody d w { r with ctype := ct2 } := by
    intro w; rw [key ct1 h1 w, key ct2 h2 w]
  refine ⟨hb v, ?_⟩
  unfold bind
  simp only [hb]

/-- which decoder answer `BindBody` uses for a request, if any -/
def decoderRejects (r : BindReq) : Prop :=
  (mediaType r.ctype = mJSON ∧ r.json.2 = false)
  ∨ ((mediaType r.ctype = mXML ∨ mediaType r.ctype = mTextXML) ∧ r.xml.2 = false)

/-- **C09_decoded_malformed_400** — a non-empty body whose media type selects a decoder (JSON, or XML
    under either of its media types, with any parameters / padding `mediaType` strips) and which that
    decoder rejects: `BindBody` answers 400, and `Bind` never succeeds — whatever the destination, the
    method, the path and query data -/
theorem C09_decoded_malformed_400 (d : Dest) (v : DVal) (r : BindReq) (hb : r.hasBody = true)
    (hr : decoderRejects r) : (bindBody d v r).2 = .bad ∧ (bind d v r).2 ≠ .ok := by
  have key : ∀ w, (bindBody d w r).2 = .bad := by
    intro w
    unfold bindBody
    simp only [hb, Bool.true_eq_false, if_false]
    cases hr with
    | inl h => simp [h.1, h.2]
    | inr h =>
      have hj : mediaType r.ctype ≠ mJSON := by
        intro hh
        cases h.1 with
        | inl h' => rw [h'] at hh; exact mTextXML_ne.2.2 hh
        | inr h' => rw [h'] at hh; exact mTextXML_ne.1 hh
      simp [hj, h.1, h.2]
  refine ⟨key v, ?_⟩
  unfold bind
  simp only
  split
  · rename_i e he
    cases e <;> simp [statusOf]
  · split
    · split
      · rename_i e he
        cases e <;> simp [statusOf]
      · rw [key]; decide
    · rw [key]; decide

-- round 8 --------------------------------------------------------------------------------------

-- `X_Is_Admin: 1` does not reach a field tagged `x-is-admin`; `X-IS-ADMIN` does
example : lookup [("X_Is_Admin".toList, [['1']])] "x-is-admin".toList = none := by decide +kernel
example : lookup [("X-IS-ADMIN".toList, [['1']])] "x-is-admin".toList = some [['1']] := by decide +kernel
example : lookup [("X_Is_Admin".toList, [['1']])] "x-is-admin".toList = none :=
  C09_separator_variant_misses _ _ _ 1 '-' '_' (by decide +kernel) (by decide +kernel) (by decide) (by decide +kernel)
-- conversely a tag spelled with `_` is found under its own spelling and not under the dashed one
example : lookup [("X_Legacy_Id".toList, [['7']])] "x_legacy_id".toList = some [['7']]
    ∧ lookup [("X-Legacy-Id".toList, [['7']])] "x_legacy_id".toList = none := by decide +kernel
example : foldEq "userid".toList "user_id".toList = false ∧ foldEq "HTTP_X_ID".toList "x-id".toList = false := by decide +kernel
-- the spellings of the XML media types all select the one XML branch
example : mediaType "text/xml; charset=utf-8".toList = mTextXML ∧ mediaType " text/xml".toList = mTextXML
    ∧ mediaType "application/xml ;q=1".toList = mXML := by decide +kernel
-- a rejected XML document under text/xml: 400 through BindBody and through Bind (POST, path and query fine)
example : decoderRejects { exReq ['P','O','S','T'] "text/xml; charset=utf-8".toList true with xml := (.struct exVs, false) } :=
  Or.inr ⟨Or.inr (by decide +kernel), rfl⟩
example : (bind (.struct exFs) (.struct exVs) { exReq ['P','O','S','T'] "text/xml".toList true with xml := (.struct exVs, false) }).2 = .bad := by
  decide +kernel

end C09
