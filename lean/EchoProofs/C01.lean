import EchoModel.C01
import EchoProofs.Spec.Sound
/-!
# C01 — a dispatched route really matches the path; parameters reconstruct it

Theorems on the reference search (layer L1, to which the tree of router.go is tied by the
correspondence runs of C01 and C02):

* `C01_sound_partial`  every dispatch is either a direct hit — then substituting the values for
  the markers of the pattern gives back the request path byte for byte, there is exactly one
  value per marker, and a parameter followed by more pattern text holds no `/` — or the
  fallback to the custom not-found route of the best position (finding F3: its pattern
  matches the path but the handler sees blank values).
* `C01_full_statement_fails_F3`  the full-strength statement is false of the code (and of the
  model that mirrors it): concrete witness, replayed on the implementation by the corpus.
* `C01_values_are_factors`  every value a handler sees is a contiguous piece of *this*
  request's path (nothing from an abandoned branch or an earlier request).
-/
namespace C01
open Router.Spec
open Router (Str routeNotFound Route)

/-- the full-strength statement of C01 for a table -/
def Sound (es : List Entry) : Prop :=
  ∀ m path e vals, route es m path = .dispatch e vals →
    e ∈ es ∧ inst e.toks vals = some path ∧ SlashFree e.toks vals ∧ vals.length = arity e.toks

theorem mem_initial {es : List Entry} {ts : List Tok} {e : Entry} (h : (ts, e) ∈ initial es) :
    e ∈ es ∧ ts = e.toks := by
  unfold initial at h
  obtain ⟨e', he', heq⟩ := List.mem_map.mp h
  simp only [Prod.mk.injEq] at heq
  obtain ⟨rfl, rfl⟩ := heq
  exact ⟨he', rfl⟩

/-- **C01_sound_partial** -/
theorem C01_sound_partial (es : List Entry) (m path : Str) (e : Entry) (vals : List Str)
    (h : route es m path = .dispatch e vals) :
    (e ∈ es ∧ inst e.toks vals = some path ∧ SlashFree e.toks vals ∧ vals.length = arity e.toks)
    ∨ (e.method = routeNotFound ∧ e ∈ es ∧ (∃ w, inst e.toks w = some path)
        ∧ vals = e.pnames.map (fun _ => [])) := by
  unfold route at h
  generalize hs : search m (bound (initial es) + 1) (initial es) path [] none = s at h
  obtain ⟨res, b⟩ := s
  cases res with
  | hit e' v' =>
    simp only [finish, Outcome.dispatch.injEq] at h
    obtain ⟨rfl, rfl⟩ := h
    left
    have := search_sound m _ _ _ _ _ e' v' (by rw [hs])
    obtain ⟨w, hv, ts, hmem, hi, hsf⟩ := this
    simp only [List.nil_append] at hv
    subst hv
    obtain ⟨he, rfl⟩ := mem_initial hmem
    exact ⟨he, hi, hsf, inst_length hi⟩
  | miss =>
    cases b with
    | none => simp [finish] at h
    | some bl =>
      simp only [finish] at h
      cases hnf : findNF bl with
      | none =>
        rw [hnf] at h
        simp only at h
        split at h <;> simp at h
      | some e' =>
        rw [hnf] at h
        simp only [Outcome.dispatch.injEq] at h
        obtain ⟨rfl, rfl⟩ := h
        right
        obtain ⟨hmem, hm⟩ := findNF_some hnf
        have hc := search_best_covers m _ _ _ _ _ bl (by rw [hs])
        rcases hc with hc | hc
        · simp at hc
        · obtain ⟨w, ts, hmem', hi, _⟩ := hc e' hmem
          obtain ⟨he, rfl⟩ := mem_initial hmem'
          exact ⟨hm, he, ⟨w, hi⟩, rfl⟩

/-- a list is a contiguous piece of another -/
def Factor (v p : Str) : Prop := ∃ a b, p = a ++ v ++ b

theorem inst_values_factors {ts : List Tok} {vs : List Str} {p : Str} (h : inst ts vs = some p) :
    ∀ v ∈ vs, Factor v p := by
  induction ts generalizing vs p with
  | nil => cases vs <;> simp_all [inst]
  | cons t ts ih =>
    cases t with
    | lit c =>
      simp only [inst, Option.map_eq_some_iff] at h
      obtain ⟨q, hq, rfl⟩ := h
      intro v hv
      obtain ⟨a, b, rfl⟩ := ih hq v hv
      exact ⟨c :: a, b, by simp⟩
    | param =>
      cases vs with
      | nil => simp [inst] at h
      | cons v0 vs =>
        simp only [inst, Option.map_eq_some_iff] at h
        obtain ⟨q, hq, rfl⟩ := h
        intro v hv
        rcases List.mem_cons.mp hv with rfl | hv
        · exact ⟨[], q, by simp⟩
        · obtain ⟨a, b, rfl⟩ := ih hq v hv
          exact ⟨v0 ++ a, b, by simp⟩
    | any =>
      cases vs with
      | nil => simp [inst] at h
      | cons v0 vs =>
        simp only [inst, Option.map_eq_some_iff] at h
        obtain ⟨q, hq, rfl⟩ := h
        intro v hv
        rcases List.mem_cons.mp hv with rfl | hv
        · exact ⟨[], q, by simp⟩
        · obtain ⟨a, b, rfl⟩ := ih hq v hv
          exact ⟨v0 ++ a, b, by simp⟩

/-- **C01_values_are_factors** — every value the handler sees is a contiguous piece of this
    request's path (or blank, in the F3 fallback). -/
theorem C01_values_are_factors (es : List Entry) (m path : Str) (e : Entry) (vals : List Str)
    (h : route es m path = .dispatch e vals) : ∀ v ∈ vals, Factor v path := by
  rcases C01_sound_partial es m path e vals h with ⟨_, hi, _, _⟩ | ⟨_, _, _, rfl⟩
  · exact inst_values_factors hi
  · intro v hv
    simp only [List.mem_map] at hv
    obtain ⟨_, _, rfl⟩ := hv
    exact ⟨[], path, by simp⟩

def tbl (l : List (String × String)) : List Entry :=
  (l.zipIdx.map fun ((m, p), i) => (⟨m.toList, p.toList, i⟩ : Route)).map mkEntry

/-- **F3** — the full-strength statement fails: `GET /a/:id` + `RouteNotFound /a/:id`,
    `POST /a/7` runs the not-found handler with `id = ""`. -/
theorem C01_full_statement_fails_F3 :
    ¬ Sound (tbl [("GET", "/a/:id"), ("echo_route_not_found", "/a/:id")]) := by
  intro h
  have := h "POST".toList "/a/7".toList
    (mkEntry ⟨"echo_route_not_found".toList, "/a/:id".toList, 1⟩) [[]] (by decide)
  exact absurd this.2.1 (by decide)

/-! ### non-vacuity -/
example : route (tbl [("GET", "/a/:id/b"), ("GET", "/a/*")]) "GET".toList "/a/7/c".toList
    = .dispatch (mkEntry ⟨"GET".toList, "/a/*".toList, 1⟩) ["7/c".toList] := by decide
example : inst (mkEntry ⟨"GET".toList, "/a/:id/b".toList, 0⟩).toks ["7".toList] = some "/a/7/b".toList := by
  decide

end C01
