import EchoProofs.C04Scope
import EchoProofs.Tree.OK
/-!
# C04 — group scoping, request level

`C04_group_never_outside`: for every registration program and every request, if a middleware id
that was only ever handed to groups goes in (`enter i` occurs in the trace), then the request is
for the host, and its path — as the Pre chain left it — starts with the prefix, of one of the groups
the id was handed to.  In other words group middleware never runs for a request outside the prefix
or for another host.

The theorem combines the registration invariant (`C04_scope_routes`) with the soundness of the
radix-tree model (`find_eq_route` + `C01_sound_partial`: a dispatched record is a registered route
whose pattern matches the path).  It needs every pattern registered for the request's host to be representable
(`okTable`: no escaped colon, no text after `*`); routes may be registered more than once — calling
`Group.Use` twice on one group registers its catch-all routes twice — because `find_eq_route_ok` covers
re-registrations (the later registration is the one in force).
-/
namespace C04
open Router Router.Spec Router.Tree

/-- literal text: no byte the pattern scanner treats specially -/
def Plain (s : Str) : Prop := ∀ ch ∈ s, ch ≠ ':' ∧ ch ≠ '*' ∧ ch ≠ '\\'

instance (s : Str) : Decidable (Plain s) := by unfold Plain; infer_instance

theorem normAux_plain (s q : Str) (hs : Plain s) :
    ∀ f, s.length ≤ f → (normAux f (s ++ q)).1 = lits s ++ (normAux (f - s.length) q).1 := by
  induction s with
  | nil => intro f _; simp [lits]
  | cons c s ih =>
    intro f hf
    cases f with
    | zero => simp at hf
    | succ f =>
      have hc := hs c (by simp)
      have hs' : Plain s := fun ch h => hs ch (List.mem_cons_of_mem _ h)
      have hrec := ih hs' f (by simpa using hf)
      simp only [List.cons_append, normAux]
      have h1 : ¬ (c = '\\' ∧ (s ++ q).head? = some ':') := fun h => hc.2.2 h.1
      simp only [h1, hc.1, hc.2.1, if_false]
      simp only [hrec, lits, List.map_cons, List.length_cons, Nat.add_sub_add_right, List.cons_append]

theorem inst_lits_prefix (s : Str) (ts : List Tok) (w : List Str) (path : Str)
    (h : inst (lits s ++ ts) w = some path) : s <+: path := by
  induction s generalizing path with
  | nil => exact List.nil_prefix
  | cons c s ih =>
    simp only [lits, List.map_cons, List.cons_append, inst, Option.map_eq_some_iff] at h
    obtain ⟨p', hp', rfl⟩ := h
    have := ih p' (by simpa [lits] using hp')
    exact List.cons_prefix_cons.mpr ⟨rfl, this⟩

/-- a pattern whose text starts with the literal text `s` only matches paths starting with `s` -/
theorem plain_prefix_of_match (s p path : Str) (hs : Plain s) (hp : s <+: normalizeSlash p)
    (w : List Str) (h : inst (norm p).1 w = some path) : s <+: path := by
  obtain ⟨q, hq⟩ := hp
  unfold norm at h
  simp only at h
  rw [← hq] at h
  rw [normAux_plain s q hs _ (by simp; omega)] at h
  exact inst_lits_prefix s _ w path h

theorem normalizeSlash_idem (p : Str) : normalizeSlash (normalizeSlash p) = normalizeSlash p := by
  cases p with
  | nil => rfl
  | cons c cs =>
    by_cases hc : c = '/'
    · subst hc; rfl
    · simp [normalizeSlash, hc]

/-- every route of a configuration carries a normalised path -/
theorem routes_normalized (ops : List Op) : ∀ (c : Cfg),
    (∀ r ∈ c.routes, normalizeSlash r.path = r.path) →
    ∀ r ∈ (ops.foldl exec c).routes, normalizeSlash r.path = r.path := by
  have hadd : ∀ (c : Cfg) host method path hid fails mws, (∀ r ∈ c.routes, normalizeSlash r.path = r.path) →
      ∀ r ∈ (addRoute c host method path hid fails mws).routes, normalizeSlash r.path = r.path := by
    intro c host method path hid fails mws h r hr
    simp only [addRoute, List.mem_append, List.mem_singleton] at hr
    rcases hr with hr | rfl
    · exact h r hr
    · exact normalizeSlash_idem _
  have hgu : ∀ (c : Cfg) gid ms, (∀ r ∈ c.routes, normalizeSlash r.path = r.path) →
      ∀ r ∈ (groupUse c gid ms).routes, normalizeSlash r.path = r.path := by
    intro c gid ms h
    unfold groupUse
    split
    · exact h
    · simp only
      split
      · exact h
      · exact hadd _ _ _ _ _ _ _ (hadd _ _ _ _ _ _ _ h)
  induction ops with
  | nil => intro c h; exact h
  | cons op ops ih =>
    intro c h
    apply ih
    cases op with
    | pre m => exact h
    | use j => exact h
    | host name ms =>
      simp only [exec]
      apply hgu
      intro r hr
      exact h r (List.mem_filter.mp hr).1
    | group parent pfx ms =>
      simp only [exec]
      cases parent with
      | none => exact hgu _ _ _ h
      | some p =>
        simp only
        split
        · exact h
        · exact hgu _ _ _ h
    | groupUse g ms => exact hgu _ _ _ h
    | add g method path hid fails ms =>
      simp only [exec]
      cases g with
      | none => exact hadd _ _ _ _ _ _ _ h
      | some gid =>
        simp only
        split
        · exact h
        · exact hadd _ _ _ _ _ _ _ h

/-- membership in the table of a host -/
theorem mem_tableOf {c : Cfg} {h : Str} {rt : Route} (hm : rt ∈ tableOf c h) :
    ∃ r, c.routes[rt.hid]? = some r ∧ r.host = h ∧ rt.method = r.method ∧ rt.path = r.path := by
  unfold tableOf at hm
  obtain ⟨⟨r, idx⟩, hf, rfl⟩ := List.mem_map.mp hm
  obtain ⟨hz, hh⟩ := List.mem_filter.mp hf
  simp only [decide_eq_true_eq] at hh
  have := List.mem_zipIdx hz
  simp only [Nat.zero_add, Nat.sub_zero] at this
  obtain ⟨_, hlt, hget⟩ := this
  refine ⟨r, ?_, hh, rfl, rfl⟩
  simp only
  rw [List.getElem?_eq_getElem hlt, hget]

/-- **C04_group_never_outside** -/
theorem C04_group_never_outside (i : Mw) (ops : List Op)
    (hgo : ∀ op ∈ ops, GroupOnlyOp i op) (hpo : ∀ op ∈ ops, PfxOKOp op)
    (hnu : i ∉ (run ops).use) (hnp : ∀ m ∈ (run ops).pre, m.id ≠ i)
    (host method path : Str)
    (hwf : okTable (tableOf (run ops)
              (if (run ops).hosts.contains host then host else [])) = true)
    (hin : Ev.enter i ∈ serve (run ops) host method path) :
    ∃ s ∈ scopes i ops,
      s.1 = (if (run ops).hosts.contains host then host else [])
      ∧ (Plain s.2 → s.2 <+: rewriteAll (run ops).pre path) := by
  generalize hc : run ops = c at *
  generalize hh : (if c.hosts.contains host then host else []) = h at *
  generalize hp : rewriteAll c.pre path = p'
  -- `i` is in the snapshot of the selected route
  have hid : i ∈ enterIds (serve c host method path) := by
    unfold enterIds
    exact List.mem_filterMap.mpr ⟨_, hin, rfl⟩
  rw [C04_enter_order, layers, hp] at hid
  have hsnap : i ∈ (selected c host method p').2.2 := by
    rcases List.mem_append.mp hid with h1 | h1
    · rcases List.mem_append.mp h1 with h2 | h2
      · obtain ⟨m, hm, rfl⟩ := List.mem_map.mp h2
        exact absurd rfl (hnp m hm)
      · exact absurd h2 hnu
    · exact h1
  -- unfold the selection
  unfold selected at hsnap
  simp only [hh] at hsnap
  generalize hfind : find (build (tableOf c h)) method p' (List.replicate (maxParam (tableOf c h)) []) = out at hsnap
  cases out with
  | notFound _ => simp at hsnap
  | methodNotAllowed _ _ => simp only at hsnap; split at hsnap <;> simp at hsnap
  | panic => simp at hsnap
  | dispatch rm vals =>
    simp only at hsnap
    -- the dispatched record is a registration in force of this host whose pattern matches the path
    obtain ⟨rt, hrt, hhid, _, w, hw⟩ := tree_dispatch_registered (tableOf c h) method p'
      (maxParam (tableOf c h)) (Nat.le_refl _) hwf rm vals hfind
    obtain ⟨r, hget, hrh, _, hrp⟩ := mem_tableOf (dedupLast_subset _ _ hrt)
    rw [hhid] at hget
    simp only [hget] at hsnap
    have hir : i ∈ r.mws := by
      split at hsnap <;> exact hsnap
    have hrm : r ∈ c.routes := List.mem_of_getElem? hget
    obtain ⟨s, hs, hs1, hs2⟩ := C04_scope_routes i ops hgo hpo r (by rw [hc]; exact hrm) hir
    refine ⟨s, hs, hs1.trans hrh, ?_⟩
    intro hpl
    have hnorm : normalizeSlash r.path = r.path :=
      routes_normalized ops {} (by intro r hr; simp at hr) r (by
        have : ops.foldl exec {} = c := hc
        rw [this]; exact hrm)
    rw [hrp] at hw
    exact plain_prefix_of_match s.2 r.path p' hpl (by rw [hnorm]; exact hs2) w hw

end C04

namespace C04
open Router.Tree
/-! ### non-vacuity: the hypotheses hold for this program and middleware 3 (handed to group `/g` only),
    and the request `/old` — rewritten to `/g/x` by the Pre middleware — makes it go in -/
def demo2 : List Op :=
  [ .pre ⟨1, some ("/old".toList, "/g/x".toList), none, none⟩, .use 2,
    .group none "/g".toList [3], .add (some 0) "GET".toList "/x".toList 7 false [4],
    .add none "GET".toList "/other/:id".toList 8 false [] ]

example : okTable (tableOf (run demo2) []) = true := by decide
example : (run demo2).hosts.contains [] = false := by decide
theorem demo2_trace : serve (run demo2) [] "GET".toList "/old".toList
    = [.enter 1, .enter 2, .enter 3, .enter 4, .hnd 7,
       .leave 4 false, .leave 3 false, .leave 2 false, .leave 1 false] := by decide +kernel
example : Ev.enter 3 ∈ serve (run demo2) [] "GET".toList "/old".toList := by rw [demo2_trace]; decide
example : 3 ∉ (run demo2).use ∧ ∀ m ∈ (run demo2).pre, m.id ≠ 3 := by decide
example : scopes 3 demo2 = [([], "/g".toList)] := by decide
example : Plain "/g".toList := by decide
/-- the demo program repeats `Group.Use`, so its catch-all routes are registered twice: still covered -/
example : wfTable (tableOf (run demo) []) = false ∧ okTable (tableOf (run demo) []) = true := by decide
end C04
