import EchoModel.C02
import EchoProofs.C02
import EchoProofs.Spec.Irrelevant
import EchoProofs.Tree.Covered
import EchoProofs.Tree.Dedup
/-!
# C02 — registration events: groups with middleware register catch-all routes of their own

`Group.Use` registers two RouteNotFound routes, `prefix` and `prefix/*` (`C02.groupCatchAll`), so that the group's
middleware also runs for unmatched paths of the group.  This file shows that these routes stay inside the group:

* `C02_expand_append`, `C02_catchall_routes` — bookkeeping.
* `C02_catchall_matches_prefix` / `C02_catchall_matches_below` — for a plain prefix the two patterns match exactly
  the (normalised) prefix itself and the paths below `prefix/`; e.g. `/apiary` is matched by neither catch-all of the
  group `/api`.
* **`C02_group_scope`** / `C02_group_scope_table` — the catch-all routes of a group do not change the answer of the
  reference search to ANY request outside the group (other path, same or other method; match, 405 and 404 alike),
  whatever else is registered.  `C02_use_scope_expand`: the same for a `use` event anywhere in the event list.
* `C02_inForce_last`, `C02_inForce_nodup` — the table in force has exactly one registration per (method, pattern).

The root group (empty prefix) is different: `"" ++ "/*"` is `/*`, NOT `//*` — its catch-all covers every path.  The
general statements (`…_gen`) are therefore in terms of `normalizeSlash (pre ++ "/")`, which is `normalizeSlash pre ++
"/"` for a non-empty prefix and `/` for the empty one; the statements with `normalizeSlash pre ++ "/"` need
`pre ≠ []` (`C02_root_group_covers_all` is the counterexample without it).
-/
namespace C02
open Router.Spec
open Router (Str routeNotFound Route normalizeSlash)

/-! ## B1 — bookkeeping -/

theorem C02_expand_append (a b : List Event) : expand (a ++ b) = expand a ++ expand b := by
  induction a with
  | nil => rfl
  | cons e a ih =>
    cases e with
    | route m p h => simp only [List.cons_append, expand, ih]
    | use pre h => simp only [List.cons_append, expand, ih, List.append_assoc]

theorem slashStar : "/*".toList = ['/', '*'] := by decide

/-- the two routes of `Group.Use`: RouteNotFound routes with the patterns `pre` and `pre ++ "/*"` -/
theorem C02_catchall_routes (pre : Str) (h : Nat) :
    groupCatchAll pre h = [⟨routeNotFound, pre, h⟩, ⟨routeNotFound, pre ++ ['/', '*'], h + 1⟩] := by
  rw [← slashStar]; rfl

theorem C02_catchall_routes_mem (pre : Str) (h : Nat) (r : Route) (hr : r ∈ groupCatchAll pre h) :
    r.method = routeNotFound ∧ (r.path = pre ∨ r.path = pre ++ "/*".toList) := by
  simp only [groupCatchAll, List.mem_cons, List.not_mem_nil, or_false] at hr
  rcases hr with rfl | rfl
  · exact ⟨rfl, Or.inl rfl⟩
  · exact ⟨rfl, Or.inr rfl⟩

theorem expand_use (pre : Str) (h : Nat) : expand [.use pre h] = groupCatchAll pre h := by
  simp [expand]

/-! ## B2 — what the catch-all patterns match -/

theorem plain_normalizeSlash {pre : Str} (hp : C04.Plain pre) : C04.Plain (normalizeSlash pre) := by
  cases pre with
  | nil => intro ch hch; simp only [normalizeSlash, List.mem_singleton] at hch; subst hch; decide
  | cons c cs =>
    simp only [normalizeSlash]
    split
    · exact hp
    · intro ch hch
      rcases List.mem_cons.mp hch with rfl | h
      · decide
      · exact hp ch h

theorem plain_append_slash {pre : Str} (hp : C04.Plain pre) : C04.Plain (pre ++ ['/']) := by
  intro ch hch
  rcases List.mem_append.mp hch with h | h
  · exact hp ch h
  · simp only [List.mem_singleton] at h; subst h; decide

/-- text appended to a non-empty pattern is not touched by `normalizePathSlash` -/
theorem normalizeSlash_append {pre : Str} (hne : pre ≠ []) (x : Str) :
    normalizeSlash (pre ++ x) = normalizeSlash pre ++ x := by
  cases pre with
  | nil => exact absurd rfl hne
  | cons c cs =>
    simp only [normalizeSlash, List.cons_append]
    split <;> rfl

/-- the pattern `pre ++ "/*"` as the router reads it (also for the empty prefix: `/*`) -/
theorem normalizeSlash_catchall (pre : Str) :
    normalizeSlash (pre ++ "/*".toList) = normalizeSlash (pre ++ ['/']) ++ ['*'] := by
  rw [slashStar]
  cases pre with
  | nil => simp [normalizeSlash]
  | cons c cs =>
    have e : c :: cs ++ ['/', '*'] = (c :: cs ++ ['/']) ++ ['*'] := by simp
    rw [e, normalizeSlash_append (by simp)]

theorem matches_lits (s : Str) : ∀ path : Str, Matches (lits s) path ↔ path = s := by
  induction s with
  | nil => intro path; simp [lits, Matches]
  | cons c s ih =>
    intro path
    simp only [lits, List.map_cons, Matches]
    constructor
    · rintro ⟨rest, rfl, h⟩
      rw [(ih rest).mp h]
    · rintro rfl
      exact ⟨s, rfl, (ih s).mpr rfl⟩

theorem matches_lits_any (s : Str) : ∀ path : Str, Matches (lits s ++ [.any]) path ↔ s <+: path := by
  induction s with
  | nil => intro path; simp [lits, Matches]
  | cons c s ih =>
    intro path
    simp only [lits, List.map_cons, List.cons_append, Matches]
    constructor
    · rintro ⟨rest, rfl, h⟩
      exact List.cons_prefix_cons.mpr ⟨rfl, (ih rest).mp h⟩
    · rintro ⟨t, rfl⟩
      exact ⟨s ++ t, rfl, (ih _).mpr (List.prefix_append _ _)⟩

/-- tokens of the first catch-all pattern: the literal text of the normalised prefix -/
theorem catchall_toks_prefix {pre : Str} (hp : C04.Plain pre) : (norm pre).1 = lits (normalizeSlash pre) :=
  Router.Tree.norm_plain (plain_normalizeSlash hp) rfl

/-- tokens of the second catch-all pattern: the literal text of `pre/` (normalised), then the wildcard -/
theorem catchall_toks_below {pre : Str} (hp : C04.Plain pre) :
    (norm (pre ++ "/*".toList)).1 = lits (normalizeSlash (pre ++ ['/'])) ++ [.any] :=
  Router.Tree.norm_plain_star (plain_normalizeSlash (plain_append_slash hp)) (normalizeSlash_catchall pre)

/-- **the first catch-all route of a group matches the group's prefix and nothing else** -/
theorem C02_catchall_matches_prefix {pre : Str} (hp : C04.Plain pre) (path : Str) :
    Matches (norm pre).1 path ↔ path = normalizeSlash pre := by
  rw [catchall_toks_prefix hp]; exact matches_lits _ path

/-- the second catch-all route matches exactly the paths starting with `pre/` as the router reads it
    (every prefix, the empty one included) -/
theorem C02_catchall_matches_below_gen {pre : Str} (hp : C04.Plain pre) (path : Str) :
    Matches (norm (pre ++ "/*".toList)).1 path ↔ normalizeSlash (pre ++ ['/']) <+: path := by
  rw [catchall_toks_below hp]; exact matches_lits_any _ path

/-- **the second catch-all route of a group matches exactly the paths below `prefix/`** (non-empty prefix) -/
theorem C02_catchall_matches_below {pre : Str} (hp : C04.Plain pre) (hne : pre ≠ []) (path : Str) :
    Matches (norm (pre ++ "/*".toList)).1 path ↔ ∃ rest, path = normalizeSlash pre ++ '/' :: rest := by
  rw [C02_catchall_matches_below_gen hp, normalizeSlash_append hne]
  constructor
  · rintro ⟨t, rfl⟩; exact ⟨t, by simp⟩
  · rintro ⟨rest, rfl⟩; exact ⟨rest, by simp⟩

/-- the root group (empty prefix): its second catch-all is `/*` and matches every path the router can see -/
theorem C02_catchall_matches_below_root (path : Str) :
    Matches (norm ([] ++ "/*".toList)).1 path ↔ ∃ rest, path = '/' :: rest := by
  rw [C02_catchall_matches_below_gen (fun _ h => by simp at h)]
  constructor
  · rintro ⟨t, rfl⟩; exact ⟨t, by simp [normalizeSlash]⟩
  · rintro ⟨rest, rfl⟩; exact ⟨rest, by simp [normalizeSlash]⟩

/-! ## B3 — the catch-all routes of a group stay inside the group -/

/-- the entries of a group's catch-all routes are irrelevant (`Router.Spec.Irr`) for every path outside the group -/
theorem catchall_irr {pre : Str} (hp : C04.Plain pre) (h : Nat) {path : Str}
    (h1 : path ≠ normalizeSlash pre) (h2 : ¬ normalizeSlash (pre ++ ['/']) <+: path) :
    ∀ x ∈ initial ((groupCatchAll pre h).map mkEntry), Irr path x.1 := by
  intro x hx
  simp only [groupCatchAll, initial, List.map_cons, List.map_nil, List.mem_cons, List.not_mem_nil,
    or_false] at hx
  rcases hx with rfl | rfl
  · refine Or.inl ⟨normalizeSlash pre, ?_, fun h => h1 h.symm⟩
    exact catchall_toks_prefix hp
  · refine Or.inr ⟨normalizeSlash (pre ++ ['/']), ?_, h2⟩
    exact catchall_toks_below hp

theorem initial_append (a b : List Entry) : initial (a ++ b) = initial a ++ initial b := by
  simp [initial]

/-- `C02_group_scope` for every prefix, the empty one included: "outside the group" is
    `path ≠ normalizeSlash pre` and `normalizeSlash (pre ++ "/")` is not a prefix of `path` -/
theorem C02_group_scope_gen {pre : Str} (hp : C04.Plain pre) (h : Nat) {path : Str}
    (h1 : path ≠ normalizeSlash pre) (h2 : ¬ normalizeSlash (pre ++ ['/']) <+: path)
    (es : List Entry) (m : Str) :
    route (es ++ (groupCatchAll pre h).map mkEntry) m path = route es m path := by
  apply route_drop
  rw [initial_append]
  have := Drop.append (Drop.refl path (initial es)) (Drop.of_irr (catchall_irr hp h h1 h2))
  rwa [List.append_nil] at this

/-- **HEADLINE — a group's catch-all routes do not change the answer to any request outside the group**: for a plain,
    non-empty prefix `pre`, a path that is neither the (normalised) prefix nor below `prefix/`, ANY entry list and
    method, the reference search gives the same outcome with and without the two routes `Group.Use` registers. -/
theorem C02_group_scope {pre : Str} (hp : C04.Plain pre) (hne : pre ≠ []) (h : Nat) {path : Str}
    (h1 : path ≠ normalizeSlash pre) (h2 : ¬ (normalizeSlash pre ++ ['/']) <+: path)
    (es : List Entry) (m : Str) :
    route (es ++ (groupCatchAll pre h).map mkEntry) m path = route es m path :=
  C02_group_scope_gen hp h h1 (by rw [normalizeSlash_append hne]; exact h2) es m

/-- the same for route tables -/
theorem C02_group_scope_table {pre : Str} (hp : C04.Plain pre) (hne : pre ≠ []) (h : Nat) {path : Str}
    (h1 : path ≠ normalizeSlash pre) (h2 : ¬ (normalizeSlash pre ++ ['/']) <+: path)
    (rs : List Route) (m : Str) :
    routeTable (rs ++ groupCatchAll pre h) m path = routeTable rs m path := by
  unfold routeTable
  rw [List.map_append]
  exact C02_group_scope hp hne h h1 h2 _ m

theorem C02_group_scope_table_gen {pre : Str} (hp : C04.Plain pre) (h : Nat) {path : Str}
    (h1 : path ≠ normalizeSlash pre) (h2 : ¬ normalizeSlash (pre ++ ['/']) <+: path)
    (rs : List Route) (m : Str) :
    routeTable (rs ++ groupCatchAll pre h) m path = routeTable rs m path := by
  unfold routeTable
  rw [List.map_append]
  exact C02_group_scope_gen hp h h1 h2 _ m

/-- a `use` event ANYWHERE in the registration sequence (routes registered before and after it): the registered
    routes answer requests outside the group as if the event had not happened -/
theorem C02_use_scope_expand {pre : Str} (hp : C04.Plain pre) (h : Nat) {path : Str}
    (h1 : path ≠ normalizeSlash pre) (h2 : ¬ normalizeSlash (pre ++ ['/']) <+: path)
    (a b : List Event) (m : Str) :
    routeTable (expand (a ++ .use pre h :: b)) m path = routeTable (expand (a ++ b)) m path := by
  unfold routeTable
  apply route_drop
  have e : a ++ Event.use pre h :: b = a ++ ([Event.use pre h] ++ b) := rfl
  rw [e, C02_expand_append, C02_expand_append, C02_expand_append, expand_use]
  simp only [List.map_append, initial_append]
  have := Drop.append (Drop.refl path (initial ((expand a).map mkEntry)))
    (Drop.append (Drop.of_irr (catchall_irr hp h h1 h2)) (Drop.refl path (initial ((expand b).map mkEntry))))
  rwa [List.nil_append] at this

/-! ## B4 — the table in force -/

/-- every registered route has its last registration (same method, same normalised pattern) in the table in force -/
theorem C02_inForce_last (es : List Event) (r : Route) (hr : r ∈ expand es) :
    ∃ r' ∈ inForce es, Router.Tree.sameKey r r' = true :=
  Router.Tree.dedupLast_key (expand es) r hr

theorem dedupLast_pairwise : ∀ rs : List Route,
    (Router.Tree.dedupLast rs).Pairwise (fun a b => Router.Tree.sameKey a b = false) := by
  intro rs
  induction rs with
  | nil => exact List.Pairwise.nil
  | cons a rs ih =>
    simp only [Router.Tree.dedupLast]
    split
    · exact ih
    · rename_i hany
      refine List.Pairwise.cons ?_ ih
      intro b hb
      cases hs : Router.Tree.sameKey a b with
      | false => rfl
      | true => exact absurd (List.any_eq_true.mpr ⟨b, Router.Tree.dedupLast_subset rs b hb, hs⟩) hany

/-- the table in force has no two routes with the same method and normalised pattern … -/
theorem C02_inForce_nodup (es : List Event) :
    (inForce es).Pairwise (fun a b => Router.Tree.sameKey a b = false) :=
  dedupLast_pairwise (expand es)

/-- … in the form the order-independence theorem `C02_perm` asks for -/
theorem C02_inForce_NoDup (es : List Event) : NoDup ((inForce es).map mkEntry) :=
  Router.Tree.uniq_dedupLast (expand es)

theorem C02_inForce_subset (es : List Event) : ∀ r ∈ inForce es, r ∈ expand es :=
  Router.Tree.dedupLast_subset (expand es)

/-! ## B3, at the level of the table in force

`inForce` drops earlier registrations of a (method, pattern) that is registered again — also earlier registrations
replaced by a group's catch-all routes, and catch-all routes replaced later.  Irrelevance for a path depends on the
pattern only, so it is compatible with that: leaving out ALL routes that are irrelevant for the path commutes with
`dedupLast`. -/

open Classical in
/-- the route matters for `path` (classically decided; only used inside proofs) -/
noncomputable def relevant (path : Str) (r : Route) : Bool := decide (¬ Irr path (norm r.path).1)

open Classical in
theorem relevant_false {path : Str} {r : Route} (h : relevant path r = false) : Irr path (norm r.path).1 := by
  unfold relevant at h
  have := of_decide_eq_false h
  exact Classical.not_not.mp this

open Classical in
theorem relevant_true {path : Str} {r : Route} (h : relevant path r = true) : ¬ Irr path (norm r.path).1 := by
  unfold relevant at h
  exact of_decide_eq_true h

theorem relevant_key {path : Str} {a b : Route} (h : Router.Tree.sameKey a b = true) :
    relevant path a = relevant path b := by
  simp only [Router.Tree.sameKey, Bool.and_eq_true, beq_iff_eq] at h
  unfold relevant
  rw [h.2]

/-- leaving out routes by a test that only looks at the key commutes with taking the table in force -/
theorem dedupLast_filter (p : Route → Bool) (hp : ∀ a b, Router.Tree.sameKey a b = true → p a = p b) :
    ∀ rs : List Route, Router.Tree.dedupLast (rs.filter p) = (Router.Tree.dedupLast rs).filter p := by
  intro rs
  induction rs with
  | nil => rfl
  | cons a rs ih =>
    cases hpa : p a with
    | true =>
      have hany : (rs.filter p).any (Router.Tree.sameKey a) = rs.any (Router.Tree.sameKey a) := by
        rw [Bool.eq_iff_iff]
        simp only [List.any_eq_true, List.mem_filter]
        constructor
        · rintro ⟨b, ⟨hb, _⟩, hs⟩; exact ⟨b, hb, hs⟩
        · rintro ⟨b, hb, hs⟩; exact ⟨b, ⟨hb, by rw [← hp a b hs, hpa]⟩, hs⟩
      simp only [List.filter_cons, hpa, if_true, Router.Tree.dedupLast, hany]
      split
      · exact ih
      · simp only [List.filter_cons, hpa, if_true, ih]
    | false =>
      simp only [List.filter_cons, hpa, Bool.false_eq_true, if_false, Router.Tree.dedupLast]
      split
      · exact ih
      · simp only [List.filter_cons, hpa, Bool.false_eq_true, if_false, ih]

theorem drop_filter_routes {path : Str} (p : Route → Bool) : ∀ rs : List Route,
    (∀ r ∈ rs, p r = false → Irr path (norm r.path).1) →
    Drop path (initial (rs.map mkEntry)) (initial ((rs.filter p).map mkEntry)) := by
  intro rs
  induction rs with
  | nil => intro _; exact .nil
  | cons a rs ih =>
    intro h
    have ih' := ih (fun r hr => h r (List.mem_cons_of_mem _ hr))
    cases hpa : p a with
    | true =>
      simp only [List.filter_cons, hpa, if_true, List.map_cons, initial] at ih' ⊢
      exact .keep _ ih'
    | false =>
      simp only [List.filter_cons, hpa, Bool.false_eq_true, if_false, List.map_cons, initial] at ih' ⊢
      exact .drop (h a List.mem_cons_self hpa) ih'

/-- two registration sequences that differ only in routes irrelevant for `path` have tables in force that answer
    `path` alike -/
theorem routeTable_dedupLast_relevant {path : Str} {T T' : List Route}
    (h : T.filter (relevant path) = T'.filter (relevant path)) (m : Str) :
    routeTable (Router.Tree.dedupLast T) m path = routeTable (Router.Tree.dedupLast T') m path := by
  have key : ∀ X : List Route, routeTable (Router.Tree.dedupLast X) m path
      = routeTable (Router.Tree.dedupLast (X.filter (relevant path))) m path := by
    intro X
    rw [dedupLast_filter _ (fun a b => relevant_key) X]
    unfold routeTable
    exact route_drop (drop_filter_routes _ _ (fun r _ hr => relevant_false hr)) m
  rw [key T, key T', h]

/-- **a group being given middleware (`Group.Use`) anywhere in the registration sequence — re-registrations before
    and after it included — does not change what the table in force answers to any request outside the group** -/
theorem C02_use_scope {pre : Str} (hp : C04.Plain pre) (h : Nat) {path : Str}
    (h1 : path ≠ normalizeSlash pre) (h2 : ¬ normalizeSlash (pre ++ ['/']) <+: path)
    (a b : List Event) (m : Str) :
    routeTable (inForce (a ++ .use pre h :: b)) m path = routeTable (inForce (a ++ b)) m path := by
  unfold inForce
  apply routeTable_dedupLast_relevant
  have e : a ++ Event.use pre h :: b = a ++ ([Event.use pre h] ++ b) := rfl
  rw [e, C02_expand_append, C02_expand_append, C02_expand_append, expand_use]
  have hc : (groupCatchAll pre h).filter (relevant path) = [] := by
    rw [List.filter_eq_nil_iff]
    intro r hr
    have hirr := catchall_irr hp h h1 h2 ((norm r.path).1, mkEntry r) (by
      simp only [initial, List.map_map, List.mem_map, Function.comp_apply]
      exact ⟨r, hr, rfl⟩)
    intro hrel
    exact relevant_true hrel hirr
  simp only [List.filter_append, hc, List.nil_append]

/-- … for a non-empty prefix, in terms of `normalizeSlash pre ++ "/"` -/
theorem C02_use_scope' {pre : Str} (hp : C04.Plain pre) (hne : pre ≠ []) (h : Nat) {path : Str}
    (h1 : path ≠ normalizeSlash pre) (h2 : ¬ (normalizeSlash pre ++ ['/']) <+: path)
    (a b : List Event) (m : Str) :
    routeTable (inForce (a ++ .use pre h :: b)) m path = routeTable (inForce (a ++ b)) m path :=
  C02_use_scope hp h h1 (by rw [normalizeSlash_append hne]; exact h2) a b m

/-! ## concrete instances -/

private def GET : Str := "GET".toList
private def POST : Str := "POST".toList
private def api : Str := "/api".toList

example : C04.Plain api := by decide
example : api ≠ [] := by decide

/-- `/apiary` is matched by neither catch-all of the group `/api`; `/api` and `/api/x` are -/
example : ¬ Matches (norm api).1 "/apiary".toList := by
  rw [C02_catchall_matches_prefix (by decide)]; decide
example : ¬ Matches (norm (api ++ "/*".toList)).1 "/apiary".toList := by
  rw [C02_catchall_matches_below_gen (by decide)]; decide
example : Matches (norm api).1 "/api".toList := by
  rw [C02_catchall_matches_prefix (by decide)]; decide
example : Matches (norm (api ++ "/*".toList)).1 "/api/x".toList := by
  rw [C02_catchall_matches_below_gen (by decide)]; decide

/-- routes inside and outside the group `/api`, a wildcard above it and a custom 404 for everything -/
def demoEvents : List Event :=
  [.route GET "/apiary".toList 1, .route GET "/api/users/:id".toList 2, .route POST "/:x".toList 3,
   .use api 10, .route routeNotFound "/*".toList 4, .route GET "/api/users/:id".toList 5]

/-- the hypotheses of `C02_group_scope` for the request path `/apiary` -/
example : "/apiary".toList ≠ normalizeSlash api ∧ ¬ (normalizeSlash api ++ ['/']) <+: "/apiary".toList := by
  decide

/-- `C02_use_scope_expand` on this case, and what the answer is: a match, a 405, the custom 404 -/
example (m : Str) : routeTable (expand demoEvents) m "/apiary".toList
    = routeTable (expand (demoEvents.take 3 ++ demoEvents.drop 4)) m "/apiary".toList :=
  C02_use_scope_expand (pre := api) (by decide) 10 (by decide) (by decide) (demoEvents.take 3) (demoEvents.drop 4) m
example (m : Str) : routeTable (inForce demoEvents) m "/apiary".toList
    = routeTable (inForce (demoEvents.take 3 ++ demoEvents.drop 4)) m "/apiary".toList :=
  C02_use_scope (pre := api) (by decide) 10 (by decide) (by decide) (demoEvents.take 3) (demoEvents.drop 4) m
example : routeTable (expand demoEvents) GET "/apiary".toList
    = .dispatch ⟨"/apiary".toList.map Tok.lit, GET, "/apiary".toList, [], 1⟩ [] := by decide +kernel
example : routeTable (expand demoEvents) POST "/apiary".toList
    = .dispatch ⟨[.lit '/', .param], POST, "/:x".toList, ["x".toList], 3⟩ ["apiary".toList] := by decide +kernel
example : routeTable (expand demoEvents) "PUT".toList "/apiary".toList
    = .dispatch ⟨[.lit '/', .any], routeNotFound, "/*".toList, ["*".toList], 4⟩ ["apiary".toList] := by
  decide +kernel
/-- inside the group the catch-all routes DO answer (so the scope theorem is not about dead routes) -/
example : routeTable (expand demoEvents) GET "/api/other".toList
    = .dispatch ⟨"/api/".toList.map Tok.lit ++ [.any], routeNotFound, "/api/*".toList, ["*".toList], 11⟩
        ["other".toList] := by decide +kernel
example : routeTable (expand (demoEvents.take 3 ++ demoEvents.drop 4)) GET "/api/other".toList
    = .dispatch ⟨[.lit '/', .any], routeNotFound, "/*".toList, ["*".toList], 4⟩ ["api/other".toList] := by
  decide +kernel

/-- the table in force: the second registration of `GET /api/users/:id` replaces the first -/
example : (inForce demoEvents).map (·.hid) = [1, 3, 10, 11, 4, 5] := by decide +kernel

/-- the root group is different: with the empty prefix the statement in the form "`path ≠ "/"` and `"//"` is not a
    prefix of `path`" FAILS — the second catch-all route is `/*`, not `//*`, and covers every path.  (`C04.Plain []`
    holds, so `pre ≠ []` cannot be dropped from `C02_catchall_matches_below` / `C02_group_scope`.) -/
theorem C02_root_group_covers_all :
    C04.Plain ([] : Str) ∧ "/a".toList ≠ normalizeSlash [] ∧ ¬ (normalizeSlash [] ++ ['/']) <+: "/a".toList
    ∧ route ([] ++ (groupCatchAll [] 7).map mkEntry) GET "/a".toList ≠ route [] GET "/a".toList := by
  decide +kernel

end C02
