import EchoModel.C18
/-!
# C18 — theorems about the rate-limiter model

Notation: `N = c.rateNum`, `S = c.scale = rateDen * 10^9` (one token), `full = burst * S`.
All token quantities are scaled by `S`, so `count * S ≤ burst * S + N * (d + 1)` reads
`count ≤ burst + rate * (d + 1 ns)`.

`hexp : c.full ≤ c.expiresIn * c.rateNum` is the property's side condition
`ExpiresIn * rate ≥ burst`.
-/
namespace C18

set_option linter.unusedSectionVars false

variable {α : Type} [DecidableEq α]

/-! ## the bucket -/

theorem advance_le_full (c : Cfg) (b : Bucket) (t : Nat) : advance c b t ≤ c.full := by
  unfold advance; simp only; split <;> omega

theorem advance_eq (c : Cfg) (b : Bucket) (t : Nat) :
    advance c b t = min c.full (b.tok + ((c.rateNum * (t - b.last) : Nat) : Int)) := by
  unfold advance; simp only; split <;> omega

theorem full_nonneg (c : Cfg) : 0 ≤ c.full := by unfold Cfg.full; omega

theorem advance_fresh (c : Cfg) (t : Nat) : advance c (fresh c) t = c.full := by
  rw [advance_eq]; simp only [fresh]; omega

theorem advance_self (c : Cfg) (x : Int) (t : Nat) (h : x ≤ c.full) : advance c ⟨x, t⟩ t = x := by
  rw [advance_eq]; simp; omega

/-- refill is monotone in time and never faster than the rate -/
theorem advance_mono (c : Cfg) (b : Bucket) {t t' : Nat} (h : t ≤ t') :
    advance c b t ≤ advance c b t' ∧
    advance c b t' ≤ advance c b t + ((c.rateNum * (t' - t) : Nat) : Int) := by
  rw [advance_eq, advance_eq]
  have h1 : c.rateNum * (t - b.last) ≤ c.rateNum * (t' - b.last) :=
    Nat.mul_le_mul_left _ (by omega)
  have h2 : c.rateNum * (t' - b.last) ≤ c.rateNum * (t - b.last) + c.rateNum * (t' - t) := by
    rw [← Nat.mul_add]; exact Nat.mul_le_mul_left _ (by omega)
  omega

/-- what `AllowN` does, in one statement -/
theorem allowN_spec (c : Cfg) (b : Bucket) (t : Nat) :
    ((allowN c b t).2 = true ∧ (allowN c b t).1 = ⟨advance c b t - c.scale, t⟩ ∧
        1 ≤ c.burst ∧ -(c.rateNum : Int) ≤ advance c b t - c.scale ∧
        (0 ≤ advance c b t - (c.scale : Int) ∨ -(advance c b t - (c.scale : Int)) < c.rateNum)) ∨
    ((allowN c b t).2 = false ∧ (allowN c b t).1 = b ∧
        (c.burst = 0 ∨ (advance c b t - (c.scale : Int) < 0 ∧
          (c.rateNum : Int) ≤ -(advance c b t - (c.scale : Int))))) := by
  unfold allowN
  simp only
  split
  · next h =>
    left
    simp only [Bool.and_eq_true, Bool.or_eq_true, decide_eq_true_eq] at h
    refine ⟨rfl, rfl, h.1, ?_, h.2⟩
    rcases h.2 with h2 | h2 <;> omega
  · next h =>
    right
    simp only [Bool.and_eq_true, Bool.or_eq_true, decide_eq_true_eq, not_and, not_or] at h
    refine ⟨rfl, rfl, ?_⟩
    by_cases hb : c.burst = 0
    · exact Or.inl hb
    · have := h (by omega)
      right; omega

/-- the decision of `AllowN` depends on the bucket only through its level at `t` -/
theorem allowN_congr (c : Cfg) (b b' : Bucket) (t : Nat) (h : advance c b t = advance c b' t) :
    (allowN c b t).2 = (allowN c b' t).2 := by
  unfold allowN; simp only [h]; split <;> rfl

/-! ## the store: potential function and invariant -/

/-- `level c (visitors id) t`: the level of `id`'s bucket advanced to `t`; an identifier the
    store does not know has a full bucket -/
def level (c : Cfg) (o : Option Visitor) (t : Nat) : Int :=
  match o with
  | some v => advance c v.b t
  | none => c.full

def VInv (c : Cfg) (now : Nat) (v : Visitor) : Prop :=
  v.b.last ≤ v.lastSeen ∧ v.lastSeen ≤ now ∧ -(c.rateNum : Int) ≤ v.b.tok ∧ v.b.tok ≤ c.full

/-- invariant of every reachable store at (or after) instant `now` -/
def Inv (c : Cfg) (st : Store α) (now : Nat) : Prop :=
  ∀ i v, st.visitors i = some v → VInv c now v

theorem inv_init (c : Cfg) (t0 now : Nat) : Inv c (Store.init t0 : Store α) now := by
  intro i v h; simp [Store.init] at h

theorem Inv.mono {c : Cfg} {st : Store α} {now now' : Nat} (h : Inv c st now) (hle : now ≤ now') :
    Inv c st now' := by
  intro i v hv
  obtain ⟨a, b, d, e⟩ := h i v hv
  exact ⟨a, by omega, d, e⟩

theorem level_le_full (c : Cfg) (o : Option Visitor) (t : Nat) : level c o t ≤ c.full := by
  cases o with
  | none => simp [level]
  | some v => exact advance_le_full c v.b t

theorem level_mono (c : Cfg) (o : Option Visitor) {t t' : Nat} (h : t ≤ t') :
    level c o t ≤ level c o t' ∧ level c o t' ≤ level c o t + ((c.rateNum * (t' - t) : Nat) : Int) := by
  cases o with
  | none => simp only [level]; omega
  | some v => exact advance_mono c v.b h

theorem level_lower (c : Cfg) (o : Option Visitor) (now t : Nat)
    (h : ∀ v, o = some v → VInv c now v) : -(c.rateNum : Int) ≤ level c o t := by
  cases o with
  | none => have := full_nonneg c; simp only [level]; omega
  | some v =>
    obtain ⟨_, _, h3, _⟩ := h v rfl
    simp only [level]; rw [advance_eq]
    have := full_nonneg c
    omega

theorem level_lookupOrNew (c : Cfg) (o : Option Visitor) (t : Nat) :
    advance c (lookupOrNew c o).b t = level c o t := by
  cases o with
  | none => simp [lookupOrNew, level, advance_fresh]
  | some v => rfl

/-- a visitor that `cleanupStaleVisitors` drops has a full bucket (needs `ExpiresIn*rate ≥ burst`) -/
theorem stale_is_full (c : Cfg) (hexp : c.full ≤ ((c.expiresIn * c.rateNum : Nat) : Int))
    (v : Visitor) (now t τ : Nat) (hv : VInv c now v) (hτ : t ≤ τ)
    (hstale : t - v.lastSeen > c.expiresIn) : advance c v.b τ = c.full := by
  obtain ⟨h1, _, h3, _⟩ := hv
  rw [advance_eq]
  have hmul : c.rateNum * (c.expiresIn + 1) ≤ c.rateNum * (τ - v.b.last) :=
    Nat.mul_le_mul_left _ (by omega)
  rw [Nat.mul_add, Nat.mul_one, Nat.mul_comm c.rateNum c.expiresIn] at hmul
  omega

/-! ### `Allow`, projected on one identifier -/

theorem allow_ok (c : Cfg) (st : Store α) (id : α) (t : Nat) :
    (allow c st id t).2 = (allowN c (lookupOrNew c (st.visitors id)).b t).2 := rfl

theorem allow_self (c : Cfg) (st : Store α) (id : α) (t : Nat) :
    (allow c st id t).1.visitors id =
      some ⟨(allowN c (lookupOrNew c (st.visitors id)).b t).1, t⟩ := by
  simp only [allow, allow2, ite_true]
  split <;> simp [cleanup, setBucket]

theorem allow_other (c : Cfg) (st : Store α) (id i : α) (t : Nat) (h : i ≠ id) :
    (allow c st id t).1.visitors i =
      if t - st.lastCleanup > c.expiresIn then cleanup c st.visitors t i else st.visitors i := by
  by_cases hs : t - st.lastCleanup > c.expiresIn <;> simp [allow, allow2, h, hs, cleanup]

/-- **the step lemma**: what one `Allow(id)` at instant `t` does to the level of any
    identifier `i` at any later instant `τ`: the caller's own bucket loses exactly one token
    iff the call is admitted; nobody else's level changes — not even by the sweep. -/
theorem allow_level (c : Cfg) (hexp : c.full ≤ ((c.expiresIn * c.rateNum : Nat) : Int))
    (st : Store α) (now : Nat) (hinv : Inv c st now) (id : α) (t : Nat) (i : α) (τ : Nat) (hτ : t ≤ τ) :
    level c ((allow c st id t).1.visitors i) τ =
      if i = id ∧ (allow c st id t).2 = true
      then advance c ⟨level c (st.visitors id) t - c.scale, t⟩ τ
      else level c (st.visitors i) τ := by
  by_cases hi : i = id
  · subst hi
    rw [allow_self, allow_ok]
    rcases allowN_spec c (lookupOrNew c (st.visitors i)).b t with ⟨hok, hb, _⟩ | ⟨hok, hb, _⟩
    · simp only [hok, and_self, ite_true, level, hb, level_lookupOrNew]
    · simp only [hok, level, hb, level_lookupOrNew]; simp
  · rw [allow_other _ _ _ _ _ hi]
    simp only [hi, false_and, ite_false]
    split
    · simp only [cleanup]
      cases hv : st.visitors i with
      | none => rfl
      | some v =>
        simp only
        split
        · next hst =>
          simp only [level]
          exact (stale_is_full c hexp v now t τ (hinv i v hv) hτ hst).symm
        · rfl
    · rfl

theorem allow_inv (c : Cfg) (st : Store α) (now : Nat) (hinv : Inv c st now) (id : α) (t : Nat)
    (hle : now ≤ t) : Inv c (allow c st id t).1 t := by
  intro i v hv
  by_cases hi : i = id
  · subst hi
    rw [allow_self] at hv
    simp only [Option.some.injEq] at hv
    subst hv
    have hold : -(c.rateNum : Int) ≤ (lookupOrNew c (st.visitors i)).b.tok ∧
        (lookupOrNew c (st.visitors i)).b.tok ≤ c.full ∧ (lookupOrNew c (st.visitors i)).b.last ≤ t := by
      cases hs : st.visitors i with
      | none => have := full_nonneg c; simp [lookupOrNew, fresh]; omega
      | some w =>
        obtain ⟨a, b, d, e⟩ := hinv i w hs
        simp only [lookupOrNew]; omega
    rcases allowN_spec c (lookupOrNew c (st.visitors i)).b t with ⟨_, hb, _, hlow, _⟩ | ⟨_, hb, _⟩
    · have := advance_le_full c (lookupOrNew c (st.visitors i)).b t
      simp only [VInv, hb]; omega
    · simp only [VInv, hb]; omega
  · rw [allow_other _ _ _ _ _ hi] at hv
    have : st.visitors i = some v := by
      split at hv
      · simp only [cleanup] at hv
        cases hs : st.visitors i with
        | none => simp [hs] at hv
        | some w =>
          simp only [hs] at hv
          split at hv
          · simp at hv
          · exact hv
      · exact hv
    exact (hinv.mono hle) i v this

/-! ## histories -/

/-- the clock never goes back: every instant is ≥ the previous one (`now` = the last instant
    before the history) -/
def Mono : Nat → List (Nat × α) → Prop
  | _, [] => True
  | now, e :: es => now ≤ e.1 ∧ Mono e.1 es

def decMono : (now : Nat) → (es : List (Nat × α)) → Decidable (Mono now es)
  | _, [] => isTrue trivial
  | now, e :: es =>
    match Nat.decLe now e.1, decMono e.1 es with
    | isTrue h1, isTrue h2 => isTrue ⟨h1, h2⟩
    | isFalse h1, _ => isFalse (fun h => h1 h.1)
    | _, isFalse h2 => isFalse (fun h => h2 h.2)

instance (now : Nat) (es : List (Nat × α)) : Decidable (Mono now es) := decMono now es

/-- the successive results of `Allow` on a history of calls `(instant, identifier)` -/
def decisions (c : Cfg) : Store α → List (Nat × α) → List Bool
  | _, [] => []
  | st, e :: es => (allow c st e.2 e.1).2 :: decisions c (allow c st e.2 e.1).1 es

/-- the store after a history -/
def after (c : Cfg) : Store α → List (Nat × α) → Store α
  | st, [] => st
  | st, e :: es => after c (allow c st e.2 e.1).1 es

/-- number of calls of `id` with instant in `[t1, t2]` that were admitted -/
def admittedIn (c : Cfg) (id : α) (t1 t2 : Nat) : Store α → List (Nat × α) → Nat
  | _, [] => 0
  | st, e :: es =>
    (if e.2 = id ∧ (allow c st e.2 e.1).2 = true ∧ t1 ≤ e.1 ∧ e.1 ≤ t2 then 1 else 0)
      + admittedIn c id t1 t2 (allow c st e.2 e.1).1 es

/-- `admittedIn` is the obvious count over the observable trace -/
theorem admittedIn_eq_count (c : Cfg) (id : α) (t1 t2 : Nat) (es : List (Nat × α)) :
    ∀ st : Store α, admittedIn c id t1 t2 st es =
      ((es.zip (decisions c st es)).filter
        (fun p => decide (p.1.2 = id ∧ p.2 = true ∧ t1 ≤ p.1.1 ∧ p.1.1 ≤ t2))).length := by
  induction es with
  | nil => intro st; rfl
  | cons e es ih =>
    intro st
    obtain ⟨t, i⟩ := e
    simp only [admittedIn, decisions, List.zip_cons_cons, List.filter_cons, ih]
    by_cases h : i = id ∧ (allow c st i t).2 = true ∧ t1 ≤ t ∧ t ≤ t2
    · rw [if_pos h, if_pos (by simpa using h)]; simp; omega
    · rw [if_neg h, if_neg (by simpa using h)]; simp

theorem reachable_inv (c : Cfg) (es : List (Nat × α)) :
    ∀ (st : Store α) (now : Nat), Inv c st now → Mono now es →
      ∃ now', now ≤ now' ∧ Inv c (after c st es) now' ∧ (∀ e ∈ es, e.1 ≤ now') := by
  induction es with
  | nil => intro st now h _; exact ⟨now, Nat.le_refl _, h, by simp⟩
  | cons e es ih =>
    intro st now h hm
    obtain ⟨h1, h2⟩ := hm
    obtain ⟨n', hn, hi, hall⟩ := ih _ e.1 (allow_inv c st now h e.2 e.1 h1) h2
    refine ⟨n', by omega, hi, ?_⟩
    intro x hx
    simp only [List.mem_cons] at hx
    rcases hx with rfl | hx
    · exact hn
    · exact hall x hx

/-! ## C18_window -/

/-- bound carried through the induction (`B` in DESIGN A.6) -/
def bound (c : Cfg) (id : α) (t1 t2 : Nat) (st : Store α) (now : Nat) : Int :=
  if t2 < now then 0
  else if now < t1 then c.full + c.rateNum + ((c.rateNum * (t2 - t1) : Nat) : Int)
  else level c (st.visitors id) now + c.rateNum + ((c.rateNum * (t2 - now) : Nat) : Int)

theorem mul_split (n a b d : Nat) (h1 : a ≤ b) (h2 : b ≤ d) :
    n * (d - a) = n * (b - a) + n * (d - b) := by
  rw [← Nat.mul_add]; congr 1; omega

theorem bound_after (c : Cfg) (id : α) (t1 t2 : Nat) (st : Store α) (now : Nat) (h : t2 < now) :
    bound c id t1 t2 st now = 0 := by simp [bound, h]

theorem bound_before (c : Cfg) (id : α) (t1 t2 : Nat) (st : Store α) (now : Nat) (h : ¬ t2 < now)
    (h' : now < t1) :
    bound c id t1 t2 st now = c.full + c.rateNum + ((c.rateNum * (t2 - t1) : Nat) : Int) := by
  simp [bound, h, h']

theorem bound_in (c : Cfg) (id : α) (t1 t2 : Nat) (st : Store α) (now : Nat) (h : ¬ t2 < now)
    (h' : ¬ now < t1) :
    bound c id t1 t2 st now =
      level c (st.visitors id) now + c.rateNum + ((c.rateNum * (t2 - now) : Nat) : Int) := by
  simp [bound, h, h']

theorem window_aux (c : Cfg) (hexp : c.full ≤ ((c.expiresIn * c.rateNum : Nat) : Int))
    (id : α) (t1 t2 : Nat) (es : List (Nat × α)) :
    ∀ (st : Store α) (now : Nat), Inv c st now → Mono now es →
      ((admittedIn c id t1 t2 st es * c.scale : Nat) : Int) ≤ bound c id t1 t2 st now := by
  induction es with
  | nil =>
    intro st now hinv _
    have hl := level_lower c (st.visitors id) now now (fun v hv => hinv id v hv)
    have := full_nonneg c
    simp only [admittedIn, Nat.zero_mul, bound]
    split
    · simp
    · split <;> omega
  | cons e es ih =>
    intro st now hinv hm
    obtain ⟨t, i⟩ := e
    obtain ⟨hle, hm'⟩ := hm
    simp only at hle hm'
    have hinv' := allow_inv c st now hinv i t hle
    have ih' := ih _ t hinv' hm'
    have hlev := allow_level c hexp st now hinv i t id t (Nat.le_refl _)
    have hfull := level_le_full c (st.visitors id) t
    have hmono := (level_mono c (st.visitors id) hle).2
    have hlow := level_lower c (st.visitors id) now now (fun v hv => hinv id v hv)
    have hlow' := level_lower c (st.visitors id) now t (fun v hv => hinv id v hv)
    have hfn := full_nonneg c
    -- the level of `id` after the call: one token less iff it was `id`'s call and admitted
    have hlev2 : level c ((allow c st i t).1.visitors id) t =
        level c (st.visitors id) t -
          (if id = i ∧ (allow c st i t).2 = true then (c.scale : Int) else 0) := by
      rw [hlev]
      split
      · next h => rw [← h.1]; exact advance_self c _ _ (by omega)
      · omega
    -- the count
    have hcnt : admittedIn c id t1 t2 st ((t, i) :: es) =
        (if i = id ∧ (allow c st i t).2 = true ∧ t1 ≤ t ∧ t ≤ t2 then 1 else 0)
          + admittedIn c id t1 t2 (allow c st i t).1 es := rfl
    rw [hcnt, Nat.add_mul]
    generalize admittedIn c id t1 t2 (allow c st i t).1 es = K at ih' ⊢
    by_cases h2n : t2 < now
    · -- the window is over
      have h2 : t2 < t := by omega
      rw [bound_after _ _ _ _ _ _ h2n]
      rw [bound_after _ _ _ _ _ _ h2] at ih'
      have hz : ¬ (i = id ∧ (allow c st i t).2 = true ∧ t1 ≤ t ∧ t ≤ t2) := by
        intro h; omega
      rw [if_neg hz]; omega
    · by_cases h2 : t2 < t
      · -- this call and all later ones are after the window
        rw [bound_after _ _ _ _ _ _ h2] at ih'
        have hz : ¬ (i = id ∧ (allow c st i t).2 = true ∧ t1 ≤ t ∧ t ≤ t2) := by
          intro h; omega
        rw [if_neg hz]
        by_cases h1n : now < t1
        · rw [bound_before _ _ _ _ _ _ h2n h1n]; omega
        · rw [bound_in _ _ _ _ _ _ h2n h1n]; omega
      · by_cases h1 : t < t1
        · -- still before the window
          have h1n : now < t1 := by omega
          rw [bound_before _ _ _ _ _ _ h2n h1n]
          rw [bound_before _ _ _ _ _ _ h2 h1] at ih'
          have hz : ¬ (i = id ∧ (allow c st i t).2 = true ∧ t1 ≤ t ∧ t ≤ t2) := by
            intro h; omega
          rw [if_neg hz]; omega
        · -- inside the window
          rw [bound_in _ _ _ _ _ _ h2 h1, hlev2] at ih'
          have hk : ((if i = id ∧ (allow c st i t).2 = true ∧ t1 ≤ t ∧ t ≤ t2 then 1 else 0) * c.scale : Nat)
              = (if id = i ∧ (allow c st i t).2 = true then (c.scale : Int) else 0) := by
            by_cases ha : i = id ∧ (allow c st i t).2 = true
            · have h1' : i = id ∧ (allow c st i t).2 = true ∧ t1 ≤ t ∧ t ≤ t2 :=
                ⟨ha.1, ha.2, by omega, by omega⟩
              have h2' : id = i ∧ (allow c st i t).2 = true := ⟨ha.1.symm, ha.2⟩
              rw [if_pos h1', if_pos h2']; simp
            · have h1' : ¬ (i = id ∧ (allow c st i t).2 = true ∧ t1 ≤ t ∧ t ≤ t2) :=
                fun h => ha ⟨h.1, h.2.1⟩
              have h2' : ¬ (id = i ∧ (allow c st i t).2 = true) := fun h => ha ⟨h.1.symm, h.2⟩
              rw [if_neg h1', if_neg h2']; simp
          generalize (if id = i ∧ (allow c st i t).2 = true then (c.scale : Int) else 0) = X at ih' hk
          by_cases h1n : now < t1
          · rw [bound_before _ _ _ _ _ _ h2n h1n]
            have : c.rateNum * (t2 - t) ≤ c.rateNum * (t2 - t1) := Nat.mul_le_mul_left _ (by omega)
            omega
          · rw [bound_in _ _ _ _ _ _ h2n h1n]
            have := mul_split c.rateNum now t t2 hle (by omega)
            omega

/-- **C18_window** — for every configuration with `ExpiresIn*rate ≥ burst`, every history of
    `Allow` calls over any number of identifiers on a clock that never goes back, every
    identifier and every window `[t1, t2]`:

        admitted(id, [t1,t2])  ≤  burst + rate * (t2 - t1 + 1 ns)

    (scaled by `S`).  The `+ 1 ns` is the dependency's truncation slack (finding F11); the
    bound without it is false, see `C18_window_noslack_false`. -/
theorem C18_window (c : Cfg) (hexp : c.full ≤ ((c.expiresIn * c.rateNum : Nat) : Int))
    (t0 : Nat) (es : List (Nat × α)) (hm : Mono 0 es) (id : α) (t1 t2 : Nat) :
    admittedIn c id t1 t2 (Store.init t0) es * c.scale
      ≤ c.burst * c.scale + c.rateNum * (t2 - t1 + 1) := by
  have h := window_aux c hexp id t1 t2 es (Store.init t0) 0 (inv_init c t0 0) hm
  have hl : level c ((Store.init t0 : Store α).visitors id) 0 = c.full := rfl
  have hf : c.full = ((c.burst * c.scale : Nat) : Int) := rfl
  rw [Nat.mul_add, Nat.mul_one]
  by_cases h1 : 0 < t1
  · rw [bound_before _ _ _ _ _ _ (Nat.not_lt_zero _) h1] at h
    omega
  · rw [bound_in _ _ _ _ _ _ (Nat.not_lt_zero _) h1, hl] at h
    have : t1 = 0 := by omega
    subst this
    simp only [Nat.sub_zero] at h ⊢
    omega

/-! ## C18_independent -/

/-- a single token bucket fed with the instants of one identifier (no store, no expiry) -/
def bucketRun (c : Cfg) : Bucket → List Nat → List Bool
  | _, [] => []
  | b, t :: ts => (allowN c b t).2 :: bucketRun c (allowN c b t).1 ts

/-- the decisions the store took for `id`, in order -/
def decisionsFor (c : Cfg) (id : α) : Store α → List (Nat × α) → List Bool
  | _, [] => []
  | st, e :: es =>
    if e.2 = id then (allow c st e.2 e.1).2 :: decisionsFor c id (allow c st e.2 e.1).1 es
    else decisionsFor c id (allow c st e.2 e.1).1 es

theorem independent_aux (c : Cfg) (hexp : c.full ≤ ((c.expiresIn * c.rateNum : Nat) : Int))
    (id : α) (es : List (Nat × α)) :
    ∀ (st : Store α) (now : Nat) (b : Bucket), Inv c st now → Mono now es →
      (∀ τ, now ≤ τ → level c (st.visitors id) τ = advance c b τ) →
      decisionsFor c id st es = bucketRun c b ((es.filter (fun e => decide (e.2 = id))).map (·.1)) := by
  induction es with
  | nil => intros; rfl
  | cons e es ih =>
    intro st now b hinv hm hsim
    obtain ⟨hle, hm'⟩ := hm
    have hinv' := allow_inv c st now hinv e.2 e.1 hle
    by_cases hid : e.2 = id
    · have hdec : (allow c st e.2 e.1).2 = (allowN c b e.1).2 := by
        rw [allow_ok]
        apply allowN_congr
        rw [level_lookupOrNew, hid]
        exact hsim e.1 hle
      simp only [decisionsFor, hid, ite_true, List.filter_cons, decide_true, List.map_cons, bucketRun]
      rw [← hid, hdec]
      congr 1
      rw [hid]
      apply ih _ e.1 _ (by rw [← hid]; exact hinv') hm'
      intro τ hτ
      have hl := allow_level c hexp st now hinv e.2 e.1 id τ hτ
      rw [hid] at hl
      rw [hl]
      rw [hid] at hdec
      rcases allowN_spec c b e.1 with ⟨hok, hb, _⟩ | ⟨hok, hb, _⟩
      · rw [hdec, hok, hb, hsim e.1 hle]; simp
      · rw [hdec, hok, hb]; simp only [Bool.false_eq_true, and_false, ite_false]
        exact hsim τ (by omega)
    · have hne : ¬ (id = e.2) := fun h => hid h.symm
      simp only [decisionsFor, hid, ite_false, List.filter_cons, decide_false]
      apply ih _ e.1 b hinv' hm'
      intro τ hτ
      have hl := allow_level c hexp st now hinv e.2 e.1 id τ hτ
      simp only [hne, false_and, ite_false] at hl
      rw [hl]
      exact hsim τ (by omega)

/-- **C18_independent (refinement)** — the decisions the store takes for `id` are exactly
    those of ONE token bucket fed with `id`'s own arrival instants: other identifiers'
    traffic, the sweeps it triggers and `id`'s own expiry never change a decision.  In
    particular a request is refused only when `id`'s own bucket is used up. -/
theorem C18_independent_bucket (c : Cfg) (hexp : c.full ≤ ((c.expiresIn * c.rateNum : Nat) : Int))
    (t0 : Nat) (es : List (Nat × α)) (hm : Mono 0 es) (id : α) :
    decisionsFor c id (Store.init t0) es =
      bucketRun c (fresh c) ((es.filter (fun e => decide (e.2 = id))).map (·.1)) := by
  apply independent_aux c hexp id es (Store.init t0) 0 (fresh c) (inv_init c t0 0) hm
  intro τ _
  simp [Store.init, level, advance_fresh]

theorem mono_filter (p : Nat × α → Bool) (es : List (Nat × α)) :
    ∀ now, Mono now es → Mono now (es.filter p) := by
  induction es with
  | nil => intro _ _; trivial
  | cons e es ih =>
    intro now ⟨h1, h2⟩
    simp only [List.filter_cons]
    split
    · exact ⟨h1, ih _ h2⟩
    · have := ih _ h2
      cases hf : es.filter p with
      | nil => trivial
      | cons x xs => rw [hf] at this; exact ⟨by have := this.1; omega, this.2⟩

theorem decisionsFor_all (c : Cfg) (id : α) (es : List (Nat × α)) (h : ∀ e ∈ es, e.2 = id) :
    ∀ st : Store α, decisionsFor c id st es = decisions c st es := by
  induction es with
  | nil => intro _; rfl
  | cons e es ih =>
    intro st
    have he : e.2 = id := h e (by simp)
    simp only [decisionsFor, he, ite_true, decisions]
    rw [ih (fun x hx => h x (by simp [hx]))]

/-- **C18_independent** — the decisions for `id` in a history are the same as in the history
    from which every other identifier's traffic has been removed (possibly with a store
    constructed at another instant). -/
theorem C18_independent (c : Cfg) (hexp : c.full ≤ ((c.expiresIn * c.rateNum : Nat) : Int))
    (t0 t0' : Nat) (es : List (Nat × α)) (hm : Mono 0 es) (id : α) :
    decisionsFor c id (Store.init t0) es =
      decisions c (Store.init t0') (es.filter (fun e => decide (e.2 = id))) := by
  rw [C18_independent_bucket c hexp t0 es hm id]
  have hf : ∀ e ∈ es.filter (fun e => decide (e.2 = id)), e.2 = id := by
    intro e he; simpa using (List.mem_filter.mp he).2
  rw [← decisionsFor_all c id _ hf]
  rw [C18_independent_bucket c hexp t0' _ (mono_filter _ es 0 hm) id]
  simp [List.filter_filter]

/-! ## C18_expiry_one_burst -/

/-- **C18_expiry_one_burst** — in every reachable store, a visitor that the sweep at instant
    `t` forgets has a bucket that is already full at `t`: the fresh limiter it gets on its
    return (a full burst) is exactly what it would have had anyway, so expiry never grants
    anything. -/
theorem C18_expiry_one_burst (c : Cfg) (hexp : c.full ≤ ((c.expiresIn * c.rateNum : Nat) : Int))
    (t0 : Nat) (es : List (Nat × α)) (hm : Mono 0 es) (t : Nat)
    (i : α) (v : Visitor) (hv : (after c (Store.init t0) es).visitors i = some v)
    (hforgot : cleanup c (after c (Store.init t0) es).visitors t i = none) :
    advance c v.b t = c.full := by
  obtain ⟨now', _, hinv, _⟩ := reachable_inv c es (Store.init t0) 0 (inv_init c t0 0) hm
  simp only [cleanup, hv] at hforgot
  split at hforgot
  · next hst => exact stale_is_full c hexp v now' t t (hinv i v hv) (Nat.le_refl _) hst
  · simp at hforgot

/-- the sweep changes nobody's level (so it is unobservable), for every reachable store -/
theorem C18_sweep_unobservable (c : Cfg) (hexp : c.full ≤ ((c.expiresIn * c.rateNum : Nat) : Int))
    (st : Store α) (now : Nat) (hinv : Inv c st now) (t τ : Nat) (hτ : t ≤ τ) (i : α) :
    level c (cleanup c st.visitors t i) τ = level c (st.visitors i) τ := by
  simp only [cleanup]
  cases hv : st.visitors i with
  | none => rfl
  | some v =>
    simp only
    split
    · next hst => simp only [level]; exact (stale_is_full c hexp v now t τ (hinv i v hv) hτ hst).symm
    · rfl

/-! ## C18_middleware -/

/-- **C18_middleware** — one request through `RateLimiterWithConfig`: the handler runs iff
    `Store.Allow` admitted (and the store is called exactly as by a direct call); a refused
    request is answered 429; an extractor error is answered 403 and a skipped request runs
    the handler, both without touching the store. -/
theorem C18_middleware (c : Cfg) (st : Store α) (t : Nat) (id : α) :
    ((step c st ⟨t, .http, id⟩).2.ran = (allow c st id t).2 ∧
      (step c st ⟨t, .http, id⟩).1 = (allow c st id t).1 ∧
      ((allow c st id t).2 = false → (step c st ⟨t, .http, id⟩).2.status = 429) ∧
      ((allow c st id t).2 = true → (step c st ⟨t, .http, id⟩).2.status = 200)) ∧
    ((step c st ⟨t, .httpErr, id⟩).1 = st ∧ (step c st ⟨t, .httpErr, id⟩).2 = ⟨false, 403⟩) ∧
    ((step c st ⟨t, .httpSkip, id⟩).1 = st ∧ (step c st ⟨t, .httpSkip, id⟩).2 = ⟨true, 200⟩) ∧
    ((step c st ⟨t, .direct, id⟩).1 = (allow c st id t).1 ∧
      (step c st ⟨t, .direct, id⟩).2.ran = (allow c st id t).2) := by
  refine ⟨?_, ⟨rfl, rfl⟩, ⟨rfl, rfl⟩, ⟨rfl, rfl⟩⟩
  simp only [step]
  cases h : (allow c st id t).2 <;> simp

/-- the `Allow` calls a history of requests makes -/
def storeCalls : List (Ev α) → List (Nat × α)
  | [] => []
  | e :: es =>
    match e.kind with
    | .http | .direct => (e.t, e.id) :: storeCalls es
    | _ => storeCalls es

/-- number of requests of `id` in `[t1,t2]` that got through (handler ran / `Allow` = true),
    not counting skipped requests -/
def passedIn (c : Cfg) (id : α) (t1 t2 : Nat) : Store α → List (Ev α) → Nat
  | _, [] => 0
  | st, e :: es =>
    (if (e.kind = .http ∨ e.kind = .direct) ∧ e.id = id ∧ (step c st e).2.ran = true ∧ t1 ≤ e.t ∧ e.t ≤ t2
      then 1 else 0) + passedIn c id t1 t2 (step c st e).1 es

/-- no call of the history has an out-of-order `AllowN` reading (all clock readings of a call
    coincide) -/
def NoSkew : List (Ev α) → Prop
  | [] => True
  | e :: es => (∀ tb, e.kind ≠ .directAt tb) ∧ NoSkew es

theorem passedIn_eq (c : Cfg) (id : α) (t1 t2 : Nat) (es : List (Ev α)) :
    ∀ st : Store α, NoSkew es →
      passedIn c id t1 t2 st es = admittedIn c id t1 t2 st (storeCalls es) := by
  induction es with
  | nil => intro _ _; rfl
  | cons e es ih =>
    intro st hns
    obtain ⟨hk, hns'⟩ := hns
    obtain ⟨t, k, i⟩ := e
    cases k
    · -- direct
      simp only [passedIn, storeCalls, admittedIn, ih _ hns']
      simp [step]
    · -- http
      simp only [passedIn, storeCalls, admittedIn, ih _ hns']
      have h1 : (step c st ⟨t, .http, i⟩).1 = (allow c st i t).1 := (C18_middleware c st t i).1.2.1
      have h2 : (step c st ⟨t, .http, i⟩).2.ran = (allow c st i t).2 := (C18_middleware c st t i).1.1
      rw [h1, h2]; simp
    · simp only [passedIn, storeCalls, ih _ hns']; simp [step]
    · simp only [passedIn, storeCalls, ih _ hns']; simp [step]
    · exact absurd rfl (hk _)

/-- instants of the requests that reach the store never go back -/
def MonoEv (now : Nat) (es : List (Ev α)) : Prop := Mono now (storeCalls es)

/-- **C18_window, through the middleware** — any mix of direct calls, requests through the
    middleware, extractor errors and skipped requests. -/
theorem C18_window_http (c : Cfg) (hexp : c.full ≤ ((c.expiresIn * c.rateNum : Nat) : Int))
    (t0 : Nat) (es : List (Ev α)) (hm : MonoEv 0 es) (hns : NoSkew es) (id : α) (t1 t2 : Nat) :
    passedIn c id t1 t2 (Store.init t0) es * c.scale
      ≤ c.burst * c.scale + c.rateNum * (t2 - t1 + 1) := by
  rw [passedIn_eq _ _ _ _ _ _ hns]
  exact C18_window c hexp t0 _ hm id t1 t2

/-! ## defaults -/

/-- **C18_defaults** — `Burst = 0` means `⌊rate⌋`, `ExpiresIn = 0` means 3 minutes; other
    values are taken as they are. -/
theorem C18_defaults (r : RawCfg) :
    (mkCfg r).burst = (if r.burst = 0 then r.rateNum / r.rateDen else r.burst) ∧
    (mkCfg r).expiresIn = (if r.expiresIn = 0 then 180 * 1000000000 else r.expiresIn) ∧
    (mkCfg r).rateNum = r.rateNum ∧ (mkCfg r).rateDen = r.rateDen := by
  simp [mkCfg, defaultExpires, nsPerSec]

/-! ## witnesses -/

/-- rate 3/s, burst 1, ExpiresIn 1 s -/
def cfgF11 : Cfg := mkCfg ⟨3, 1, 1, 1000000000⟩

def histF11 : List (Nat × Nat) := [(0, 7), (333333333, 7), (666666666, 7)]

/-- **negation witness (F11)** — the bound as stated in the property (no slack) is false for
    the model, as it is for the real code: 3 requests admitted in 0.666666666 s at rate 3/s,
    burst 1 (3 > 1 + 3 * 0.666666666). -/
theorem C18_window_noslack_false :
    ¬ (∀ (c : Cfg) (_ : c.full ≤ ((c.expiresIn * c.rateNum : Nat) : Int)) (t0 : Nat)
        (es : List (Nat × Nat)) (_ : Mono 0 es) (id t1 t2 : Nat),
        admittedIn c id t1 t2 (Store.init t0) es * c.scale
          ≤ c.burst * c.scale + c.rateNum * (t2 - t1)) := by
  intro h
  have := h cfgF11 (by decide) 0 histF11 (by decide) 7 0 666666666
  revert this
  decide

/-- non-vacuity of `C18_window` and tightness of the slack: on the same history the bound with
    1 ns holds with equality-1 … concretely 3 * S ≤ 1 * S + 3 * 666666667. -/
example : admittedIn cfgF11 7 0 666666666 (Store.init 0) histF11 = 3 := by decide
example : cfgF11.full ≤ ((cfgF11.expiresIn * cfgF11.rateNum : Nat) : Int) ∧ Mono 0 histF11 := by decide

/-- two identifiers, a sweep, and a return after being forgotten: decisions -/
def histTwo : List (Nat × Nat) :=
  [(0, 1), (0, 1), (0, 2), (500000000, 1), (2000000001, 2), (2000000001, 1), (2000000001, 1)]
example : decisions cfgF11 (Store.init 0) histTwo = [true, false, true, true, true, true, false] := by decide
example : decisionsFor cfgF11 1 (Store.init 0) histTwo = [true, false, true, true, false] := by decide
/-- identifier 1 has been forgotten by the sweep that identifier 2 triggered at 2000000001 -/
example : (after cfgF11 (Store.init 0) (histTwo.take 5)).visitors 1 = none := by decide

/-- **without `ExpiresIn*rate ≥ burst` expiry does refill faster than the rate** (so the side
    condition of the property is needed): rate 1/s, burst 3, ExpiresIn 1 s; identifier 1 uses
    its burst at 0, identifier 2 triggers a sweep at 1.000000001 s that forgets 1, and 1 gets
    three more at that instant: 6 admitted in 1.000000001 s > 3 + 1 * 1.000000002. -/
def cfgNoHexp : Cfg := mkCfg ⟨1, 1, 3, 1000000000⟩
def histNoHexp : List (Nat × Nat) :=
  [(0, 1), (0, 1), (0, 1), (1000000001, 2), (1000000001, 1), (1000000001, 1), (1000000001, 1)]
example : ¬ (cfgNoHexp.full ≤ ((cfgNoHexp.expiresIn * cfgNoHexp.rateNum : Nat) : Int)) := by decide
example : admittedIn cfgNoHexp 1 0 1000000001 (Store.init 0) histNoHexp = 6 := by decide
example : ¬ (admittedIn cfgNoHexp 1 0 1000000001 (Store.init 0) histNoHexp * cfgNoHexp.scale
    ≤ cfgNoHexp.burst * cfgNoHexp.scale + cfgNoHexp.rateNum * (1000000001 - 0 + 1)) := by decide

/-- middleware, concrete: second request at the same instant is refused with 429 -/
example : run cfgF11 (Store.init 0) [⟨0, .http, 5⟩, ⟨0, .http, 5⟩, ⟨0, .httpErr, 5⟩, ⟨0, .httpSkip, 5⟩]
    = [⟨true, 200⟩, ⟨false, 429⟩, ⟨false, 403⟩, ⟨true, 200⟩] := by decide

/-! ## "a request is refused only when that identifier's own allowance is used up"

By `C18_independent_bucket` the store's decisions for `id` are those of one token bucket fed
with `id`'s instants.  For that bucket: whenever a call is refused, some window of the
identifier's own admitted calls ending now is used up — one more admission would exceed
`burst + rate * d` — stated on the observable trace only (`roomR`). -/

/-- `roomR c acc hist τ`: `hist` is the trace so far, newest first, as (instant, admitted);
    the result is `min(full, min over admitted calls i of (full − cntᵢ·S + N·(τ − tᵢ)))`
    where `cntᵢ` = `acc` + number of admitted calls from `i` to the newest.  It is what is
    left, at `τ`, of the tightest window of admitted calls (in scaled tokens). -/
def roomR (c : Cfg) : Nat → List (Nat × Bool) → Nat → Int
  | _, [], _ => c.full
  | acc, (ti, ok) :: older, τ =>
    if ok then
      min (c.full - (((acc + 1) * c.scale : Nat) : Int) + ((c.rateNum * (τ - ti) : Nat) : Int))
          (roomR c (acc + 1) older τ)
    else roomR c acc older τ

theorem roomR_le_full (c : Cfg) (hist : List (Nat × Bool)) : ∀ acc τ, roomR c acc hist τ ≤ c.full := by
  induction hist with
  | nil => intro _ _; simp [roomR]
  | cons e older ih =>
    intro acc τ
    obtain ⟨ti, ok⟩ := e
    simp only [roomR]
    split
    · have := ih (acc + 1) τ; omega
    · exact ih acc τ

/-- explicit form: `roomR < x` iff the bucket size itself is below `x` or some admitted call
    `i` has `full − cntᵢ·S + N·(τ − tᵢ) < x` -/
theorem roomR_lt_iff (c : Cfg) (hist : List (Nat × Bool)) : ∀ (acc τ : Nat) (x : Int),
    roomR c acc hist τ < x ↔
      (c.full < x ∨ ∃ k, k < hist.length ∧ (hist[k]?.map (·.2)) = some true ∧
        c.full - (((acc + ((hist.take (k + 1)).filter (·.2)).length) * c.scale : Nat) : Int)
          + ((c.rateNum * (τ - (hist[k]?.map (·.1)).getD 0) : Nat) : Int) < x) := by
  induction hist with
  | nil => intro acc τ x; simp [roomR]
  | cons e older ih =>
    intro acc τ x
    obtain ⟨ti, ok⟩ := e
    cases ok with
    | false =>
      simp only [roomR, Bool.false_eq_true, ite_false]
      rw [ih]
      constructor
      · rintro (h | ⟨k, hk, hadm, hlt⟩)
        · exact Or.inl h
        · refine Or.inr ⟨k + 1, by simp; omega, by simpa using hadm, ?_⟩
          simpa [List.take_succ_cons, List.filter_cons] using hlt
      · rintro (h | ⟨k, hk, hadm, hlt⟩)
        · exact Or.inl h
        · cases k with
          | zero => simp at hadm
          | succ k =>
            refine Or.inr ⟨k, by simpa using hk, by simpa using hadm, ?_⟩
            simpa [List.take_succ_cons, List.filter_cons] using hlt
    | true =>
      simp only [roomR, ite_true]
      have hmin : ∀ a b y : Int, min a b < y ↔ a < y ∨ b < y := by intro a b y; omega
      rw [hmin, ih]
      constructor
      · rintro (h | h | ⟨k, hk, hadm, hlt⟩)
        · refine Or.inr ⟨0, by simp, by simp, ?_⟩
          simpa [List.filter_cons] using h
        · exact Or.inl h
        · refine Or.inr ⟨k + 1, by simp; omega, by simpa using hadm, ?_⟩
          simp only [List.take_succ_cons, List.filter_cons, ite_true, List.length_cons,
            List.getElem?_cons_succ]
          have : acc + (((older.take (k + 1)).filter (·.2)).length + 1) =
              acc + 1 + ((older.take (k + 1)).filter (·.2)).length := by omega
          rw [this]; exact hlt
      · rintro (h | ⟨k, hk, hadm, hlt⟩)
        · exact Or.inr (Or.inl h)
        · cases k with
          | zero =>
            left
            simpa [List.filter_cons] using hlt
          | succ k =>
            right; right
            refine ⟨k, by simpa using hk, by simpa using hadm, ?_⟩
            simp only [List.take_succ_cons, List.filter_cons, ite_true, List.length_cons,
              List.getElem?_cons_succ] at hlt
            have : acc + (((older.take (k + 1)).filter (·.2)).length + 1) =
                acc + 1 + ((older.take (k + 1)).filter (·.2)).length := by omega
            rw [this] at hlt; exact hlt

/-- taking one more token at `t` and waiting until `τ` -/
theorem roomR_step (c : Cfg) (hist : List (Nat × Bool)) (t τ : Nat) (hle : t ≤ τ)
    (hh : ∀ e ∈ hist, e.1 ≤ t) : ∀ acc,
    min (c.full - c.scale + ((c.rateNum * (τ - t) : Nat) : Int)) (roomR c (acc + 1) hist τ)
      ≤ roomR c acc hist t - c.scale + ((c.rateNum * (τ - t) : Nat) : Int) := by
  induction hist with
  | nil => intro acc; simp only [roomR]; omega
  | cons e older ih =>
    intro acc
    obtain ⟨ti, ok⟩ := e
    have hti : ti ≤ t := hh (ti, ok) List.mem_cons_self
    have ih' := ih (fun e he => hh e (List.mem_cons_of_mem _ he))
    cases ok with
    | false => simp only [roomR, Bool.false_eq_true, ite_false]; exact ih' acc
    | true =>
      simp only [roomR, ite_true]
      have h1 := ih' (acc + 1)
      have hs := mul_split c.rateNum ti t τ hti hle
      have hmul : ((acc + 1 + 1) * c.scale : Nat) = (acc + 1) * c.scale + c.scale := by
        rw [Nat.add_mul, Nat.one_mul]
      omega

/-- every refusal in the run is justified by the trace so far -/
def JustifiedAll (c : Cfg) : Bucket → List (Nat × Bool) → List Nat → Prop
  | _, _, [] => True
  | b, hist, t :: ts =>
    ((allowN c b t).2 = false → c.burst = 0 ∨ roomR c 0 hist t < c.scale) ∧
    JustifiedAll c (allowN c b t).1 ((t, (allowN c b t).2) :: hist) ts

def MonoT : Nat → List Nat → Prop
  | _, [] => True
  | now, t :: ts => now ≤ t ∧ MonoT t ts

theorem justified_aux (c : Cfg) (ts : List Nat) : ∀ (b : Bucket) (hist : List (Nat × Bool)) (now : Nat),
    (∀ τ, now ≤ τ → roomR c 0 hist τ ≤ advance c b τ) → (∀ e ∈ hist, e.1 ≤ now) → MonoT now ts →
    JustifiedAll c b hist ts := by
  induction ts with
  | nil => intros; trivial
  | cons t ts ih =>
    intro b hist now hinv hh hm
    obtain ⟨hle, hm'⟩ := hm
    have hht : ∀ e ∈ hist, e.1 ≤ t := fun e he => Nat.le_trans (hh e he) hle
    rcases allowN_spec c b t with ⟨hok, hb, _, _, _⟩ | ⟨hok, hb, hwhy⟩
    · -- admitted
      refine ⟨by simp [hok], ?_⟩
      rw [hok, hb]
      apply ih _ _ t _ _ hm'
      · intro τ hτ
        have h1 : min (c.full - c.scale + ((c.rateNum * (τ - t) : Nat) : Int)) (roomR c 1 hist τ)
            ≤ roomR c 0 hist t - c.scale + ((c.rateNum * (τ - t) : Nat) : Int) :=
          roomR_step c hist t τ hτ hht 0
        have h2 := hinv t hle
        have h3 := roomR_le_full c hist 1 τ
        have hr : roomR c 0 ((t, true) :: hist) τ =
            min (c.full - ((c.scale : Nat) : Int) + ((c.rateNum * (τ - t) : Nat) : Int)) (roomR c 1 hist τ) := by
          simp [roomR]
        have ha : advance c ⟨advance c b t - c.scale, t⟩ τ =
            min c.full (advance c b t - c.scale + ((c.rateNum * (τ - t) : Nat) : Int)) := by
          rw [advance_eq]
        rw [hr, ha]
        omega
      · intro e he
        simp only [List.mem_cons] at he
        rcases he with rfl | he
        · exact Nat.le_refl _
        · exact hht e he
    · -- refused
      refine ⟨fun _ => ?_, ?_⟩
      · rcases hwhy with h0 | ⟨hneg, _⟩
        · exact Or.inl h0
        · right; have := hinv t hle; omega
      · rw [hok, hb]
        apply ih _ _ t _ _ hm'
        · intro τ hτ
          simp only [roomR, Bool.false_eq_true, ite_false]
          exact hinv τ (by omega)
        · intro e he
          simp only [List.mem_cons] at he
          rcases he with rfl | he
          · exact Nat.le_refl _
          · exact hht e he

/-- **C18_refused_only_when_used_up** — on a clock that never goes back, every refusal of the
    bucket (hence, by `C18_independent_bucket`, every refusal the store gives `id`) happens
    when `roomR` of `id`'s own trace is below one token: the burst is 0, or there is an
    admitted call `i` of the same identifier with
    `(admitted since i) + 1 > burst + rate * (now − tᵢ)` (`roomR_lt_iff`). -/
theorem C18_refused_only_when_used_up (c : Cfg) (ts : List Nat) (hm : MonoT 0 ts) :
    JustifiedAll c (fresh c) [] ts := by
  apply justified_aux c ts (fresh c) [] 0 _ (by simp) hm
  intro τ _
  simp [roomR, advance_fresh]

theorem mono_monoT (es : List (Nat × α)) : ∀ now, Mono now es → MonoT now (es.map (·.1)) := by
  induction es with
  | nil => intro _ _; trivial
  | cons e es ih => intro now ⟨h1, h2⟩; exact ⟨h1, ih _ h2⟩

/-- **C18_refusal_store** — the two halves together, for the store: the decisions for `id` in
    any history are those of its own bucket, and each refusal among them is justified by
    `id`'s own admitted calls. -/
theorem C18_refusal_store (c : Cfg) (hexp : c.full ≤ ((c.expiresIn * c.rateNum : Nat) : Int))
    (t0 : Nat) (es : List (Nat × α)) (hm : Mono 0 es) (id : α) :
    decisionsFor c id (Store.init t0) es =
      bucketRun c (fresh c) ((es.filter (fun e => decide (e.2 = id))).map (·.1)) ∧
    JustifiedAll c (fresh c) [] ((es.filter (fun e => decide (e.2 = id))).map (·.1)) :=
  ⟨C18_independent_bucket c hexp t0 es hm id,
   C18_refused_only_when_used_up c _ (mono_monoT _ 0 (mono_filter _ es 0 hm))⟩

/-- concrete: rate 3/s, burst 1: the call at 0.1 s is refused and the trace justifies it
    (1 admitted since 0 s, and 1 + 1 > 1 + 3 * 0.1) -/
example : bucketRun cfgF11 (fresh cfgF11) [0, 100000000] = [true, false] ∧
    roomR cfgF11 0 [(0, true)] 100000000 < cfgF11.scale := by decide

/-! ## clock skew between goroutines (the "however calls interleave" clause)

`Allow` reads the clock for `AllowN` *outside* every lock (`limiter.AllowN(store.timeNow(), 1)`),
and so does `rate.Limiter.Allow` itself.  Calls on one limiter therefore take the limiter's
mutex in an order that need not be the order of their clock readings.  `reserveN` copes with
an older reading by `if t.Before(last) { last = t }` — and, when it admits, stores that older
`t` as the new `last`.  The time between `t` and the newest reading seen is then credited a
second time by the next call.  `bucketRun`/`allowN` model exactly this (truncated `t - last`,
`last := t` on admit), so the effect can be stated and bounded for the model:

* every admitted call whose reading lies `δ` behind the newest reading seen so far can
  re-credit up to `rate * δ` tokens (`C18_skew_bucket`, finding F19);
* with readings at most `σ` behind: `admitted * (1 - rate*σ) ≤ burst + rate * (d + 1ns)`
  (`C18_skew_sigma`) — a *multiplicative* excess, so the additive bound
  `burst + rate * (d + 1ns + σ)` planned in DESIGN (`C18_interleaved`) is false
  (`C18_interleaved_additive_false`).

Not modelled: the store-level split of `Allow` into its locked part and `AllowN` under
interleaving (orphaned limiters when a goroutine sleeps longer than `ExpiresIn`). -/

/-- number of admitted calls among `AllowN` calls on one limiter, in mutex order, with
    arbitrary (not necessarily ordered) clock readings -/
def admittedCount (c : Cfg) : Bucket → List Nat → Nat
  | _, [] => 0
  | b, t :: ts => (if (allowN c b t).2 = true then 1 else 0) + admittedCount c (allowN c b t).1 ts

/-- sum over the admitted calls of how far their reading lies behind the newest reading seen
    before them (`hw`) -/
def backSum (c : Cfg) : Bucket → Nat → List Nat → Nat
  | _, _, [] => 0
  | b, hw, t :: ts =>
    (if (allowN c b t).2 = true then hw - t else 0) + backSum c (allowN c b t).1 (max hw t) ts

/-- the newest reading after the calls -/
def hwEnd : Nat → List Nat → Nat
  | hw, [] => hw
  | hw, t :: ts => hwEnd (max hw t) ts

theorem hwEnd_ge (ts : List Nat) : ∀ hw, hw ≤ hwEnd hw ts := by
  induction ts with
  | nil => intro hw; exact Nat.le_refl _
  | cons t ts ih => intro hw; have := ih (max hw t); simp only [hwEnd]; omega

theorem advance_lower (c : Cfg) (b : Bucket) (t : Nat) (h : -(c.rateNum : Int) ≤ b.tok) :
    -(c.rateNum : Int) ≤ advance c b t := by
  rw [advance_eq]; have := full_nonneg c; omega

/-- **C18_skew_bucket (F19)** — calls on one limiter with arbitrary clock readings, starting
    from any bucket whose deficit is within the truncation slack, `hw` being the newest
    reading seen before:

        admitted ≤ level(hw) + rate*1ns + rate*(newest reading afterwards − hw)
                   + rate * Σ_{admitted} (how far the call's reading was behind the newest)   -/
theorem C18_skew_bucket (c : Cfg) (ts : List Nat) :
    ∀ (b : Bucket) (hw : Nat), -(c.rateNum : Int) ≤ b.tok →
      ((admittedCount c b ts * c.scale : Nat) : Int) ≤
        advance c b hw + c.rateNum + ((c.rateNum * (hwEnd hw ts - hw) : Nat) : Int)
          + ((c.rateNum * backSum c b hw ts : Nat) : Int) := by
  induction ts with
  | nil =>
    intro b hw hb
    have := advance_lower c b hw hb
    simp only [admittedCount, hwEnd, backSum, Nat.zero_mul, Nat.sub_self, Nat.mul_zero]
    omega
  | cons t ts ih =>
    intro b hw hb
    have hge := hwEnd_ge ts (max hw t)
    have hsplit := mul_split c.rateNum hw (max hw t) (hwEnd (max hw t) ts) (by omega) hge
    rcases allowN_spec c b t with ⟨hok, hb', _, hlow, _⟩ | ⟨hok, hb', _⟩
    · -- admitted
      have ih' := ih (allowN c b t).1 (max hw t) (by rw [hb']; exact hlow)
      simp only [admittedCount, backSum, hwEnd, hok, ite_true, Nat.add_mul, Nat.one_mul, Nat.mul_add]
      rw [hb'] at ih' ⊢
      have hfull := advance_le_full c b t
      by_cases hlt : t < hw
      · -- an older reading: `last` moves back, rate*(hw - t) is credited again
        have hmax : max hw t = hw := by omega
        rw [hmax] at ih' hsplit ⊢
        have h1 := (advance_mono c ⟨advance c b t - c.scale, t⟩ (Nat.le_of_lt hlt)).2
        rw [advance_self c _ _ (by omega)] at h1
        have h2 := (advance_mono c b (Nat.le_of_lt hlt)).1
        omega
      · have hmax : max hw t = t := by omega
        rw [hmax] at ih' hsplit ⊢
        rw [advance_self c _ _ (by omega)] at ih'
        have h2 := (advance_mono c b (show hw ≤ t by omega)).2
        have hz : hw - t = 0 := by omega
        rw [hz, Nat.mul_zero]
        omega
    · -- refused: nothing changes
      have ih' := ih (allowN c b t).1 (max hw t) (by rw [hb']; exact hb)
      simp only [admittedCount, backSum, hwEnd, hok, Bool.false_eq_true, ite_false, Nat.zero_add]
      rw [hb'] at ih' ⊢
      have h2 := (advance_mono c b (show hw ≤ max hw t by omega)).2
      omega

/-- every reading is at most `σ` behind the newest reading seen before it -/
def SkewLe (σ : Nat) : Nat → List Nat → Prop
  | _, [] => True
  | hw, t :: ts => hw ≤ t + σ ∧ SkewLe σ (max hw t) ts

theorem backSum_le (c : Cfg) (σ : Nat) (ts : List Nat) : ∀ (b : Bucket) (hw : Nat),
    SkewLe σ hw ts → backSum c b hw ts ≤ σ * admittedCount c b ts := by
  induction ts with
  | nil => intro b hw _; simp [backSum]
  | cons t ts ih =>
    intro b hw ⟨h1, h2⟩
    have := ih (allowN c b t).1 (max hw t) h2
    simp only [backSum, admittedCount, Nat.mul_add]
    split
    · omega
    · omega

/-- **C18_skew_sigma** — if no reading is more than `σ` behind the newest one seen before it,
    then from a fresh (or any full-or-less) limiter

        admitted * (1 token − rate*σ)  ≤  burst + rate * (d + 1ns),   d = newest − first `hw`.

    With `σ = 0` (readings in mutex order) this is the window bound again. -/
theorem C18_skew_sigma (c : Cfg) (σ : Nat) (ts : List Nat) (b : Bucket) (hw : Nat)
    (hb : -(c.rateNum : Int) ≤ b.tok) (hs : SkewLe σ hw ts) :
    admittedCount c b ts * c.scale ≤
      c.burst * c.scale + c.rateNum * (hwEnd hw ts - hw + 1) + c.rateNum * (σ * admittedCount c b ts) := by
  have h := C18_skew_bucket c ts b hw hb
  have hf := advance_le_full c b hw
  have hbs := Nat.mul_le_mul_left c.rateNum (backSum_le c σ ts b hw hs)
  have hfull : c.full = ((c.burst * c.scale : Nat) : Int) := rfl
  rw [Nat.mul_add, Nat.mul_one]
  omega

def decSkewLe (σ : Nat) : ∀ (hw : Nat) (ts : List Nat), Decidable (SkewLe σ hw ts)
  | _, [] => isTrue trivial
  | hw, t :: ts =>
    match Nat.decLe hw (t + σ), decSkewLe σ (max hw t) ts with
    | isTrue h1, isTrue h2 => isTrue ⟨h1, h2⟩
    | isFalse h1, _ => isFalse (fun h => h1 h.1)
    | _, isFalse h2 => isFalse (fun h => h2 h.2)

instance (σ hw : Nat) (ts : List Nat) : Decidable (SkewLe σ hw ts) := decSkewLe σ hw ts

/-- at the store: the decision of a call with a separate `AllowN` reading `tb` is that of the
    identifier's limiter at `tb` -/
theorem allow2_ok (c : Cfg) (st : Store α) (id : α) (now tb : Nat) :
    (allow2 c st id now tb).2 = (allowN c (lookupOrNew c (st.visitors id)).b tb).2 := rfl

/-- rate 1/s, burst 8; readings alternate between 10.0 s and 9.6 s (skew σ = 0.4 s) -/
def cfgSkew : Cfg := mkCfg ⟨1, 1, 8, 100000000000⟩
def skewTimes : List Nat :=
  [10000000000, 9600000000, 10000000000, 9600000000, 10000000000, 9600000000,
   10000000000, 9600000000, 10000000000, 9600000000, 10000000000, 9600000000]

/-- **negation witness for the additive bound planned as `C18_interleaved`**: with skew
    σ = 0.4 s, 9 calls are admitted although all readings lie within 0.4 s:
    9 > burst 8 + rate * (d 0.4 s + 1 ns + σ 0.4 s) = 8.8.  (The multiplicative bound of
    `C18_skew_sigma` gives 9 * 0.6 = 5.4 ≤ 8.4.) -/
theorem C18_interleaved_additive_false :
    ¬ (∀ (c : Cfg) (σ : Nat) (ts : List Nat) (hw : Nat), SkewLe σ hw ts →
        admittedCount c (fresh c) ts * c.scale ≤
          c.burst * c.scale + c.rateNum * (hwEnd hw ts - hw + 1 + σ)) := by
  intro h
  have := h cfgSkew 400000000 skewTimes 9600000000 (by decide)
  revert this
  decide

example : admittedCount cfgSkew (fresh cfgSkew) skewTimes = 9 := by decide
example : bucketRun cfgSkew (fresh cfgSkew) skewTimes =
    [true, true, true, true, true, true, true, true, true, false, false, false] := by decide


/-- at the store, with a realistic (monotone) clock: rate 2/s, burst 2; calls come in pairs,
    the first of a pair reads the clock at `t` and is overtaken by the second, which reads
    `t + 0.5 s`; in `AllowN` order the readings are 0.5, 0.0, 1.0, 0.5, 1.5, 1.0, … s.
    All 12 calls (4 per second) are admitted: twice the configured rate (corpus/C18/F19.json
    is the same schedule on the real store). -/
def cfgDouble : Cfg := mkCfg ⟨2, 1, 2, 1000000000000⟩
def histDouble : List (Ev Nat) :=
  [⟨1000000000, .directAt 1000000000, 1⟩, ⟨500000000, .directAt 500000000, 1⟩,
   ⟨1500000000, .directAt 1500000000, 1⟩, ⟨1000000000, .directAt 1000000000, 1⟩,
   ⟨2000000000, .directAt 2000000000, 1⟩, ⟨1500000000, .directAt 1500000000, 1⟩,
   ⟨2500000000, .directAt 2500000000, 1⟩, ⟨2000000000, .directAt 2000000000, 1⟩,
   ⟨3000000000, .directAt 3000000000, 1⟩, ⟨2500000000, .directAt 2500000000, 1⟩,
   ⟨3500000000, .directAt 3500000000, 1⟩, ⟨3000000000, .directAt 3000000000, 1⟩]
example : (run cfgDouble (Store.init 0) histDouble).map (·.ran) =
    [true, true, true, true, true, true, true, true, true, true, true, true] := by decide

end C18
