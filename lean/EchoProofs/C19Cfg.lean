import EchoModel.C19
import EchoProofs.C19
/-!
# C19, round 4 — the retry loop under every configuration

`loopG` (EchoModel/C19.lean) is `ProxyWithConfig`'s loop with the whole configuration surface:
custom `RetryFilter` (any function of call number and error), `TargetProvider` balancers that may
answer errors, websocket attempts (`proxyRaw`), response writers that cannot be hijacked.
Everything here is for ALL filters / provider scripts / liveness patterns / RetryCounts / balancer
states; `C19_cfg_refines` ties `loopG` back to `proxyLoop`, so the theorems of EchoProofs/C19.lean
are about the default configuration of the same loop.
-/
namespace C19

/-- one unfolding of the loop -/
theorem loopG_eq (env : EnvG) (retries : Nat) (closed : Bool) (k fc : Nat) (b : Bal) (last : Option Nat)
    (hints : List (List Char)) :
    loopG env retries closed k fc b last hints =
      match (if env.provider then env.provErr k else none) with
      | some e => ⟨b, last, [], [], .failed e⟩
      | none =>
        let n := nextOf env.rr b last hints.head?
        match n.2.2 with
        | .pick .nil => ⟨n.1, n.2.1, [n.2.2], [], .failed (.http 502)⟩
        | .pick (.tgt t) =>
          match attemptErr env closed t with
          | none => ⟨n.1, n.2.1, [n.2.2], [], .relayed t⟩
          | some e =>
            match retries with
            | 0 => ⟨n.1, n.2.1, [n.2.2], [], .failed e⟩
            | m + 1 =>
              if env.filter fc e then
                let R := loopG env m true (k + 1) (fc + 1) n.1 n.2.1 hints.tail
                ⟨R.bal, R.last, n.2.2 :: R.picks, e :: R.fcalls, R.out⟩
              else ⟨n.1, n.2.1, [n.2.2], [e], .failed e⟩
        | _ => ⟨n.1, n.2.1, [n.2.2], [], .panic⟩ := by
  cases retries <;> (rw [loopG]; rfl)

/-- the `k`-th `Next`/`NextTarget` call is not answered with an error -/
def NoProvErr (env : EnvG) (k : Nat) : Prop := (if env.provider then env.provErr k else none) = none

/-- declarative description of the runs of the loop over a target list `ts`:
    `RunG env ts closed retries k fc picks fcalls out` -/
inductive RunG (env : EnvG) (ts : List Target) : Bool → Nat → Nat → Nat → List Res → List Err → OutG → Prop where
  | provErr (closed r k fc e) : env.provider = true → env.provErr k = some e →
      RunG env ts closed r k fc [] [] (.failed e)
  | noTarget (closed r k fc) : NoProvErr env k → ts = [] →
      RunG env ts closed r k fc [.pick .nil] [] (.failed (.http 502))
  | relayed (closed r k fc t) : NoProvErr env k → t ∈ ts → attemptErr env closed t = none →
      RunG env ts closed r k fc [.pick (.tgt t)] [] (.relayed t)
  | giveUp (closed k fc t e) : NoProvErr env k → t ∈ ts → attemptErr env closed t = some e →
      RunG env ts closed 0 k fc [.pick (.tgt t)] [] (.failed e)
  | declined (closed m k fc t e) : NoProvErr env k → t ∈ ts → attemptErr env closed t = some e →
      env.filter fc e = false → RunG env ts closed (m + 1) k fc [.pick (.tgt t)] [e] (.failed e)
  | retry (closed m k fc t e rs fs o) : NoProvErr env k → t ∈ ts → attemptErr env closed t = some e →
      env.filter fc e = true → RunG env ts true m (k + 1) (fc + 1) rs fs o →
      RunG env ts closed (m + 1) k fc (.pick (.tgt t) :: rs) (e :: fs) o
  | notMember (closed r k fc) : NoProvErr env k → env.rr = false →
      RunG env ts closed r k fc [.notMember] [] .panic

/-- the loop is a `RunG` over the (unchanged) target list -/
theorem loopG_run (env : EnvG) (retries : Nat) : ∀ closed k fc b last hints,
    RunG env b.targets closed retries k fc (loopG env retries closed k fc b last hints).picks
      (loopG env retries closed k fc b last hints).fcalls (loopG env retries closed k fc b last hints).out ∧
    (loopG env retries closed k fc b last hints).bal.targets = b.targets := by
  induction retries with
  | zero =>
    intro closed k fc b last hints
    rw [loopG_eq]
    cases hp : (if env.provider then env.provErr k else none) with
    | some e =>
      simp only
      have hpr : env.provider = true := by
        cases h : env.provider with
        | true => rfl
        | false => simp [h] at hp
      refine ⟨.provErr _ _ _ _ e hpr ?_, trivial⟩
      simpa [hpr] using hp
    | none =>
      simp only
      have ht := nextOf_targets env.rr b last hints.head?
      rcases nextOf_spec env.rr b last hints.head? with ⟨h, he⟩ | ⟨t, h, hm⟩ | ⟨h, hr⟩
      · simp only [h]; exact ⟨.noTarget _ _ _ _ hp he, ht⟩
      · simp only [h]
        cases ha : attemptErr env closed t with
        | none => exact ⟨.relayed _ _ _ _ t hp hm ha, ht⟩
        | some e => exact ⟨.giveUp _ _ _ t e hp hm ha, ht⟩
      · simp only [h]; exact ⟨.notMember _ _ _ _ hp hr, ht⟩
  | succ m ih =>
    intro closed k fc b last hints
    rw [loopG_eq]
    cases hp : (if env.provider then env.provErr k else none) with
    | some e =>
      simp only
      have hpr : env.provider = true := by
        cases h : env.provider with
        | true => rfl
        | false => simp [h] at hp
      refine ⟨.provErr _ _ _ _ e hpr ?_, trivial⟩
      simpa [hpr] using hp
    | none =>
      simp only
      have ht := nextOf_targets env.rr b last hints.head?
      rcases nextOf_spec env.rr b last hints.head? with ⟨h, he⟩ | ⟨t, h, hm⟩ | ⟨h, hr⟩
      · simp only [h]; exact ⟨.noTarget _ _ _ _ hp he, ht⟩
      · simp only [h]
        cases ha : attemptErr env closed t with
        | none => exact ⟨.relayed _ _ _ _ t hp hm ha, ht⟩
        | some e =>
          simp only
          cases hf : env.filter fc e with
          | false => simp only [Bool.false_eq_true, if_false]; exact ⟨.declined _ _ _ _ t e hp hm ha hf, ht⟩
          | true =>
            simp only [if_true]
            have := ih true (k + 1) (fc + 1) (nextOf env.rr b last hints.head?).1
              (nextOf env.rr b last hints.head?).2.1 hints.tail
            rw [ht] at this
            exact ⟨.retry _ _ _ _ t e _ _ _ hp hm ha hf this.1, this.2⟩
      · simp only [h]; exact ⟨.notMember _ _ _ _ hp hr, ht⟩

/-! ## A. bounds: attempts and RetryFilter calls -/

theorem RunG.bounds {env ts closed r k fc rs fs o} (h : RunG env ts closed r k fc rs fs o) :
    rs.length ≤ r + 1 ∧ fs.length ≤ r ∧ fs.length ≤ rs.length ∧ rs.length ≤ fs.length + 1 := by
  induction h with
  | retry closed m k fc t e rs fs o _ _ _ _ _ ih => simp only [List.length_cons]; omega
  | _ => simp

/-- **C19_cfg_attempts** — for EVERY RetryFilter, provider script, request kind, liveness pattern,
    balancer state: one request causes at most `RetryCount + 1` attempts; the RetryFilter is
    consulted at most `RetryCount` times ("only called when the number of previous retries is less
    than RetryCount"), never more often than there were attempts, and every attempt after the first
    was preceded by a filter call; the target list is not touched. -/
theorem C19_cfg_attempts (env : EnvG) (rc : Nat) (closed : Bool) (k fc : Nat) (b : Bal) (last : Option Nat)
    (hints : List (List Char)) :
    let R := loopG env rc closed k fc b last hints
    R.picks.length ≤ rc + 1 ∧ R.fcalls.length ≤ rc ∧ R.fcalls.length ≤ R.picks.length ∧
    R.picks.length ≤ R.fcalls.length + 1 ∧ R.bal.targets = b.targets := by
  intro R
  have h := loopG_run env rc closed k fc b last hints
  exact ⟨h.1.bounds.1, h.1.bounds.2.1, h.1.bounds.2.2.1, h.1.bounds.2.2.2, h.2⟩

/-! ## B. who answered: 502 (any failure) only when every attempt failed -/

/-- an attempt that produced no upstream answer: no target, or a target on which the attempt
    ended with an error -/
def FailedG (env : EnvG) (x : Res) : Prop :=
  x = .pick .nil ∨ ∃ t c e, x = .pick (.tgt t) ∧ attemptErr env c t = some e

theorem attemptErr_none {env : EnvG} {c : Bool} {t : Target} (h : attemptErr env c t = none) :
    env.alive t = true := by
  unfold attemptErr at h
  cases hw : env.ws <;> cases hc : env.canceled <;> cases ha : env.alive t <;> simp_all

/-- with a replayable body an HTTP attempt on a live target (client still there) cannot fail -/
theorem attemptErr_alive {env : EnvG} {c : Bool} {t : Target} (hw : env.ws = false) (hb : env.bodyOnce = false)
    (hc : env.canceled = false) (ha : env.alive t = true) : attemptErr env c t = none := by
  simp [attemptErr, hw, hb, hc, ha]

theorem RunG.all_failed {env ts closed r k fc rs fs o} (h : RunG env ts closed r k fc rs fs o)
    (e : Err) (ho : o = .failed e) : ∀ x ∈ rs, FailedG env x := by
  induction h with
  | provErr => intro x hx; simp at hx
  | noTarget => intro x hx; simp at hx; subst hx; exact Or.inl rfl
  | relayed => cases ho
  | giveUp closed k fc t e' _ _ ha => intro x hx; simp at hx; subst hx; exact Or.inr ⟨t, closed, e', rfl, ha⟩
  | declined closed m k fc t e' _ _ ha _ => intro x hx; simp at hx; subst hx; exact Or.inr ⟨t, closed, e', rfl, ha⟩
  | retry closed m k fc t e' rs fs o _ _ ha _ _ ih =>
    intro x hx
    simp only [List.mem_cons] at hx
    rcases hx with rfl | hx
    · exact Or.inr ⟨t, closed, e', rfl, ha⟩
    · exact ih ho x hx
  | notMember => cases ho

theorem RunG.relayed_spec {env ts closed r k fc rs fs o} (h : RunG env ts closed r k fc rs fs o)
    (t : Target) (ho : o = .relayed t) :
    env.alive t = true ∧ t ∈ ts ∧ rs.getLast? = some (.pick (.tgt t)) ∧ ∀ x ∈ rs.dropLast, FailedG env x := by
  induction h with
  | provErr => cases ho
  | noTarget => cases ho
  | relayed closed r k fc t' _ hm ha => cases ho; exact ⟨attemptErr_none ha, hm, by simp, by simp⟩
  | giveUp => cases ho
  | declined => cases ho
  | retry closed m k fc t' e' rs fs o _ _ ha _ _ ih =>
    obtain ⟨hal, hm, hl, hf⟩ := ih ho
    have hne : rs ≠ [] := by intro h; subst h; simp at hl
    refine ⟨hal, hm, ?_, ?_⟩
    · rw [List.getLast?_cons_of_ne_nil hne]; exact hl
    · intro x hx
      rw [List.dropLast_cons_of_ne_nil hne] at hx
      simp only [List.mem_cons] at hx
      rcases hx with rfl | hx
      · exact Or.inr ⟨t', closed, e', rfl, ha⟩
      · exact hf x hx
  | notMember => cases ho

/-- **C19_cfg_outcome** — for every configuration: if the request ends in an error (the
    ErrorHandler is called: the proxy's 502, 499, a provider's error, …) then EVERY attempt failed;
    if an upstream answer is relayed it is the answer of the LAST attempted target, that target is
    alive and a current target, and every earlier attempt failed. -/
theorem C19_cfg_outcome (env : EnvG) (rc : Nat) (closed : Bool) (k fc : Nat) (b : Bal) (last : Option Nat)
    (hints : List (List Char)) :
    let R := loopG env rc closed k fc b last hints
    (∀ e, R.out = .failed e → ∀ x ∈ R.picks, FailedG env x) ∧
    (∀ t, R.out = .relayed t → env.alive t = true ∧ t ∈ b.targets ∧
      R.picks.getLast? = some (.pick (.tgt t)) ∧ ∀ x ∈ R.picks.dropLast, FailedG env x) := by
  intro R
  have h := (loopG_run env rc closed k fc b last hints).1
  exact ⟨fun e ho => h.all_failed e ho, fun t ho => h.relayed_spec t ho⟩

/-! ## C. the retry budget is used up before the proxy gives up -/

theorem RunG.exhausts {env ts closed r k fc rs fs o} (h : RunG env ts closed r k fc rs fs o)
    (e : Err) (ho : o = .failed e) :
    (env.provider = true ∧ env.provErr (k + rs.length) = some e) ∨
    rs.getLast? = some (.pick .nil) ∨
    rs.length = r + 1 ∨
    (fs.getLast? = some e ∧ env.filter (fc + fs.length - 1) e = false) := by
  induction h with
  | provErr closed r k fc e' hp he => cases ho; exact Or.inl ⟨hp, by simpa using he⟩
  | noTarget => exact Or.inr (Or.inl rfl)
  | relayed => cases ho
  | giveUp => exact Or.inr (Or.inr (Or.inl rfl))
  | declined closed m k fc t e' _ _ _ hf => cases ho; exact Or.inr (Or.inr (Or.inr ⟨rfl, by simpa using hf⟩))
  | retry closed m k fc t e' rs fs o _ _ _ _ _ ih =>
    rcases ih ho with ⟨hp, he⟩ | hl | hl | ⟨hl, hf⟩
    · refine Or.inl ⟨hp, ?_⟩
      have : k + (Res.pick (.tgt t) :: rs).length = k + 1 + rs.length := by simp only [List.length_cons]; omega
      rw [this]; exact he
    · have hne : rs ≠ [] := by intro h; subst h; simp at hl
      exact Or.inr (Or.inl (by rw [List.getLast?_cons_of_ne_nil hne]; exact hl))
    · exact Or.inr (Or.inr (Or.inl (by simp only [List.length_cons]; omega)))
    · have hne : fs ≠ [] := by intro h; subst h; simp at hl
      have hpos : 0 < fs.length := List.length_pos_iff.mpr hne
      refine Or.inr (Or.inr (Or.inr ⟨by rw [List.getLast?_cons_of_ne_nil hne]; exact hl, ?_⟩))
      have : fc + (e' :: fs).length - 1 = fc + 1 + fs.length - 1 := by simp only [List.length_cons]; omega
      rw [this]; exact hf
  | notMember => cases ho

/-- **C19_cfg_exhausts** — for every configuration, a request that ends in an error `e` ended for
    one of exactly four reasons: the TargetProvider answered `e` instead of a target; the balancer
    had no target; all `RetryCount + 1` attempts were made; or the RetryFilter was asked about `e`
    and declined. -/
theorem C19_cfg_exhausts (env : EnvG) (rc : Nat) (closed : Bool) (k fc : Nat) (b : Bal) (last : Option Nat)
    (hints : List (List Char)) (e : Err) :
    let R := loopG env rc closed k fc b last hints
    R.out = .failed e →
    (env.provider = true ∧ env.provErr (k + R.picks.length) = some e) ∨
    R.picks.getLast? = some (.pick .nil) ∨
    R.picks.length = rc + 1 ∨
    (R.fcalls.getLast? = some e ∧ env.filter (fc + R.fcalls.length - 1) e = false) := by
  intro R ho
  exact (loopG_run env rc closed k fc b last hints).1.exhausts e ho

/-- **C19_retry_exhausts** — the default RetryFilter, a plain balancer, any request (HTTP or
    websocket, any method — the model has no method input and the correspondence run checks that
    the code has none either —, any body): when the client gets the proxy's 502 because a target
    was unreachable, all `RetryCount + 1` attempts have been made, and every one of them failed.
    (The lower bound on retries: "the client sees 502 only when every attempt failed".) -/
theorem C19_retry_exhausts (env : EnvG) (hf : env.filter = defaultFilter) (hp : env.provider = false)
    (rc : Nat) (closed : Bool) (k fc : Nat) (b : Bal) (last : Option Nat) (hints : List (List Char)) :
    let R := loopG env rc closed k fc b last hints
    R.out = .failed (.http 502) → R.picks.getLast? ≠ some (.pick .nil) →
    R.picks.length = rc + 1 ∧ ∀ x ∈ R.picks, FailedG env x := by
  intro R ho hl
  refine ⟨?_, (C19_cfg_outcome env rc closed k fc b last hints).1 _ ho⟩
  rcases C19_cfg_exhausts env rc closed k fc b last hints _ ho with ⟨h, _⟩ | h | h | ⟨_, h⟩
  · rw [hp] at h; cases h
  · exact absurd h hl
  · exact h
  · rw [hf] at h; simp [defaultFilter] at h

-- non-vacuity: [dead, dead, live] round robin, RetryCount 1, default filter: two attempts, 502
example : (loopG ⟨true, fun t => t.url == 2, false, false, false, true, false, fun _ => none, defaultFilter⟩ 1 false 0 0
    ⟨[⟨['a'], 0⟩, ⟨['b'], 1⟩, ⟨['c'], 2⟩], 0⟩ none []).picks.length = 2 := by decide
example : (loopG ⟨true, fun t => t.url == 2, false, false, false, true, false, fun _ => none, defaultFilter⟩ 1 false 0 0
    ⟨[⟨['a'], 0⟩, ⟨['b'], 1⟩, ⟨['c'], 2⟩], 0⟩ none []).out = .failed (.http 502) := by decide
-- … a filter that declines at once: one attempt, one filter call
example : ((loopG ⟨true, fun t => t.url == 2, false, false, false, true, false, fun _ => none, fun _ _ => false⟩ 3 false 0 0
    ⟨[⟨['a'], 0⟩, ⟨['b'], 1⟩, ⟨['c'], 2⟩], 0⟩ none []).picks.length,
    (loopG ⟨true, fun t => t.url == 2, false, false, false, true, false, fun _ => none, fun _ _ => false⟩ 3 false 0 0
    ⟨[⟨['a'], 0⟩, ⟨['b'], 1⟩, ⟨['c'], 2⟩], 0⟩ none []).fcalls) = (1, [.http 502]) := by decide
-- … a websocket request over [dead, live] with RetryCount 1 is tunnelled to the live target (F21 fixed)
example : (loopG ⟨true, fun t => t.url == 1, false, false, true, true, false, fun _ => none, defaultFilter⟩ 1 false 0 0
    ⟨[⟨['a'], 0⟩, ⟨['b'], 1⟩], 0⟩ none []).out = .relayed ⟨['b'], 1⟩ := by decide

/-! ## D. TargetProvider errors end the request at once -/

theorem RunG.provider_stop {env ts closed r k fc rs fs o} (h : RunG env ts closed r k fc rs fs o)
    (hp : env.provider = true) (j : Nat) (e : Err) (hj : env.provErr j = some e) (hk : k ≤ j) :
    rs.length ≤ j - k := by
  induction h with
  | provErr => simp
  | retry closed m k fc t e' rs fs o hn _ _ _ _ ih =>
    have hne : k ≠ j := by
      intro h; subst h; simp [NoProvErr, hp, hj] at hn
    have := ih (by omega)
    simp only [List.length_cons]; omega
  | noTarget closed r k fc hn _ | relayed closed r k fc t hn _ _ | giveUp closed k fc t e' hn _ _
  | declined closed m k fc t e' hn _ _ _ | notMember closed r k fc hn _ =>
    have hne : k ≠ j := by
      intro h; subst h; simp [NoProvErr, hp, hj] at hn
    simp only [List.length_cons, List.length_nil]; omega

/-- **C19_cfg_provider_error** — a balancer that is a `TargetProvider`: if its `j`-th answer for
    a request is an error, the proxy makes at most `j` attempts (no `Next` after that answer), and
    when the very first answer is an error `e` the request ends with `e`, no attempt, no filter
    call, balancer untouched. -/
theorem C19_cfg_provider_error (env : EnvG) (hp : env.provider = true) (rc : Nat) (closed : Bool) (fc : Nat)
    (b : Bal) (last : Option Nat) (hints : List (List Char)) (j : Nat) (e : Err) (hj : env.provErr j = some e) :
    (loopG env rc closed 0 fc b last hints).picks.length ≤ j ∧
    (j = 0 → loopG env rc closed 0 fc b last hints = ⟨b, last, [], [], .failed e⟩) := by
  refine ⟨by simpa using (loopG_run env rc closed 0 fc b last hints).1.provider_stop hp j e hj (Nat.zero_le _), ?_⟩
  intro h0; subst h0
  rw [loopG_eq]; simp [hp, hj]

-- non-vacuity: the provider answers (target, target, error 503) over dead targets, RetryCount 5: two attempts, 503
example : (loopG ⟨true, fun _ => false, false, false, false, true, true,
      fun k => if k = 2 then some (.http 503) else none, defaultFilter⟩ 5 false 0 0
    ⟨[⟨['a'], 0⟩, ⟨['b'], 1⟩, ⟨['c'], 2⟩], 0⟩ none []).picks.length = 2 := by decide
example : (loopG ⟨true, fun _ => false, false, false, false, true, true,
      fun k => if k = 2 then some (.http 503) else none, defaultFilter⟩ 5 false 0 0
    ⟨[⟨['a'], 0⟩, ⟨['b'], 1⟩, ⟨['c'], 2⟩], 0⟩ none []).out = .failed (.http 503) := by decide

/-! ## E. the default configuration is `proxyLoop` -/

def outG_of : Outcome → OutG
  | .noTarget => .failed (.http 502)
  | .relayed t => .relayed t
  | .badGateway => .failed (.http 502)
  | .clientClosed => .failed (.http 499)
  | .panic => .panic

/-- **C19_cfg_refines** — with the default RetryFilter, a plain balancer and an HTTP request the
    configurable loop IS the loop the theorems of EchoProofs/C19.lean are about: same balancer
    state, same stored index, same picks, same outcome. -/
theorem C19_cfg_refines (g : EnvG) (hw : g.ws = false) (hp : g.provider = false) (hf : g.filter = defaultFilter)
    (rc : Nat) : ∀ closed k fc b last hints,
    (loopG g rc closed k fc b last hints).bal = (proxyLoop ⟨g.rr, g.alive, g.canceled, g.bodyOnce⟩ rc closed b last hints).1 ∧
    (loopG g rc closed k fc b last hints).last = (proxyLoop ⟨g.rr, g.alive, g.canceled, g.bodyOnce⟩ rc closed b last hints).2.1 ∧
    (loopG g rc closed k fc b last hints).picks = (proxyLoop ⟨g.rr, g.alive, g.canceled, g.bodyOnce⟩ rc closed b last hints).2.2.1 ∧
    (loopG g rc closed k fc b last hints).out = outG_of (proxyLoop ⟨g.rr, g.alive, g.canceled, g.bodyOnce⟩ rc closed b last hints).2.2.2 := by
  induction rc with
  | zero =>
    intro closed k fc b last hints
    rw [loopG_eq, proxyLoop_eq]
    simp only [hp, Bool.false_eq_true, if_false]
    cases hn : (nextOf g.rr b last hints.head?).2.2 with
    | bool x => simp [outG_of]
    | notMember => simp [outG_of]
    | pick q =>
      cases q with
      | nil => simp [outG_of]
      | panic => simp [outG_of]
      | tgt t =>
        simp only [attemptErr, hw, Bool.false_eq_true, if_false]
        cases hc : g.canceled with
        | true => simp [outG_of]
        | false =>
          cases hd : (g.alive t && !(g.bodyOnce && closed)) <;> simp [outG_of]
  | succ m ih =>
    intro closed k fc b last hints
    rw [loopG_eq, proxyLoop_eq]
    simp only [hp, Bool.false_eq_true, if_false]
    cases hn : (nextOf g.rr b last hints.head?).2.2 with
    | bool x => simp [outG_of]
    | notMember => simp [outG_of]
    | pick q =>
      cases q with
      | nil => simp [outG_of]
      | panic => simp [outG_of]
      | tgt t =>
        simp only [attemptErr, hw, Bool.false_eq_true, if_false]
        cases hc : g.canceled with
        | true => simp [outG_of, hf, defaultFilter]
        | false =>
          cases hd : (g.alive t && !(g.bodyOnce && closed)) with
          | true => simp [outG_of]
          | false =>
            have := ih true (k + 1) (fc + 1) (nextOf g.rr b last hints.head?).1 (nextOf g.rr b last hints.head?).2.1 hints.tail
            simp only [hc] at this
            simp [hf, defaultFilter, this]

/-! ## F. round robin: retries walk to the NEXT target, under every configuration -/

theorem loopG_chain_some (env : EnvG) (hr : env.rr = true) (rc : Nat) :
    ∀ closed k fc (b : Bal) (l : Nat) hints, 2 ≤ b.targets.length →
      ChainAt b.targets (succIdx b.targets.length l) (loopG env rc closed k fc b (some l) hints).picks := by
  induction rc with
  | zero =>
    intro closed k fc b l hints h2
    rw [loopG_eq]
    have hn : nextOf env.rr b (some l) hints.head? =
        (b, some (succIdx b.targets.length l), .pick (pickAt b.targets (succIdx b.targets.length l))) := by
      simp [nextOf, hr, nextRR_two b (some l) h2]
    simp only [hn]
    split
    · simp [ChainAt]
    · split
      · simp [ChainAt, *]
      · split <;> simp [ChainAt, *]
      · simp [ChainAt]
  | succ m ih =>
    intro closed k fc b l hints h2
    rw [loopG_eq]
    have hn : nextOf env.rr b (some l) hints.head? =
        (b, some (succIdx b.targets.length l), .pick (pickAt b.targets (succIdx b.targets.length l))) := by
      simp [nextOf, hr, nextRR_two b (some l) h2]
    simp only [hn]
    split
    · simp [ChainAt]
    · split
      · simp [ChainAt, *]
      · split
        · simp [ChainAt, *]
        · split
          · simp only [ChainAt]
            exact ⟨by simp [*], ih true _ _ b _ hints.tail h2⟩
          · simp [ChainAt, *]
      · simp [ChainAt]

theorem loopG_chain_none (env : EnvG) (hr : env.rr = true) (rc : Nat) (closed : Bool) (k fc : Nat) (b : Bal)
    (hints : List (List Char)) (h2 : 2 ≤ b.targets.length) :
    ChainAt b.targets (norm b.targets.length b.i) (loopG env rc closed k fc b none hints).picks := by
  rw [loopG_eq]
  have hn : nextOf env.rr b none hints.head? =
      ({ b with i := norm b.targets.length b.i + 1 }, some (norm b.targets.length b.i),
        .pick (pickAt b.targets (norm b.targets.length b.i))) := by
    simp [nextOf, hr, nextRR_two b none h2]
  simp only [hn]
  split
  · simp [ChainAt]
  · split
    · simp [ChainAt, *]
    · split
      · simp [ChainAt, *]
      · cases rc with
        | zero => simp [ChainAt, *]
        | succ m =>
          simp only
          split
          · simp only [ChainAt]
            exact ⟨by simp [*], loopG_chain_some env hr m true _ _
              { b with i := norm b.targets.length b.i + 1 } _ hints.tail h2⟩
          · simp [ChainAt, *]
    · simp [ChainAt]

/-- **C19_cfg_next_target** — round robin with at least two distinct targets, EVERY RetryFilter,
    provider script and request kind: the attempts of one request walk the target list cyclically,
    so a retry never goes to the target that just failed. -/
theorem C19_cfg_next_target (env : EnvG) (hr : env.rr = true) (rc : Nat) (closed : Bool) (k fc : Nat) (b : Bal)
    (last : Option Nat) (hints : List (List Char)) (hnd : b.targets.Nodup) (h2 : 2 ≤ b.targets.length) :
    (∃ i, i < b.targets.length ∧ ChainAt b.targets i (loopG env rc closed k fc b last hints).picks) ∧
    ∀ j a c, (loopG env rc closed k fc b last hints).picks[j]? = some a →
      (loopG env rc closed k fc b last hints).picks[j + 1]? = some c → a ≠ c := by
  have hpos : 0 < b.targets.length := by omega
  have hex : ∃ i, i < b.targets.length ∧ ChainAt b.targets i (loopG env rc closed k fc b last hints).picks := by
    cases last with
    | none => exact ⟨_, norm_lt hpos, loopG_chain_none env hr rc closed k fc b hints h2⟩
    | some l => exact ⟨_, succIdx_lt hpos, loopG_chain_some env hr rc closed k fc b l hints h2⟩
  refine ⟨hex, ?_⟩
  obtain ⟨i, hi, hch⟩ := hex
  exact ChainAt.adjacent_ne b.targets hnd h2 _ i hi hch

/-! ## G. request targets in absolute form are rewritten like their path -/

theorem afterSchemeSep_scheme (scheme rest : List Char) (hs : ∀ c ∈ scheme, c ≠ ':') :
    afterSchemeSep (scheme ++ "://".toList ++ rest) = some rest := by
  induction scheme with
  | nil => simp [afterSchemeSep]
  | cons c cs ih =>
    have hc : c ≠ ':' := hs c (by simp)
    have : (c :: cs) ++ "://".toList ++ rest = c :: (cs ++ "://".toList ++ rest) := by simp
    rw [this, afterSchemeSep]
    simp only [beq_iff_eq, hc, false_and, if_false, Bool.and_eq_true]
    exact ih (fun x hx => hs x (by simp [hx]))

theorem fromPathStart_authority (auth pathq : List Char) (ha : ∀ c ∈ auth, c ≠ '/' ∧ c ≠ '?')
    (hp : pathq = [] ∨ pathq.head? = some '/' ∨ pathq.head? = some '?') :
    fromPathStart (auth ++ pathq) = pathq := by
  induction auth with
  | nil =>
    cases pathq with
    | nil => rfl
    | cons c r =>
      rcases hp with h | h | h
      · cases h
      · simp at h; subst h; simp [fromPathStart]
      · simp at h; subst h; simp [fromPathStart]
  | cons c cs ih =>
    have h1 := (ha c (by simp)).1
    have h2 := (ha c (by simp)).2
    simp only [List.cons_append, fromPathStart, beq_iff_eq, h1, h2, or_self, if_false, Bool.or_eq_true]
    exact ih (fun x hx => ha x (by simp [hx]))

/-- **C19_rewrite_abs_form** — `GET scheme://authority/path?query`: for every scheme (any case),
    every authority (userinfo, host, port — anything without `/` and `?`) and every path-and-query
    the rules are matched against path and query only. -/
theorem C19_rewrite_abs_form (scheme auth pathq : List Char) (hs : scheme ≠ []) (h0 : scheme.head? ≠ some '/')
    (hc : ∀ c ∈ scheme, c ≠ ':') (ha : ∀ c ∈ auth, c ≠ '/' ∧ c ≠ '?')
    (hp : pathq = [] ∨ pathq.head? = some '/' ∨ pathq.head? = some '?') :
    matchInput (scheme ++ "://".toList ++ (auth ++ pathq)) = pathq := by
  have hsep := afterSchemeSep_scheme scheme (auth ++ pathq) hc
  cases scheme with
  | nil => exact absurd rfl hs
  | cons c cs =>
    have hne : (c == '/') = false := by
      cases h : c == '/' with
      | false => rfl
      | true => simp at h; subst h; simp at h0
    have : (c :: cs) ++ "://".toList ++ (auth ++ pathq) = c :: (cs ++ "://".toList ++ (auth ++ pathq)) := by simp
    rw [this] at hsep ⊢
    simp only [matchInput, hne, Bool.false_eq_true, if_false, hsep]
    exact fromPathStart_authority auth pathq ha hp

/-- **C19_rewrite_abs_empty_authority** — the authority may be EMPTY (round 9): for
    `GET scheme:///path?query`, `GET scheme://` and `GET scheme://?query` (net/http accepts them, the
    Host header names the host) the rules are matched against exactly what follows `://` — the cut is
    at offset 0 of the rest, nothing of the path is swallowed and it is not mistaken for "no path". -/
theorem C19_rewrite_abs_empty_authority (scheme pathq : List Char) (hs : scheme ≠ []) (h0 : scheme.head? ≠ some '/')
    (hc : ∀ c ∈ scheme, c ≠ ':')
    (hp : pathq = [] ∨ pathq.head? = some '/' ∨ pathq.head? = some '?') :
    matchInput (scheme ++ "://".toList ++ pathq) = pathq := by
  have h := C19_rewrite_abs_form scheme [] pathq hs h0 hc (by intro c hcm; cases hcm) hp
  simpa using h

theorem C19_rewrite_origin_form (uri : List Char) (hu : uri.head? = some '/') : matchInput uri = uri := by
  cases uri with
  | nil => simp at hu
  | cons c cs => simp at hu; subst hu; simp [matchInput]

theorem rewrite_eq (rs : List Rule) (uri : List Char) : rewrite rs uri = (rewrite? rs uri).getD uri := by
  induction rs with
  | nil => rfl
  | cons r rs ih =>
    simp only [rewrite, rewrite?]
    cases r.apply uri <;> simp [ih]

/-- **C19_rewrite_form_irrelevant** — the upstream sees the same request target whether the client
    sent `path?query` or `scheme://authority/path?query`; and for origin-form targets `rewriteReq`
    is the `rewrite` of section F of EchoProofs/C19.lean (first match, order irrelevant). -/
theorem C19_rewrite_form_irrelevant (rules : List Rule) (scheme auth pathq : List Char) (hs : scheme ≠ [])
    (h0 : scheme.head? ≠ some '/') (hc : ∀ c ∈ scheme, c ≠ ':') (ha : ∀ c ∈ auth, c ≠ '/' ∧ c ≠ '?')
    (hp : pathq.head? = some '/') :
    rewriteReq rules (scheme ++ "://".toList ++ (auth ++ pathq)) pathq = rewrite rules pathq ∧
    rewriteReq rules pathq pathq = rewrite rules pathq := by
  refine ⟨?_, ?_⟩
  · rw [rewriteReq, C19_rewrite_abs_form scheme auth pathq hs h0 hc ha (Or.inr (Or.inl hp)), rewrite_eq]
  · rw [rewriteReq, C19_rewrite_origin_form pathq hp, rewrite_eq]

/-- **C19_rewrite_origin_never_cut** — a request target that starts with `/` is matched as it is,
    WHATEVER follows: `://`, `//`, `@`, a second `?`, a whole URL as query value or as the rest of
    the path are ordinary bytes of an origin-form target (round 6: the look-alike class).  So the
    upstream sees `rewrite rules target`, the round-1 function the first-match / order theorems
    are about, and the rule is applied once however many attempts the request needs
    (`runSteps` rewrites outside `loopG`). -/
theorem C19_rewrite_origin_never_cut (rules : List Rule) (rest : List Char) :
    matchInput ('/' :: rest) = '/' :: rest ∧
    rewriteReq rules ('/' :: rest) ('/' :: rest) = rewrite rules ('/' :: rest) := by
  have h := C19_rewrite_origin_form ('/' :: rest) rfl
  exact ⟨h, by rw [rewriteReq, h, rewrite_eq]⟩

-- the inputs of seeded change 6/2: a URL in the query / in the path of an origin-form target
example : rewriteReq [⟨"^/api/*".toList, "/$1".toList⟩] "/api/go?to=http://example.com/landing".toList
    "/api/go?to=http://example.com/landing".toList = "/go?to=http://example.com/landing".toList := by decide
example : rewriteReq [⟨"^/y/*".toList, "/never/$1".toList⟩] "/proxy/http://x/y/z".toList
    "/proxy/http://x/y/z".toList = "/proxy/http://x/y/z".toList := by decide
-- … and of 6/1: a rule whose result matches it again is applied once
example : rewriteReq [⟨"/api/*".toList, "/$1".toList⟩] "/api/api/users".toList "/api/api/users".toList
    = "/api/users".toList := by decide

example : rewriteReq [⟨"^/api/*".toList, "/v2/$1".toList⟩] "HTTP://u:p@ex.test:80/api/x?q=1".toList
    "/api/x?q=1".toList = "/v2/x?q=1".toList := by decide

/-! ## H. `Proxy(balancer)` and the Skipper -/

/-- **C19_proxy_ctor** — the middleware made by `Proxy(balancer)`: whatever else the scenario
    record says, a request is attempted at most once, no RetryFilter is consulted and the request
    target reaches the upstream unrewritten. -/
theorem C19_proxy_ctor (sc : Scenario) (hv : sc.viaProxy = true) (b : Bal) (q : ReqIn) (ss : List Step) :
    let R := loopG (envOf sc q) 0 false 0 0 b none q.hints
    runSteps sc b (.request q :: ss) =
      .served R.picks none R.out (match R.out with | .relayed _ => q.pathq | _ => []) :: runSteps sc R.bal ss ∧
    R.picks.length ≤ 1 ∧ R.fcalls = [] := by
  intro R
  have hb := (C19_cfg_attempts (envOf sc q) 0 false 0 0 b none q.hints)
  refine ⟨?_, hb.1, by simpa using hb.2.1⟩
  simp only [runSteps, Scenario.eff, hv, if_true, FilterSpec.custom, rewriteReq, rewrite?, R, Option.getD_none,
    Bool.false_and, Bool.false_eq_true, if_false]
  cases (loopG (envOf sc q) 0 false 0 0 b none q.hints).out <;> rfl

/-- a request the Skipper takes out is invisible to the balancer and to every later request -/
theorem runSteps_skip (sc : Scenario) (hs : sc.eff.skipper = true) (b : Bal) (q : ReqIn) (hq : q.skip = true)
    (ss : List Step) : runSteps sc b (.request q :: ss) = .skipped :: runSteps sc b ss := by
  simp [runSteps, hs, hq]

/-- **C19_scenario_attempts** — whole scenarios (any configuration, any interleaving of requests
    with AddTarget/RemoveTarget, any balancer state): every served request made at most
    `RetryCount + 1` attempts (`RetryCount` = 0 under `Proxy(balancer)`) and consulted the
    RetryFilter at most `RetryCount` times. -/
theorem C19_scenario_attempts (sc : Scenario) : ∀ (steps : List Step) (b : Bal), ∀ x ∈ runSteps sc b steps,
    match x with
    | .served picks fcalls _ _ =>
      picks.length ≤ sc.eff.retryCount + 1 ∧ ∀ fs, fcalls = some fs → fs.length ≤ sc.eff.retryCount
    | _ => True := by
  intro steps
  induction steps with
  | nil => intro b x hx; simp [runSteps] at hx
  | cons st ss ih =>
    intro b x hx
    cases st with
    | add t =>
      simp only [runSteps, List.mem_cons] at hx
      rcases hx with rfl | hx
      · trivial
      · exact ih _ x hx
    | remove nm =>
      simp only [runSteps, List.mem_cons] at hx
      rcases hx with rfl | hx
      · trivial
      · exact ih _ x hx
    | request q =>
      simp only [runSteps] at hx
      split at hx
      · simp only [List.mem_cons] at hx
        rcases hx with rfl | hx
        · trivial
        · exact ih _ x hx
      · simp only [List.mem_cons] at hx
        rcases hx with rfl | hx
        · have hb := C19_cfg_attempts (envOf sc q) sc.eff.retryCount false 0 0 b none q.hints
          refine ⟨hb.1, ?_⟩
          intro fs hfs
          split at hfs
          · cases hfs; exact hb.2.1
          · cases hfs
        · exact ih _ x hx

/-! ## I. `Next` never comes back empty-handed while a target is there (round 5)

The sequential fact behind the nil clause of the concurrent oracle (kind 4) and of the overlapped
`Next` calls (kind 6): by `C19_linearizable` every concurrent history is such an op sequence, and a
target that was added before a call started and is not removed until it returned is a member at the
call's linearization point. -/

/-- **C19_next_not_nil_while_present** — for every operation sequence from every state (any
    balancer kind, indices, stored last indices): as long as no operation removes the name of a
    target that is in the list, NO `Next` of the sequence returns `nil`. -/
theorem C19_next_not_nil_while_present (ops : List Op) (t : Target) :
    ∀ s : St, t ∈ s.bal.targets → (∀ o ∈ ops, ¬ o.removesName t.name) →
      ∀ r ∈ (runOps s ops).2, r ≠ .pick .nil := by
  induction ops with
  | nil => intro s _ _ r hr; simp [runOps] at hr
  | cons o os ih =>
    intro s ht hno r hr
    simp only [runOps, List.mem_cons] at hr
    rcases hr with hr | hr
    · subst hr
      cases o with
      | add x => simp [stepOp]
      | remove n => simp [stepOp]
      | next c hint =>
        rcases C19_next_member s c hint with ⟨_, he⟩ | ⟨u, h, _⟩ | ⟨h, _⟩
        · rw [he] at ht; simp at ht
        · rw [h]; simp
        · rw [h]; simp
    · exact ih _ (stepOp_kept s o t (hno o (by simp)) ht) (fun o ho => hno o (by simp [ho])) r hr

-- non-vacuity: the interleaving of seeded change 5/3 in its two legal orders — [a,b], index due on
-- the last target, RemoveTarget("b") before or after the pick: never nil
example : (runOps ⟨true, ⟨[⟨['a'], 0⟩, ⟨['b'], 1⟩], 1⟩, []⟩ [.next 0 none, .remove ['b']]).2
    = [.pick (.tgt ⟨['b'], 1⟩), .bool true] := by decide
example : (runOps ⟨true, ⟨[⟨['a'], 0⟩, ⟨['b'], 1⟩], 1⟩, []⟩ [.remove ['b'], .next 0 none]).2
    = [.bool true, .pick (.tgt ⟨['a'], 0⟩)] := by decide

end C19
