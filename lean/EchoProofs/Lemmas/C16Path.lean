import EchoModel.C16
namespace C16

/-- a real path element: not empty, not `.`, not `..`, no separator inside -/
def Normal (s : Str) : Prop := s ≠ [] ∧ s ≠ dot ∧ s ≠ dotdot ∧ '/' ∉ s

/-! ## splitOn / joinSep -/

theorem splitOn_ne_nil (sep : Char) (s : Str) : splitOn sep s ≠ [] := by
  induction s with
  | nil => simp [splitOn]
  | cons c r ih =>
    simp only [splitOn]
    split
    · simp
    · split <;> simp

theorem splitOn_cons_sep (sep : Char) (r : Str) : splitOn sep (sep :: r) = [] :: splitOn sep r := by
  simp [splitOn]

theorem splitOn_cons_ne (sep c : Char) (r : Str) (h : c ≠ sep) :
    ∃ hd tl, splitOn sep r = hd :: tl ∧ splitOn sep (c :: r) = (c :: hd) :: tl := by
  have hne := splitOn_ne_nil sep r
  cases hs : splitOn sep r with
  | nil => exact absurd hs hne
  | cons hd tl =>
    refine ⟨hd, tl, rfl, ?_⟩
    simp [splitOn, h, hs]

theorem splitOn_no_sep (sep : Char) (s : Str) : ∀ x ∈ splitOn sep s, sep ∉ x := by
  induction s with
  | nil => simp [splitOn]
  | cons c r ih =>
    by_cases h : c = sep
    · subst h
      rw [splitOn_cons_sep]
      intro x hx
      rcases List.mem_cons.mp hx with rfl | hx
      · simp
      · exact ih x hx
    · obtain ⟨hd, tl, h1, h2⟩ := splitOn_cons_ne sep c r h
      rw [h2]
      rw [h1] at ih
      intro x hx
      rcases List.mem_cons.mp hx with rfl | hx
      · intro hm
        rcases List.mem_cons.mp hm with rfl | hm
        · exact h rfl
        · exact ih hd (by simp) hm
      · exact ih x (by simp [hx])

theorem splitOn_append (sep : Char) (a b : Str) :
    splitOn sep (a ++ sep :: b) = splitOn sep a ++ splitOn sep b := by
  induction a with
  | nil => simp [splitOn]
  | cons c r ih =>
    by_cases h : c = sep
    · subst h
      simp only [List.cons_append, splitOn_cons_sep, ih]
    · obtain ⟨hd, tl, h1, h2⟩ := splitOn_cons_ne sep c r h
      obtain ⟨hd', tl', h1', h2'⟩ := splitOn_cons_ne sep c (r ++ sep :: b) h
      simp only [List.cons_append]
      rw [h2', h2]
      rw [ih, h1] at h1'
      simp only [List.cons_append, List.cons.injEq] at h1'
      obtain ⟨rfl, rfl⟩ := h1'
      rfl

theorem splitOn_nosep (sep : Char) (s : Str) (h : sep ∉ s) : splitOn sep s = [s] := by
  induction s with
  | nil => simp [splitOn]
  | cons c r ih =>
    have hc : c ≠ sep := fun e => h (by simp [e])
    have hr : sep ∉ r := fun e => h (by simp [e])
    obtain ⟨hd, tl, h1, h2⟩ := splitOn_cons_ne sep c r hc
    rw [h2]
    rw [ih hr] at h1
    simp only [List.cons.injEq] at h1
    obtain ⟨rfl, rfl⟩ := h1
    rfl

theorem splitOn_joinSep (sep : Char) (l : List Str) (hne : l ≠ []) (h : ∀ x ∈ l, sep ∉ x) :
    splitOn sep (joinSep sep l) = l := by
  induction l with
  | nil => exact absurd rfl hne
  | cons x r ih =>
    cases r with
    | nil => simp only [joinSep]; exact splitOn_nosep sep x (h x (by simp))
    | cons y r' =>
      simp only [joinSep]
      rw [splitOn_append, splitOn_nosep sep x (h x (by simp)), ih (by simp) (fun z hz => h z (by simp [hz]))]
      rfl


/-! ## cleanStep -/

theorem cleanStep_empty (r : Bool) (st : List Str) : cleanStep r st [] = st := by simp [cleanStep]

theorem cleanStep_dot (r : Bool) (st : List Str) : cleanStep r st dot = st := by simp [cleanStep]

theorem cleanStep_normal (r : Bool) (st : List Str) (s : Str) (h : Normal s) :
    cleanStep r st s = s :: st := by
  obtain ⟨h1, h2, h3, _⟩ := h
  simp [cleanStep, h1, h2, h3]

theorem foldl_normal (r : Bool) (L : List Str) (h : ∀ s ∈ L, Normal s) :
    ∀ st, L.foldl (cleanStep r) st = L.reverse ++ st := by
  induction L with
  | nil => intro st; rfl
  | cons x xs ih =>
    intro st
    simp only [List.foldl_cons, cleanStep_normal r st x (h x (by simp))]
    rw [ih (fun s hs => h s (by simp [hs]))]
    simp

theorem foldl_filter_empty (r : Bool) (segs : List Str) :
    ∀ st, segs.foldl (cleanStep r) st = (segs.filter (· ≠ [])).foldl (cleanStep r) st := by
  induction segs with
  | nil => intro st; rfl
  | cons x xs ih =>
    intro st
    by_cases hx : x = []
    · subst hx; simp [cleanStep_empty, ih]
    · simp [hx, ih]

/-- invariant of rooted cleaning: the stack only ever holds real elements -/
theorem foldl_rooted_normal (segs : List Str) (hs : ∀ s ∈ segs, '/' ∉ s) :
    ∀ st, (∀ s ∈ st, Normal s) → ∀ s ∈ segs.foldl (cleanStep true) st, Normal s := by
  induction segs with
  | nil => intro st h; simpa using h
  | cons x xs ih =>
    intro st hst
    simp only [List.foldl_cons]
    apply ih (fun s h => hs s (by simp [h]))
    unfold cleanStep
    split
    · exact hst
    · rename_i h1
      split
      · cases st with
        | nil => simp
        | cons top rest =>
          have htop := hst top (by simp)
          simp only [htop.2.2.1, if_false]
          intro s h; exact hst s (by simp [h])
      · rename_i h2
        intro s h
        rcases List.mem_cons.mp h with rfl | h
        · exact ⟨fun e => h1 (.inl e), fun e => h1 (.inr e), h2, hs _ (by simp)⟩
        · exact hst s h

theorem cleanSegs_rooted_normal (segs : List Str) (hs : ∀ s ∈ segs, '/' ∉ s) :
    ∀ s ∈ cleanSegs true segs, Normal s := by
  intro s h
  simp only [cleanSegs, List.mem_reverse] at h
  exact foldl_rooted_normal segs hs [] (by simp) s h

/-- `Clean(rooted, elements)` as text -/
def render (rooted : Bool) (S : List Str) : Str :=
  if rooted then '/' :: joinSep '/' S else if S = [] then dot else joinSep '/' S

theorem joinSep_eq_nil (l : List Str) (h : ∀ s ∈ l, s ≠ []) : joinSep '/' l = [] ↔ l = [] := by
  cases l with
  | nil => simp [joinSep]
  | cons x r =>
    cases r with
    | nil => simp [joinSep, h x (by simp)]
    | cons y r' => simp [joinSep]

theorem clean_eq_render (p : Str) (hp : p ≠ []) (hn : ∀ s ∈ cleanSegs (isRooted p) (splitOn '/' p), s ≠ []) :
    clean p = render (isRooted p) (cleanSegs (isRooted p) (splitOn '/' p)) := by
  simp only [clean, hp, if_false, render]
  split
  · rfl
  · simp only [joinSep_eq_nil _ hn]

theorem cleanStep_ne_nil (r : Bool) (st : List Str) (x : Str) (h : ∀ s ∈ st, s ≠ []) :
    ∀ s ∈ cleanStep r st x, s ≠ [] := by
  unfold cleanStep
  split
  · exact h
  · rename_i h1
    split
    · rename_i h2
      cases st with
      | nil => cases r <;> simp [h2, dotdot]
      | cons top rest =>
        simp only
        split
        · intro s hs
          rcases List.mem_cons.mp hs with rfl | hs
          · simp [h2, dotdot]
          · exact h s hs
        · intro s hs; exact h s (by simp [hs])
    · intro s hs
      rcases List.mem_cons.mp hs with rfl | hs
      · exact fun e => h1 (.inl e)
      · exact h s hs

theorem foldl_ne_nil (r : Bool) (segs : List Str) :
    ∀ st, (∀ s ∈ st, s ≠ []) → ∀ s ∈ segs.foldl (cleanStep r) st, s ≠ [] := by
  induction segs with
  | nil => intro st h; simpa using h
  | cons x xs ih => intro st h; exact ih _ (cleanStep_ne_nil r st x h)

theorem cleanSegs_ne_nil (r : Bool) (segs : List Str) : ∀ s ∈ cleanSegs r segs, s ≠ [] := by
  intro s h
  simp only [cleanSegs, List.mem_reverse] at h
  exact foldl_ne_nil r segs [] (by simp) s h

theorem clean_render (p : Str) (hp : p ≠ []) :
    clean p = render (isRooted p) (cleanSegs (isRooted p) (splitOn '/' p)) :=
  clean_eq_render p hp (cleanSegs_ne_nil _ _)

/-- the elements of `Clean(p)` -/
def cleanSegsOf (p : Str) : List Str := cleanSegs (isRooted p) (splitOn '/' p)

theorem normal_no_sep {s : Str} (h : Normal s) : '/' ∉ s := h.2.2.2

/-- **clean_rooted_no_dotdot** — for EVERY string `p`: `Clean("/"+p)` starts with `/`, is `/`
    followed by real path elements joined by `/`; in particular it has no `..` element. -/
theorem clean_rooted_no_dotdot (p : Str) :
    (clean ('/' :: p)).head? = some '/' ∧
    dotdot ∉ splitOn '/' (clean ('/' :: p)) ∧
    (∀ s ∈ segsOf (clean ('/' :: p)), Normal s) ∧
    ∃ L, (∀ s ∈ L, Normal s) ∧ clean ('/' :: p) = '/' :: joinSep '/' L := by
  have hL : ∀ s ∈ cleanSegs true (splitOn '/' ('/' :: p)), Normal s :=
    cleanSegs_rooted_normal _ (splitOn_no_sep '/' _)
  have hc : clean ('/' :: p) = '/' :: joinSep '/' (cleanSegs true (splitOn '/' ('/' :: p))) := by
    rw [clean_render _ (by simp)]; simp [render, isRooted]
  generalize cleanSegs true (splitOn '/' ('/' :: p)) = L at hL hc
  rw [hc]
  have hsplit : splitOn '/' ('/' :: joinSep '/' L) = [] :: (if L = [] then [[]] else L) := by
    rw [splitOn_cons_sep]
    split
    · rename_i h; subst h; simp [joinSep, splitOn]
    · rename_i h; rw [splitOn_joinSep '/' L h (fun x hx => normal_no_sep (hL x hx))]
  refine ⟨rfl, ?_, ?_, L, hL, rfl⟩
  · rw [hsplit]
    intro hm
    rcases List.mem_cons.mp hm with h | hm
    · simp [dotdot] at h
    · split at hm
      · simp [dotdot] at hm
      · exact (hL _ hm).2.2.1 rfl
  · intro s hs
    simp only [segsOf, hsplit, List.mem_filter] at hs
    obtain ⟨hm, hne⟩ := hs
    rcases List.mem_cons.mp hm with h | hm
    · simp [h] at hne
    · split at hm
      · simp at hm; simp [hm] at hne
      · exact hL _ hm


theorem isRooted_cons (c : Char) (r : Str) : isRooted (c :: r) = (c == '/') := by
  simp [isRooted]

theorem isRooted_append (a b : Str) (ha : a ≠ []) : isRooted (a ++ b) = isRooted a := by
  cases a with
  | nil => exact absurd rfl ha
  | cons c r => simp [isRooted]

theorem joinSep_head (x : Str) (rest : List Str) (hx : x ≠ []) :
    (joinSep '/' (x :: rest)).head? = x.head? := by
  cases x with
  | nil => exact absurd rfl hx
  | cons c r => cases rest <;> simp [joinSep]

theorem isRooted_render (r : Bool) (S : List Str) (h : ∀ s ∈ S, Normal s) :
    isRooted (render r S) = r := by
  cases r with
  | true => simp [render, isRooted]
  | false =>
    simp only [render, Bool.false_eq_true, if_false]
    split
    · simp [isRooted, dot]
    · cases S with
      | nil => contradiction
      | cons x rest =>
        have hx := h x (by simp)
        simp only [isRooted, joinSep_head x rest hx.1]
        cases x with
        | nil => exact absurd rfl hx.1
        | cons c cs =>
          have : c ≠ '/' := fun e => hx.2.2.2 (by simp [e])
          simp [this]

theorem foldl_skip (r : Bool) (st : List Str) : [([] : Str)].foldl (cleanStep r) st = st := by
  simp [cleanStep_empty]

theorem cleanSegs_normal (r : Bool) (S : List Str) (h : ∀ s ∈ S, Normal s) : cleanSegs r S = S := by
  simp [cleanSegs, foldl_normal r S h]

theorem cleanSegsOf_render (r : Bool) (S : List Str) (h : ∀ s ∈ S, Normal s) :
    cleanSegsOf (render r S) = S := by
  unfold cleanSegsOf
  rw [isRooted_render r S h]
  cases r with
  | true =>
    simp only [render, if_true, splitOn_cons_sep]
    by_cases hS : S = []
    · subst hS; simp [joinSep, splitOn, cleanSegs, cleanStep_empty]
    · rw [splitOn_joinSep '/' S hS (fun x hx => normal_no_sep (h x hx))]
      simp only [cleanSegs, List.foldl_cons, cleanStep_empty]
      rw [foldl_normal true S h]; simp
  | false =>
    simp only [render, Bool.false_eq_true, if_false]
    by_cases hS : S = []
    · subst hS; simp [splitOn, dot, cleanSegs, cleanStep]
    · simp only [hS, if_false]
      rw [splitOn_joinSep '/' S hS (fun x hx => normal_no_sep (h x hx))]
      exact cleanSegs_normal false S h

theorem segsOf_render (r : Bool) (S : List Str) (h : ∀ s ∈ S, Normal s) (hr : S ≠ [] ∨ r = true) :
    segsOf (render r S) = S := by
  have hfilter : S.filter (· ≠ []) = S := by
    apply List.filter_eq_self.mpr
    intro s hs; simp [(h s hs).1]
  cases r with
  | true =>
    simp only [segsOf, render, if_true, splitOn_cons_sep]
    by_cases hS : S = []
    · subst hS; simp [joinSep, splitOn]
    · rw [splitOn_joinSep '/' S hS (fun x hx => normal_no_sep (h x hx))]
      rw [List.filter_cons_of_neg (by simp)]; exact hfilter
  | false =>
    have hS : S ≠ [] := by rcases hr with h | h; exact h; cases h
    simp only [segsOf, render, Bool.false_eq_true, if_false, hS]
    rw [splitOn_joinSep '/' S hS (fun x hx => normal_no_sep (h x hx))]
    exact hfilter

/-- `path.Join(a, b)` for a non-empty `a` whose cleaned elements are real and a `b` whose
    non-empty elements are real: `Clean(a)` followed by the elements of `b` -/
theorem join2_render (a b : Str) (ha : a ≠ []) (hB : ∀ s ∈ segsOf b, Normal s) :
    join2 a b = render (isRooted a) (cleanSegsOf a ++ segsOf b) := by
  have hX : a ++ '/' :: b ≠ [] := by simp
  simp only [join2, ha, false_and, if_false]
  rw [clean_render _ hX, isRooted_append a _ ha]
  congr 1
  simp only [cleanSegsOf, cleanSegs, splitOn_append, List.foldl_append]
  rw [foldl_filter_empty (isRooted a) (splitOn '/' b)]
  rw [show (splitOn '/' b).filter (· ≠ []) = segsOf b from rfl]
  rw [foldl_normal (isRooted a) (segsOf b) hB]; simp

/-- `n` lies lexically in the directory `root`: after `Clean`, `n` is `Clean(root)` followed by
    real path elements (no `..`), and it is absolute iff `root` is -/
def Under (root n : Str) : Prop :=
  isRooted n = isRooted root ∧
    ∃ L, (∀ s ∈ L, Normal s) ∧ cleanSegsOf n = cleanSegsOf root ++ L

/-- configuration sanity: `Root` is not empty and does not climb (`Clean(Root)` has no `..`) -/
def RootOK (root : Str) : Prop := root ≠ [] ∧ ∀ s ∈ cleanSegsOf root, Normal s

theorem under_render (root : Str) (h : RootOK root) (L : List Str) (hL : ∀ s ∈ L, Normal s) :
    Under root (render (isRooted root) (cleanSegsOf root ++ L)) := by
  have hall : ∀ s ∈ cleanSegsOf root ++ L, Normal s := by
    intro s hs; rcases List.mem_append.mp hs with h' | h'
    · exact h.2 s h'
    · exact hL s h'
  exact ⟨isRooted_render _ _ hall, L, hL, cleanSegsOf_render _ _ hall⟩

/-- the name computed by the middleware before the IgnoreBase rewrite lies under `Root`,
    for every request path -/
theorem name0_under (root p : Str) (h : RootOK root) :
    Under root (join2 root (clean ('/' :: p))) := by
  have hq := (clean_rooted_no_dotdot p).2.2.1
  rw [join2_render root _ h.1 hq]
  exact under_render root h _ hq

/-- joining a further relative path of real elements (the Index file) stays under `Root` -/
theorem join2_under (root a idx : Str) (h : RootOK root) (ha : Under root a)
    (hidx : ∀ s ∈ splitOn '/' idx, Normal s) : Under root (join2 a idx) := by
  obtain ⟨hr, L, hL, hc⟩ := ha
  have hI : segsOf idx = splitOn '/' idx := by
    simp only [segsOf]
    apply List.filter_eq_self.mpr
    intro s hs; simp [(hidx s hs).1]
  have hIn : ∀ s ∈ segsOf idx, Normal s := by rw [hI]; exact hidx
  have hidxne : idx ≠ [] := by
    intro e; subst e
    have := hidx [] (by simp [splitOn]); exact this.1 rfl
  by_cases hae : a = []
  · subst hae
    -- `path.Join("", idx) = Clean(idx)`
    have hRL : cleanSegsOf root ++ L = [] := by rw [← hc]; simp [cleanSegsOf, isRooted, splitOn, cleanSegs, cleanStep]
    have hroot_rel : isRooted root = false := by rw [← hr]; simp [isRooted]
    have hidx_rel : isRooted idx = false := by
      cases idx with
      | nil => exact absurd rfl hidxne
      | cons c r =>
        by_cases hc' : c = '/'
        · subst hc'
          have := hidx [] (by rw [splitOn_cons_sep]; simp)
          exact absurd rfl this.1
        · simp [isRooted, hc']
    have hj : join2 [] idx = render false (splitOn '/' idx) := by
      simp only [join2, true_and, hidxne, if_false, if_true]
      rw [clean_render idx hidxne, hidx_rel, cleanSegs_normal false _ hidx]
    rw [hj]
    refine ⟨by rw [isRooted_render false _ hidx, hroot_rel], splitOn '/' idx, hidx, ?_⟩
    rw [cleanSegsOf_render false _ hidx]
    have : cleanSegsOf root = [] := by
      cases hcr : cleanSegsOf root with
      | nil => rfl
      | cons x xs => rw [hcr] at hRL; simp at hRL
    rw [this]; rfl
  · rw [join2_render a idx hae hIn, hc, hI, hr, List.append_assoc]
    apply under_render root h
    intro s hs; rcases List.mem_append.mp hs with h' | h'
    · exact hL s h'
    · exact hidx s h'


/-! ## IgnoreBase -/

theorem hasSuffix_append (x s : Str) : hasSuffix (x ++ s) s = true := by
  simp [hasSuffix, List.reverse_append]

theorem trimSuffix_append (x s : Str) : trimSuffix (x ++ s) s = x := by
  simp [trimSuffix, hasSuffix_append]

theorem joinSep_append_single (S : List Str) (x : Str) (hS : S ≠ []) :
    joinSep '/' (S ++ [x]) = joinSep '/' S ++ '/' :: x := by
  induction S with
  | nil => exact absurd rfl hS
  | cons a r ih =>
    cases r with
    | nil => simp [joinSep]
    | cons b r' =>
      have := ih (by simp)
      simp only [List.cons_append, joinSep] at this ⊢
      rw [this]; simp

theorem base_render (r : Bool) (S : List Str) (h : ∀ s ∈ S, Normal s) :
    base (render r S) = match S.getLast? with
      | some s => s
      | none => if r then ['/'] else dot := by
  by_cases hS : S = []
  · subst hS
    cases r <;> simp [render, base, segsOf, splitOn, joinSep, dot]
  · have hne : render r S ≠ [] := by
      cases r with
      | true => simp [render]
      | false =>
        simp only [render, Bool.false_eq_true, if_false, hS]
        cases S with
        | nil => exact absurd rfl hS
        | cons x rest =>
          have hx := (h x (by simp)).1
          intro e
          have := joinSep_head x rest hx
          rw [e] at this
          cases x with
          | nil => exact hx rfl
          | cons c cs => simp at this
    simp only [base, hne, if_false, segsOf_render r S h (.inl hS)]
    cases hl : S.getLast? with
    | none => simp [List.getLast?_eq_none_iff] at hl; exact absurd hl hS
    | some s => rfl

theorem segsOf_cons_slash (p : Str) : segsOf ('/' :: p) = segsOf p := by
  simp [segsOf, splitOn_cons_sep]

/-- the last non-empty element of `p`, when it is a real element, is the last element of
    `Clean("/"+p)` -/
theorem clean_rooted_last (p rp : Str) (hrp : Normal rp) (hb : base p = rp) :
    ∃ L', segsOf (clean ('/' :: p)) = L' ++ [rp] := by
  have hp : p ≠ [] := by
    intro e; subst e
    simp [base] at hb; exact hrp.2.1 hb.symm
  simp only [base, hp, if_false] at hb
  cases hl : (segsOf p).getLast? with
  | none => rw [hl] at hb; simp at hb; exact absurd hb.symm (by intro e; exact hrp.2.2.2 (by simp [e]))
  | some s =>
    rw [hl] at hb; simp at hb; subst hb
    obtain ⟨ini, hini⟩ : ∃ ini, segsOf p = ini ++ [s] := by
      have := List.getLast?_eq_some_iff.mp hl
      obtain ⟨ys, hys⟩ := this
      exact ⟨ys, hys⟩
    obtain ⟨_, _, hN, L, hL, hc⟩ := clean_rooted_no_dotdot p
    -- the elements of the cleaned path, computed from the non-empty elements of p
    have hL2 : cleanSegs true (splitOn '/' ('/' :: p)) = (ini.foldl (cleanStep true) []).reverse ++ [s] := by
      simp only [cleanSegs]
      rw [foldl_filter_empty true (splitOn '/' ('/' :: p))]
      rw [show (splitOn '/' ('/' :: p)).filter (· ≠ []) = segsOf ('/' :: p) from rfl, segsOf_cons_slash, hini]
      simp [List.foldl_append, cleanStep_normal true _ s hrp]
    have hall : ∀ x ∈ cleanSegs true (splitOn '/' ('/' :: p)), Normal x :=
      cleanSegs_rooted_normal _ (splitOn_no_sep '/' _)
    have hcl : clean ('/' :: p) = render true (cleanSegs true (splitOn '/' ('/' :: p))) := by
      rw [clean_render _ (by simp)]; simp [isRooted]
    refine ⟨(ini.foldl (cleanStep true) []).reverse, ?_⟩
    rw [hcl, segsOf_render true _ hall (.inr rfl), hL2]

theorem dropWhile_head_false (p : Char → Bool) (l : List Char) (c : Char) (r : List Char)
    (h : l.dropWhile p = c :: r) : p c = false := by
  induction l with
  | nil => simp at h
  | cons x xs ih =>
    simp only [List.dropWhile_cons] at h
    split at h
    · exact ih h
    · rename_i hx
      cases h
      simpa using hx

/-- `strings.TrimRight(s, cutset)` leaves nothing or a last byte outside the cutset -/
theorem trimRightSet_last (s : Str) (cut : List Char) :
    trimRightSet s cut = [] ∨ ∃ y c, trimRightSet s cut = y ++ [c] ∧ cut.contains c = false := by
  unfold trimRightSet
  cases h : s.reverse.dropWhile (fun c => cut.contains c) with
  | nil => left; simp
  | cons c r =>
    right
    exact ⟨r.reverse, c, by simp, dropWhile_head_false _ _ c r h⟩

theorem splitOn_snoc_ne (sep c : Char) (y : Str) (hc : c ≠ sep) :
    ∃ ini l, splitOn sep (y ++ [c]) = ini ++ [l ++ [c]] := by
  induction y with
  | nil => exact ⟨[], [], by simp [splitOn, hc]⟩
  | cons d r ih =>
    obtain ⟨ini, l, h⟩ := ih
    by_cases hd : d = sep
    · subst hd
      exact ⟨[] :: ini, l, by simp [splitOn_cons_sep, h]⟩
    · obtain ⟨hd', tl', h1, h2⟩ := splitOn_cons_ne sep d (r ++ [c]) hd
      simp only [List.cons_append]
      rw [h2]
      rw [h] at h1
      cases ini with
      | nil =>
        simp at h1; obtain ⟨rfl, rfl⟩ := h1
        exact ⟨[], d :: l, by simp⟩
      | cons i0 irest =>
        simp at h1; obtain ⟨rfl, rfl⟩ := h1
        exact ⟨(d :: i0) :: irest, l, by simp⟩

/-- the route base computed by the middleware is never `/` -/
theorem route_base_ne_slash (cPath : Str) : base (trimRightSet cPath ['/', '*']) ≠ ['/'] := by
  rcases trimRightSet_last cPath ['/', '*'] with h | ⟨y, c, h, hc⟩
  · rw [h]; simp [base, dot]
  · rw [h]
    have hcs : c ≠ '/' := by intro e; subst e; simp at hc
    obtain ⟨ini, l, hs⟩ := splitOn_snoc_ne '/' c y hcs
    have hne : y ++ [c] ≠ [] := by simp
    simp only [base, hne, if_false, segsOf, hs]
    have : (ini ++ [l ++ [c]]).filter (· ≠ []) = ini.filter (· ≠ []) ++ [l ++ [c]] := by
      simp [List.filter_append]
    rw [this]
    simp only [List.getLast?_append, List.getLast?_singleton, Option.some_or]
    intro e
    have : c = '/' := by
      have h' : (l ++ [c]).getLast? = (['/'] : Str).getLast? := by rw [e]
      simpa using h'
    exact hcs this


theorem cleanSegsOf_trailing_slash (y : Str) (hy : y ≠ []) :
    cleanSegsOf (y ++ ['/']) = cleanSegsOf y ∧ isRooted (y ++ ['/']) = isRooted y := by
  have hr := isRooted_append y ['/'] hy
  refine ⟨?_, hr⟩
  simp only [cleanSegsOf, hr]
  rw [splitOn_append]
  simp [cleanSegs, splitOn, List.foldl_append, cleanStep_empty]

theorem isRooted_nil : isRooted [] = false := by simp [isRooted]
theorem cleanSegsOf_nil : cleanSegsOf [] = [] := by
  simp [cleanSegsOf, isRooted, splitOn, cleanSegs, cleanStep]
theorem isRooted_slash : isRooted ['/'] = true := by simp [isRooted]
theorem cleanSegsOf_slash : cleanSegsOf ['/'] = [] := by
  simp [cleanSegsOf, isRooted, splitOn, cleanSegs, cleanStep]

theorem under_nil (root : Str) (hrel : isRooted root = false) (hR : cleanSegsOf root = []) :
    Under root [] := by
  refine ⟨by rw [isRooted_nil, hrel], [], by simp, ?_⟩
  rw [cleanSegsOf_nil, hR]; rfl

/-- the IgnoreBase rewrite (fixed code) keeps the name under `Root`, for every route path and
    every request path -/
theorem ignoreBase_under (root cPath p : Str) (h : RootOK root) :
    Under root (ignoreBaseName cPath p (join2 root (clean ('/' :: p)))) := by
  have hq := (clean_rooted_no_dotdot p).2.2.1
  have hname : join2 root (clean ('/' :: p)) =
      render (isRooted root) (cleanSegsOf root ++ segsOf (clean ('/' :: p))) := join2_render root _ h.1 hq
  have hall : ∀ s ∈ cleanSegsOf root ++ segsOf (clean ('/' :: p)), Normal s := by
    intro s hs; rcases List.mem_append.mp hs with h' | h'
    · exact h.2 s h'
    · exact hq s h'
  unfold ignoreBaseName
  simp only
  split
  · rename_i hcond
    obtain ⟨hbp, hbn⟩ := hcond
    rw [hname, base_render _ _ hall] at hbn
    generalize hrp : base (trimRightSet cPath ['/', '*']) = rp at hbp hbn
    have hrpne : rp ≠ ['/'] := by rw [← hrp]; exact route_base_ne_slash cPath
    cases hl : (cleanSegsOf root ++ segsOf (clean ('/' :: p))).getLast? with
    | none =>
      rw [hl] at hbn
      have hS : cleanSegsOf root ++ segsOf (clean ('/' :: p)) = [] := List.getLast?_eq_none_iff.mp hl
      have hR : cleanSegsOf root = [] := (List.append_eq_nil_iff.mp hS).1
      cases hr : isRooted root with
      | true => rw [hr] at hbn; simp at hbn; exact absurd hbn.symm hrpne
      | false =>
        rw [hr] at hbn; simp at hbn
        rw [hname, hS, hr, ← hbn]
        have : trimSuffix (render false []) dot = [] := by
          have := trimSuffix_append [] dot
          simpa [render] using this
        rw [this]
        exact under_nil root hr hR
    | some s =>
      rw [hl] at hbn; simp at hbn; subst hbn
      have hs : Normal s := hall s (List.mem_of_getLast? hl)
      obtain ⟨L', hL'⟩ := clean_rooted_last p s hs hbp
      have hL'n : ∀ x ∈ L', Normal x := fun x hx => hq x (by rw [hL']; simp [hx])
      rw [hname, hL', ← List.append_assoc]
      generalize hS' : cleanSegsOf root ++ L' = S'
      have hS'n : ∀ x ∈ S', Normal x := by
        rw [← hS']; intro x hx; rcases List.mem_append.mp hx with h' | h'
        · exact h.2 x h'
        · exact hL'n x h'
      by_cases hemp : S' = []
      · subst hemp
        have hR : cleanSegsOf root = [] := (List.append_eq_nil_iff.mp hS').1
        cases hr : isRooted root with
        | true =>
          have : trimSuffix (render true ([] ++ [s])) s = ['/'] := by
            have := trimSuffix_append ['/'] s
            simpa [render, joinSep] using this
          rw [this]
          refine ⟨by rw [isRooted_slash, hr], [], by simp, ?_⟩
          rw [cleanSegsOf_slash, hR]; rfl
        | false =>
          have : trimSuffix (render false ([] ++ [s])) s = [] := by
            have := trimSuffix_append [] s
            simpa [render, joinSep] using this
          rw [this]
          exact under_nil root hr hR
      · -- S' ≠ []: the name becomes `Clean(root)/…/` with a trailing slash
        have hy : render (isRooted root) (S' ++ [s]) = (render (isRooted root) S' ++ ['/']) ++ s := by
          cases hr : isRooted root with
          | true => simp [render, joinSep_append_single S' s hemp]
          | false => simp [render, hemp, joinSep_append_single S' s hemp]
        rw [hy, trimSuffix_append]
        have hyne : render (isRooted root) S' ≠ [] := by
          intro e
          have := isRooted_render (isRooted root) S' hS'n
          have h2 := cleanSegsOf_render (isRooted root) S' hS'n
          rw [e, cleanSegsOf_nil] at h2
          exact hemp h2.symm
        obtain ⟨h1, h2⟩ := cleanSegsOf_trailing_slash _ hyne
        refine ⟨by rw [h2, isRooted_render _ _ hS'n], L', hL'n, ?_⟩
        rw [h1, cleanSegsOf_render _ _ hS'n, hS']
  · exact name0_under root p h

end C16
