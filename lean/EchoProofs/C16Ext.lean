import EchoProofs.C16
/-!
# C16 — round 4: configuration defaults, `Static(root)`, Skipper, failing files, helpers

* the fault-aware handlers (`mwF`, `staticDirF`, `fsFileF`) coincide with `mw`, `staticDir`,
  `fsFile` when nothing fails, and under ANY combination of failing `Stat` / `Readdir` / missing
  `Seek` and any Skipper answer they open a subset of the names and serve the same file or none:
  every containment theorem of `EchoProofs/C16.lean` carries over;
* the defaults of `StaticWithConfig`: with the default file system the effective `Root` is `"."`,
  so containment needs NO assumption on the `Root` string; `middleware.Static(root)` needs no
  assumption at all;
* `MustSubFS` roots, the default file system's `os.Open`, the `Content-Disposition` quoting.
-/
namespace C16

/-! ## no fault = the plain handlers -/

theorem serveOpenedF_noFaults (cfg : MwCfg) (t : Tree) (rs : List Str) (name : Str) (next : Next)
    (opened : List Str) (l : Look) :
    serveOpenedF noFaults cfg t rs name next opened l = serveOpened cfg t rs name next opened l := by
  cases l <;> simp [serveOpenedF, serveOpened, statFails, noFaults]

theorem mwServeF_noFaults (cfg : MwCfg) (t : Tree) (rs : List Str) (name : Str) (next : Next) :
    mwServeF noFaults cfg t rs name next = mwServe cfg t rs name next := by
  unfold mwServeF mwServe
  simp only [serveOpenedF_noFaults]

/-- **C16_mwF_noFaults** — without injected failures and with a Skipper answering `false` the
    extended handler IS `mw` -/
theorem C16_mwF_noFaults (cfg : MwCfg) (t : Tree) (rs : List Str) (cPath star urlPath : Str) (next : Next) :
    mwF noFaults false cfg t rs cPath star urlPath next = mw cfg t rs cPath star urlPath next := by
  unfold mwF mw
  simp only [mwServeF_noFaults, Bool.false_eq_true, if_false]

/-! ## any fault, any Skipper answer: fewer names, same file or none -/

theorem serveOpenedF_sub (f : Faults) (cfg : MwCfg) (t : Tree) (rs : List Str) (name : Str) (next : Next)
    (opened : List Str) (l : Look) :
    (∀ n ∈ (serveOpenedF f cfg t rs name next opened l).1, n ∈ (serveOpened cfg t rs name next opened l).1) ∧
    (∀ id, (serveOpenedF f cfg t rs name next opened l).2 = .file id →
      (serveOpened cfg t rs name next opened l).2 = .file id) ∧
    (∀ ti ns, (serveOpenedF f cfg t rs name next opened l).2 = .listing ti ns →
      (serveOpened cfg t rs name next opened l).2 = .listing ti ns) := by
  unfold serveOpenedF serveOpened
  by_cases hs : statFails f l = true
  · simp only [hs, if_true]
    refine ⟨?_, by simp, by simp⟩
    intro n hn
    cases l <;> simp_all
    split <;> simp_all
    split <;> simp_all
  · simp only [hs]
    cases l with
    | notExist => simp
    | invalid => simp
    | file id => simp
    | dir d =>
      simp only
      cases fsOpen cfg.kind t rs (join2 name cfg.index) with
      | file id => by_cases hf : f.statFile = true <;> simp [hf]
      | dir d' => simp
      | notExist => by_cases hb : cfg.browse = true <;> by_cases hr : f.readdir = true <;> simp [hb, hr]
      | invalid => by_cases hb : cfg.browse = true <;> by_cases hr : f.readdir = true <;> simp [hb, hr]

theorem mwServeF_sub (f : Faults) (cfg : MwCfg) (t : Tree) (rs : List Str) (name : Str) (next : Next) :
    (∀ n ∈ (mwServeF f cfg t rs name next).1, n ∈ (mwServe cfg t rs name next).1) ∧
    (∀ id, (mwServeF f cfg t rs name next).2 = .file id → (mwServe cfg t rs name next).2 = .file id) ∧
    (∀ ti ns, (mwServeF f cfg t rs name next).2 = .listing ti ns →
      (mwServe cfg t rs name next).2 = .listing ti ns) := by
  unfold mwServeF mwServe
  split
  · simp
  · split
    · simp
    · split
      · simp only
        split
        · simp
        · simp
        · exact serveOpenedF_sub f cfg t rs name _ _ _
      · simp
  · exact serveOpenedF_sub f cfg t rs name _ _ _

/-- **C16_mwF_refines** — whatever fails (`Stat` of files, `Stat` of directories, `Readdir`) and
    whatever the Skipper answers: the handler opens only names `mw` opens, and when it serves a
    file or a listing, `mw` serves that same file / listing. -/
theorem C16_mwF_refines (f : Faults) (skip : Bool) (cfg : MwCfg) (t : Tree) (rs : List Str)
    (cPath star urlPath : Str) (nx : Next) :
    (∀ n ∈ (mwF f skip cfg t rs cPath star urlPath nx).1, n ∈ (mw cfg t rs cPath star urlPath nx).1) ∧
    (∀ id, (mwF f skip cfg t rs cPath star urlPath nx).2 = .file id →
      (mw cfg t rs cPath star urlPath nx).2 = .file id) ∧
    (∀ ti ns, (mwF f skip cfg t rs cPath star urlPath nx).2 = .listing ti ns →
      (mw cfg t rs cPath star urlPath nx).2 = .listing ti ns) := by
  unfold mwF mw
  by_cases hs : skip = true
  · simp only [hs, if_true]
    refine ⟨by simp, ?_, ?_⟩ <;> (cases nx <;> simp [passNext])
  · have hs' : skip = false := by cases skip <;> simp_all
    subst hs'
    simp only [Bool.false_eq_true, if_false]
    split
    · simp
    · exact mwServeF_sub f cfg t rs _ nx

/-- a skipped request opens nothing and is answered by `next` -/
theorem C16_skipper_opens_nothing (f : Faults) (cfg : MwCfg) (t : Tree) (rs : List Str)
    (cPath star urlPath : Str) (next : Next) :
    mwF f true cfg t rs cPath star urlPath next = ([], passNext next) := by
  simp [mwF]

/-- **C16_mwF_contained** — `C16_mw_contained` for the handler with Skipper and failing files -/
theorem C16_mwF_contained (f : Faults) (skip : Bool) (cfg : MwCfg) (t : Tree) (rs : List Str)
    (cPath star urlPath : Str) (next : Next) (hroot : RootOK cfg.root) (hidx : IndexOK cfg.index) :
    ∀ n ∈ (mwF f skip cfg t rs cPath star urlPath next).1, Under cfg.root n := fun n hn =>
  C16_mw_contained cfg t rs cPath star urlPath next hroot hidx n
    ((C16_mwF_refines f skip cfg t rs cPath star urlPath next).1 n hn)

/-- **C16_mwF_serves_under_root** — `C16_mw_serves_under_root` for the handler with Skipper and
    failing files -/
theorem C16_mwF_serves_under_root (f : Faults) (skip : Bool) (cfg : MwCfg) (t : Tree) (rs : List Str)
    (cPath star urlPath : Str) (next : Next) (id : Nat) (hkind : cfg.kind = .httpDir)
    (hroot : RootOK cfg.root) (hidx : IndexOK cfg.index)
    (h : (mwF f skip cfg t rs cPath star urlPath next).2 = .file id) :
    ∃ L, (∀ s ∈ L, Normal s) ∧ look t (rs ++ cleanSegsOf cfg.root ++ L) = .file id :=
  C16_mw_serves_under_root cfg t rs cPath star urlPath next id hkind hroot hidx
    ((C16_mwF_refines f skip cfg t rs cPath star urlPath next).2.1 id h)

/-! ## the defaults of `StaticWithConfig` and `middleware.Static(root)` -/

theorem rootOK_dot : RootOK dot := by
  refine ⟨by decide, ?_⟩
  intro s hs
  have : cleanSegsOf dot = [] := by decide
  rw [this] at hs; cases hs

theorem indexOK_indexPage : IndexOK indexPage := by
  intro s hs
  have : splitOn '/' indexPage = [indexPage] := by decide
  rw [this] at hs
  simp only [List.mem_cons, List.not_mem_nil, or_false] at hs
  subst hs
  decide

/-- with the default file system (`Filesystem == nil`) the effective `Root` is `"."`, whatever
    string the application gave: it only selects the directory `http.Dir` is rooted at -/
theorem staticDefaults_default (raw : RawCfg) (h : raw.fs = none) :
    (staticDefaults raw).1.root = dot ∧ (staticDefaults raw).1.kind = .httpDir ∧
    (staticDefaults raw).2 = some (if raw.root = [] then dot else raw.root) := by
  simp [staticDefaults, h]

theorem staticDefaults_index (raw : RawCfg) :
    (staticDefaults raw).1.index = (if raw.index = [] then indexPage else raw.index) := by
  unfold staticDefaults
  cases raw.fs <;> simp

/-- **C16_default_fs_contained** — `StaticWithConfig` with the default file system: for EVERY
    `Root` string (empty, relative, absolute, with `..`), every Skipper answer and every failure,
    each opened name lies under `"."` — no `RootOK` assumption — and a served file is a node
    below the directory `http.Dir(Root)` is rooted at, reached through real elements only. -/
theorem C16_default_fs_contained (f : Faults) (skip : Bool) (raw : RawCfg) (t : Tree) (cwd given : List Str)
    (cPath star urlPath : Str) (next : Next) (res : List Str × Outcome)
    (hfs : raw.fs = none) (hidx : raw.index = [] ∨ IndexOK raw.index)
    (h : mwRaw f skip raw t cwd given cPath star urlPath next = some res) :
    (∀ n ∈ res.1, Under dot n) ∧
    ∃ rs, dirRootSegs cwd (if raw.root = [] then dot else raw.root) = some rs ∧
      ∀ id, res.2 = .file id → ∃ L, (∀ s ∈ L, Normal s) ∧ look t (rs ++ L) = .file id := by
  obtain ⟨hr, hk, hd⟩ := staticDefaults_default raw hfs
  have hi : IndexOK (staticDefaults raw).1.index := by
    rw [staticDefaults_index]
    rcases hidx with h0 | h1
    · simp [h0, indexOK_indexPage]
    · by_cases h0 : raw.index = []
      · simp [h0, indexOK_indexPage]
      · simpa [h0] using h1
  unfold mwRaw at h
  generalize hsd : staticDefaults raw = sd at h hr hk hd hi
  obtain ⟨cfg, od⟩ := sd
  simp only at hr hk hd hi
  subst hd
  simp only at h
  split at h
  · rename_i rs hrs
    cases h
    have hroot : RootOK cfg.root := hr ▸ rootOK_dot
    refine ⟨?_, rs, hrs, ?_⟩
    · intro n hn
      have := C16_mwF_contained f skip cfg t rs cPath star urlPath next hroot hi n hn
      rwa [hr] at this
    · intro id hid
      obtain ⟨L, hL, hl⟩ := C16_mwF_serves_under_root f skip cfg t rs cPath star urlPath next id hk hroot hi hid
      refine ⟨L, hL, ?_⟩
      have hc : cleanSegsOf cfg.root = [] := by rw [hr]; decide
      simpa [hc] using hl
  · cases h

/-- **C16_static_ctor_contained** — the convenience constructor `middleware.Static(root)`:
    containment with no assumption at all (any `root` string, any tree, any request). -/
theorem C16_static_ctor_contained (f : Faults) (skip : Bool) (root : Str) (t : Tree) (cwd given : List Str)
    (cPath star urlPath : Str) (next : Next) (res : List Str × Outcome)
    (h : mwRaw f skip (staticCtor root) t cwd given cPath star urlPath next = some res) :
    (∀ n ∈ res.1, Under dot n) ∧
    ∃ rs, dirRootSegs cwd (if root = [] then dot else root) = some rs ∧
      ∀ id, res.2 = .file id → ∃ L, (∀ s ∈ L, Normal s) ∧ look t (rs ++ L) = .file id :=
  C16_default_fs_contained f skip (staticCtor root) t cwd given cPath star urlPath next res rfl
    (.inr indexOK_indexPage) h

/-! ## `MustSubFS`, `os.Open`, fs.FS handlers with failing files -/

/-- **C16_subroot_inside** — a root accepted by `MustSubFS` (on a non-default file system) is a
    sequence of real elements below the parent's root: it can never point above or beside it. -/
theorem C16_subroot_inside (root : Str) (rs : List Str) (h : subRootSegs root = some rs) :
    ∀ s ∈ rs, Normal s := by
  unfold subRootSegs at h
  simp only at h
  split at h
  · rename_i hv
    cases h
    split
    · intro s hs; cases hs
    · rename_i hd
      rcases validPath_cases _ hv with h1 | h1
      · exact absurd h1 hd
      · exact h1
  · cases h

theorem fsFileF_noFaults (t : Tree) (rs : List Str) (file : Str) :
    fsFileF noFaults .io t rs file = fsFile t rs file := by
  unfold fsFileF fsFile openBy
  simp only [noFaults, Bool.false_eq_true, if_false]

/-- **C16_staticDirF_noFaults** — nothing failing: the extended handler IS `staticDir` -/
theorem C16_staticDirF_noFaults (t : Tree) (rs : List Str) (star urlPath : Str) :
    staticDirF noFaults t rs star urlPath = staticDir t rs star urlPath := by
  unfold staticDirF staticDir
  simp only [fsFileF_noFaults]
  simp [noFaults]

theorem fsFileF_file (f : Faults) (t : Tree) (rs : List Str) (file : Str) (id : Nat)
    (h : (fsFileF f .io t rs file).2 = .file id) : (fsFile t rs file).2 = .file id := by
  unfold fsFileF openBy at h
  unfold fsFile
  simp only at h ⊢
  split at h
  · by_cases h1 : f.statFile = true <;> by_cases h2 : f.noSeek = true <;> simp_all
  · by_cases h0 : f.statDir = true
    · simp [h0] at h
    · rw [if_neg h0] at h
      split at h
      all_goals first
        | (by_cases h1 : f.statFile = true <;> by_cases h2 : f.noSeek = true <;> simp_all; done)
        | (exfalso; simp at h; done)
        | (exfalso; cases h; done)
  · simp at h

/-- **C16_fsF_serves_inside** — `StaticDirectoryHandler` over a file system whose files may fail
    `Stat` or lack `Seek`: when it serves a file, the plain handler serves the same file, so
    `C16_fs_serves_inside` applies (the file is a node below the root, real elements only). -/
theorem C16_fsF_serves_inside (f : Faults) (t : Tree) (rs : List Str) (star urlPath : Str) (id : Nat)
    (h : (staticDirF f t rs star urlPath).2 = .file id) :
    (staticDir t rs star urlPath).2 = .file id := by
  unfold staticDirF at h
  unfold staticDir
  split at h
  · simp at h
  · simp only at h ⊢
    split at h
    · simp at h
    · simp at h
    · by_cases h0 : f.statDir = true
      · simp [h0] at h
      · simp only [h0] at h
        by_cases hu : urlPath ≠ [] ∧ urlPath.getLast? ≠ some '/'
        · simp [hu] at h
        · simp only [hu, if_false] at h ⊢
          exact fsFileF_file f t rs _ id h
    · by_cases h0 : f.statFile = true
      · simp [h0] at h
      · simp only [h0] at h
        exact fsFileF_file f t rs _ id h

/-- **C16_osopen_names_file** — echo's default file system (`os.Open`): the file served for a
    name is the node the name denotes from the working directory, lexically resolved — the file
    the developer named, not another one. -/
theorem C16_osopen_names_file (t : Tree) (cwd : List Str) (name : Str) (id : Nat)
    (h : osOpen t cwd name = .file id) :
    ∃ segs, dirRootSegs cwd name = some segs ∧ look t segs = .file id := by
  unfold osOpen at h
  split at h
  · cases h
  · split at h
    · cases h
    · split at h
      · cases h
      · rename_i segs hs
        refine ⟨segs, hs, ?_⟩
        split at h
        · rename_i id' hl
          split at h
          · cases h
          · rw [hl]; exact h
        · rename_i hne
          exact h

/-! ## Content-Disposition -/

/-- read the body of a quoted-string up to the closing quote, undoing backslash escapes
    (RFC 7230 `quoted-string` / `quoted-pair`): result and the rest after the closing quote -/
def readQuoted : Str → Option (Str × Str)
  | [] => none
  | c :: r =>
    if c = '"' then some ([], r)
    else if c = '\\' then
      match r with
      | [] => none
      | d :: r' => (readQuoted r').map fun p => (d :: p.1, p.2)
    else (readQuoted r).map fun p => (c :: p.1, p.2)

/-- **C16_disposition_roundtrip** — for every display name (quotes, backslashes, any bytes): the
    quoted-string written by `Attachment` / `Inline` reads back as exactly that name and ends at
    the quote the helper wrote; a name cannot close the string early and add parameters. -/
theorem C16_disposition_roundtrip (name rest : Str) :
    readQuoted (quoteEscape name ++ '"' :: rest) = some (name, rest) := by
  induction name with
  | nil => simp only [quoteEscape, List.nil_append]; rw [readQuoted.eq_def]; simp
  | cons c r ih =>
    unfold quoteEscape
    by_cases h1 : c = '\\'
    · subst h1
      simp only [if_true, List.cons_append]
      rw [readQuoted.eq_def]
      simp [ih]
    · by_cases h2 : c = '"'
      · subst h2
        simp only [h1, if_false, if_true, List.cons_append]
        rw [readQuoted.eq_def]
        simp [ih]
      · simp only [h1, h2, if_false, List.cons_append]
        rw [readQuoted.eq_def]
        simp [h1, h2, ih]

/-- the file served by `Attachment` / `Inline` does not depend on the display name -/
theorem C16_disposition_same_file (f : Faults) (m : OpenMode) (t : Tree) (rs : List Str)
    (file typ n1 n2 : Str) :
    (dispFile f m t rs file typ n1).2 = (dispFile f m t rs file typ n2).2 := rfl

/-! ## why nothing may touch the name after `Clean` and the join (round 5)

`clean_rooted_no_dotdot` / `C16_mw_contained` speak about the name the handler passes to `Open`:
`Clean(Root)` followed by *real* elements, where "real" (`Normal`) only means: not empty, not `.`,
not `..`, no slash.  An element may contain any other byte — NUL, line breaks, tab, zero-width
code points.  So the guarantee is NOT stable under removing bytes from the finished name: for
every byte `b` other than `.` and `/` the elements `.b.`, `b..`, `..b` are real, and dropping `b`
makes them `..`.  A "sanitising" step placed after `Clean` (drop NUL, trim space, strip control or
zero-width characters) therefore re-creates the dot-dot element that `Clean("/"+p)` has just
excluded; it has to run before `Clean`, or not at all.  The model has no such step: it opens
`mwName` itself, and the correspondence run compares the recorded names byte for byte. -/

/-- a "sanitiser": remove every occurrence of the byte `b` -/
def dropByte (b : Char) (s : Str) : Str := s.filter (fun c => c != b)

/-- **C16_lookalike_normal** — for EVERY byte `b` except `.` and `/`: `.b.`, `b..`, `..b` are
    real path elements (they survive `Clean` untouched), and each is `..` once `b` is dropped. -/
theorem C16_lookalike_normal (b : Char) (hd : b ≠ '.') (hs : b ≠ '/') :
    Normal ['.', b, '.'] ∧ Normal [b, '.', '.'] ∧ Normal ['.', '.', b] ∧
    dropByte b ['.', b, '.'] = dotdot ∧ dropByte b [b, '.', '.'] = dotdot ∧
    dropByte b ['.', '.', b] = dotdot := by
  have hd' : ('.' != b) = true := by simp [bne_iff_ne, Ne.symm hd]
  refine ⟨?_, ?_, ?_, ?_, ?_, ?_⟩
  · simp [Normal, dot, dotdot, Ne.symm hs]
  · simp [Normal, dot, dotdot, Ne.symm hs, hd]
  · simp [Normal, dot, dotdot, Ne.symm hs]
  · simp [dropByte, List.filter, hd', dotdot]
  · simp [dropByte, List.filter, hd', dotdot]
  · simp [dropByte, List.filter, hd', dotdot]

/-- **C16_lookalike_under** — such an element anywhere below `Root` is within what
    `C16_mw_contained` promises (so the promise alone does not survive a later byte-dropping) -/
theorem C16_lookalike_under (root : Str) (hroot : RootOK root) (b : Char) (hd : b ≠ '.') (hs : b ≠ '/')
    (rest : List Str) (hrest : ∀ s ∈ rest, Normal s) :
    Under root (render (isRooted root) (cleanSegsOf root ++ ['.', b, '.'] :: rest)) := by
  apply under_render root hroot
  intro s hs'
  rcases List.mem_cons.mp hs' with h | h
  · rw [h]; exact (C16_lookalike_normal b hd hs).1
  · exact hrest s h

-- end to end, `StaticConfig{Root: "public", Filesystem: http.Dir(<parent>)}`: the request `/.%00./secret`
-- opens `public/.\0./secret` (refused by http.Dir: 500); with the NUL dropped AFTER the join the name is
-- `public/../secret`, which is not under Root and which http.Dir resolves to the secret next to the root
example : mw (exCfg false) exTree [] [] [] (S "/.%00./secret") .notFound = ([S "public/.\x00./secret"], .error500) ∧
    dropByte (Char.ofNat 0) (S "public/.\x00./secret") = S "public/../secret" ∧
    fsOpen .httpDir exTree [] (dropByte (Char.ofNat 0) (S "public/.\x00./secret")) = .file 4 := by decide +kernel
example : mw (exCfg false) exTree [] [] [] (S "/..%0a/secret") .notFound = ([S "public/..\n/secret"], .pass404) ∧
    fsOpen .httpDir exTree [] (dropByte '\n' (S "public/..\n/secret")) = .file 4 ∧
    fsOpen .httpDir exTree [] (dropByte '\t' (S "public/\t../secret")) = .file 4 := by decide +kernel
-- the other file-system kinds with a NUL in the name
example : fsOpen .httpDirFS exTree [S "public"] (S "/a\x00.txt") = .invalid ∧
    fsOpen .httpIoFS exTree [S "public"] (S "/a\x00.txt") = .notExist ∧
    fsOpen .httpMapFS exTree [S "public"] (S "/a\x00.txt") = .notExist ∧
    fsOpen .httpDirFS exTree [S "public"] (S "/a.txt/\x00") = .notExist := by decide +kernel

/-! ## the default file system narrowed step by step (round 6) -/

theorem joinSep_append (A B : List Str) (hA : A ≠ []) (hB : B ≠ []) :
    joinSep '/' (A ++ B) = joinSep '/' A ++ '/' :: joinSep '/' B := by
  induction A with
  | nil => exact absurd rfl hA
  | cons a r ih =>
    cases r with
    | nil =>
      cases B with
      | nil => exact absurd rfl hB
      | cons b rb => simp [joinSep]
    | cons a2 r2 =>
      have := ih (by simp)
      simp only [List.cons_append] at this ⊢
      simp [joinSep, this]

theorem normal_workName : Normal workName := by decide

/-- what `dirRootSegs` returns consists of real elements: a root derived from the default file
    system is a directory reached from the work directory without `..` left in it -/
theorem dirRootSegs_normal (cwd : List Str) (dir : Str) (d : List Str) (h : dirRootSegs cwd dir = some d) :
    ∀ s ∈ d, Normal s := by
  unfold dirRootSegs at h
  simp only at h
  have key : ∀ p : Str, (match segsOf (clean ('/' :: p)) with
      | w :: rest => if w = workName then some rest else none
      | [] => none) = some d → ∀ s ∈ d, Normal s := by
    intro p hp
    have hn := (clean_rooted_no_dotdot p).2.2.1
    split at hp
    · rename_i w rest heq
      split at hp
      · cases hp
        intro s hs
        exact hn s (by rw [heq]; exact List.mem_cons_of_mem _ hs)
      · cases hp
    · cases hp
  by_cases hr : isRooted dir = true
  · simp only [hr, if_true] at h
    cases dir with
    | nil => simp [isRooted] at hr
    | cons c p =>
      have hc : c = '/' := by simpa [isRooted] using hr
      subst hc
      exact key p h
  · simp only [hr] at h
    exact key _ h

/-- **C16_derive_relative** — a relative root of real elements taken from a default file system
    rooted at `cwd` lands at `cwd ++ F`: below the directory the file system is rooted at, not
    below wherever the process started. -/
theorem C16_derive_relative (cwd F : List Str) (hcwd : ∀ s ∈ cwd, Normal s) (hF : ∀ s ∈ F, Normal s)
    (hne : F ≠ []) : dirRootSegs cwd (joinSep '/' F) = some (cwd ++ F) := by
  have hrel : isRooted (joinSep '/' F) = false := by
    have := isRooted_render false F hF
    simpa [render, hne] using this
  have hall : ∀ s ∈ (workName :: cwd) ++ F, Normal s := by
    intro s hs
    rcases List.mem_append.mp hs with h | h
    · rcases List.mem_cons.mp h with h | h
      · rw [h]; exact normal_workName
      · exact hcwd s h
    · exact hF s h
  unfold dirRootSegs
  simp only [hrel, Bool.false_eq_true, if_false]
  rw [List.cons_append, ← joinSep_append (workName :: cwd) F (by simp) hne]
  have hc := clean_rooted_join ((workName :: cwd) ++ F) hall (by simp) false
  simp only [Bool.false_eq_true, if_false, List.nil_append] at hc
  rw [hc]
  have hs := segsOf_render true ((workName :: cwd) ++ F) hall (.inr rfl)
  simp only [render, if_true] at hs
  rw [hs]
  simp

/-- **C16_derive_second_level** — `e.Filesystem = MustSubFS(e.Filesystem, r1)` followed by
    `e.Static(prefix, r2)` with a relative `r2` of real elements: the served root is `r2` below the
    directory `r1` denotes — for every `r1` (absolute, relative, with `..`) and every working directory. -/
theorem C16_derive_second_level (cwd : List Str) (r1 : Str) (d F : List Str)
    (h1 : dirRootSegs cwd r1 = some d) (hF : ∀ s ∈ F, Normal s) (hne : F ≠ []) :
    deriveRoots cwd [r1, joinSep '/' F] = some (d ++ F) := by
  simp [deriveRoots, h1, C16_derive_relative d F (dirRootSegs_normal cwd r1 d h1) hF hne]

example : deriveRoots [] ["public".toList, "static".toList] = some ["public".toList, "static".toList] ∧
    deriveRoots ["public".toList] ["..".toList, "public".toList] = some ["public".toList] ∧
    deriveRoots [] ["/W".toList, "public".toList] = some ["public".toList] ∧
    deriveRoots [] ["public".toList, ".".toList, "static".toList] = some ["public".toList, "static".toList] ∧
    deriveRoots [] ["/etc".toList, "x".toList] = none := by decide +kernel


/-! ## non-vacuity -/

section Examples

private def S' (s : String) : Str := s.toList

private def exT : Tree :=
  [(S' "public", .dir), (S' "public/a+b.txt", .file 1), (S' "public/a b.txt", .file 2), (S' "public/index.html", .file 3),
   (S' "public/dir", .dir), (S' "secret", .file 4), (S' "a+b.txt", .file 5)]

-- `middleware.Static("public")` from the working directory W: a literal `+` stays a `+`
example : mwRaw noFaults false (staticCtor (S' "public")) exT [] [] [] [] (S' "/a+b.txt") .notFound
    = some ([S' "a+b.txt"], .file 1) := by decide +kernel
-- ... the same root reached through the parent, working directory = the web root
example : mwRaw noFaults false (staticCtor (S' "../public")) exT [S' "public"] [] [] [] (S' "/../secret") .notFound
    = some ([S' "secret"], .pass404) := by decide +kernel
-- a root outside the work directory is not placed by the model
example : mwRaw noFaults false (staticCtor (S' "/etc")) exT [] [] [] [] (S' "/passwd") .notFound = none := by decide +kernel
-- Skipper, failing Stat
example : mwRaw noFaults true (staticCtor (S' "public")) exT [] [] [] [] (S' "/a+b.txt") .notFound = some ([], .pass404) := by
  decide +kernel
example : mwRaw ⟨true, false, false, false⟩ false (staticCtor (S' "public")) exT [] [] [] [] (S' "/a+b.txt") .notFound
    = some ([S' "a+b.txt"], .error500) := by decide +kernel
example : mwRaw ⟨false, false, true, false⟩ false ⟨S' "public", [], false, true, false, none⟩ exT [] [] [] [] (S' "/dir") .notFound
    = some ([S' "dir", S' "dir/index.html"], .error500) := by decide +kernel
-- MustSubFS roots
example : subRootSegs (S' "./public/") = some [S' "public"] ∧ subRootSegs (S' "public/dir/..") = some [S' "public"] ∧
    subRootSegs (S' "../public") = none ∧ subRootSegs (S' "/public") = none ∧ subRootSegs (S' "") = some [] := by
  decide +kernel
-- files without Seek: 500; os.Open follows `..` lexically (the developer's own name)
example : staticDirF ⟨false, false, false, true⟩ exT [S' "public"] (S' "a+b.txt") (S' "/s/a+b.txt")
    = ([S' "a+b.txt", S' "a+b.txt"], .error500) := by decide +kernel
example : fsFileF noFaults (.os []) exT [] (S' "public/../secret") = ([S' "public/../secret"], .file 4) := by decide +kernel
-- ... but physically: `nope/..` needs the directory `nope` (the lexical Clean would not)
example : fsFileF noFaults (.os []) exT [] (S' "public/nope/../a+b.txt") = ([S' "public/nope/../a+b.txt"], .notFound404) ∧
    fsFileF noFaults (.os []) exT [] (S' "public/dir/../a+b.txt") = ([S' "public/dir/../a+b.txt"], .file 1) := by decide +kernel
example : fsFileF noFaults .io exT [] (S' "public/../secret") = ([S' "public/../secret"], .notFound404) := by decide +kernel
-- Content-Disposition
example : dispHeader (S' "attachment") (S' "a\"; x=\"b\\") = S' "attachment; filename=\"a\\\"; x=\\\"b\\\\\"" := by decide +kernel

/-! ## when a configuration value is read (round 7)

The definitions `staticRouteRoot`, `openTimeRoot`, `staticRouteFS`, `fileRouteFS` of the model fix
WHICH of the four moments (`echo.New()`, registration, first request, each request) a value is
taken from; the correspondence run sends all four values and ties the choice to the real code.
The statements below are the consequences the property needs; they are short because the choice
is the whole content. -/

/-- **C16_static_root_fixed_at_new** — the root of an `Echo.Static` / `Group.Static` route on the
    default file system depends on the working directory at `echo.New()` only: whatever the
    process does afterwards (chdir before or after the registration, before any request) the route
    serves the same directory. -/
theorem C16_static_root_fixed_at_new (cwd cwd' : Times (List Str)) (roots : List Str)
    (h : cwd.atNew = cwd'.atNew) : staticRouteRoot cwd roots = staticRouteRoot cwd' roots := by
  simp [staticRouteRoot, h]

/-- ... and with `C16_derive_second_level`: a relative root of real elements is that root below the
    directory the earlier roots denote from the working directory of `echo.New()` -/
theorem C16_static_root_second_level (cwd : Times (List Str)) (r1 : Str) (d F : List Str)
    (h1 : dirRootSegs cwd.atNew r1 = some d) (hF : ∀ s ∈ F, Normal s) (hne : F ≠ []) :
    staticRouteRoot cwd [r1, joinSep '/' F] = some (d ++ F) :=
  C16_derive_second_level cwd.atNew r1 d F h1 hF hne

/-- **C16_route_fs_fixed_at_registration** — a Static / StaticFS route (Echo or Group) serves from the
    file system of registration time: reassigning `Echo.Filesystem` before the first request or
    between requests does not move it -/
theorem C16_route_fs_fixed_at_registration {α : Type} (fs fs' : Times α) (h : fs.atRegister = fs'.atRegister) :
    staticRouteFS fs = staticRouteFS fs' := h

-- the Static route keeps `W/public` after a chdir to `W/elsewhere`; `http.Dir("public")` of the middleware
-- and a File route on the default file system name `W/elsewhere/public` from then on
example : staticRouteRoot ⟨[], [], [S' "elsewhere"], [S' "elsewhere"]⟩ [S' "public"] = some [S' "public"] ∧
    staticRouteRoot ⟨[], [S' "elsewhere"], [S' "elsewhere"], [S' "elsewhere"]⟩ [S' "public"] = some [S' "public"] ∧
    openTimeRoot ⟨[], [], [S' "elsewhere"], [S' "elsewhere"]⟩ (S' "public") = some [S' "elsewhere", S' "public"] := by
  decide +kernel

end Examples

end C16
