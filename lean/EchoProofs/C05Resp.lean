import EchoModel.C05Resp
/-!
# C05 — every context owns its `Response` object, whatever it is handed as writer

* `C05R_owned_run`            after ANY sequence of `NewContext`, `Reset` (with a plain writer or with another
                              `Response` as writer: forwarded requests, mounted instances), `SetResponse(NewResponse(..))`
                              (`WrapMiddleware`, handlers; never undone), writes and hook registrations, no two contexts
                              point to the same `Response` object
* `C05R_reset_fresh`          `Reset` leaves the context with the bookkeeping of a fresh response (200 / 0 / not
                              committed / no hooks), whatever the object held and whatever the new writer is
* `C05R_reset_private`        … and changes nothing any OTHER context can see — also when the writer handed in is that
                              other context's own `Response`
* `C05R_setNew_private`, `C05R_hook_private`, `C05R_write_frame`, `C05R_write_private`
                              the same for the other operations; a write reaches exactly the `Response` objects on the
                              chain of writers of the writing context (its own, and those of the requests it is served on)
* `adopt_breaks_ownership`, `adopt_leaks`   the shortcut "serve directly on the `Response` we were handed" (or: keep
                              pointing to an object that went back to a pool) breaks the invariant, and then a later
                              `Reset` of one context wipes what another one sees
-/
namespace C05R

/-- ownership: the contexts' `response` pointers are valid and pairwise different -/
structure Owned (s : Sys) : Prop where
  nodup : s.ctxs.Nodup
  valid : ∀ a ∈ s.ctxs, a < s.heap.length

theorem nodup_set_fresh {l : List Nat} (h : l.Nodup) (x : Nat) (hx : x ∉ l) : ∀ i, (l.set i x).Nodup := by
  induction l with
  | nil => intro i; simp
  | cons y ys ih =>
    intro i
    have hy : y ∉ ys := (List.nodup_cons.mp h).1
    have hys : ys.Nodup := (List.nodup_cons.mp h).2
    have hxy : x ≠ y := fun e => hx (e ▸ List.mem_cons_self ..)
    have hxys : x ∉ ys := fun m => hx (List.mem_cons_of_mem _ m)
    cases i with
    | zero =>
      simp only [List.set_cons_zero]
      exact List.nodup_cons.mpr ⟨hxys, hys⟩
    | succ j =>
      simp only [List.set_cons_succ]
      refine List.nodup_cons.mpr ⟨?_, ih hys hxys j⟩
      intro m
      rcases List.mem_or_eq_of_mem_set m with m | m
      · exact hy m
      · exact hxy m.symm

theorem bump_length (n : Nat) (h : List Cell) (a : Nat) : (bump n h a).length = h.length := by
  unfold bump; split <;> simp

theorem foldl_bump_length (n : Nat) (as : List Nat) : ∀ h : List Cell, (as.foldl (bump n) h).length = h.length := by
  induction as with
  | nil => intro h; rfl
  | cons a as ih => intro h; simp only [List.foldl_cons]; rw [ih, bump_length]

theorem bump_other (n : Nat) (h : List Cell) (a b : Nat) (hne : a ≠ b) : (bump n h a)[b]? = h[b]? := by
  unfold bump
  split
  · simp [hne]
  · rfl

theorem foldl_bump_other (n : Nat) (as : List Nat) (b : Nat) (hb : b ∉ as) :
    ∀ h : List Cell, (as.foldl (bump n) h)[b]? = h[b]? := by
  induction as with
  | nil => intro h; rfl
  | cons a as ih =>
    intro h
    simp only [List.foldl_cons]
    rw [ih (fun m => hb (List.mem_cons_of_mem _ m)), bump_other n h a b (fun e => hb (e ▸ List.mem_cons_self ..))]

theorem exec_ctxs_heap (s : Sys) (st : Step) : s.heap.length ≤ (exec s st).heap.length := by
  cases st with
  | newCtx => simp [exec, newCtx]
  | reset c w => simp only [exec, reset]; split <;> simp
  | setNew c w => simp only [exec, setNew]; split <;> simp
  | write c n => simp only [exec, write]; split <;> simp [foldl_bump_length]
  | hook c o =>
    simp only [exec, hook]
    split
    · split <;> simp
    · simp

/-- every operation of the code keeps the ownership invariant -/
theorem owned_exec (s : Sys) (h : Owned s) (st : Step) : Owned (exec s st) := by
  cases st with
  | newCtx =>
    refine ⟨?_, ?_⟩
    · simp only [exec, newCtx]
      refine List.nodup_append.mpr ⟨h.nodup, by simp, ?_⟩
      intro a ha b hb
      simp only [List.mem_singleton] at hb
      have := h.valid a ha
      omega
    · intro a ha
      simp only [exec, newCtx, List.mem_append, List.mem_singleton, List.length_append, List.length_cons,
        List.length_nil] at ha ⊢
      rcases ha with ha | ha
      · have := h.valid a ha; omega
      · omega
  | reset c w =>
    simp only [exec, reset]
    split
    · exact ⟨h.nodup, by intro a ha; simpa using h.valid a ha⟩
    · exact h
  | setNew c w =>
    simp only [exec, setNew]
    split
    · refine ⟨nodup_set_fresh h.nodup _ (fun m => Nat.lt_irrefl _ (h.valid _ m)) c, ?_⟩
      intro a ha
      simp only [List.length_append, List.length_cons, List.length_nil]
      rcases List.mem_or_eq_of_mem_set ha with ha | ha
      · have := h.valid a ha; omega
      · omega
    · exact h
  | write c n =>
    simp only [exec, write]
    split
    · exact ⟨h.nodup, by intro a ha; simp only [foldl_bump_length]; exact h.valid a ha⟩
    · exact h
  | hook c o =>
    simp only [exec, hook]
    split
    · split
      · exact ⟨h.nodup, by intro a ha; simpa using h.valid a ha⟩
      · exact h
    · exact h

theorem owned_init : Owned {} := ⟨List.nodup_nil, by intro a ha; simp at ha⟩

/-- **C05R_owned_run** — after any sequence of operations no two contexts share a `Response` object. -/
theorem C05R_owned_run (steps : List Step) : ∀ s, Owned s → Owned (run s steps) := by
  induction steps with
  | nil => intro s h; exact h
  | cons st rest ih => intro s h; exact ih _ (owned_exec s h st)

theorem nodup_getElem?_inj {l : List Nat} (h : l.Nodup) : ∀ {i j a : Nat}, l[i]? = some a → l[j]? = some a → i = j := by
  induction l with
  | nil => intro i j a hi; simp at hi
  | cons y ys ih =>
    intro i j a hi hj
    have hy : y ∉ ys := (List.nodup_cons.mp h).1
    have hys : ys.Nodup := (List.nodup_cons.mp h).2
    cases i with
    | zero =>
      cases j with
      | zero => rfl
      | succ j' =>
        simp only [List.getElem?_cons_zero, Option.some.injEq, List.getElem?_cons_succ] at hi hj
        exact absurd (hi ▸ List.mem_of_getElem? hj) hy
    | succ i' =>
      cases j with
      | zero =>
        simp only [List.getElem?_cons_zero, Option.some.injEq, List.getElem?_cons_succ] at hi hj
        exact absurd (hj ▸ List.mem_of_getElem? hi) hy
      | succ j' =>
        simp only [List.getElem?_cons_succ] at hi hj
        rw [ih hys hi hj]

theorem ctx_addr_inj {s : Sys} (h : Owned s) {c c' a : Nat} (hc : s.ctxs[c]? = some a) (hc' : s.ctxs[c']? = some a) :
    c = c' := nodup_getElem?_inj h.nodup hc hc'

/-- **C05R_reset_fresh** — after `Reset` the context shows the bookkeeping of a fresh response, whatever its
    object held before and whatever writer it was given (a recorder, another `Response`). -/
theorem C05R_reset_fresh (s : Sys) (h : Owned s) (c a : Nat) (w : Writer) (hc : s.ctxs[c]? = some a) :
    view (reset s c w) c = some (fresh w) := by
  have hv : a < s.heap.length := h.valid a (List.mem_of_getElem? hc)
  simp [view, reset, hc, hv]

/-- **C05R_reset_private** — … and no other context sees any change, also when the writer handed in is the
    other context's own `Response` (a forwarded request, a mounted instance). -/
theorem C05R_reset_private (s : Sys) (h : Owned s) (c c' : Nat) (w : Writer) (hne : c ≠ c') :
    view (reset s c' w) c = view s c := by
  unfold reset
  cases hc' : s.ctxs[c']? with
  | none => rfl
  | some a' =>
    simp only [view]
    cases hc : s.ctxs[c]? with
    | none => rfl
    | some a =>
      have : a' ≠ a := fun e => hne (ctx_addr_inj h hc (e ▸ hc'))
      simp [List.getElem?_set, this]

/-- `SetResponse(NewResponse(..))` on one context (what `WrapMiddleware` does, without ever undoing it) is
    invisible to every other context -/
theorem C05R_setNew_private (s : Sys) (h : Owned s) (c c' : Nat) (w : Writer) (hne : c ≠ c') :
    view (setNew s c' w) c = view s c := by
  unfold setNew
  split
  · simp only [view]
    rw [List.getElem?_set_ne (fun e => hne e.symm)]
    cases hc : s.ctxs[c]? with
    | none => rfl
    | some a =>
      have hv : a < s.heap.length := h.valid a (List.mem_of_getElem? hc)
      simp [List.getElem?_append_left hv]
  · rfl

theorem C05R_hook_private (s : Sys) (h : Owned s) (c c' : Nat) (o : Nat) (hne : c ≠ c') :
    view (hook s c' o) c = view s c := by
  unfold hook
  cases hc' : s.ctxs[c']? with
  | none => rfl
  | some a' =>
    simp only
    cases hcell : s.heap[a']? with
    | none => rfl
    | some cell =>
      simp only [view]
      cases hc : s.ctxs[c]? with
      | none => rfl
      | some a =>
        have : a' ≠ a := fun e => hne (ctx_addr_inj h hc (e ▸ hc'))
        simp [List.getElem?_set, this]

/-- **C05R_write_frame** — a write through context `c'` changes exactly the `Response` objects on its chain of
    writers: every other object is untouched. -/
theorem C05R_write_frame (s : Sys) (c' a' : Nat) (n : Nat) (hc' : s.ctxs[c']? = some a') (b : Nat)
    (hb : b ∉ chain s.heap s.heap.length a') : (write s c' n).heap[b]? = s.heap[b]? := by
  simp only [write, hc']
  exact foldl_bump_other n _ b hb s.heap

/-- **C05R_write_private** — so a context whose `Response` is not on that chain (it is not one of the requests
    `c'` is being served on) sees no change. -/
theorem C05R_write_private (s : Sys) (c c' a a' : Nat) (n : Nat) (hc : s.ctxs[c]? = some a)
    (hc' : s.ctxs[c']? = some a') (hb : a ∉ chain s.heap s.heap.length a') :
    view (write s c' n) c = view s c := by
  have hctx : (write s c' n).ctxs = s.ctxs := by simp only [write, hc']
  simp only [view, hctx, hc, Option.bind_some]
  exact C05R_write_frame s c' a' n hc' a hb

/-! ### the shortcut that must not be taken -/

/-- two contexts, the second one being handed the first one's `Response` as writer (a forwarded request) -/
def two : Sys := run {} [.newCtx, .newCtx]

/-- the code: the inner context re-initialises its OWN object; the outer one's bookkeeping is untouched, and
    later traffic on the inner context cannot reach it -/
example : view (reset two 1 (.resp 0)) 0 = view two 0 := by decide
example : view (reset (write (reset two 1 (.resp 0)) 0 5) 1 (.plain 9)) 0 = some { (fresh (.plain 0)) with committed := true, size := 5 } := by
  decide
/-- a write of the forwarded request reaches the outer response (that is what forwarding means) … -/
example : view (write (reset two 1 (.resp 0)) 1 7) 0 = some { (fresh (.plain 0)) with committed := true, size := 7 } := by
  decide

/-- **adopt_breaks_ownership** — "serve directly on the `Response` we were handed" (equally: keep pointing to
    an object that was given back to a pool and handed to somebody else) makes two contexts share one object … -/
theorem adopt_breaks_ownership : ¬ Owned (adopt two 1 0) := by
  intro h
  have := h.nodup
  revert this
  decide

/-- **adopt_leaks** — … and then re-initialising one context wipes what the other one sees: the outer request
    has written 5 bytes, the inner context is recycled for an unrelated request, and the outer request finds
    its response uncommitted and empty, on somebody else's writer. -/
theorem adopt_leaks :
    view (reset (write (adopt two 1 0) 0 5) 1 (.plain 9)) 0 ≠ view (write (adopt two 1 0) 0 5) 0 := by decide

/-! ### non-vacuity -/
example : Owned two := C05R_owned_run _ _ owned_init
example : Owned (run {} [.newCtx, .newCtx, .reset 0 (.plain 1), .reset 1 (.resp 0), .setNew 1 (.resp 1), .write 1 3,
    .hook 0 1, .reset 1 (.plain 2)]) := C05R_owned_run _ _ owned_init
example : (run {} [.newCtx, .newCtx, .reset 0 (.plain 1), .reset 1 (.resp 0), .setNew 1 (.resp 1), .write 1 3]).heap.map (·.size)
    = [3, 3, 3] := by decide

end C05R
