import EchoProofs.C20
import EchoProofs.Tree.OK
/-!
# C20 on the radix-tree model

`C20.lean` proves the inverse law between `Router.Reverse` and routing for the order-free reference
search (L1).  With `find_eq_route_ok` the same statements hold for the model of the real `Router.Find` on
the tree built by `Router.insert` (L3), for every table of representable patterns (no escaped colon, no
text after `*`; for patterns with escaped colons the L1 statements and the correspondence run remain).
-/
namespace C20
open Router Router.Spec Router.Tree

theorem okTable_single {r : Route} (h : okPattern r.path = true) : okTable [r] = true := by
  simp [okTable, h]

/-- **C20_roundtrip_single on the tree model** — a table containing just the route: the reversed URL,
    requested with the route's method, is dispatched by the tree model to that route's record with exactly
    the values that were reversed. -/
theorem C20_roundtrip_single_tree (r : Route) (hne : r.method ≠ routeNotFound) (vs : List Str)
    (hok : okPattern r.path = true)
    (hstar : starLast (normalizeSlash r.path) = true) (hvalid : ValidVals (norm r.path).1 vs)
    (n : Nat) (hn : maxParam [r] ≤ n) :
    ∃ rm, find (build [r]) r.method (reverse r.path vs) (List.replicate n []) = .dispatch rm vs
      ∧ rm.hid = r.hid ∧ rm.ppath = normalizeSlash r.path ∧ rm.pnames = (norm r.path).2 := by
  obtain ⟨o, ho, he⟩ := find_eq_route_ok [r] r.method (reverse r.path vs) n hn (okTable_single hok)
  have hd : dedupLast [r] = [r] := by simp [dedupLast]
  rw [hd] at he
  have h1 := C20_roundtrip_single r hne vs hstar hvalid
  unfold routeTable at h1
  rw [h1] at he
  generalize find (build [r]) r.method (reverse r.path vs) (List.replicate n []) = f at ho ⊢
  cases ho with
  | dispatch rm mm vals =>
    obtain ⟨he1, hv⟩ := he
    subst hv
    refine ⟨rm, rfl, ?_, ?_, ?_⟩
    · have := congrArg Entry.hid he1; simpa [entryOf, mkEntry] using this
    · have := congrArg Entry.ppath he1; simpa [entryOf, mkEntry] using this
    · have := congrArg Entry.pnames he1; simpa [entryOf, mkEntry] using this
  | notFound p => exact absurd he (by simp [C02.OutEquiv])
  | mna p a => exact absurd he (by simp [C02.OutEquiv])

theorem normalizeSlash_idem (p : Str) : normalizeSlash (normalizeSlash p) = normalizeSlash p := by
  cases p with
  | nil => rfl
  | cons c cs =>
    by_cases hc : c = '/'
    · subst hc; rfl
    · simp [normalizeSlash, hc]

/-- **C20_roundtrip_values on the tree model** — in ANY table of representable patterns (re-registrations
    allowed): whenever the tree model dispatches the URL reversed from route `r` with valid values `vs`
    to a record carrying `r`'s pattern — and the handler that runs is not that of a RouteNotFound route,
    which sees cleared values by design — the handler sees exactly `vs`. -/
theorem C20_roundtrip_values_tree (rs : List Route) (hok : okTable rs = true) (r : Route)
    (vs vals : List Str)
    (hstar : starLast (normalizeSlash r.path) = true) (hvalid : ValidVals (norm r.path).1 vs)
    (n : Nat) (hn : maxParam rs ≤ n) (rm : RouteMethod)
    (h : find (build rs) r.method (reverse r.path vs) (List.replicate n []) = .dispatch rm vals)
    (hsame : rm.ppath = normalizeSlash r.path)
    (hrec : ∀ r' ∈ rs, r'.hid = rm.hid → r'.method ≠ routeNotFound) : vals = vs := by
  have hinst := C20_reverse_eq_inst r.path vs hstar (validVals_length hvalid)
  have hn' : (norm rm.ppath).1 = (norm r.path).1 := by
    rw [hsame]; unfold norm; rw [normalizeSlash_idem]
  obtain ⟨o, ho, he⟩ := find_eq_route_ok rs r.method (reverse r.path vs) n hn hok
  rw [h] at ho
  obtain ⟨mm, rfl⟩ := outRel_dispatch_inv ho
  have hr := outEquiv_dispatch_left he
  rcases C01.C01_sound_partial _ _ _ _ _ hr with ⟨_, hi, hsf, _⟩ | ⟨hm, hmem, _, _⟩
  · simp only [entryOf] at hi hsf
    rw [hn'] at hi hsf
    exact C20_decomposition_unique (norm r.path).1 vals vs _ (normAux_anyLast _ _)
      (normAux_paramThenSlash _ _) hi hinst hsf (validVals_slashFree hvalid)
  · obtain ⟨r', hr', hre⟩ := List.mem_map.mp hmem
    have h1 : r'.hid = rm.hid := by
      have := congrArg Entry.hid hre; simpa [entryOf, mkEntry] using this
    have h2 : r'.method = routeNotFound := by
      have := congrArg Entry.method hre
      simp only [entryOf, mkEntry] at this hm
      rw [this]; exact hm
    exact absurd h2 (hrec r' (dedupLast_subset rs r' hr') h1)

/-- an instantiated pattern matches its instance -/
theorem matches_of_inst : ∀ (ts : List Tok) (vs : List Str) (p : Str),
    paramThenSlash ts = true → ValidVals ts vs → inst ts vs = some p → C02.Matches ts p := by
  intro ts
  induction ts with
  | nil =>
    intro vs p _ hv h
    cases vs with
    | nil => simp only [inst, Option.some.injEq] at h; subst h; simp [C02.Matches]
    | cons v vs => simp [ValidVals] at hv
  | cons t ts ih =>
    intro vs p hps hv h
    cases t with
    | lit c =>
      simp only [inst, Option.map_eq_some_iff] at h
      obtain ⟨p', hp', rfl⟩ := h
      simp only [paramThenSlash] at hps
      simp only [ValidVals] at hv
      exact ⟨p', rfl, ih vs p' hps hv hp'⟩
    | any => simp [C02.Matches]
    | param =>
      cases vs with
      | nil => simp [ValidVals] at hv
      | cons v vs =>
        simp only [inst, Option.map_eq_some_iff] at h
        obtain ⟨p', hp', rfl⟩ := h
        simp only [ValidVals] at hv
        obtain ⟨hne, hns, hv'⟩ := hv
        simp only [paramThenSlash, Bool.and_eq_true, Bool.or_eq_true, List.isEmpty_iff] at hps
        obtain ⟨hhead, hps'⟩ := hps
        have hm := ih vs p' hps' hv' hp'
        refine ⟨by intro h0; cases v <;> simp_all, ?_⟩
        have htw : (v ++ p').takeWhile (· ≠ '/') = v := by
          rcases hhead with hnil | hlit
          · subst hnil
            cases vs with
            | nil =>
              simp only [inst, Option.some.injEq] at hp'
              subst hp'
              simpa using takeWhile_no_slash_id v hns
            | cons _ _ => simp [inst] at hp'
          · cases ts with
            | nil => simp at hlit
            | cons t' ts' =>
              simp only [List.head?_cons, Option.some.injEq, decide_eq_true_eq] at hlit
              subst hlit
              simp only [inst, Option.map_eq_some_iff] at hp'
              obtain ⟨p'', _, rfl⟩ := hp'
              exact takeWhile_append_slash v p'' hns
        rw [htw]
        simpa using hm

/-- a pattern is representable exactly when its normalised text keeps `*` last and has no escaped colon;
    the concrete demo: reverse, then route through the tree -/
example : ∃ rm, find (build [⟨"GET".toList, "/users/:id/files/*".toList, 7⟩]) "GET".toList
      (reverse "/users/:id/files/*".toList ["42".toList, "a/b.txt".toList]) [[], []]
        = .dispatch rm ["42".toList, "a/b.txt".toList] ∧ rm.hid = 7 := by
  obtain ⟨rm, h, hh, _⟩ := C20_roundtrip_single_tree ⟨"GET".toList, "/users/:id/files/*".toList, 7⟩
    (by decide) ["42".toList, "a/b.txt".toList] (by decide) (by decide)
    (by simp [norm, normAux, Router.normalizeSlash, ValidVals]) 2 (by decide)
  exact ⟨rm, h, hh⟩

end C20
