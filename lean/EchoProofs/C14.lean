import EchoModel.C14
/-!
# C14 — theorems about the BodyLimit model

All statements quantify over *every* limit, *every* sequence of answers of the underlying
reader (hence every body length, chunking and read size), every declared length and every
left-over state of the pooled reader.
-/
namespace C14

/-- number of body bytes in a sequence of reader answers -/
def total (rs : List Resp) : Nat := (rs.map (·.data.length)).sum

@[simp] theorem total_nil : total [] = 0 := rfl
@[simp] theorem total_cons (u : Resp) (us : List Resp) :
    total (u :: us) = u.data.length + total us := by simp [total]

/-- characterisation of what the handler sees, answer by answer -/
def expected (L : Nat) : Nat → List Resp → List Resp
  | _, [] => []
  | read, u :: us =>
    (if read + u.data.length > L then ⟨u.data, .tooLarge⟩ else u)
      :: expected L (read + u.data.length) us

theorem lrRun_eq_expected (L : Nat) (us : List Resp) :
    ∀ read, (lrRun L read us).2 = expected L read us := by
  induction us with
  | nil => intro read; rfl
  | cons u us ih =>
    intro read
    simp only [lrRun, lrRead, expected]
    split <;> simp [ih]

theorem lrRun_count (L : Nat) (us : List Resp) :
    ∀ read, (lrRun L read us).1 = read + total us := by
  induction us with
  | nil => intro read; simp [lrRun]
  | cons u us ih =>
    intro read
    simp only [lrRun, lrRead]
    split <;> simp [ih] <;> omega

/-- the bytes are never altered, only the error component -/
theorem lrRun_data (L : Nat) (us : List Resp) :
    ∀ read, ((lrRun L read us).2).map (·.data) = us.map (·.data) := by
  induction us with
  | nil => intro read; rfl
  | cons u us ih =>
    intro read
    rw [lrRun_eq_expected] at *
    simp only [expected, List.map_cons]
    have := ih (read + u.data.length)
    rw [lrRun_eq_expected] at this
    rw [this]
    split <;> rfl

theorem expected_no413_total (L : Nat) (us : List Resp) :
    ∀ read, (∀ o ∈ expected L read us, o.err ≠ .tooLarge) → us ≠ [] → read + total us ≤ L := by
  induction us with
  | nil => intro _ _ h; exact absurd rfl h
  | cons u us ih =>
    intro read h _
    simp only [expected, List.mem_cons, forall_eq_or_imp] at h
    obtain ⟨h1, h2⟩ := h
    have hle : read + u.data.length ≤ L := by
      by_cases hc : read + u.data.length > L
      · simp [hc] at h1
      · omega
    cases us with
    | nil => simpa using hle
    | cons v vs =>
      have := ih (read + u.data.length) h2 (by simp)
      simp only [total_cons] at *
      omega

/-- **C14_precheck** — a declared length above the limit is rejected with 413 before the
    handler runs, whatever the pooled reader held. -/
theorem C14_precheck (L lo : Nat) (r : Req) (h : r.declared > (L : Int)) :
    (serve L lo r).1 = .rejected := by
  simp [serve, h]

/-- **C14_never_more** — if none of the reads the handler made so far reported 413, the
    handler has been given at most `L` bytes (any prefix of any body, any chunking). -/
theorem C14_never_more (L : Nat) (under : List Resp)
    (h : ∀ o ∈ (lrRun L 0 under).2, o.err ≠ .tooLarge) : total under ≤ L := by
  cases under with
  | nil => simp
  | cons u us =>
    rw [lrRun_eq_expected] at h
    simpa using expected_no413_total L (u :: us) 0 h (by simp)

/-- **C14_never_more (through the middleware)** -/
theorem C14_never_more_serve (L lo : Nat) (r : Req) (seen : List Resp)
    (hs : (serve L lo r).1 = .ran seen) (h : ∀ o ∈ seen, o.err ≠ .tooLarge) :
    total r.under ≤ L ∧ seen = r.under := by
  unfold serve at hs
  split at hs
  · simp at hs
  · simp only [Outcome.ran.injEq] at hs
    subst hs
    have ht := C14_never_more L r.under h
    refine ⟨ht, ?_⟩
    rw [lrRun_eq_expected]
    clear h
    have : ∀ (us : List Resp) (read : Nat), read + total us ≤ L → expected L read us = us := by
      intro us
      induction us with
      | nil => intros; rfl
      | cons u us ih =>
        intro read hle
        simp only [total_cons] at hle
        simp only [expected]
        rw [ih (read + u.data.length) (by omega)]
        have : ¬ read + u.data.length > L := by omega
        simp [this]
    exact this r.under 0 (by simpa using ht)

theorem expected_413_from (L : Nat) (us : List Resp) :
    ∀ read (i : Nat) (hi : i < us.length), read + total (us.take (i+1)) > L →
      ∃ o, (expected L read us)[i]? = some o ∧ o.err = .tooLarge ∧ o.data = us[i].data := by
  induction us with
  | nil => intro _ i hi; simp at hi
  | cons u us ih =>
    intro read i hi hgt
    cases i with
    | zero =>
      simp only [List.take_succ_cons, List.take_zero, total_cons, total_nil, Nat.add_zero] at hgt
      simp [expected, hgt]
    | succ j =>
      simp only [List.take_succ_cons, total_cons] at hgt
      have hj : j < us.length := by simpa using hi
      obtain ⟨o, ho, he, hd⟩ := ih (read + u.data.length) j hj (by omega)
      exact ⟨o, by simpa [expected] using ho, he, by simpa using hd⟩

/-- **C14_long_body_413** — once the bytes handed out exceed `L`, *that* read and every
    later one report 413; in particular the read on which the underlying reader signals
    the end of a too-long body can never look like a clean end-of-body. -/
theorem C14_long_body_413 (L : Nat) (under : List Resp) (i : Nat) (hi : i < under.length)
    (hgt : total (under.take (i+1)) > L) :
    ∃ o, ((lrRun L 0 under).2)[i]? = some o ∧ o.err = .tooLarge := by
  rw [lrRun_eq_expected]
  obtain ⟨o, ho, he, _⟩ := expected_413_from L under 0 i hi (by simpa using hgt)
  exact ⟨o, ho, he⟩

/-- corollary: a handler that reads a too-long body to its end sees 413 on its last read -/
theorem C14_long_body_last (L : Nat) (under : List Resp) (hne : under ≠ [])
    (hgt : total under > L) :
    ∃ o, ((lrRun L 0 under).2).getLast? = some o ∧ o.err = .tooLarge := by
  have hlen : under.length - 1 < under.length := by
    cases under with
    | nil => exact absurd rfl hne
    | cons _ _ => simp
  have htake : under.take (under.length - 1 + 1) = under := by
    rw [Nat.sub_add_cancel (by omega)]; simp
  obtain ⟨o, ho, he⟩ := C14_long_body_413 L under (under.length - 1) hlen (by rw [htake]; exact hgt)
  refine ⟨o, ?_, he⟩
  have hl : ((lrRun L 0 under).2).length = under.length := by
    have := congrArg List.length (lrRun_data L under 0)
    simpa using this
  rw [List.getLast?_eq_getElem?, hl]
  exact ho

/-- **C14_short_body_identity** — a body of at most `L` bytes reaches the handler
    unchanged: same bytes, same chunking, same final error/EOF. -/
theorem C14_short_body_identity (L lo : Nat) (r : Req)
    (hd : ¬ r.declared > (L : Int)) (hlen : total r.under ≤ L) :
    (serve L lo r).1 = .ran r.under := by
  have : ∀ (us : List Resp) (read : Nat), read + total us ≤ L → expected L read us = us := by
    intro us
    induction us with
    | nil => intros; rfl
    | cons u us ih =>
      intro read hle
      simp only [total_cons] at hle
      simp only [expected]
      rw [ih (read + u.data.length) (by omega)]
      have : ¬ read + u.data.length > L := by omega
      simp [this]
  simp only [serve, hd, if_false, lrRun_eq_expected]
  rw [this r.under 0 (by simpa using hlen)]

/-- bytes are never altered or reordered, whatever the length -/
theorem C14_bytes_unaltered (L : Nat) (under : List Resp) :
    ((lrRun L 0 under).2).map (·.data) = under.map (·.data) := lrRun_data L under 0

/-- **C14_no_carry** — the outcome of a request does not depend on what an earlier request
    left in the pooled reader. -/
theorem C14_no_carry (L lo lo' : Nat) (r : Req) : (serve L lo r).1 = (serve L lo' r).1 := by
  unfold serve; split <;> rfl

/-- every request of a sequence through one instance behaves as if it were the first -/
theorem C14_sequence_independent (L : Nat) (rs : List Req) :
    ∀ lo, serveAll L lo rs = rs.map (fun r => (serve L 0 r).1) := by
  induction rs with
  | nil => intro _; rfl
  | cons r rs ih =>
    intro lo
    simp only [serveAll, List.map_cons]
    rw [ih, C14_no_carry L lo 0 r]

/-! ### stacked instances -/

theorem lrRead_stack (A B read : Nat) (u : Resp) :
    lrRead B read (lrRead A read u).2 = lrRead (min A B) read u
      ∧ (lrRead A read u).1 = read + u.data.length := by
  unfold lrRead
  by_cases hA : read + u.data.length > A <;> by_cases hB : read + u.data.length > B
  all_goals simp only [hA, hB, if_true, if_false]
  all_goals refine ⟨?_, by trivial⟩
  all_goals (split <;> first | rfl | omega)

theorem lrRun_stack (A B : Nat) (us : List Resp) :
    ∀ read, (lrRun B read (lrRun A read us).2).2 = (lrRun (min A B) read us).2 := by
  induction us with
  | nil => intro _; rfl
  | cons u us ih =>
    intro read
    obtain ⟨h1, h2⟩ := lrRead_stack A B read u
    simp only [lrRun]
    rw [h1]
    have h3 : (lrRead (min A B) read u).1 = read + u.data.length := by simp only [lrRead]; split <;> rfl
    rw [h2, h3, ih]

/-- **C14_nested_min** — two stacked instances behave, for the handler, exactly like one instance
    with the smaller of the two limits: neither limit can be exceeded unnoticed, and the more
    generous one never switches the stricter one off. -/
theorem C14_nested_min (A B loA loB lo : Nat) (r : Req) :
    (serveNested A B loA loB r).1 = (serve (min A B) lo r).1 := by
  unfold serveNested serve
  have hmin : (r.declared > ((min A B : Nat) : Int)) ↔ (r.declared > (A : Int) ∨ r.declared > (B : Int)) := by
    omega
  by_cases hA : r.declared > (A : Int)
  · simp [hA, hmin]
  · by_cases hB : r.declared > (B : Int)
    · simp [hA, hB, hmin]
    · have : ¬ r.declared > ((min A B : Nat) : Int) := by rw [hmin]; simp [hA, hB]
      simp only [hA, hB, this, if_false]
      congr 1
      exact lrRun_stack A B r.under 0

/-- every request of a sequence through the application behaves as if it were the first one, with
    the limit(s) of its own route only: nothing carries over between requests, between instances
    or between routes -/
theorem C14_sequence_independent_nested (L : Nat) (rs : List (Option Nat × Req)) :
    ∀ loA loB, serveAllN L loA loB rs
      = rs.map (fun p => match p.1 with
          | none => (serve L 0 p.2).1
          | some B => (serve (min L B) 0 p.2).1) := by
  induction rs with
  | nil => intro _ _; rfl
  | cons p rs ih =>
    intro loA loB
    obtain ⟨i, r⟩ := p
    cases i with
    | none =>
      simp only [serveAllN, List.map_cons]
      rw [ih, C14_no_carry L loA 0 r]
    | some B =>
      simp only [serveAllN, List.map_cons]
      rw [ih, C14_nested_min L B loA loB 0 r]

/-- without route-level instances the wire function is the single-instance model -/
theorem serveAllN_none (L : Nat) (rs : List Req) :
    ∀ loA loB, serveAllN L loA loB (rs.map (fun r => (none, r))) = serveAll L loA rs := by
  induction rs with
  | nil => intro _ _; rfl
  | cons r rs ih => intro loA loB; simp only [List.map_cons, serveAllN, serveAll, ih]

example : (serveNested 4 9 3 3 ⟨-1, [⟨[1,2,3], .none⟩, ⟨[4,5], .eof⟩]⟩).1
    = .ran [⟨[1,2,3], .none⟩, ⟨[4,5], .tooLarge⟩] := by decide
example : (serveNested 9 4 3 3 ⟨-1, [⟨[1,2,3], .none⟩, ⟨[4,5], .eof⟩]⟩).1
    = .ran [⟨[1,2,3], .none⟩, ⟨[4,5], .tooLarge⟩] := by decide

/-! ### rare answers of the underlying reader, reading on after an error, the status of the response

`io.Reader` allows an answer `(0, nil)` ("nothing happened"), an error that comes together with data, and a
caller that goes on reading after an error (`bufio.Reader` forgets an error once it has reported it).  None of
this has a rule of its own in `limitedReader.Read`: the theorems below say what that means for the handler. -/

theorem total_append (us vs : List Resp) : total (us ++ vs) = total us + total vs := by
  induction us with
  | nil => simp
  | cons u us ih => simp only [List.cons_append, total_cons, ih]; omega

theorem expected_append (L : Nat) (us vs : List Resp) :
    ∀ read, expected L read (us ++ vs) = expected L read us ++ expected L (read + total us) vs := by
  induction us with
  | nil => intro read; simp [expected]
  | cons u us ih =>
    intro read
    simp only [List.cons_append, expected, total_cons, ih]
    rw [Nat.add_assoc]

/-- **C14_empty_answer_transparent** — an answer without bytes (`(0, nil)`, `(0, err)`) of the underlying reader
    is handed to the handler as it is (as 413 only when the limit has been passed already) and changes nothing
    for any other read: the reads before and after it are answered exactly as if it had not happened.  In
    particular it is never turned into an end-of-body. -/
theorem C14_empty_answer_transparent (L : Nat) (us vs : List Resp) (e : RErr) :
    (lrRun L 0 (us ++ ⟨[], e⟩ :: vs)).2
        = (lrRun L 0 us).2 ++ (if total us > L then ⟨[], .tooLarge⟩ else ⟨[], e⟩) :: (lrRun L 0 (us ++ vs)).2.drop us.length
      ∧ (lrRun L 0 (us ++ vs)).2 = (lrRun L 0 us).2 ++ (lrRun L 0 (us ++ vs)).2.drop us.length := by
  have hlen : (expected L 0 us).length = us.length := by
    have := congrArg List.length (lrRun_data L us 0)
    rw [lrRun_eq_expected] at this
    simpa using this
  simp only [lrRun_eq_expected, expected_append, expected, Nat.zero_add, List.length_nil, Nat.add_zero]
  rw [← hlen]
  simp

/-- what the handler's read number `i` returns, in closed form -/
theorem expected_getElem (L : Nat) (us : List Resp) :
    ∀ read (i : Nat), (expected L read us)[i]? =
      (us[i]?).map (fun u => if read + total (us.take (i+1)) > L then ⟨u.data, .tooLarge⟩ else u) := by
  induction us with
  | nil => intro _ _; simp [expected]
  | cons u us ih =>
    intro read i
    cases i with
    | zero => simp [expected]
    | succ j =>
      simp only [expected, List.getElem?_cons_succ, List.take_succ_cons, total_cons, ih]
      rw [Nat.add_assoc]

theorem total_take_mono (us : List Resp) : ∀ (i j : Nat), i ≤ j → total (us.take i) ≤ total (us.take j) := by
  induction us with
  | nil => intro _ _ _; simp
  | cons u us ih =>
    intro i j hij
    cases i with
    | zero => simp
    | succ i' =>
      cases j with
      | zero => omega
      | succ j' =>
        simp only [List.take_succ_cons, total_cons]
        have := ih i' j' (by omega)
        omega

/-- **C14_sticky** — the over-limit error is not a one-off: once one read of the handler has reported it, every
    later read reports it too, whatever the underlying reader answers then (more data, nothing, end-of-body,
    another error).  A handler (or a `bufio.Reader`) that reads on after the error never gets a clean
    end-of-body. -/
theorem C14_sticky (L : Nat) (under : List Resp) (hu : ∀ u ∈ under, u.err ≠ .tooLarge)
    (i j : Nat) (hij : i ≤ j) (oi oj : Resp)
    (hi : ((lrRun L 0 under).2)[i]? = some oi) (hj : ((lrRun L 0 under).2)[j]? = some oj)
    (h413 : oi.err = .tooLarge) : oj.err = .tooLarge := by
  rw [lrRun_eq_expected, expected_getElem] at hi hj
  cases hui : under[i]? with
  | none => simp [hui] at hi
  | some ui =>
    cases huj : under[j]? with
    | none => simp [huj] at hj
    | some uj =>
      simp only [hui, huj, Option.map_some, Option.some.injEq, Nat.zero_add] at hi hj
      have hmono := total_take_mono under (i+1) (j+1) (by omega)
      by_cases hgt : total (under.take (i+1)) > L
      · have : total (under.take (j+1)) > L := by omega
        simp only [this, if_true] at hj
        rw [← hj]
      · simp only [hgt, if_false] at hi
        subst hi
        exact absurd h413 (hu _ (List.mem_of_getElem? hui))

theorem expected_any413 (L : Nat) (us : List Resp) (hu : ∀ u ∈ us, u.err ≠ .tooLarge) :
    ∀ read, read ≤ L →
      (expected L read us).any (fun o => o.err == .tooLarge) = decide (read + total us > L) := by
  induction us with
  | nil => intro read h; simp [expected]; omega
  | cons u us ih =>
    intro read h
    have hu' : ∀ v ∈ us, v.err ≠ .tooLarge := fun v hv => hu v (List.mem_cons_of_mem _ hv)
    simp only [expected, List.any_cons, total_cons]
    by_cases hc : read + u.data.length > L
    · have : read + (u.data.length + total us) > L := by omega
      simp [hc, this]
    · have hne : u.err ≠ .tooLarge := hu u (List.mem_cons_self ..)
      have hb : (u.err == RErr.tooLarge) = false := by simpa using hne
      simp only [hc, if_false, hb, Bool.false_or]
      rw [ih hu' (read + u.data.length) (by omega), Nat.add_assoc]

/-- **C14_status** — the request ends as a 413 exactly when its declared length or the number of bytes the
    handler pulled out of the body exceeds the limit (the handler passing on the first over-limit error a read
    gave it): no body of more than `L` bytes is consumed under a success status, and no request within the
    limit is turned away. -/
theorem C14_status (L lo : Nat) (r : Req) (hu : ∀ u ∈ r.under, u.err ≠ .tooLarge) :
    answered413 (serve L lo r).1 = (decide (r.declared > (L : Int)) || decide (total r.under > L)) := by
  unfold serve
  by_cases hd : r.declared > (L : Int)
  · simp [hd, answered413]
  · simp only [hd, if_false, answered413, lrRun_eq_expected, decide_false, Bool.false_or]
    simpa using expected_any413 L r.under hu 0 (Nat.zero_le _)

example : (lrRun 10 0 [⟨[1,2,3,4], .none⟩, ⟨[], .none⟩, ⟨[5,6], .eof⟩]).2
    = [⟨[1,2,3,4], .none⟩, ⟨[], .none⟩, ⟨[5,6], .eof⟩] := by decide
example : (lrRun 3 0 [⟨[1,2,3,4], .none⟩, ⟨[], .none⟩, ⟨[], .eof⟩]).2
    = [⟨[1,2,3,4], .tooLarge⟩, ⟨[], .tooLarge⟩, ⟨[], .tooLarge⟩] := by decide
example : answered413 (serve 3 5 ⟨-1, [⟨[1,2], .other⟩, ⟨[3,4], .none⟩, ⟨[], .eof⟩]⟩).1 = true := by decide
example : answered413 (serve 4 5 ⟨4, [⟨[1,2], .other⟩, ⟨[3,4], .none⟩, ⟨[], .eof⟩]⟩).1 = false := by decide

/-! ### non-vacuity: the hypotheses are met by concrete, non-trivial instances -/

example : total [⟨[1,2,3], .none⟩, ⟨[4,5], .eof⟩] > 4 ∧ (2 : Nat) < 3 := by decide
example : (serve 4 7 ⟨-1, [⟨[1,2,3], .none⟩, ⟨[4,5], .eof⟩]⟩).1
    = .ran [⟨[1,2,3], .none⟩, ⟨[4,5], .tooLarge⟩] := by decide
example : (serve 5 7 ⟨5, [⟨[1,2,3], .none⟩, ⟨[4,5], .eof⟩]⟩).1
    = .ran [⟨[1,2,3], .none⟩, ⟨[4,5], .eof⟩] := by decide
example : (serve 4 0 ⟨5, []⟩).1 = .rejected := by decide

end C14
