import EchoModel.C19
/-!
# C19 — theorems about the proxy model (balancers, retry loop, rewrite rules)

* `C19_next_member`, `C19_no_panic`      — `Next` returns a current target, `nil` iff there is none,
                                            and never indexes out of range, in EVERY state (any `i`,
                                            any stored last index), hence after every op sequence
* `C19_add_remove`, `C19_names_unique`,
  `C19_removed_not_used`, `C19_added_kept` — membership under AddTarget / RemoveTarget
* `C19_rr_fair`, `C19_rr_cycle`          — round-robin fairness for all `n ≥ 1`, all window lengths `k`
* `C19_retry_bound`, `C19_retry_next_target` — the retry loop
* `C19_linearizable`                     — mutex-atomic operations: every concurrent history is a
                                            sequential history of the model (see section there)
* `C19_rewrite_order_irrelevant`         — first-match rewriting does not depend on rule order when
                                            all matching rules agree (in particular: at most one matches)
-/
namespace C19

/-! ## A. `Next` returns a member and never panics -/

theorem pickAt_lt {ts : List Target} {i : Nat} (h : i < ts.length) :
    pickAt ts i = .tgt ts[i] := by
  simp [pickAt, List.getElem?_eq_getElem h]

theorem pickAt_mem {ts : List Target} {i : Nat} (h : i < ts.length) :
    ∃ t, pickAt ts i = .tgt t ∧ t ∈ ts :=
  ⟨ts[i], pickAt_lt h, List.getElem_mem h⟩

/-- the index round robin uses for a first-time pick -/
def norm (n i : Nat) : Nat := if i ≥ n then 0 else i
/-- the index after `p`, cyclically -/
def succIdx (n p : Nat) : Nat := if p + 1 ≥ n then 0 else p + 1

theorem norm_lt {n i : Nat} (h : 0 < n) : norm n i < n := by
  unfold norm; split <;> omega
theorem succIdx_lt {n p : Nat} (h : 0 < n) : succIdx n p < n := by
  unfold succIdx; split <;> omega

/-- shape of `nextRR` with at least two targets -/
theorem nextRR_two (b : Bal) (last : Option Nat) (h : 2 ≤ b.targets.length) :
    nextRR b last =
      match last with
      | some l => (b, some (succIdx b.targets.length l), pickAt b.targets (succIdx b.targets.length l))
      | none => ({ b with i := norm b.targets.length b.i + 1 }, some (norm b.targets.length b.i),
                  pickAt b.targets (norm b.targets.length b.i)) := by
  unfold nextRR
  have h0 : ¬ b.targets.length = 0 := by omega
  have h1 : ¬ b.targets.length = 1 := by omega
  simp only [h0, h1, if_false]
  cases last <;> simp [norm, succIdx]

theorem nextRR_targets (b : Bal) (last : Option Nat) : (nextRR b last).1.targets = b.targets := by
  unfold nextRR
  by_cases h0 : b.targets.length = 0
  · simp [h0]
  · by_cases h1 : b.targets.length = 1
    · simp [h1]
    · cases last <;> simp [h0, h1]

/-- a retry pick (`last = some _`) leaves the balancer untouched -/
theorem nextRR_retry_bal (b : Bal) (l : Nat) : (nextRR b (some l)).1 = b := by
  unfold nextRR
  by_cases h0 : b.targets.length = 0
  · simp [h0]
  · by_cases h1 : b.targets.length = 1
    · simp [h1]
    · simp [h0, h1]

/-- result of `nextRR` in an arbitrary state -/
theorem nextRR_spec (b : Bal) (last : Option Nat) :
    (b.targets = [] ∧ (nextRR b last).2.2 = .nil) ∨
    (∃ t, (nextRR b last).2.2 = .tgt t ∧ t ∈ b.targets) := by
  by_cases h0 : b.targets.length = 0
  · left
    refine ⟨List.length_eq_zero_iff.mp h0, ?_⟩
    simp [nextRR, h0]
  · right
    by_cases h1 : b.targets.length = 1
    · have : 0 < b.targets.length := by omega
      obtain ⟨t, ht, hm⟩ := pickAt_mem this
      exact ⟨t, by simp [nextRR, h1, ht], hm⟩
    · have h2 : 2 ≤ b.targets.length := by omega
      rw [nextRR_two b last h2]
      cases last with
      | some l =>
        obtain ⟨t, ht, hm⟩ := pickAt_mem (succIdx_lt (p := l) (by omega : 0 < b.targets.length))
        exact ⟨t, ht, hm⟩
      | none =>
        obtain ⟨t, ht, hm⟩ := pickAt_mem (norm_lt (i := b.i) (by omega : 0 < b.targets.length))
        exact ⟨t, ht, hm⟩

theorem nextRandom_spec (b : Bal) (d : Nat) (hd : d < b.targets.length ∨ b.targets.length ≤ 1) :
    (b.targets = [] ∧ nextRandom b d = .nil) ∨ (∃ t, nextRandom b d = .tgt t ∧ t ∈ b.targets) := by
  by_cases h0 : b.targets.length = 0
  · left; exact ⟨List.length_eq_zero_iff.mp h0, by simp [nextRandom, h0]⟩
  · right
    by_cases h1 : b.targets.length = 1
    · obtain ⟨t, ht, hm⟩ := pickAt_mem (by omega : 0 < b.targets.length)
      exact ⟨t, by simp [nextRandom, h1, ht], hm⟩
    · have : d < b.targets.length := by omega
      obtain ⟨t, ht, hm⟩ := pickAt_mem this
      exact ⟨t, by simp [nextRandom, h0, h1, ht], hm⟩

theorem idxOfName_lt (ts : List Target) (nm : List Char) (d : Nat) (h : idxOfName ts nm = some d) :
    d < ts.length := by
  induction ts generalizing d with
  | nil => simp [idxOfName] at h
  | cons t ts ih =>
    simp only [idxOfName] at h
    split at h
    · simp at h; subst h; simp
    · cases hh : idxOfName ts nm with
      | none => simp [hh] at h
      | some e =>
        simp [hh] at h; subst h
        have := ih e hh
        simp; omega

/-- classification of what `Next` (either balancer kind) can answer in ANY state:
    `nil` exactly when there is no target, otherwise a current target; never a panic. -/
theorem nextOf_spec (rr : Bool) (b : Bal) (last : Option Nat) (hint : Option (List Char)) :
    let r := (nextOf rr b last hint).2.2
    (r = .pick .nil ∧ b.targets = []) ∨ (∃ t, r = .pick (.tgt t) ∧ t ∈ b.targets) ∨
    (r = .notMember ∧ rr = false) := by
  intro r
  cases rr with
  | true =>
    have hr : r = .pick (nextRR b last).2.2 := by simp [r, nextOf]
    rcases nextRR_spec b last with ⟨he, hn⟩ | ⟨t, ht, hm⟩
    · left; exact ⟨by rw [hr, hn], he⟩
    · right; left; exact ⟨t, by rw [hr, ht], hm⟩
  | false =>
    cases hint with
    | none =>
      have hr : r = .pick (nextRandom b 0) := by simp [r, nextOf]
      by_cases h0 : b.targets.length = 0
      · left; exact ⟨by simp [hr, nextRandom, h0], List.length_eq_zero_iff.mp h0⟩
      · rcases nextRandom_spec b 0 (by omega) with ⟨he, _⟩ | ⟨t, ht, hm⟩
        · simp [he] at h0
        · right; left; exact ⟨t, by rw [hr, ht], hm⟩
    | some nm =>
      cases hi : idxOfName b.targets nm with
      | none => right; right; exact ⟨by simp [r, nextOf, hi], rfl⟩
      | some d =>
        have hr : r = .pick (nextRandom b d) := by simp [r, nextOf, hi]
        rcases nextRandom_spec b d (Or.inl (idxOfName_lt _ _ _ hi)) with ⟨he, hn⟩ | ⟨t, ht, hm⟩
        · left; exact ⟨by rw [hr, hn], he⟩
        · right; left; exact ⟨t, by rw [hr, ht], hm⟩

theorem nextOf_targets (rr : Bool) (b : Bal) (last : Option Nat) (hint : Option (List Char)) :
    (nextOf rr b last hint).1.targets = b.targets := by
  cases rr with
  | true => simp [nextOf, nextRR_targets]
  | false =>
    cases hint with
    | none => simp [nextOf]
    | some nm => simp only [nextOf]; cases idxOfName b.targets nm <;> simp

/-- **C19_next_member** — in every state (every target list, every global index `i`, every
    stored last index — also stale ones from before a removal), `Next` on a context returns
    `nil` exactly if the balancer is empty and otherwise one of the CURRENT targets. -/
theorem C19_next_member (s : St) (c : Nat) (hint : Option (List Char)) :
    let r := (stepOp s (.next c hint)).2
    (r = .pick .nil ∧ s.bal.targets = []) ∨ (∃ t, r = .pick (.tgt t) ∧ t ∈ s.bal.targets) ∨
    (r = .notMember ∧ s.rr = false) := by
  simpa [stepOp] using nextOf_spec s.rr s.bal (ctxGet s.ctxs c) hint

/-- the random balancer with a genuine draw `Intn(len)` -/
theorem C19_next_member_random (b : Bal) (d : Nat) (hd : d < b.targets.length) :
    ∃ t, nextRandom b d = .tgt t ∧ t ∈ b.targets := by
  rcases nextRandom_spec b d (Or.inl hd) with ⟨he, _⟩ | h
  · simp [he] at hd
  · exact h

theorem stepOp_no_panic (s : St) (o : Op) : (stepOp s o).2 ≠ .pick .panic := by
  cases o with
  | add t => simp [stepOp]
  | remove nm => simp [stepOp]
  | next c hint =>
    rcases C19_next_member s c hint with ⟨h, _⟩ | ⟨t, h, _⟩ | ⟨h, _⟩ <;> rw [h] <;> simp

/-- **C19_no_panic** — no operation of any operation sequence, from any state, indexes the
    target slice out of range. -/
theorem C19_no_panic (ops : List Op) : ∀ s : St, ∀ r ∈ (runOps s ops).2, r ≠ .pick .panic := by
  induction ops with
  | nil => intro s r h; simp [runOps] at h
  | cons o os ih =>
    intro s r h
    simp only [runOps, List.mem_cons] at h
    rcases h with h | h
    · subst h; exact stepOp_no_panic s o
    · exact ih _ r h

-- non-vacuity: a stale last index (5) after the list shrank to 2 targets is handled by wrapping
example : (nextRR ⟨[⟨['a'], 0⟩, ⟨['b'], 1⟩], 7⟩ (some 5)).2.2 = .tgt ⟨['a'], 0⟩ := by decide
example : (nextRR ⟨[⟨['a'], 0⟩, ⟨['b'], 1⟩], 7⟩ none).2.2 = .tgt ⟨['a'], 0⟩ := by decide

/-! ## B. AddTarget / RemoveTarget -/

/-- names are pairwise different -/
def NamesUnique (ts : List Target) : Prop := ts.Pairwise (fun a b => a.name ≠ b.name)

theorem hasName_iff (ts : List Target) (nm : List Char) : hasName ts nm = true ↔ ∃ t ∈ ts, t.name = nm := by
  simp [hasName]

theorem hasName_false_iff (ts : List Target) (nm : List Char) :
    hasName ts nm = false ↔ ∀ t ∈ ts, t.name ≠ nm := by
  rw [← Bool.not_eq_true, hasName_iff]; simp

/-- **C19_add_remove (AddTarget)** — returns `false` exactly if the name is taken and then
    changes nothing; otherwise appends the target: no existing target is lost, the order of
    the others is kept. -/
theorem C19_add (b : Bal) (t : Target) :
    ((addTarget b t).2 = false ↔ ∃ x ∈ b.targets, x.name = t.name) ∧
    ((addTarget b t).2 = false → (addTarget b t).1 = b) ∧
    ((addTarget b t).2 = true → (addTarget b t).1.targets = b.targets ++ [t] ∧ (addTarget b t).1.i = b.i) ∧
    (∀ x ∈ b.targets, x ∈ (addTarget b t).1.targets) := by
  unfold addTarget
  cases h : hasName b.targets t.name with
  | true =>
    have := (hasName_iff _ _).mp h
    simp [this]
  | false =>
    have := (hasName_false_iff _ _).mp h
    simp only [Bool.false_eq_true, if_false]
    refine ⟨?_, ?_, ?_, ?_⟩
    · simp; exact this
    · simp
    · simp
    · intro x hx; simp [hx]

theorem eraseP_name_mem (ts : List Target) (nm : List Char) (hu : NamesUnique ts) (x : Target) :
    x ∈ ts.eraseP (fun t => t.name == nm) ↔ x ∈ ts ∧ x.name ≠ nm := by
  induction ts with
  | nil => simp
  | cons t ts ih =>
    have hu' : NamesUnique ts := (List.pairwise_cons.mp hu).2
    have hhead := (List.pairwise_cons.mp hu).1
    by_cases hn : t.name = nm
    · have : (t.name == nm) = true := by simp [hn]
      rw [List.eraseP_cons_of_pos (by simpa using this)]
      constructor
      · intro hx
        refine ⟨List.mem_cons_of_mem _ hx, ?_⟩
        have := hhead x hx
        rw [hn] at this
        exact fun h => this h.symm
      · rintro ⟨hx, hne⟩
        rcases List.mem_cons.mp hx with rfl | hx
        · exact absurd hn hne
        · exact hx
    · have : ¬ (t.name == nm) = true := by simp [hn]
      rw [List.eraseP_cons_of_neg (by simpa using this)]
      simp only [List.mem_cons, ih hu']
      constructor
      · rintro (rfl | ⟨hx, hne⟩)
        · exact ⟨Or.inl rfl, hn⟩
        · exact ⟨Or.inr hx, hne⟩
      · rintro ⟨rfl | hx, hne⟩
        · exact Or.inl rfl
        · exact Or.inr ⟨hx, hne⟩

/-- **C19_add_remove (RemoveTarget)** — returns `true` exactly if the name exists; with unique
    names it deletes exactly the named target: afterwards the members are the old members
    with another name (so the removed one is gone and nobody else is). -/
theorem C19_remove (b : Bal) (nm : List Char) (hu : NamesUnique b.targets) :
    ((removeTarget b nm).2 = true ↔ ∃ x ∈ b.targets, x.name = nm) ∧
    ((removeTarget b nm).2 = false → (removeTarget b nm).1 = b) ∧
    (∀ x, x ∈ (removeTarget b nm).1.targets ↔ x ∈ b.targets ∧ x.name ≠ nm) ∧
    (removeTarget b nm).1.targets.Sublist b.targets := by
  unfold removeTarget
  cases h : hasName b.targets nm with
  | true =>
    have := (hasName_iff _ _).mp h
    simp only [if_true, true_iff]
    exact ⟨this, by simp, fun x => eraseP_name_mem _ _ hu x, List.eraseP_sublist⟩
  | false =>
    have hf := (hasName_false_iff _ _).mp h
    simp only [Bool.false_eq_true, if_false]
    refine ⟨by simpa using hf, by simp, ?_, List.Sublist.refl _⟩
    intro x
    exact ⟨fun hx => ⟨hx, hf x hx⟩, fun hx => hx.1⟩

theorem addTarget_unique (b : Bal) (t : Target) (hu : NamesUnique b.targets) :
    NamesUnique (addTarget b t).1.targets := by
  unfold addTarget
  cases h : hasName b.targets t.name with
  | true => simpa using hu
  | false =>
    have hf := (hasName_false_iff _ _).mp h
    simp only [Bool.false_eq_true, if_false]
    unfold NamesUnique
    rw [List.pairwise_append]
    refine ⟨hu, by simp, ?_⟩
    intro a ha c hc
    simp at hc; subst hc
    exact hf a ha

theorem removeTarget_sublist (b : Bal) (nm : List Char) :
    (removeTarget b nm).1.targets.Sublist b.targets := by
  unfold removeTarget
  split
  · exact List.eraseP_sublist
  · exact List.Sublist.refl _

theorem removeTarget_unique (b : Bal) (nm : List Char) (hu : NamesUnique b.targets) :
    NamesUnique (removeTarget b nm).1.targets :=
  List.Pairwise.sublist (removeTarget_sublist b nm) hu

theorem stepOp_unique (s : St) (o : Op) (hu : NamesUnique s.bal.targets) :
    NamesUnique (stepOp s o).1.bal.targets := by
  cases o with
  | add t => simpa [stepOp] using addTarget_unique s.bal t hu
  | remove nm => simpa [stepOp] using removeTarget_unique s.bal nm hu
  | next c hint => simpa [stepOp, nextOf_targets] using hu

/-- **C19_names_unique** — names stay unique along every operation sequence. -/
theorem C19_names_unique (ops : List Op) :
    ∀ s : St, NamesUnique s.bal.targets → NamesUnique (runOps s ops).1.bal.targets := by
  induction ops with
  | nil => intro s h; simpa [runOps] using h
  | cons o os ih =>
    intro s h
    simp only [runOps]
    exact ih _ (stepOp_unique s o h)

/-- the operation adds a target of that name -/
def Op.addsName (nm : List Char) : Op → Prop
  | .add t => t.name = nm
  | _ => False
/-- the operation removes that name -/
def Op.removesName (nm : List Char) : Op → Prop
  | .remove n => n = nm
  | _ => False

theorem stepOp_absent (s : St) (o : Op) (nm : List Char) (hno : ¬ o.addsName nm)
    (h : ∀ t ∈ s.bal.targets, t.name ≠ nm) : ∀ t ∈ (stepOp s o).1.bal.targets, t.name ≠ nm := by
  cases o with
  | add t =>
    simp only [Op.addsName] at hno
    intro x hx
    simp only [stepOp, addTarget] at hx
    split at hx
    · exact h x hx
    · simp at hx
      rcases hx with hx | rfl
      · exact h x hx
      · exact hno
  | remove n =>
    intro x hx
    simp only [stepOp] at hx
    exact h x ((removeTarget_sublist s.bal n).subset hx)
  | next c hint =>
    intro x hx
    simp only [stepOp, nextOf_targets] at hx
    exact h x hx

/-- **C19_removed_not_used** — once `RemoveTarget(nm)` has been executed (names unique), no
    later `Next` of ANY continuation that does not add the name again returns a target of that
    name — whatever indices are stored in the balancer or in request contexts. -/
theorem C19_removed_not_used (ops : List Op) (nm : List Char) :
    ∀ s : St, (∀ t ∈ s.bal.targets, t.name ≠ nm) → (∀ o ∈ ops, ¬ o.addsName nm) →
      ∀ t, .pick (.tgt t) ∈ (runOps s ops).2 → t.name ≠ nm := by
  induction ops with
  | nil => intro s _ _ t h; simp [runOps] at h
  | cons o os ih =>
    intro s habs hno t ht
    simp only [runOps, List.mem_cons] at ht
    rcases ht with ht | ht
    · cases o with
      | add x => simp [stepOp] at ht
      | remove n => simp [stepOp] at ht
      | next c hint =>
        rcases C19_next_member s c hint with ⟨h, _⟩ | ⟨t', h, hm⟩ | ⟨h, _⟩
        · rw [h] at ht; simp at ht
        · rw [h] at ht; simp at ht; subst ht; exact habs _ hm
        · rw [h] at ht; simp at ht
    · exact ih _ (stepOp_absent s o nm (hno o (by simp)) habs) (fun o ho => hno o (by simp [ho])) t ht

theorem removeTarget_absent (b : Bal) (nm : List Char) (hu : NamesUnique b.targets) :
    ∀ t ∈ (removeTarget b nm).1.targets, t.name ≠ nm := by
  intro t ht
  exact (((C19_remove b nm hu).2.2.1 t).mp ht).2

theorem stepOp_kept (s : St) (o : Op) (t : Target) (hno : ¬ o.removesName t.name)
    (h : t ∈ s.bal.targets) : t ∈ (stepOp s o).1.bal.targets := by
  cases o with
  | add x => simpa [stepOp] using (C19_add s.bal x).2.2.2 t h
  | remove n =>
    simp only [Op.removesName] at hno
    simp only [stepOp, removeTarget]
    split
    · simp only
      have : ¬ ((fun x : Target => x.name == n) t) = true := by simpa using fun h => hno h.symm
      exact (List.mem_eraseP_of_neg (p := fun x : Target => x.name == n) (a := t) this).mpr h
    · exact h
  | next c hint => simpa [stepOp, nextOf_targets] using h

/-- **C19_added_kept** — a target that is in the list (e.g. just added) stays in the list
    along every operation sequence that does not remove its name. -/
theorem C19_added_kept (ops : List Op) (t : Target) :
    ∀ s : St, t ∈ s.bal.targets → (∀ o ∈ ops, ¬ o.removesName t.name) →
      t ∈ (runOps s ops).1.bal.targets := by
  induction ops with
  | nil => intro s h _; simpa [runOps] using h
  | cons o os ih =>
    intro s h hno
    simp only [runOps]
    exact ih _ (stepOp_kept s o t (hno o (by simp)) h) (fun o ho => hno o (by simp [ho]))

/-- **C19_add_remove** — summary used as headline: AddTarget never loses a target and appends
    iff the name is new; RemoveTarget (unique names) deletes exactly the named target; names
    stay unique under both. -/
theorem C19_add_remove (b : Bal) (hu : NamesUnique b.targets) (t : Target) (nm : List Char) :
    (∀ x ∈ b.targets, x ∈ (addTarget b t).1.targets) ∧
    ((addTarget b t).2 = true → t ∈ (addTarget b t).1.targets) ∧
    NamesUnique (addTarget b t).1.targets ∧
    (∀ x, x ∈ (removeTarget b nm).1.targets ↔ x ∈ b.targets ∧ x.name ≠ nm) ∧
    NamesUnique (removeTarget b nm).1.targets := by
  refine ⟨(C19_add b t).2.2.2, ?_, addTarget_unique b t hu, (C19_remove b nm hu).2.2.1,
    removeTarget_unique b nm hu⟩
  intro h
  rw [((C19_add b t).2.2.1 h).1]; simp

-- non-vacuity
example : NamesUnique [⟨['a'], 0⟩, ⟨['b'], 1⟩, ⟨['A'], 1⟩] := by
  simp [NamesUnique]
example : (removeTarget ⟨[⟨['a'], 0⟩, ⟨['b'], 1⟩, ⟨['c'], 2⟩], 2⟩ ['b']).1.targets
    = [⟨['a'], 0⟩, ⟨['c'], 2⟩] := by decide
-- the quirk that makes `NamesUnique` necessary: the constructor accepts duplicate names and
-- RemoveTarget then leaves the second one in place
example : (removeTarget ⟨[⟨['a'], 0⟩, ⟨['a'], 1⟩], 0⟩ ['a']).1.targets = [⟨['a'], 1⟩] := by decide

/-! ## C. round-robin fairness -/

/-- `k` successive first-time picks (fresh contexts: no last index) -/
def firstPicks : Bal → Nat → List Pick
  | _, 0 => []
  | b, k + 1 => (nextRR b none).2.2 :: firstPicks (nextRR b none).1 k

/-- the cyclic index walk `p, p+1, …, n-1, 0, 1, …` -/
def walk (n : Nat) : Nat → Nat → List Nat
  | _, 0 => []
  | p, k + 1 => p :: walk n (succIdx n p) k

theorem norm_succ (n i : Nat) (_h : 0 < n) : norm n (norm n i + 1) = succIdx n (norm n i) := by
  unfold norm succIdx
  split <;> split <;> (try split) <;> omega

/-- first-time picks follow the cyclic walk starting at the normalised global index -/
theorem firstPicks_eq_walk (k : Nat) : ∀ b : Bal, 0 < b.targets.length →
    firstPicks b k = (walk b.targets.length (norm b.targets.length b.i) k).map (pickAt b.targets) := by
  induction k with
  | zero => intro b _; rfl
  | succ k ih =>
    intro b hpos
    by_cases h1 : b.targets.length = 1
    · -- single target: shortcut, the balancer does not change, the walk stays at 0
      have hb : nextRR b none = (b, none, pickAt b.targets 0) := by simp [nextRR, h1]
      have hn : norm b.targets.length b.i = 0 := by unfold norm; split <;> omega
      have hs : succIdx b.targets.length 0 = 0 := by simp [succIdx, h1]
      simp only [firstPicks, hb, walk, List.map_cons]
      rw [ih b hpos, hn, hs]
    · have h2 : 2 ≤ b.targets.length := by omega
      have hb := nextRR_two b none h2
      simp only at hb
      simp only [firstPicks, hb, walk, List.map_cons]
      rw [ih _ (by simpa using hpos)]
      simp only
      rw [norm_succ _ _ hpos]

/-- cyclic distance from `p` to `j` -/
def dist (n p j : Nat) : Nat := if p ≤ j then j - p else n - p + j

theorem count_walk (n : Nat) (hn : 0 < n) (j : Nat) (hj : j < n) (k : Nat) :
    ∀ p, p < n → (walk n p k).count j = (k + n - 1 - dist n p j) / n := by
  induction k with
  | zero =>
    intro p hp
    simp only [walk, List.count_nil]
    have : 0 + n - 1 - dist n p j < n := by omega
    exact (Nat.div_eq_of_lt this).symm
  | succ k ih =>
    intro p hp
    have hs := succIdx_lt (n := n) (p := p) hn
    simp only [walk, List.count_cons, ih _ hs]
    by_cases hpj : p = j
    · subst hpj
      have hd : dist n p p = 0 := by simp [dist]
      have hd' : dist n (succIdx n p) p = n - 1 := by
        unfold dist succIdx; split <;> split <;> omega
      rw [hd, hd']
      have e1 : k + n - 1 - (n - 1) = k := by omega
      have e2 : k + 1 + n - 1 - 0 = k + n := by omega
      rw [e1, e2, Nat.add_div_right _ hn]
      simp
    · have hd' : dist n (succIdx n p) j + 1 = dist n p j := by
        unfold dist succIdx; split <;> split <;> (try split) <;> omega
      have e : k + n - 1 - dist n (succIdx n p) j = k + 1 + n - 1 - dist n p j := by omega
      rw [e]
      have : (p == j) = false := by simpa using hpj
      simp [this]

theorem dist_lt (n p j : Nat) (hp : p < n) (hj : j < n) : dist n p j < n := by
  unfold dist; split <;> omega

theorem walk_lt (n : Nat) (hn : 0 < n) (k : Nat) : ∀ p, p < n → ∀ x ∈ walk n p k, x < n := by
  induction k with
  | zero => intro p _ x h; simp [walk] at h
  | succ k ih =>
    intro p hp x h
    simp only [walk, List.mem_cons] at h
    rcases h with rfl | h
    · exact hp
    · exact ih _ (succIdx_lt hn) x h

/-- **C19_rr_fair (index form)** — for EVERY number of targets `n ≥ 1`, every start state and
    every window length `k`: target position `j` is picked `⌊k/n⌋` or `⌈k/n⌉` times among `k`
    consecutive first-time picks; the exact count is given. -/
theorem C19_rr_fair_idx (n : Nat) (hn : 0 < n) (p j k : Nat) (hp : p < n) (hj : j < n) :
    k / n ≤ (walk n p k).count j ∧ (walk n p k).count j ≤ (k + n - 1) / n := by
  rw [count_walk n hn j hj k p hp]
  have := dist_lt n p j hp hj
  exact ⟨Nat.div_le_div_right (by omega), Nat.div_le_div_right (by omega)⟩

theorem count_map_pickAt (ts : List Target) (hnd : ts.Nodup) (j : Nat) (hj : j < ts.length)
    (l : List Nat) (hl : ∀ x ∈ l, x < ts.length) :
    (l.map (pickAt ts)).count (.tgt ts[j]) = l.count j := by
  induction l with
  | nil => rfl
  | cons a l ih =>
    have ha : a < ts.length := hl a (by simp)
    have ih' := ih (fun x hx => hl x (by simp [hx]))
    simp only [List.map_cons, List.count_cons, ih', pickAt_lt ha]
    congr 1
    by_cases haj : a = j
    · subst haj; simp
    · have : ts[a] ≠ ts[j] := fun h => haj ((List.getElem_inj hnd).mp h)
      simp [haj, this]

/-- **C19_rr_fair** — round robin over a fixed list of `n ≥ 1` distinct targets, from ANY
    balancer state (any global index, also one left behind by removals): among `k` consecutive
    first-time picks every target is chosen at least `⌊k/n⌋` and at most `⌈k/n⌉` times; hence
    per-target counts differ by at most one. -/
theorem C19_rr_fair (b : Bal) (hnd : b.targets.Nodup) (t : Target) (ht : t ∈ b.targets) (k : Nat) :
    k / b.targets.length ≤ (firstPicks b k).count (.tgt t) ∧
    (firstPicks b k).count (.tgt t) ≤ (k + b.targets.length - 1) / b.targets.length := by
  obtain ⟨j, hj, rfl⟩ := List.getElem_of_mem ht
  have hn : 0 < b.targets.length := by omega
  rw [firstPicks_eq_walk k b hn,
    count_map_pickAt b.targets hnd j hj _ (walk_lt _ hn k _ (norm_lt hn))]
  exact C19_rr_fair_idx _ hn _ j k (norm_lt hn) hj

theorem ceil_le_floor_succ (k n : Nat) (hn : 0 < n) : (k + n - 1) / n ≤ k / n + 1 := by
  cases k with
  | zero =>
    have : 0 + n - 1 < n := by omega
    rw [Nat.div_eq_of_lt this]; exact Nat.zero_le _
  | succ k =>
    have e : k + 1 + n - 1 = k + n := by omega
    rw [e, Nat.add_div_right _ hn]
    have := Nat.div_le_div_right (c := n) (Nat.le_succ k)
    simp only [Nat.succ_eq_add_one] at this
    omega

/-- corollary in the wording of the property: counts of two targets differ by at most one -/
theorem C19_rr_fair_diff (b : Bal) (hnd : b.targets.Nodup) (t u : Target) (ht : t ∈ b.targets)
    (hu : u ∈ b.targets) (k : Nat) :
    (firstPicks b k).count (.tgt t) ≤ (firstPicks b k).count (.tgt u) + 1 := by
  have h1 := (C19_rr_fair b hnd t ht k).2
  have h2 := (C19_rr_fair b hnd u hu k).1
  have hn : 0 < b.targets.length := List.length_pos_of_mem ht
  have := ceil_le_floor_succ k b.targets.length hn
  omega

/-- **C19_rr_cycle** — `n` consecutive first-time picks visit every target exactly once. -/
theorem C19_rr_cycle (b : Bal) (hnd : b.targets.Nodup) (t : Target) (ht : t ∈ b.targets) :
    (firstPicks b b.targets.length).count (.tgt t) = 1 := by
  have h := C19_rr_fair b hnd t ht b.targets.length
  have hn : 0 < b.targets.length := List.length_pos_of_mem ht
  have e1 : b.targets.length / b.targets.length = 1 := Nat.div_self hn
  have e2 : (b.targets.length + b.targets.length - 1) / b.targets.length = 1 := by
    have : b.targets.length + b.targets.length - 1 = (b.targets.length - 1) + b.targets.length := by omega
    rw [this, Nat.add_div_right _ hn, Nat.div_eq_of_lt (by omega)]
  omega

-- non-vacuity: three targets, global index left at 7 by earlier removals, 5 picks: 2,2,1
example : firstPicks ⟨[⟨['a'], 0⟩, ⟨['b'], 1⟩, ⟨['c'], 2⟩], 7⟩ 5
    = [.tgt ⟨['a'], 0⟩, .tgt ⟨['b'], 1⟩, .tgt ⟨['c'], 2⟩, .tgt ⟨['a'], 0⟩, .tgt ⟨['b'], 1⟩] := by decide

/-! ## D. the retry loop -/

/-- an attempt that did not produce an upstream answer: no target, or a dead target -/
def Failed (env : Env) (r : Res) : Prop :=
  r = .pick .nil ∨ ∃ t, r = .pick (.tgt t) ∧ env.alive t = false

/-- the proxy itself answers 502 -/
def Is502 (o : Outcome) : Prop := o = .badGateway ∨ o = .noTarget

/-- one unfolding of the loop, in a form convenient for case analysis -/
theorem proxyLoop_eq (env : Env) (retries : Nat) (closed : Bool) (b : Bal) (last : Option Nat)
    (hints : List (List Char)) :
    proxyLoop env retries closed b last hints =
      let n := nextOf env.rr b last hints.head?
      match n.2.2 with
      | .pick .nil => (n.1, n.2.1, [n.2.2], .noTarget)
      | .pick (.tgt t) =>
        if env.canceled then (n.1, n.2.1, [n.2.2], .clientClosed)
        else if env.alive t && !(env.bodyOnce && closed) then (n.1, n.2.1, [n.2.2], .relayed t)
        else
          match retries with
          | 0 => (n.1, n.2.1, [n.2.2], .badGateway)
          | k + 1 =>
            let rec' := proxyLoop env k true n.1 n.2.1 hints.tail
            (rec'.1, rec'.2.1, n.2.2 :: rec'.2.2.1, rec'.2.2.2)
      | _ => (n.1, n.2.1, [n.2.2], .panic) := by
  cases retries <;> (rw [proxyLoop]; rfl)

/-- number of attempts -/
theorem proxyLoop_attempts (env : Env) (retries : Nat) : ∀ closed b last hints,
    1 ≤ (proxyLoop env retries closed b last hints).2.2.1.length ∧
    (proxyLoop env retries closed b last hints).2.2.1.length ≤ retries + 1 := by
  induction retries with
  | zero =>
    intro closed b last hints
    rw [proxyLoop_eq]
    simp only
    split
    · simp
    · split
      · simp
      · split <;> simp
    · simp
  | succ k ih =>
    intro closed b last hints
    rw [proxyLoop_eq]
    simp only
    split
    · simp
    · split
      · simp
      · split
        · simp
        · have := ih true (nextOf env.rr b last hints.head?).1 (nextOf env.rr b last hints.head?).2.1 hints.tail
          simp only [List.length_cons]
          omega
    · simp

/-- can an attempt on `t` deliver the request?  (`closed`: an earlier attempt closed the body) -/
def deliverable (env : Env) (closed : Bool) (t : Target) : Bool :=
  env.alive t && !(env.bodyOnce && closed)

/-- declarative description of the runs of the retry loop over a target list `ts` -/
inductive Run (env : Env) (ts : List Target) : Bool → Nat → List Res → Outcome → Prop where
  | noTarget (closed r) : ts = [] → Run env ts closed r [.pick .nil] .noTarget
  | canceled (closed r t) : t ∈ ts → env.canceled = true → Run env ts closed r [.pick (.tgt t)] .clientClosed
  | relayed (closed r t) : t ∈ ts → env.canceled = false → deliverable env closed t = true →
      Run env ts closed r [.pick (.tgt t)] (.relayed t)
  | giveUp (closed t) : t ∈ ts → env.canceled = false → deliverable env closed t = false →
      Run env ts closed 0 [.pick (.tgt t)] .badGateway
  | retry (closed k t rs o) : t ∈ ts → env.canceled = false → deliverable env closed t = false →
      Run env ts true k rs o → Run env ts closed (k + 1) (.pick (.tgt t) :: rs) o
  | notMember (closed r) : env.rr = false → Run env ts closed r [.notMember] .panic

/-- the loop is a `Run` over the (unchanged) target list -/
theorem proxyLoop_run (env : Env) (retries : Nat) : ∀ closed b last hints,
    Run env b.targets closed retries (proxyLoop env retries closed b last hints).2.2.1
      (proxyLoop env retries closed b last hints).2.2.2 ∧
    (proxyLoop env retries closed b last hints).1.targets = b.targets := by
  induction retries with
  | zero =>
    intro closed b last hints
    rw [proxyLoop_eq]
    have ht := nextOf_targets env.rr b last hints.head?
    rcases nextOf_spec env.rr b last hints.head? with ⟨h, he⟩ | ⟨t, h, hm⟩ | ⟨h, hr⟩
    · simp only [h]; exact ⟨.noTarget _ _ he, ht⟩
    · simp only [h]
      cases hc : env.canceled with
      | true => simp only [if_true]; exact ⟨.canceled _ _ t hm hc, ht⟩
      | false =>
        simp only [Bool.false_eq_true, if_false]
        cases hd : deliverable env closed t with
        | true =>
          have : (env.alive t && !(env.bodyOnce && closed)) = true := hd
          simp only [this, if_true]; exact ⟨.relayed _ _ t hm hc hd, ht⟩
        | false =>
          have : (env.alive t && !(env.bodyOnce && closed)) = false := hd
          simp only [this, Bool.false_eq_true, if_false]; exact ⟨.giveUp _ t hm hc hd, ht⟩
    · simp only [h]; exact ⟨.notMember _ _ hr, ht⟩
  | succ k ih =>
    intro closed b last hints
    rw [proxyLoop_eq]
    have ht := nextOf_targets env.rr b last hints.head?
    rcases nextOf_spec env.rr b last hints.head? with ⟨h, he⟩ | ⟨t, h, hm⟩ | ⟨h, hr⟩
    · simp only [h]; exact ⟨.noTarget _ _ he, ht⟩
    · simp only [h]
      cases hc : env.canceled with
      | true => simp only [if_true]; exact ⟨.canceled _ _ t hm hc, ht⟩
      | false =>
        simp only [Bool.false_eq_true, if_false]
        cases hd : deliverable env closed t with
        | true =>
          have : (env.alive t && !(env.bodyOnce && closed)) = true := hd
          simp only [this, if_true]; exact ⟨.relayed _ _ t hm hc hd, ht⟩
        | false =>
          have : (env.alive t && !(env.bodyOnce && closed)) = false := hd
          simp only [this, Bool.false_eq_true, if_false]
          have := ih true (nextOf env.rr b last hints.head?).1 (nextOf env.rr b last hints.head?).2.1 hints.tail
          rw [ht] at this
          exact ⟨.retry _ _ t _ _ hm hc hd this.1, this.2⟩
    · simp only [h]; exact ⟨.notMember _ _ hr, ht⟩

theorem Run.length_le {env ts closed r rs o} (h : Run env ts closed r rs o) :
    1 ≤ rs.length ∧ rs.length ≤ r + 1 := by
  induction h with
  | retry closed k t rs o _ _ _ _ ih => simp only [List.length_cons]; omega
  | _ => simp

/-- attempts of a run that answered 502 were all undeliverable; with a replayable body
    (`bodyOnce = false`) that means: no target at all, or a dead target -/
theorem Run.failed_of_502 {env ts closed r rs o} (h : Run env ts closed r rs o)
    (hb : env.bodyOnce = false) (h5 : Is502 o) : ∀ x ∈ rs, Failed env x := by
  induction h with
  | noTarget => intro x hx; simp at hx; subst hx; exact Or.inl rfl
  | canceled => rcases h5 with h | h <;> cases h
  | relayed => rcases h5 with h | h <;> cases h
  | giveUp closed t _ _ hd =>
    intro x hx; simp at hx; subst hx
    exact Or.inr ⟨t, rfl, by simpa [deliverable, hb] using hd⟩
  | retry closed k t rs o _ _ hd _ ih =>
    intro x hx
    simp only [List.mem_cons] at hx
    rcases hx with rfl | hx
    · exact Or.inr ⟨t, rfl, by simpa [deliverable, hb] using hd⟩
    · exact ih h5 x hx
  | notMember => rcases h5 with h | h <;> cases h

/-- a relayed answer comes from the last attempted target, which is alive; all earlier
    attempts failed (dead targets, given a replayable body) -/
theorem Run.relayed_spec {env ts closed r rs o} (h : Run env ts closed r rs o) (t : Target)
    (ho : o = .relayed t) :
    env.alive t = true ∧ t ∈ ts ∧ rs.getLast? = some (.pick (.tgt t)) ∧
    (env.bodyOnce = false → ∀ x ∈ rs.dropLast, Failed env x) := by
  induction h with
  | noTarget => cases ho
  | canceled => cases ho
  | relayed closed r t' hm _ hd =>
    cases ho
    refine ⟨?_, hm, by simp, by simp⟩
    simp [deliverable] at hd; exact hd.1
  | giveUp => cases ho
  | retry closed k t' rs o _ _ hd hrun ih =>
    obtain ⟨ha, hm, hl, hf⟩ := ih ho
    have hne : rs ≠ [] := by
      intro h; subst h; simp at hl
    refine ⟨ha, hm, ?_, ?_⟩
    · rw [List.getLast?_cons_of_ne_nil hne]; exact hl
    · intro hb x hx
      rw [List.dropLast_cons_of_ne_nil hne] at hx
      simp only [List.mem_cons] at hx
      rcases hx with rfl | hx
      · exact Or.inr ⟨t', rfl, by simpa [deliverable, hb] using hd⟩
      · exact hf hb x hx
  | notMember => cases ho

theorem Run.no_panic {env ts closed r rs o} (h : Run env ts closed r rs o) (hr : env.rr = true) :
    o ≠ .panic := by
  induction h with
  | notMember _ _ h => rw [hr] at h; cases h
  | retry _ _ _ _ _ _ _ _ _ ih => exact ih
  | _ => simp

/-- **C19_retry_attempts** — holds unconditionally (also for F16 runs): one request causes at
    least one and at most `RetryCount + 1` calls of `Next`, and the target list is not touched. -/
theorem C19_retry_attempts (env : Env) (rc : Nat) (closed : Bool) (b : Bal) (last : Option Nat)
    (hints : List (List Char)) :
    1 ≤ (proxyLoop env rc closed b last hints).2.2.1.length ∧
    (proxyLoop env rc closed b last hints).2.2.1.length ≤ rc + 1 ∧
    (proxyLoop env rc closed b last hints).1.targets = b.targets :=
  ⟨(proxyLoop_attempts env rc closed b last hints).1, (proxyLoop_attempts env rc closed b last hints).2,
    (proxyLoop_run env rc closed b last hints).2⟩

/-- FULL statement of the retry clause of the property, for one request (fresh context, body
    not yet touched): at most `RetryCount + 1` attempts, and the proxy answers 502 only if every
    attempt failed, i.e. hit no target or a dead one.
    It does NOT hold for the code as it is (finding F16, see the witness below); what holds is
    `C19_retry_bound_partial`. -/
def RetryBoundFull (env : Env) (rc : Nat) (b : Bal) (hints : List (List Char)) : Prop :=
  (proxyLoop env rc false b none hints).2.2.1.length ≤ rc + 1 ∧
  (Is502 (proxyLoop env rc false b none hints).2.2.2 →
    ∀ x ∈ (proxyLoop env rc false b none hints).2.2.1, Failed env x)

/-- negation witness (F16): round robin over [dead `a`, live `b`], RetryCount 1, a request with
    a body behind a real `http.Server`: the retry reaches the live target `b`, cannot send the
    closed body, and the client gets 502. -/
example : ¬ RetryBoundFull ⟨true, fun t => t.url == 1, false, true⟩ 1
    ⟨[⟨['a'], 0⟩, ⟨['b'], 1⟩], 0⟩ [] := by
  intro h
  have h502 : Is502 (proxyLoop ⟨true, fun t => t.url == 1, false, true⟩ 1 false
      ⟨[⟨['a'], 0⟩, ⟨['b'], 1⟩], 0⟩ none []).2.2.2 := Or.inl (by decide)
  have hmem : Res.pick (.tgt ⟨['b'], 1⟩) ∈ (proxyLoop ⟨true, fun t => t.url == 1, false, true⟩ 1 false
      ⟨[⟨['a'], 0⟩, ⟨['b'], 1⟩], 0⟩ none []).2.2.1 := by decide
  rcases h.2 h502 _ hmem with h | ⟨t, ht, hd⟩
  · cases h
  · cases ht; simp at hd

/-- **C19_retry_bound_partial** — the retry clause for requests whose body can be sent again
    (`bodyOnce = false`: no body, or a body whose `Close` does not invalidate it — everything
    except a non-empty body behind a real `http.Server`, F16).  For every liveness pattern,
    RetryCount, balancer kind and state, stored last index and draw sequence:
    * between 1 and `RetryCount + 1` attempts;
    * the proxy answers 502 only if EVERY attempt failed (no target, or a dead target);
    * a relayed answer comes from the last attempted target, which is alive and a current
      target, and every earlier attempt hit a dead target;
    * round robin never panics. -/
theorem C19_retry_bound_partial (env : Env) (hb : env.bodyOnce = false) (rc : Nat) (closed : Bool)
    (b : Bal) (last : Option Nat) (hints : List (List Char)) :
    let R := proxyLoop env rc closed b last hints
    1 ≤ R.2.2.1.length ∧ R.2.2.1.length ≤ rc + 1 ∧
    (Is502 R.2.2.2 → ∀ x ∈ R.2.2.1, Failed env x) ∧
    (∀ t, R.2.2.2 = .relayed t → env.alive t = true ∧ t ∈ b.targets ∧
        R.2.2.1.getLast? = some (.pick (.tgt t)) ∧ ∀ x ∈ R.2.2.1.dropLast, Failed env x) ∧
    (env.rr = true → R.2.2.2 ≠ .panic) := by
  intro R
  have hrun := (proxyLoop_run env rc closed b last hints).1
  refine ⟨hrun.length_le.1, hrun.length_le.2, hrun.failed_of_502 hb, ?_, hrun.no_panic⟩
  intro t ho
  obtain ⟨ha, hm, hl, hf⟩ := hrun.relayed_spec t ho
  exact ⟨ha, hm, hl, hf hb⟩

theorem C19_retry_bound_full_of_replayable (env : Env) (hb : env.bodyOnce = false) (rc : Nat)
    (b : Bal) (hints : List (List Char)) : RetryBoundFull env rc b hints :=
  ⟨(C19_retry_bound_partial env hb rc false b none hints).2.1,
   (C19_retry_bound_partial env hb rc false b none hints).2.2.1⟩

/-- F16 is the only deviation: whatever the body, if the FIRST attempted target of a request is
    alive (and the client has not gone away) its answer is relayed — no 502, no retry. -/
theorem C19_retry_first_alive (env : Env) (rc : Nat) (b : Bal) (last : Option Nat)
    (hints : List (List Char)) (t : Target) (hc : env.canceled = false)
    (hf : (proxyLoop env rc false b last hints).2.2.1.head? = some (.pick (.tgt t)))
    (ha : env.alive t = true) :
    (proxyLoop env rc false b last hints).2.2.2 = .relayed t ∧
    (proxyLoop env rc false b last hints).2.2.1 = [.pick (.tgt t)] := by
  have hrun := (proxyLoop_run env rc false b last hints).1
  revert hf
  generalize (proxyLoop env rc false b last hints).2.2.1 = rs at hrun
  generalize (proxyLoop env rc false b last hints).2.2.2 = o at hrun
  intro hf
  cases hrun with
  | noTarget => simp at hf
  | canceled _ _ t' _ hc' => rw [hc] at hc'; cases hc'
  | relayed _ _ t' => simp at hf; subst hf; exact ⟨rfl, rfl⟩
  | giveUp _ t' _ _ hd => simp at hf; subst hf; simp [deliverable, ha] at hd
  | retry _ _ t' _ _ _ _ hd => simp at hf; subst hf; simp [deliverable, ha] at hd
  | notMember => simp at hf

-- non-vacuity of the partial theorem: [dead, dead, live], RetryCount 2 → three attempts, relayed
example : (proxyLoop ⟨true, fun t => t.url == 2, false, false⟩ 2 false
    ⟨[⟨['a'], 0⟩, ⟨['b'], 1⟩, ⟨['c'], 2⟩], 0⟩ none []).2.2
    = ([.pick (.tgt ⟨['a'], 0⟩), .pick (.tgt ⟨['b'], 1⟩), .pick (.tgt ⟨['c'], 2⟩)], .relayed ⟨['c'], 2⟩) := by
  decide
-- … and RetryCount 1 → two attempts, 502
example : (proxyLoop ⟨true, fun t => t.url == 2, false, false⟩ 1 false
    ⟨[⟨['a'], 0⟩, ⟨['b'], 1⟩, ⟨['c'], 2⟩], 0⟩ none []).2.2
    = ([.pick (.tgt ⟨['a'], 0⟩), .pick (.tgt ⟨['b'], 1⟩)], .badGateway) := by
  decide

/-! ### round robin retries go to the NEXT target -/

/-- the picks follow the cyclic order starting at index `i` -/
def ChainAt (ts : List Target) : Nat → List Res → Prop
  | _, [] => True
  | i, r :: rs => r = .pick (pickAt ts i) ∧ ChainAt ts (succIdx ts.length i) rs

theorem proxyLoop_chain_some (env : Env) (hr : env.rr = true) (rc : Nat) :
    ∀ closed (b : Bal) (l : Nat) hints, 2 ≤ b.targets.length →
      ChainAt b.targets (succIdx b.targets.length l) (proxyLoop env rc closed b (some l) hints).2.2.1 := by
  induction rc with
  | zero =>
    intro closed b l hints h2
    rw [proxyLoop_eq]
    have hn : nextOf env.rr b (some l) hints.head? =
        (b, some (succIdx b.targets.length l), .pick (pickAt b.targets (succIdx b.targets.length l))) := by
      simp [nextOf, hr, nextRR_two b (some l) h2]
    simp only [hn]
    split
    · simp [ChainAt, *]
    · split
      · simp [ChainAt, *]
      · split <;> simp [ChainAt, *]
    · simp [ChainAt]
  | succ k ih =>
    intro closed b l hints h2
    rw [proxyLoop_eq]
    have hn : nextOf env.rr b (some l) hints.head? =
        (b, some (succIdx b.targets.length l), .pick (pickAt b.targets (succIdx b.targets.length l))) := by
      simp [nextOf, hr, nextRR_two b (some l) h2]
    simp only [hn]
    split
    · simp [ChainAt, *]
    · split
      · simp [ChainAt, *]
      · split
        · simp [ChainAt, *]
        · rename_i heq _ _
          simp only [ChainAt]
          exact ⟨trivial, ih true b _ hints.tail h2⟩
    · simp [ChainAt]

theorem proxyLoop_chain_none (env : Env) (hr : env.rr = true) (rc : Nat) (closed : Bool) (b : Bal)
    (hints : List (List Char)) (h2 : 2 ≤ b.targets.length) :
    ChainAt b.targets (norm b.targets.length b.i) (proxyLoop env rc closed b none hints).2.2.1 := by
  rw [proxyLoop_eq]
  have hn : nextOf env.rr b none hints.head? =
      ({ b with i := norm b.targets.length b.i + 1 }, some (norm b.targets.length b.i),
        .pick (pickAt b.targets (norm b.targets.length b.i))) := by
    simp [nextOf, hr, nextRR_two b none h2]
  simp only [hn]
  split
  · simp [ChainAt, *]
  · split
    · simp [ChainAt, *]
    · split
      · simp [ChainAt, *]
      · cases rc with
        | zero => simp [ChainAt, *]
        | succ k =>
          simp only [ChainAt]
          exact ⟨trivial, proxyLoop_chain_some env hr k true
            { b with i := norm b.targets.length b.i + 1 } _ hints.tail h2⟩
  · simp [ChainAt]

theorem succIdx_ne (n i : Nat) (h2 : 2 ≤ n) (hi : i < n) : succIdx n i ≠ i := by
  unfold succIdx; split <;> omega

theorem ChainAt.adjacent_ne (ts : List Target) (hnd : ts.Nodup) (h2 : 2 ≤ ts.length) :
    ∀ (rs : List Res) (i : Nat), i < ts.length → ChainAt ts i rs →
      ∀ k a c, rs[k]? = some a → rs[k + 1]? = some c → a ≠ c := by
  intro rs
  induction rs with
  | nil => intro i _ _ k a c h; simp at h
  | cons r rs ih =>
    intro i hi hch k a c ha hc
    obtain ⟨hr, hrest⟩ := hch
    have hs : succIdx ts.length i < ts.length := succIdx_lt (by omega)
    cases k with
    | zero =>
      simp at ha; subst ha
      cases rs with
      | nil => simp at hc
      | cons r2 rs2 =>
        simp at hc; subst hc
        obtain ⟨hr2, _⟩ := hrest
        rw [hr, hr2, pickAt_lt hi, pickAt_lt hs]
        intro h
        injection h with h; injection h with h
        exact succIdx_ne _ _ h2 hi ((List.getElem_inj hnd).mp h).symm
    | succ k =>
      simp at ha hc
      exact ih _ hs hrest k a c ha (by simpa using hc)

/-- **C19_retry_next_target** — round robin with at least two (distinct) targets: the
    attempts of one request walk the target list cyclically (each retry uses the target AFTER
    the one that just failed), so two consecutive attempts never use the same target.  Holds
    for every stored last index, RetryCount and liveness pattern (and also for F16 runs). -/
theorem C19_retry_next_target (env : Env) (hr : env.rr = true) (rc : Nat) (closed : Bool) (b : Bal)
    (last : Option Nat) (hints : List (List Char)) (hnd : b.targets.Nodup) (h2 : 2 ≤ b.targets.length) :
    (∃ i, i < b.targets.length ∧ ChainAt b.targets i (proxyLoop env rc closed b last hints).2.2.1) ∧
    ∀ k a c, (proxyLoop env rc closed b last hints).2.2.1[k]? = some a →
      (proxyLoop env rc closed b last hints).2.2.1[k + 1]? = some c → a ≠ c := by
  have hpos : 0 < b.targets.length := by omega
  have hex : ∃ i, i < b.targets.length ∧ ChainAt b.targets i (proxyLoop env rc closed b last hints).2.2.1 := by
    cases last with
    | none => exact ⟨_, norm_lt hpos, proxyLoop_chain_none env hr rc closed b hints h2⟩
    | some l => exact ⟨_, succIdx_lt hpos, proxyLoop_chain_some env hr rc closed b l hints h2⟩
  refine ⟨hex, ?_⟩
  obtain ⟨i, hi, hch⟩ := hex
  exact ChainAt.adjacent_ne b.targets hnd h2 _ i hi hch

/-- **C19_retry_bound** — headline: the parts of the retry clause that hold for ALL runs
    (attempt bound, round robin moves to the next target, a first live target is relayed)
    together with the 502 clause for replayable bodies (the full 502 clause fails: F16). -/
theorem C19_retry_bound (env : Env) (rc : Nat) (b : Bal) (hints : List (List Char)) :
    let R := proxyLoop env rc false b none hints
    (1 ≤ R.2.2.1.length ∧ R.2.2.1.length ≤ rc + 1) ∧
    (env.bodyOnce = false → Is502 R.2.2.2 → ∀ x ∈ R.2.2.1, Failed env x) ∧
    (env.rr = true → b.targets.Nodup → 2 ≤ b.targets.length →
      ∀ k a c, R.2.2.1[k]? = some a → R.2.2.1[k + 1]? = some c → a ≠ c) := by
  intro R
  refine ⟨⟨(proxyLoop_attempts env rc false b none hints).1, (proxyLoop_attempts env rc false b none hints).2⟩,
    fun hb => (C19_retry_bound_partial env hb rc false b none hints).2.2.1, ?_⟩
  intro hr hnd h2
  exact (C19_retry_next_target env hr rc false b none hints hnd h2).2

/-! ## E. linearizability of concurrent balancer histories

Every exported balancer operation (`AddTarget`, `RemoveTarget`, `Next`) runs its whole body
between `mutex.Lock()` and the deferred `Unlock()`.  TRUSTED (not provable about a model):
`sync.Mutex` makes these critical sections mutually exclusive and establishes happens-before
between them, and an echo context is only used by the goroutine serving its request.  Under
that assumption a concurrent execution is a sequence of events

    inv t op   — goroutine `t` calls an operation            (before it takes the lock)
    lin t      — `t` runs the critical section: one atomic `stepOp` on the shared state
    ret t      — the call returns the result computed in the critical section

interleaved arbitrarily between goroutines (`Sys.step`).  The theorem says: the operations in
the order of their `lin` events form a SEQUENTIAL history of the model (`runOps`) with
exactly the results the callers got and the same final state, and each operation's `lin` lies
strictly between its `inv` and `ret`, hence the sequential order respects real-time
precedence.  So every property proved above for all sequential op sequences (membership,
no panic, no use after removal, no lost target) transfers to every concurrent history. -/

structure Done where
  tid : Nat
  op : Op
  res : Res
  tInv : Nat
  tLin : Nat

structure Completed where
  d : Done
  tRet : Nat

inductive Pend where
  | idle
  | invoked (op : Op) (tInv : Nat)
  | done (d : Done)

inductive Ev where
  | inv (tid : Nat) (op : Op)
  | lin (tid : Nat)
  | ret (tid : Nat)

structure Sys where
  st : St
  pend : Nat → Pend
  now : Nat
  lin : List Done
  completed : List Completed

def setPend (f : Nat → Pend) (t : Nat) (p : Pend) : Nat → Pend := fun u => if u = t then p else f u

/-- one event of a concurrent execution; `none` = the event is not enabled (ill-formed history) -/
def Sys.step (σ : Sys) : Ev → Option Sys
  | .inv t op =>
    match σ.pend t with
    | .idle => some { σ with pend := setPend σ.pend t (.invoked op σ.now), now := σ.now + 1 }
    | _ => none
  | .lin t =>
    match σ.pend t with
    | .invoked op tInv =>
      let d : Done := ⟨t, op, (stepOp σ.st op).2, tInv, σ.now⟩
      some { σ with st := (stepOp σ.st op).1, pend := setPend σ.pend t (.done d), now := σ.now + 1,
                    lin := σ.lin ++ [d] }
    | _ => none
  | .ret t =>
    match σ.pend t with
    | .done d => some { σ with pend := setPend σ.pend t .idle, now := σ.now + 1,
                               completed := σ.completed ++ [⟨d, σ.now⟩] }
    | _ => none

def Sys.run : Sys → List Ev → Option Sys
  | σ, [] => some σ
  | σ, e :: es => match σ.step e with
    | some σ' => σ'.run es
    | none => none

def Sys.init (s : St) : Sys := ⟨s, fun _ => .idle, 0, [], []⟩

theorem runOps_append (ops1 ops2 : List Op) : ∀ s : St,
    runOps s (ops1 ++ ops2) =
      ((runOps (runOps s ops1).1 ops2).1, (runOps s ops1).2 ++ (runOps (runOps s ops1).1 ops2).2) := by
  induction ops1 with
  | nil => intro s; simp [runOps]
  | cons o os ih => intro s; simp [runOps, ih]

/-- invariant of concurrent executions started in `s0` -/
structure LinInv (s0 : St) (σ : Sys) : Prop where
  seq : runOps s0 (σ.lin.map (·.op)) = (σ.st, σ.lin.map (·.res))
  linTime : ∀ d ∈ σ.lin, d.tInv < d.tLin ∧ d.tLin < σ.now
  sorted : σ.lin.Pairwise (fun a b => a.tLin < b.tLin)
  compl : ∀ c ∈ σ.completed, c.d ∈ σ.lin ∧ c.d.tLin < c.tRet ∧ c.tRet < σ.now
  pendInv : ∀ t op ti, σ.pend t = .invoked op ti → ti < σ.now
  pendDone : ∀ t d, σ.pend t = .done d → d ∈ σ.lin

theorem LinInv.init (s0 : St) : LinInv s0 (Sys.init s0) := by
  refine ⟨by simp [Sys.init, runOps], by simp [Sys.init], by simp [Sys.init], by simp [Sys.init],
    ?_, ?_⟩ <;> simp [Sys.init]

theorem LinInv.step {s0 : St} {σ σ' : Sys} (h : LinInv s0 σ) (e : Ev) (hs : σ.step e = some σ') :
    LinInv s0 σ' := by
  cases e with
  | inv t op =>
    simp only [Sys.step] at hs
    split at hs
    · injection hs with hs; subst hs
      refine ⟨h.seq, ?_, h.sorted, ?_, ?_, ?_⟩
      · intro d hd; have := h.linTime d hd; simp only; omega
      · intro c hc; have := h.compl c hc; simp only; exact ⟨this.1, this.2.1, by omega⟩
      · intro u op' ti hp
        simp only [setPend] at hp
        split at hp
        · injection hp with _ h2; subst h2; simp
        · have := h.pendInv u op' ti hp; simp only; omega
      · intro u d hp
        simp only [setPend] at hp
        split at hp
        · cases hp
        · exact h.pendDone u d hp
    · cases hs
  | lin t =>
    simp only [Sys.step] at hs
    split at hs
    · rename_i op tInv hpend
      injection hs with hs; subst hs
      have hti := h.pendInv t op tInv hpend
      refine ⟨?_, ?_, ?_, ?_, ?_, ?_⟩
      · simp only [List.map_append, List.map_cons, List.map_nil]
        rw [runOps_append, h.seq]
        simp [runOps]
      · intro d hd
        simp only [List.mem_append, List.mem_singleton] at hd
        rcases hd with hd | rfl
        · have := h.linTime d hd; simp only; omega
        · simp only; omega
      · rw [List.pairwise_append]
        refine ⟨h.sorted, by simp, ?_⟩
        intro a ha b hb
        simp at hb; subst hb
        exact (h.linTime a ha).2
      · intro c hc
        have := h.compl c hc
        simp only
        exact ⟨by simp [this.1], this.2.1, by omega⟩
      · intro u op' ti hp
        simp only [setPend] at hp
        split at hp
        · cases hp
        · have := h.pendInv u op' ti hp; simp only; omega
      · intro u d hp
        simp only [setPend] at hp
        split at hp
        · injection hp with hp; subst hp; simp
        · simp [h.pendDone u d hp]
    · cases hs
  | ret t =>
    simp only [Sys.step] at hs
    split at hs
    · rename_i d hpend
      injection hs with hs; subst hs
      have hd := h.pendDone t d hpend
      refine ⟨h.seq, ?_, h.sorted, ?_, ?_, ?_⟩
      · intro d' hd'; have := h.linTime d' hd'; simp only; omega
      · intro c hc
        simp only [List.mem_append, List.mem_singleton] at hc
        rcases hc with hc | rfl
        · have := h.compl c hc; simp only; exact ⟨this.1, this.2.1, by omega⟩
        · simp only; exact ⟨hd, (h.linTime d hd).2, by omega⟩
      · intro u op' ti hp
        simp only [setPend] at hp
        split at hp
        · cases hp
        · have := h.pendInv u op' ti hp; simp only; omega
      · intro u d' hp
        simp only [setPend] at hp
        split at hp
        · cases hp
        · exact h.pendDone u d' hp
    · cases hs

theorem LinInv.run {s0 : St} (es : List Ev) : ∀ {σ σ' : Sys}, LinInv s0 σ → σ.run es = some σ' →
    LinInv s0 σ' := by
  induction es with
  | nil => intro σ σ' h hr; simp [Sys.run] at hr; subst hr; exact h
  | cons e es ih =>
    intro σ σ' h hr
    simp only [Sys.run] at hr
    split at hr
    · rename_i σ1 hs
      exact ih (h.step e hs) hr
    · cases hr

/-- **C19_linearizable** — for every initial balancer state and EVERY well-formed concurrent
    execution (any number of goroutines, any interleaving of invocations, critical sections
    and returns), the operations ordered by their critical sections are a sequential run of
    the model: same results as the callers received, same final state; every completed call
    is in that order with its `lin` strictly inside its `inv`/`ret` interval, so an operation
    that returned before another was invoked is ordered before it. -/
theorem C19_linearizable (s0 : St) (es : List Ev) (σ : Sys) (hrun : (Sys.init s0).run es = some σ) :
    runOps s0 (σ.lin.map (·.op)) = (σ.st, σ.lin.map (·.res)) ∧
    σ.lin.Pairwise (fun a b => a.tLin < b.tLin) ∧
    (∀ c ∈ σ.completed, c.d ∈ σ.lin ∧ c.d.tInv < c.d.tLin ∧ c.d.tLin < c.tRet) ∧
    (∀ a ∈ σ.completed, ∀ d ∈ σ.lin, a.tRet < d.tInv → a.d.tLin < d.tLin) := by
  have h := LinInv.run es (LinInv.init s0) hrun
  refine ⟨h.seq, h.sorted, ?_, ?_⟩
  · intro c hc
    have := h.compl c hc
    exact ⟨this.1, (h.linTime _ this.1).1, this.2.1⟩
  · intro a ha d hd hlt
    have h1 := (h.compl a ha).2.1
    have h2 := (h.linTime d hd).1
    omega

-- non-vacuity: two goroutines; B's Next runs inside A's RemoveTarget call interval
example : ∃ σ, (Sys.init ⟨true, ⟨[⟨['a'], 0⟩, ⟨['b'], 1⟩], 0⟩, []⟩).run
    [.inv 0 (.remove ['a']), .inv 1 (.next 0 none), .lin 1, .lin 0, .ret 0, .ret 1, .inv 1 (.next 1 none), .lin 1, .ret 1]
      = some σ ∧ σ.lin.map (·.res) = [.pick (.tgt ⟨['a'], 0⟩), .bool true, .pick (.tgt ⟨['b'], 1⟩)] := by
  refine ⟨_, rfl, ?_⟩
  decide

/-! ## F. rewrite rules: first match, and why Go's map iteration order does not matter -/

/-- `rewrite` applies the FIRST rule (in iteration order) that matches, exactly once -/
theorem C19_rewrite_first_match (rs1 rs2 : List Rule) (r : Rule) (uri u : List Char)
    (hno : ∀ x ∈ rs1, x.apply uri = none) (hr : r.apply uri = some u) :
    rewrite (rs1 ++ r :: rs2) uri = u := by
  induction rs1 with
  | nil => simp [rewrite, hr]
  | cons x xs ih =>
    have hx : x.apply uri = none := hno x (by simp)
    simp only [List.cons_append, rewrite, hx]
    exact ih (fun y hy => hno y (by simp [hy]))

/-- no rule matches: the request URL is left alone -/
theorem C19_rewrite_no_match (rs : List Rule) (uri : List Char) (hno : ∀ x ∈ rs, x.apply uri = none) :
    rewrite rs uri = uri := by
  induction rs with
  | nil => rfl
  | cons x xs ih =>
    simp only [rewrite, hno x (by simp)]
    exact ih (fun y hy => hno y (by simp [hy]))

theorem rewrite_of_agree (rs : List Rule) (uri u : List Char) (r : Rule) (hr : r ∈ rs)
    (hu : r.apply uri = some u) (hag : ∀ x ∈ rs, x.apply uri = none ∨ x.apply uri = some u) :
    rewrite rs uri = u := by
  induction rs with
  | nil => simp at hr
  | cons x xs ih =>
    rcases hag x (by simp) with hx | hx
    · simp only [rewrite, hx]
      rcases List.mem_cons.mp hr with rfl | hr'
      · rw [hx] at hu; cases hu
      · exact ih hr' (fun y hy => hag y (by simp [hy]))
    · simp [rewrite, hx]

/-- **C19_rewrite_order_irrelevant** — `rewriteURL` ranges over a Go map (random order).  If all
    rules that match a request agree on the result — in particular if at most one rule
    matches — the outcome is the same for every iteration order. -/
theorem C19_rewrite_order_irrelevant (rs rs' : List Rule) (hp : rs.Perm rs') (uri : List Char)
    (hag : ∀ x ∈ rs, ∀ y ∈ rs, ∀ u v, x.apply uri = some u → y.apply uri = some v → u = v) :
    rewrite rs uri = rewrite rs' uri := by
  by_cases hex : ∃ r ∈ rs, ∃ u, r.apply uri = some u
  · obtain ⟨r, hr, u, hu⟩ := hex
    have hall : ∀ x ∈ rs, x.apply uri = none ∨ x.apply uri = some u := by
      intro x hx
      cases hxa : x.apply uri with
      | none => exact Or.inl rfl
      | some v => exact Or.inr (by rw [hag x hx r hr v u hxa hu])
    rw [rewrite_of_agree rs uri u r hr hu hall,
      rewrite_of_agree rs' uri u r (hp.subset hr) hu (fun x hx => hall x (hp.symm.subset hx))]
  · have hno : ∀ x ∈ rs, x.apply uri = none := by
      intro x hx
      cases hxa : x.apply uri with
      | none => rfl
      | some v => exact absurd ⟨x, hx, v, hxa⟩ hex
    rw [C19_rewrite_no_match rs uri hno,
      C19_rewrite_no_match rs' uri (fun x hx => hno x (hp.symm.subset hx))]

-- the documented examples of ProxyConfig.Rewrite
example : rewrite [⟨"/old".toList, "/new".toList⟩, ⟨"/api/*".toList, "/$1".toList⟩,
    ⟨"/users/*/orders/*".toList, "/user/$1/order/$2".toList⟩] "/users/7/orders/9?x=1".toList
    = "/user/7/order/9?x=1".toList := by decide
-- not anchored at the start: a suffix match replaces the whole request target
example : rewrite [⟨"/old".toList, "/new".toList⟩] "/pre/old".toList = "/new".toList := by decide
-- `$` anchors at the end: a query string prevents a star-less rule from matching
example : rewrite [⟨"/old".toList, "/new".toList⟩] "/old?x=1".toList = "/old?x=1".toList := by decide
-- lazy stars split at the FIRST separator
example : (Rule.apply ⟨"/t/*/s/*".toList, "/$2/$1".toList⟩ "/t/a/s/b/s/c".toList)
    = some "/b/s/c/a".toList := by decide

end C19
