import EchoModel.C05
/-!
# C05 — requests are isolated from each other under context recycling and concurrency

* `C05_reset_complete`     whatever an earlier request left in a pooled context — every setter,
                           hooks, logger, query cache, response state — `Reset` yields the state of
                           a fresh context, except for the *length* of the (blanked) value slice
* `C05_isolated`           the observation of a request served on ANY recycled context equals the
                           observation on a fresh one, for every router whose result does not depend
                           on the slack length of the value slice (`LengthIrrelevant`)
* `C05_history_isolated`   for every history of requests (handlers that dirty everything, panic or
                           fail) interleaved with registrations: every request observes exactly what
                           it would observe alone on a fresh instance with the routes registered so far
* `C05_no_fail_after_registration`  no request fails inside routing, whatever was registered in
                           between (for routers that do not fail on a slice of at least maxParam slots)
* `C05_frame` / `C05_interleaving`  concurrent requests: a step of one request never changes the
                           context another request holds, so in every interleaving each request's
                           context evolves exactly as in its own sequential run

`LengthIrrelevant` / `NoPanic` are facts about the router (`Router.find` on a slice of blank
values of length ≥ maxParam).  They are validated on every run by the correspondence checks of
C01 and C05 (the harness serves every probe both on a recycled and on a fresh context); as
theorems about the radix tree they belong to the L3 proof layer (see DESIGN.md §9).
-/
namespace C05
open Router (Str Outcome)

/-- **C05_reset_complete** -/
theorem C05_reset_complete (dirty : Ctx) (req mp : Nat) :
    reset dirty req mp = { reset (newCtx mp) req mp with pvalues := blank (max dirty.pvalues.length mp) } := by
  simp [reset, newCtx, blank]

/-- after `Reset`, the only thing that can differ between two contexts is the number of (blank) value slots -/
theorem reset_eq_of_len (c c' : Ctx) (req mp : Nat)
    (h : max c.pvalues.length mp = max c'.pvalues.length mp) : reset c req mp = reset c' req mp := by
  simp [reset, h]

/-- the router's answer does not depend on how many blank slots beyond `mp` the slice has -/
def LengthIrrelevant (rt : RouterFn) (mp : Nat) : Prop := ∀ m p n, mp ≤ n → rt m p n = rt m p mp

/-- dispatched values come one per parameter name -/
def ValuesPerName (rt : RouterFn) : Prop :=
  ∀ m p n rm vals, rt m p n = .dispatch rm vals → vals.length = rm.pnames.length

/-- the router never fails on a slice of at least `mp` slots -/
def NoPanic (rt : RouterFn) (mp : Nat) : Prop := ∀ m p n, mp ≤ n → rt m p n ≠ .panic

theorem route_obs_len_indep (rt : RouterFn) (hv : ValuesPerName rt) (c c' : Ctx) (m p : Str)
    (hrt : rt m p c.pvalues.length = rt m p c'.pvalues.length)
    (hrest : c.query = c'.query ∧ c.store = c'.store ∧ c.logger = c'.logger ∧ c.resp = c'.resp
      ∧ c.handler = c'.handler) :
    (route rt c m p).2 = (route rt c' m p).2 := by
  obtain ⟨hq, hs, hl, hr, hh⟩ := hrest
  unfold route
  rw [← hrt]
  cases h : rt m p c.pvalues.length with
  | dispatch rm vals =>
    have hlen := hv _ _ _ _ _ h
    simp [hq, hs, hl, hr, ← hlen]
  | notFound q => simp only [hh]; split <;> simp [hq, hs, hl, hr]
  | methodNotAllowed q a => simp [hq, hs, hl, hr]
  | panic => simp [hq, hs, hl, hr]

/-- **C05_isolated** — a request observes the same on any recycled context as on a fresh one. -/
theorem C05_isolated (rt : RouterFn) (mp : Nat) (hl : LengthIrrelevant rt mp) (hv : ValuesPerName rt)
    (dirty : Ctx) (r : Request) :
    (serveWith rt mp (some dirty) r).1 = (serveWith rt mp none r).1 := by
  have key : (route rt (reset dirty r.id mp) r.method r.path).2
      = (route rt (reset (newCtx mp) r.id mp) r.method r.path).2 := by
    apply route_obs_len_indep rt hv
    · simp only [reset, blank, List.length_replicate, newCtx]
      rw [hl _ _ _ (Nat.le_max_right _ _), hl _ _ _ (Nat.le_max_right _ _)]
    · simp [reset]
  unfold serveWith
  simp only
  generalize hA : route rt (reset dirty r.id mp) r.method r.path = A at key
  generalize hB : route rt (reset (newCtx mp) r.id mp) r.method r.path = B at key
  obtain ⟨ca, oa⟩ := A
  obtain ⟨cb, ob⟩ := B
  simp only at key
  subst key
  split <;> rfl

/-- what request `r` observes alone on a fresh instance with routes `routes` -/
def alone (routes : List Router.Route) (r : Request) : Obs :=
  (serveWith (routerOf routes) (Router.maxParam routes) none r).1

/-- the observations a history should produce: every request as if alone -/
def expected : List Router.Route → List Step → List Obs
  | _, [] => []
  | routes, .register rt :: ss => expected (routes ++ [rt]) ss
  | routes, .request r :: ss => alone routes r :: expected routes ss
  | routes, .borrow _ _ :: ss => expected routes ss   -- whatever the application did with a borrowed context

/-- **C05_history_isolated** — any history of requests and registrations, any pool content. -/
theorem C05_history_isolated
    (hl : ∀ routes, LengthIrrelevant (routerOf routes) (Router.maxParam routes))
    (hv : ∀ routes, ValuesPerName (routerOf routes)) :
    ∀ (steps : List Step) (w : World), runSteps w steps = expected w.routes steps := by
  intro steps
  induction steps with
  | nil => intro w; rfl
  | cons s ss ih =>
    intro w
    cases s with
    | register rt =>
      simp only [runSteps, step, expected]
      exact ih _
    | borrow id prog =>
      simp only [runSteps, step, expected]
      exact ih _
    | request r =>
      simp only [runSteps, step, expected]
      cases hp : w.pool with
      | nil =>
        simp only
        rw [ih]
        rfl
      | cons c cs =>
        simp only
        rw [ih]
        simp only [alone]
        rw [C05_isolated _ _ (hl w.routes) (hv w.routes) c r]

/-- **C05_no_fail_after_registration** — routing itself never fails, whatever context the pool
    hands out and whatever was registered since that context was created. -/
theorem C05_no_fail_after_registration (rt : RouterFn) (mp : Nat) (hn : NoPanic rt mp)
    (pooled : Option Ctx) (r : Request) : (serveWith rt mp pooled r).1.kind ≠ 3 := by
  unfold serveWith
  simp only
  have hlen : ∀ c : Ctx, mp ≤ (reset c r.id mp).pvalues.length := by
    intro c; simp [reset, blank]; exact Nat.le_max_right _ _
  have hkind : ∀ c : Ctx, (route rt (reset c r.id mp) r.method r.path).2.kind ≠ 3 := by
    intro c
    unfold route
    cases h : rt r.method r.path (reset c r.id mp).pvalues.length with
    | panic => exact absurd h (hn _ _ _ (hlen c))
    | dispatch rm vals => simp
    | notFound q => simp only; split <;> simp
    | methodNotAllowed q a => simp
  cases pooled with
  | none =>
    have := hkind (newCtx mp)
    generalize route rt (reset (newCtx mp) r.id mp) r.method r.path = A at this ⊢
    obtain ⟨ca, oa⟩ := A
    simp only at this ⊢
    split <;> simp_all
  | some c =>
    have := hkind c
    generalize route rt (reset c r.id mp) r.method r.path = A at this ⊢
    obtain ⟨ca, oa⟩ := A
    simp only at this ⊢
    split <;> simp_all

/-- the router model really hands out one value per name (so `ValuesPerName` is not an assumption
    for `routerOf`) -/
theorem routerOf_valuesPerName (routes : List Router.Route) : ValuesPerName (routerOf routes) := by
  intro m p n rm vals h
  unfold routerOf Router.find at h
  generalize Router.findNode p m (Router.build routes) _ = fr at h
  obtain ⟨st, res⟩ := fr
  simp only at h
  split at h
  · simp at h
  · cases res with
    | hit rm' =>
      simp only at h
      split at h
      · simp at h
      · rename_i hle
        simp only [Outcome.dispatch.injEq] at h
        obtain ⟨rfl, rfl⟩ := h
        simp only [List.length_take]
        omega
    | leave =>
      simp only at h
      cases hb : st.best with
      | none => simp [hb] at h
      | some b =>
        simp only [hb] at h
        cases hnf : b.nf with
        | none =>
          simp only [hnf] at h
          split at h <;> simp at h
        | some rm' =>
          simp only [hnf] at h
          split at h
          · simp at h
          · simp only [Outcome.dispatch.injEq] at h
            obtain ⟨rfl, rfl⟩ := h
            simp only [List.length_take]
            omega

/-! ### concurrency: interleavings of the atomic steps of several requests -/

inductive Action where
  | acquire (fromPool : Option Nat)   -- pool.Get: the i-th pooled context, or a new one
  | begin (req : Request) (mp : Nat)  -- Reset + Find
  | hop (op : HOp)                    -- one handler op
  | release                           -- pool.Put
deriving Repr, Inhabited

structure GState where
  pool : List Ctx := []
  held : List (Nat × Ctx) := []       -- request id ↦ the context it holds
deriving Repr, Inhabited

def lookup (h : List (Nat × Ctx)) (rid : Nat) : Option Ctx := (h.find? (·.1 = rid)).map (·.2)
def update (h : List (Nat × Ctx)) (rid : Nat) (c : Ctx) : List (Nat × Ctx) :=
  (rid, c) :: h.filter (·.1 ≠ rid)

/-- one atomic step of request `rid` -/
def gstep (rt : RouterFn) (g : GState) (rid : Nat) : Action → GState
  | .acquire none => { g with held := update g.held rid (newCtx 0) }
  | .acquire (some i) =>
    match g.pool[i]? with
    | some c => { pool := g.pool.eraseIdx i, held := update g.held rid c }
    | none => { g with held := update g.held rid (newCtx 0) }
  | .begin req mp =>
    match lookup g.held rid with
    | some c => { g with held := update g.held rid (route rt (reset c req.id mp) req.method req.path).1 }
    | none => g
  | .hop op =>
    match lookup g.held rid with
    | some c => { g with held := update g.held rid (hstep c op) }
    | none => g
  | .release =>
    match lookup g.held rid with
    | some c => { pool := c :: g.pool, held := g.held.filter (·.1 ≠ rid) }
    | none => g

theorem find?_filter_of_imp {α} (p q : α → Bool) (h : ∀ x, p x = true → q x = true) :
    ∀ l : List α, (l.filter q).find? p = l.find? p := by
  intro l
  induction l with
  | nil => rfl
  | cons x xs ih =>
    cases hq : q x with
    | true =>
      simp only [List.filter_cons, hq, if_true, List.find?_cons]
      rw [ih]
    | false =>
      have hp : p x = false := by
        cases hpx : p x with
        | false => rfl
        | true => rw [h x hpx] at hq; exact absurd hq (by simp)
      simp only [List.filter_cons, hq, Bool.false_eq_true, if_false, List.find?_cons, hp]
      exact ih

theorem lookup_filter_ne (h : List (Nat × Ctx)) (rid rid' : Nat) (hne : rid ≠ rid') :
    lookup (h.filter (·.1 ≠ rid')) rid = lookup h rid := by
  unfold lookup
  congr 1
  apply find?_filter_of_imp
  intro x hx
  simp only [decide_eq_true_eq] at hx
  simp only [ne_eq, decide_not, Bool.not_eq_eq_eq_not, Bool.not_true, decide_eq_false_iff_not]
  rw [hx]
  exact hne

theorem lookup_update_ne (h : List (Nat × Ctx)) (rid rid' : Nat) (c : Ctx) (hne : rid ≠ rid') :
    lookup (update h rid' c) rid = lookup h rid := by
  have h1 : lookup (update h rid' c) rid = lookup (h.filter (·.1 ≠ rid')) rid := by
    unfold lookup update
    have : decide (rid' = rid) = false := by simpa using fun h => hne h.symm
    simp only [List.find?_cons, this]
  rw [h1]
  exact lookup_filter_ne h rid rid' hne

/-- **C05_frame** — a step of request `rid'` never changes the context held by another request. -/
theorem C05_frame (rt : RouterFn) (g : GState) (rid rid' : Nat) (a : Action) (hne : rid ≠ rid') :
    lookup (gstep rt g rid' a).held rid = lookup g.held rid := by
  cases a with
  | acquire fp =>
    cases fp with
    | none => exact lookup_update_ne _ _ _ _ hne
    | some i =>
      simp only [gstep]
      split <;> exact lookup_update_ne _ _ _ _ hne
  | begin req mp =>
    simp only [gstep]
    split
    · exact lookup_update_ne _ _ _ _ hne
    · rfl
  | hop op =>
    simp only [gstep]
    split
    · exact lookup_update_ne _ _ _ _ hne
    · rfl
  | release =>
    simp only [gstep]
    split
    · exact lookup_filter_ne _ _ _ hne
    · rfl

/-- run an interleaving -/
def grun (rt : RouterFn) (g : GState) : List (Nat × Action) → GState
  | [] => g
  | (rid, a) :: rest => grun rt (gstep rt g rid a) rest

/-- **C05_interleaving** — steps of other requests can be dropped from any interleaving without
    changing what request `rid` holds: its context evolves exactly as in its own sequential run. -/
theorem C05_interleaving (rt : RouterFn) (rid : Nat) (others : List (Nat × Action))
    (hothers : ∀ x ∈ others, x.1 ≠ rid) : ∀ g, lookup (grun rt g others).held rid = lookup g.held rid := by
  induction others with
  | nil => intro g; rfl
  | cons x xs ih =>
    intro g
    obtain ⟨rid', a⟩ := x
    simp only [grun]
    rw [ih (fun y hy => hothers y (List.mem_cons_of_mem _ hy))]
    exact C05_frame rt g rid rid' a (fun h => hothers (rid', a) (List.mem_cons_self) h.symm)

/-! ### non-vacuity -/
example : (reset { pvalues := [['x'], ['y'], ['z']], pnames := [['a']], path := ['/'], query := some 3,
                   store := [(1, 2)], logger := some 4,
                   resp := { status := 500, size := 9, committed := true, before := [1], after := [2] } } 7 2)
    = { pvalues := blank 3, req := 7 } := by decide

end C05
