import EchoModel.C20
import EchoProofs.Spec.Sound
import EchoProofs.C01
/-!
# C20 — reverse routing and routing are inverse to each other

* `C20_reverse_eq_inst`     for a pattern whose `*` (if any) is its last byte and an argument list of
                            the pattern's arity, `Router.Reverse` produces exactly the pattern with
                            the values substituted for its markers (escaped colons come out as
                            literal colons)
* `C20_roundtrip_single`    requesting that URL with the route's method dispatches to the same route
                            with exactly those values (table containing just this route; every
                            pattern, every valid value list)
* `C20_decomposition_unique`/`C20_roundtrip_values`  in ANY table: if the URL is dispatched back to
                            the same route, the handler sees exactly the values that were reversed
-/
namespace C20
open Router.Spec
open Router (Str routeNotFound Route normalizeSlash)

/-- `*` occurs only as the last byte of the pattern text -/
def starLast : Str → Bool
  | [] => true
  | c :: rest => if c = '*' then rest.isEmpty else starLast rest

theorem starLast_dropWhile (p : Str) (q : Char → Bool) (h : starLast p = true) :
    starLast (p.dropWhile q) = true := by
  induction p with
  | nil => simp [starLast]
  | cons c rest ih =>
    simp only [List.dropWhile_cons]
    split
    · apply ih
      simp only [starLast] at h
      split at h
      · cases rest <;> simp_all [starLast]
      · exact h
    · exact h

theorem starLast_tail {c : Char} {rest : Str} (h : starLast (c :: rest) = true) (hc : c ≠ '*') :
    starLast rest = true := by
  simpa [starLast, hc] using h

theorem dropWhile_length_le (p : Str) (q : Char → Bool) : (p.dropWhile q).length ≤ p.length := by
  induction p with
  | nil => simp
  | cons c rest ih =>
    simp only [List.dropWhile_cons]
    split
    · simp only [List.length_cons]; omega
    · simp

/-- **reverse = instantiate the normalised pattern** (at the level of the fuelled loops) -/
theorem reverseAux_eq_inst : ∀ (f : Nat) (p : Str) (args : List Str), p.length < f →
    starLast p = true → args.length = arity (normAux f p).1 →
    inst (normAux f p).1 args = some (reverseAux f p args) := by
  intro f
  induction f with
  | zero => intro p args h; omega
  | succ f ih =>
    intro p args hlen hstar harity
    cases p with
    | nil =>
      simp only [normAux, arity] at harity ⊢
      cases args with
      | nil => simp [inst, reverseAux]
      | cons _ _ => simp at harity
    | cons c rest =>
      simp only [List.length_cons] at hlen
      simp only [normAux, reverseAux] at harity ⊢
      by_cases hesc : c = '\\' ∧ rest.head? = some ':'
      · simp only [hesc, and_self, if_true] at harity ⊢
        have hc : c ≠ '*' := by rw [hesc.1]; decide
        have hrest : rest = ':' :: rest.tail := by
          cases rest with
          | nil => simp at hesc
          | cons d ds => simp at hesc; simp [hesc.2]
        have hst : starLast rest.tail = true := by
          have h1 := starLast_tail hstar hc
          rw [hrest] at h1
          exact starLast_tail h1 (by decide)
        have hl : rest.tail.length < f := by
          have : rest.tail.length ≤ rest.length := by simp
          omega
        simp only [arity] at harity
        have := ih rest.tail args hl hst harity
        simp [inst, this]
      · simp only [hesc, if_false] at harity ⊢
        by_cases hcolon : c = ':'
        · subst hcolon
          simp only [if_true, true_or, arity] at harity ⊢
          cases args with
          | nil => simp at harity
          | cons a args' =>
            simp only [List.length_cons, Nat.add_right_cancel_iff] at harity
            have hst := starLast_dropWhile rest (· ≠ '/') (starLast_tail hstar (by decide))
            have hl : (rest.dropWhile (· ≠ '/')).length < f := by
              have := dropWhile_length_le rest (· ≠ '/')
              omega
            have := ih _ args' hl hst harity
            simp only [inst, this, Option.map_some]
        · by_cases hstarc : c = '*'
          · subst hstarc
            have hr : rest = [] := by simpa [starLast] using hstar
            subst hr
            simp only [show ('*' : Char) ≠ ':' by decide, if_false, if_true, or_true, arity] at harity ⊢
            cases args with
            | nil => simp at harity
            | cons a args' =>
              cases args' with
              | cons _ _ => simp at harity
              | nil =>
                cases f with
                | zero => simp [inst, reverseAux]
                | succ f' => simp [inst, reverseAux]
          · simp only [hcolon, hstarc, if_false, or_self, arity] at harity ⊢
            have := ih rest args (by omega) (starLast_tail hstar hstarc) harity
            simp [inst, this]

/-- **C20_reverse_eq_inst** -/
theorem C20_reverse_eq_inst (pat : Str) (args : List Str)
    (hstar : starLast (normalizeSlash pat) = true)
    (harity : args.length = arity (norm pat).1) :
    inst (norm pat).1 args = some (reverse pat args) := by
  unfold norm reverse at *
  exact reverseAux_eq_inst _ _ _ (by omega) hstar harity

/-- after a named parameter the pattern either ends or goes on with a literal `/` -/
def paramThenSlash : List Tok → Bool
  | [] => true
  | .param :: ts => (ts.isEmpty || ts.head? = some (.lit '/')) && paramThenSlash ts
  | _ :: ts => paramThenSlash ts

/-- valid values: a named parameter's value is non-empty and without `/`; a wildcard's is arbitrary -/
def ValidVals : List Tok → List Str → Prop
  | [], [] => True
  | .lit _ :: ts, vs => ValidVals ts vs
  | .param :: ts, v :: vs => v ≠ [] ∧ '/' ∉ v ∧ ValidVals ts vs
  | .any :: ts, _ :: vs => ValidVals ts vs
  | _, _ => False

theorem takeWhile_append_slash (v rest : Str) (hv : '/' ∉ v) :
    (v ++ '/' :: rest).takeWhile (· ≠ '/') = v := by
  induction v with
  | nil => simp
  | cons c cs ih =>
    simp only [List.mem_cons, not_or] at hv
    have hc : decide (c ≠ '/') = true := by
      have : c ≠ '/' := fun h => hv.1 h.symm
      simpa using this
    simp only [List.cons_append, List.takeWhile_cons, hc, if_true]
    rw [ih hv.2]

theorem takeWhile_no_slash_id (v : Str) (hv : '/' ∉ v) : v.takeWhile (· ≠ '/') = v := by
  induction v with
  | nil => rfl
  | cons c cs ih =>
    simp only [List.mem_cons, not_or] at hv
    have hc : decide (c ≠ '/') = true := by
      have : c ≠ '/' := fun h => hv.1 h.symm
      simpa using this
    simp only [List.takeWhile_cons, hc, if_true]
    rw [ih hv.2]

/-- the search on the one-entry residual set follows the instantiated pattern to its end -/
theorem search_single (m : Str) (e : Entry) (hm : e.method = m) (hne : m ≠ routeNotFound) :
    ∀ (fuel : Nat) (ts : List Tok) (vs : List Str) (path : Str) (vals : List Str) (best : Best),
      ts.length < fuel → anyLast ts = true → paramThenSlash ts = true → ValidVals ts vs →
      inst ts vs = some path →
      (search m fuel [(ts, e)] path vals best).1 = .hit e (vals ++ vs) := by
  intro fuel
  induction fuel with
  | zero => intro ts _ _ _ _ h; omega
  | succ fuel ih =>
    intro ts vs path vals best hlen hal hps hvalid hinst
    simp only [search]
    cases ts with
    | nil =>
      cases vs with
      | cons _ _ => simp [ValidVals] at hvalid
      | nil =>
        simp only [inst, Option.some.injEq] at hinst
        subst hinst
        have hh : isHandler [e] = true := by simp [isHandler, hm, hne]
        have hf : findM [e] m = some e := by simp [findM, hne, hm]
        simp [stepEnd, ends, hh, hf]
    | cons t ts' =>
      have hlen' : ts'.length < fuel := by simpa using hlen
      cases t with
      | lit c =>
        simp only [inst, Option.map_eq_some_iff] at hinst
        obtain ⟨q, hq, rfl⟩ := hinst
        have hal' : anyLast ts' = true := by simpa [anyLast] using hal
        have hps' : paramThenSlash ts' = true := by simpa [paramThenSlash] using hps
        have hrec := ih ts' vs q vals best hlen' hal' hps' (by simpa [ValidVals] using hvalid) hq
        have hd : deriv (.lit c) [(Tok.lit c :: ts', e)] = [(ts', e)] := by simp [deriv]
        simp only [stepEnd, List.isEmpty_cons, Bool.false_eq_true, if_false, litStep, hd]
        generalize search m fuel [(ts', e)] q vals best = s at hrec
        obtain ⟨res, b⟩ := s
        simp only at hrec
        subst hrec
        rfl
      | param =>
        cases vs with
        | nil => simp [ValidVals] at hvalid
        | cons v vs' =>
          simp only [ValidVals] at hvalid
          obtain ⟨hvne, hvslash, hvalid'⟩ := hvalid
          simp only [inst, Option.map_eq_some_iff] at hinst
          obtain ⟨q, hq, rfl⟩ := hinst
          have hal' : anyLast ts' = true := by simpa [anyLast] using hal
          simp only [paramThenSlash, Bool.and_eq_true] at hps
          obtain ⟨hnext, hps'⟩ := hps
          have hpne : (v ++ q).isEmpty = false := by cases v <;> simp_all
          have hdl : ∀ c, deriv (.lit c) [(Tok.param :: ts', e)] = [] := by intro c; simp [deriv]
          have hdp : deriv .param [(Tok.param :: ts', e)] = [(ts', e)] := by simp [deriv]
          -- the value the search takes is exactly v
          have hval : paramValue (([(ts', e)] : R).all (·.1.isEmpty)) (v ++ q) = v := by
            cases ts' with
            | nil =>
              cases vs' with
              | cons _ _ => simp [inst] at hq
              | nil =>
                simp only [inst, Option.some.injEq] at hq
                subst hq
                simp [paramValue]
            | cons t2 ts2 =>
              have ht2 : t2 = Tok.lit '/' := by simpa using hnext
              subst ht2
              simp only [inst, Option.map_eq_some_iff] at hq
              obtain ⟨q2, _, rfl⟩ := hq
              have := takeWhile_append_slash v q2 hvslash
              simp only [paramValue, List.all_cons, List.isEmpty_cons, List.all_nil, Bool.and_true,
                Bool.false_eq_true, if_false]
              exact this
          have hrec := ih ts' vs' q (vals ++ [v]) best hlen' hal' hps' hvalid' hq
          have hstep1 : stepEnd m (ends [(Tok.param :: ts', e)]) (v ++ q) best = (none, best) := by
            simp [stepEnd, hpne]
          rw [hstep1]
          simp only
          have hlit : litStep (fun r' rest b => search m fuel r' rest vals b) [(Tok.param :: ts', e)] (v ++ q) best
              = (.miss, best) := by
            unfold litStep
            cases hvq : v ++ q with
            | nil => rfl
            | cons c rest => simp [hdl]
          rw [hlit]
          simp only [orElse]
          have hpar : paramStep (fun r' rest vals' b => search m fuel r' rest vals' b)
              [(Tok.param :: ts', e)] (v ++ q) vals best
              = search m fuel [(ts', e)] q (vals ++ [v]) best := by
            unfold paramStep
            simp only [hpne, hdp, List.isEmpty_cons, Bool.false_eq_true, or_self, if_false, hval]
            simp
          rw [hpar]
          generalize search m fuel [(ts', e)] q (vals ++ [v]) best = s at hrec
          obtain ⟨res, b⟩ := s
          simp only at hrec
          subst hrec
          simp [List.append_assoc]
      | any =>
        have hts : ts' = [] := by simpa [anyLast] using hal
        subst hts
        cases vs with
        | nil => simp [ValidVals] at hvalid
        | cons w vs' =>
          cases vs' with
          | cons _ _ => simp [inst] at hinst
          | nil =>
            simp only [inst, Option.map_some, List.append_nil, Option.some.injEq] at hinst
            subst hinst
            have hf : findM [e] m = some e := by simp [findM, hne, hm]
            have hends : ends [(([Tok.any] : List Tok), e)] = [] := by simp [ends]
            have hstep1 : stepEnd m (ends [([Tok.any], e)]) w best = (none, best) := by
              rw [hends]
              unfold stepEnd
              split <;> simp [isHandler, findNF]
            rw [hstep1]
            simp only
            have hlit : litStep (fun r' rest b => search m fuel r' rest vals b) [([Tok.any], e)] w best
                = (.miss, best) := by
              unfold litStep
              cases w with
              | nil => rfl
              | cons c rest => simp [deriv]
            rw [hlit]
            simp only [orElse]
            have hpar : paramStep (fun r' rest vals' b => search m fuel r' rest vals' b)
                [([Tok.any], e)] w vals best = (.miss, best) := by
              unfold paramStep
              simp [deriv]
            rw [hpar]
            simp only
            unfold anyStep
            simp [deriv, ends, stepAny, hf]

theorem normAux_anyLast : ∀ (f : Nat) (p : Str), anyLast (normAux f p).1 = true := by
  intro f
  induction f with
  | zero => intro p; simp [normAux, anyLast]
  | succ f ih =>
    intro p
    cases p with
    | nil => simp [normAux, anyLast]
    | cons c rest =>
      simp only [normAux]
      split
      · simpa [anyLast] using ih rest.tail
      · split
        · simpa [anyLast] using ih _
        · split
          · simp [anyLast]
          · simpa [anyLast] using ih rest

theorem normAux_head_slash (f : Nat) (r : Str) :
    (normAux (f + 1) ('/' :: r)).1.head? = some (.lit '/') := by
  simp [normAux]

theorem normAux_paramThenSlash : ∀ (f : Nat) (p : Str), paramThenSlash (normAux f p).1 = true := by
  intro f
  induction f with
  | zero => intro p; simp [normAux, paramThenSlash]
  | succ f ih =>
    intro p
    cases p with
    | nil => simp [normAux, paramThenSlash]
    | cons c rest =>
      simp only [normAux]
      split
      · simpa [paramThenSlash] using ih rest.tail
      · split
        · simp only [paramThenSlash, Bool.and_eq_true, Bool.or_eq_true]
          refine ⟨?_, ih _⟩
          -- what follows the name is empty or starts with '/'
          cases hd : rest.dropWhile (· ≠ '/') with
          | nil =>
            left
            cases f <;> simp [normAux]
          | cons d ds =>
            have hds : d = '/' := by
              have := List.head?_dropWhile_not (· ≠ '/') rest
              rw [hd] at this
              simpa using this
            subst hds
            cases f with
            | zero => left; simp [normAux]
            | succ f' => right; simp [normAux]
        · split
          · simp [paramThenSlash]
          · simpa [paramThenSlash] using ih rest

theorem validVals_length {ts : List Tok} {vs : List Str} (h : ValidVals ts vs) :
    vs.length = arity ts := by
  induction ts generalizing vs with
  | nil => cases vs <;> simp_all [ValidVals, arity]
  | cons t ts ih =>
    cases t with
    | lit c => simpa [arity] using ih (by simpa [ValidVals] using h)
    | param =>
      cases vs with
      | nil => simp [ValidVals] at h
      | cons v vs => simp only [ValidVals] at h; simpa [arity] using ih h.2.2
    | any =>
      cases vs with
      | nil => simp [ValidVals] at h
      | cons v vs => simp only [ValidVals] at h; simpa [arity] using ih h

/-- **C20_roundtrip_single** — in a table containing just the route, for every pattern (whose
    `*`, if any, is its last byte) and every valid value list: the URL produced by reverse
    routing, requested with the route's method, is dispatched to that route with exactly those
    values. -/
theorem C20_roundtrip_single (r : Route) (hne : r.method ≠ routeNotFound) (vs : List Str)
    (hstar : starLast (normalizeSlash r.path) = true) (hvalid : ValidVals (norm r.path).1 vs) :
    routeTable [r] r.method (reverse r.path vs) = .dispatch (mkEntry r) vs := by
  have hinst := C20_reverse_eq_inst r.path vs hstar (validVals_length hvalid)
  unfold routeTable route
  simp only [List.map_cons, List.map_nil, initial]
  have htoks : (mkEntry r).toks = (norm r.path).1 := rfl
  have hmeth : (mkEntry r).method = r.method := rfl
  have hb : bound [((mkEntry r).toks, mkEntry r)] = (mkEntry r).toks.length := by simp [bound]
  have := search_single r.method (mkEntry r) hmeth hne (bound [((mkEntry r).toks, mkEntry r)] + 1)
    (mkEntry r).toks vs (reverse r.path vs) [] none (by rw [hb]; omega)
    (by rw [htoks]; exact normAux_anyLast _ _) (by rw [htoks]; exact normAux_paramThenSlash _ _)
    (by rw [htoks]; exact hvalid) (by rw [htoks]; exact hinst)
  generalize search r.method (bound [((mkEntry r).toks, mkEntry r)] + 1) [((mkEntry r).toks, mkEntry r)]
    (reverse r.path vs) [] none = s at this
  obtain ⟨res, b⟩ := s
  simp only at this
  subst this
  simp [finish]

/-- **C20_decomposition_unique** — a path decomposes in at most one way along a pattern when
    parameters followed by more text hold no `/`. -/
theorem C20_decomposition_unique : ∀ (ts : List Tok) (vs vs' : List Str) (p : Str),
    anyLast ts = true → paramThenSlash ts = true →
    inst ts vs = some p → inst ts vs' = some p → SlashFree ts vs → SlashFree ts vs' → vs = vs' := by
  intro ts
  induction ts with
  | nil =>
    intro vs vs' p _ _ h h' _ _
    cases vs <;> cases vs' <;> simp_all [inst]
  | cons t ts ih =>
    intro vs vs' p hal hps h h' hs hs'
    cases t with
    | lit c =>
      simp only [inst, Option.map_eq_some_iff] at h h'
      obtain ⟨q, hq, rfl⟩ := h
      obtain ⟨q', hq', hqq⟩ := h'
      simp only [List.cons.injEq, true_and] at hqq
      subst hqq
      exact ih vs vs' q' (by simpa [anyLast] using hal) (by simpa [paramThenSlash] using hps) hq hq'
        (by simpa [SlashFree] using hs) (by simpa [SlashFree] using hs')
    | param =>
      cases vs with
      | nil => simp [inst] at h
      | cons v vs =>
        cases vs' with
        | nil => simp [inst] at h'
        | cons v' vs' =>
          simp only [inst, Option.map_eq_some_iff] at h h'
          obtain ⟨q, hq, rfl⟩ := h
          obtain ⟨q', hq', hqq⟩ := h'
          simp only [SlashFree] at hs hs'
          simp only [paramThenSlash, Bool.and_eq_true] at hps
          have hal' : anyLast ts = true := by simpa [anyLast] using hal
          cases ts with
          | nil =>
            cases vs <;> cases vs' <;> simp_all [inst]
          | cons t2 ts2 =>
            have ht2 : t2 = Tok.lit '/' := by simpa using hps.1
            subst ht2
            simp only [inst, Option.map_eq_some_iff] at hq hq'
            obtain ⟨q2, hq2, rfl⟩ := hq
            obtain ⟨q2', hq2', rfl⟩ := hq'
            have hv : '/' ∉ v := hs.1 (by simp)
            have hv' : '/' ∉ v' := hs'.1 (by simp)
            have e1 := takeWhile_append_slash v q2 hv
            have e2 := takeWhile_append_slash v' q2' hv'
            rw [← hqq, e2] at e1
            subst e1
            have hrest : ('/' :: q2') = ('/' :: q2) := List.append_cancel_left hqq
            simp only [List.cons.injEq, true_and] at hrest
            subst hrest
            have := ih vs vs' ('/' :: q2') hal' hps.2 (by simp [inst, hq2]) (by simp [inst, hq2'])
              hs.2 hs'.2
            rw [this]
    | any =>
      have hts : ts = [] := by simpa [anyLast] using hal
      subst hts
      cases vs with
      | nil => simp [inst] at h
      | cons v vs =>
        cases vs' with
        | nil => simp [inst] at h'
        | cons v' vs' =>
          cases vs <;> cases vs' <;> simp_all [inst]

theorem validVals_slashFree {ts : List Tok} {vs : List Str} (h : ValidVals ts vs) : SlashFree ts vs := by
  induction ts generalizing vs with
  | nil => cases vs <;> simp_all [SlashFree]
  | cons t ts ih =>
    cases t with
    | lit c => simpa [SlashFree] using ih (by simpa [ValidVals] using h)
    | param =>
      cases vs with
      | nil => simp [ValidVals] at h
      | cons v vs =>
        simp only [ValidVals] at h
        exact ⟨fun _ => h.2.1, ih h.2.2⟩
    | any =>
      cases vs with
      | nil => simp [ValidVals] at h
      | cons v vs => simp only [ValidVals] at h; simpa [SlashFree] using ih h

/-- **C20_roundtrip_values** — in ANY table: whenever the URL reversed from route `r` with
    valid values `vs` is dispatched back to `r`, the handler sees exactly `vs`. -/
theorem C20_roundtrip_values (rs : List Route) (r : Route) (hne : r.method ≠ routeNotFound)
    (vs vals : List Str) (hstar : starLast (normalizeSlash r.path) = true)
    (hvalid : ValidVals (norm r.path).1 vs)
    (h : routeTable rs r.method (reverse r.path vs) = .dispatch (mkEntry r) vals) : vals = vs := by
  have hinst := C20_reverse_eq_inst r.path vs hstar (validVals_length hvalid)
  unfold routeTable at h
  rcases C01.C01_sound_partial _ _ _ _ _ h with ⟨_, hi, hsf, _⟩ | ⟨hm, _⟩
  · exact C20_decomposition_unique (norm r.path).1 vals vs _ (normAux_anyLast _ _)
      (normAux_paramThenSlash _ _) hi hinst hsf (validVals_slashFree hvalid)
  · exact absurd hm hne

/-! ### non-vacuity; escaped colons come out as literal colons and are routed as literal text -/
example : reverse "/a\\:b/:id/*".toList ["7".toList, "x/y".toList] = "/a:b/7/x/y".toList := by decide
example : starLast (normalizeSlash "/a\\:b/:id/*".toList) = true := by decide
example : ValidVals (norm "/a\\:b/:id/*".toList).1 ["7".toList, "x/y".toList] := by
  simp [norm, normAux, normalizeSlash, ValidVals]
example : (norm "/a\\:b".toList).1 = ["/", "a", ":", "b"].map (fun s => Tok.lit s.toList.head!) := by decide

end C20
