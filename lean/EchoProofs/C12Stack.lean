import EchoProofs.C12
/-!
# C12 — constructors, Skipper, cookie attributes, and several consumers of one random source

Round-4 theorems about the parts of the model added in `EchoModel/C12.lean`:

* `CSRF()` is `CSRFWithConfig` of the zero configuration (`C12_default_ctor`);
* the defaults `CSRFWithConfig` applies to the cookie options (`C12_cookie_attrs`);
* a configured `Skipper` is the only way past the checks, and only for the requests it
  names (`C12_skipper`);
* `randomString` consumes whole buffers and leaves the rest of the stream untouched
  (`C12_randomR`);
* a **stack** of middlewares drawing from one random source (CSRF instances, `RequestID()`):
  the handler runs only if every CSRF instance, on the stream its predecessors left, passes
  on its own (`C12_stack_sound`), so the single-instance theorems apply to each instance
  (`C12_stack_unsafe_needs_match`, `C12_stack_rejected`); what an outer instance publishes
  does not depend on what is registered after it (`C12_stack_head_stable`).
-/
namespace C12

/-! ## constructors and defaults -/

/-- `CSRFConfig{}` -/
def zeroRaw : RawCfg := { tokenLength := 0, lookup := [], cookieName := [], errorHandler := 0 }

theorem serve_congr (c c' : Cfg) (r : Req) (h1 : c.tokenLength = c'.tokenLength)
    (h2 : c.extractors = c'.extractors) (h3 : c.cookieName = c'.cookieName)
    (h4 : c.errorHandler = c'.errorHandler) : serve c r = serve c' r := by
  unfold serve tokenOf handlerStatus
  rw [h1, h2, h3, h4]

/-- what `CSRFWithConfig(DefaultCSRFConfig)` holds after its defaults -/
def cfgD : Cfg :=
  { tokenLength := 32, extractors := [.header (lit "X-Csrf-Token") []], cookieName := lit "_csrf", cookieSameSite := 1 }
/-- what `CSRFWithConfig(CSRFConfig{})` holds after its defaults -/
def cfgZ : Cfg :=
  { tokenLength := 32, extractors := [.header (lit "X-Csrf-Token") []], cookieName := lit "_csrf" }

/-- **C12_default_ctor** — `CSRF()` (= `CSRFWithConfig(DefaultCSRFConfig)`) and
    `CSRFWithConfig(CSRFConfig{})` are the same middleware: same token length 32, same single
    extractor `header:X-Csrf-Token`, cookie `_csrf`, never skipping, same cookie attributes, and
    the same answer to every request. -/
theorem C12_default_ctor :
    mkCfg defaultRaw = some cfgD ∧ mkCfg zeroRaw = some cfgZ ∧
      cookieAttrs cfgD = cookieAttrs cfgZ ∧ (∀ r, handle cfgD r = handle cfgZ r) ∧
      cfgD.tokenLength = 32 ∧ cfgD.extractors = [.header (lit "X-Csrf-Token") []] ∧
      cfgD.cookieName = lit "_csrf" ∧ cfgD.skipper = false ∧ cfgD.errorHandler = 0 ∧
      cookieAttrs cfgD = ⟨[], [], 86400, false, false, 0⟩ := by
  refine ⟨by decide, by decide, by decide, ?_, rfl, rfl, rfl, rfl, rfl, by decide⟩
  intro r
  unfold handle
  rw [serve_congr cfgD cfgZ r rfl rfl rfl rfl]
  rfl

/-- **C12_cookie_attrs** — what the Set-Cookie of a passed request carries besides the token,
    for every configuration: Path and Domain as configured, Expires = now + MaxAge with 0 ↦
    86400 s, HttpOnly as configured, `Secure` as configured **or forced by SameSite=None**, and a
    SameSite attribute exactly for Lax/Strict/None (zero value and DefaultMode write none). -/
theorem C12_cookie_attrs (rc : RawCfg) (c : Cfg) (h : mkCfg rc = some c) :
    (cookieAttrs c).path = rc.cookiePath ∧ (cookieAttrs c).domain = rc.cookieDomain ∧
    (cookieAttrs c).maxAge = (if rc.cookieMaxAge = 0 then 86400 else rc.cookieMaxAge) ∧
    (cookieAttrs c).httpOnly = rc.cookieHTTPOnly ∧
    (rc.cookieSameSite = 4 → (cookieAttrs c).secure = true) ∧
    (rc.cookieSameSite ≠ 4 → (cookieAttrs c).secure = rc.cookieSecure) ∧
    (cookieAttrs c).sameSite = (if rc.cookieSameSite = 1 then 0 else rc.cookieSameSite) ∧
    c.skipper = rc.skipper ∧ c.errorHandler = rc.errorHandler ∧
    c.tokenLength = (if rc.tokenLength = 0 then 32 else rc.tokenLength) ∧ 1 ≤ c.tokenLength := by
  unfold mkCfg at h
  simp only at h
  split at h
  · simp at h
  · simp only [Option.some.injEq] at h
    subst h
    refine ⟨rfl, rfl, rfl, rfl, ?_, ?_, rfl, rfl, rfl, rfl, ?_⟩
    · intro h4; simp [cookieAttrs, h4]
    · intro h4; simp [cookieAttrs, h4]
    · show 1 ≤ (if rc.tokenLength = 0 then 32 else rc.tokenLength)
      split <;> omega

example : (mkCfg { zeroRaw with cookieSameSite := 4, cookiePath := lit "/app" }).map cookieAttrs =
    some ⟨lit "/app", [], 86400, true, false, 4⟩ := by decide

/-- **C12_skipper** — a request gets past the middleware unchecked exactly when a Skipper is
    configured and it names the request; every other request is served by `serve`, to which
    `C12_unsafe_needs_match`, `C12_reject_4xx`, `C12_publish` … apply. -/
theorem C12_skipper (c : Cfg) (r : Req) :
    (handle c r = .skipped ↔ (c.skipper = true ∧ skipReq r = true)) ∧
    (handle c r ≠ .skipped → handle c r = .served (serve c r)) ∧
    (c.skipper = false → handle c r = .served (serve c r)) := by
  unfold handle
  refine ⟨?_, ?_, ?_⟩
  · by_cases h : (c.skipper && skipReq r) = true
    · simp only [h, ite_true, true_iff]
      simpa using h
    · simp only [h]
      simp only [Bool.and_eq_true] at h
      simp [h]
  · intro h
    split at h
    · exact absurd rfl h
    · next hn => simp [hn]
  · intro h; simp [h]

example : skipReq ⟨lit "POST", [], [(lit "X-Skip", lit "1")], [], [], [], [], false⟩ = true ∧
    skipReq ⟨lit "POST", [], [(lit "X-Skip", [])], [], [], [], [], false⟩ = false := by decide

/-! ## randomString and the rest of the stream -/

theorem fillLoopR_spec (chunk : Nat) : ∀ (fuel need : Nat) (stream : List Nat),
    (fillLoopR chunk fuel need stream).map (·.1) = fillLoop chunk fuel need stream ∧
    (∀ t rest, fillLoopR chunk fuel need stream = some (t, rest) →
      ∃ k, 1 ≤ k ∧ rest = stream.drop (k * chunk)) := by
  intro fuel
  induction fuel with
  | zero => intro need stream; simp [fillLoopR, fillLoop]
  | succ fuel ih =>
    intro need stream
    simp only [fillLoopR, fillLoop]
    by_cases hlen : stream.length < chunk
    · simp [hlen]
    · simp only [hlen, ite_false]
      by_cases h0 : (scanChunk need (List.take chunk stream)).2 = 0
      · simp only [h0, ite_true, Option.map_some, true_and]
        intro t rest h
        simp only [Option.some.injEq, Prod.mk.injEq] at h
        exact ⟨1, Nat.le_refl 1, by rw [← h.2]; simp⟩
      · simp only [h0, ite_false]
        obtain ⟨ih1, ih2⟩ := ih (scanChunk need (List.take chunk stream)).2 (List.drop chunk stream)
        cases hr : fillLoopR chunk fuel (scanChunk need (List.take chunk stream)).2 (List.drop chunk stream) with
        | none =>
          rw [hr] at ih1
          simp only [Option.map_none] at ih1
          simp [← ih1]
        | some p =>
          obtain ⟨t', rest'⟩ := p
          rw [hr] at ih1
          simp only [Option.map_some] at ih1
          simp only [← ih1, Option.map_some, true_and]
          intro t rest h
          simp only [Option.some.injEq, Prod.mk.injEq] at h
          obtain ⟨k, hk, hrest⟩ := ih2 t' rest' hr
          refine ⟨k + 1, by omega, ?_⟩
          rw [← h.2, hrest, List.drop_drop]
          congr 1
          rw [Nat.add_mul]; omega

/-- **C12_randomR** — `randomStringR` returns the very token of `randomString` and leaves the
    stream minus a positive whole number of read buffers (`length + length/4` bytes each): the
    next consumer of the random source sees exactly the unread rest. -/
theorem C12_randomR (n : Nat) (s : List Nat) :
    (randomStringR n s).map (·.1) = randomString n s ∧
    (∀ t rest, randomStringR n s = some (t, rest) →
      ∃ k, 1 ≤ k ∧ rest = s.drop (k * (n + n / 4))) :=
  fillLoopR_spec _ _ _ _

example : randomStringR 4 [0, 0, 0, 0, 0, 7, 8] = some (lit "AAAA", [7, 8]) := by decide

/-! ## the stack -/

theorem push_passed (x : StackOut) (p : Pub) (ps : List Pub) (h : x.push p = .passed ps) :
    ∃ ps', x = .passed ps' ∧ ps = p :: ps' := by
  cases x with
  | panic => simp [StackOut.push] at h
  | rejected s => simp [StackOut.push] at h
  | passed l =>
    simp only [StackOut.push, StackOut.passed.injEq] at h
    exact ⟨l, rfl, h.symm⟩

theorem push_rejected (x : StackOut) (p : Pub) (st : Nat) (h : x.push p = .rejected st) :
    x = .rejected st := by
  cases x <;> simp_all [StackOut.push]

/-- the stream one middleware leaves to its successor -/
def streamAfter : Mw → Req → List Nat → List Nat
  | .requestID, r, s =>
    match requestIDOf r with
    | some _ => s
    | none => match randomStringR 32 s with
      | some (_, s') => s'
      | none => s
  | .csrf c, r, s => restAfter c r s

/-- the stream the `i`-th middleware of the stack sees -/
def streamAt : List Mw → Req → List Nat → Nat → List Nat
  | _, _, s, 0 => s
  | [], _, s, _ + 1 => s
  | m :: ms, r, s, i + 1 => streamAt ms r (streamAfter m r s) i

/-- what instance `c` does with the request on stream `s`, as one of the three outcomes the
    single-instance theorems speak about -/
def PassesAlone (c : Cfg) (r : Req) (s : List Nat) (p : Pub) : Prop :=
  (handle c { r with rnd := s } = .skipped ∧ p = .skipped) ∨
  (∃ tok, handle c { r with rnd := s } = .served (.passed tok tok) ∧ p = .csrf tok tok (cookieAttrs c))

theorem serve_passed_same (c : Cfg) (r : Req) (sc ctx : Str) (h : serve c r = .passed sc ctx) : sc = ctx :=
  (C12_publish c r sc ctx h).1

theorem serveStack_cons_csrf (c : Cfg) (rest : List Mw) (r : Req) (s : List Nat) (ps : List Pub)
    (h : serveStack (.csrf c :: rest) r s = .passed ps) :
    ∃ p ps', ps = p :: ps' ∧ PassesAlone c r s p ∧
      serveStack rest r (streamAfter (.csrf c) r s) = .passed ps' := by
  simp only [serveStack] at h
  cases hh : handle c { r with rnd := s } with
  | skipped =>
    simp only [hh] at h
    obtain ⟨ps', h1, h2⟩ := push_passed _ _ _ h
    refine ⟨.skipped, ps', h2, Or.inl ⟨hh, rfl⟩, ?_⟩
    have hsk : (c.skipper && skipReq r) = true := by
      have := (C12_skipper c { r with rnd := s }).1.mp hh
      simpa [skipReq] using this
    simp only [streamAfter, restAfter, hsk, ite_true]
    exact h1
  | served res =>
    simp only [hh] at h
    cases res with
    | panic => simp at h
    | rejected st => simp at h
    | passed sc ctx =>
      simp only at h
      obtain ⟨ps', h1, h2⟩ := push_passed _ _ _ h
      have hserve : serve c { r with rnd := s } = .passed sc ctx := by
        have := (C12_skipper c { r with rnd := s }).2.1 (by rw [hh]; simp)
        rw [hh] at this
        simpa using this.symm
      have heq := serve_passed_same _ _ _ _ hserve
      subst heq
      exact ⟨_, ps', h2, Or.inr ⟨sc, hh, rfl⟩, h1⟩

theorem serveStack_cons_rid (rest : List Mw) (r : Req) (s : List Nat) (ps : List Pub)
    (h : serveStack (.requestID :: rest) r s = .passed ps) :
    ∃ id ps', ps = .rid id :: ps' ∧ serveStack rest r (streamAfter .requestID r s) = .passed ps' := by
  simp only [serveStack] at h
  cases hid : requestIDOf r with
  | some v =>
    simp only [hid] at h
    obtain ⟨ps', h1, h2⟩ := push_passed _ _ _ h
    exact ⟨v, ps', h2, by simpa [streamAfter, hid] using h1⟩
  | none =>
    simp only [hid] at h
    cases hr : randomStringR 32 s with
    | none => simp [hr] at h
    | some p =>
      obtain ⟨id, s'⟩ := p
      simp only [hr] at h
      obtain ⟨ps', h1, h2⟩ := push_passed _ _ _ h
      exact ⟨id, ps', h2, by simpa [streamAfter, hid, hr] using h1⟩

/-- **C12_stack_head_stable** — what the outermost CSRF instance hands to the handler (context
    token = Set-Cookie token, or nothing when its Skipper skipped) is determined by that
    instance, the request and the random stream alone: whatever is registered after it —
    `RequestID()`, another CSRF instance, anything drawing from the same random source —
    cannot change it. -/
theorem C12_stack_head_stable (c : Cfg) (rest rest' : List Mw) (r : Req) (s : List Nat)
    (ps ps' : List Pub) (h : serveStack (.csrf c :: rest) r s = .passed ps)
    (h' : serveStack (.csrf c :: rest') r s = .passed ps') :
    ps.head? = ps'.head? ∧ ∃ p, ps.head? = some p ∧ PassesAlone c r s p := by
  obtain ⟨p, l, hp, hal, _⟩ := serveStack_cons_csrf c rest r s ps h
  obtain ⟨p', l', hp', hal', _⟩ := serveStack_cons_csrf c rest' r s ps' h'
  subst hp hp'
  refine ⟨?_, p, rfl, hal⟩
  simp only [List.head?_cons, Option.some.injEq]
  rcases hal with ⟨h1, rfl⟩ | ⟨tok, h1, rfl⟩ <;> rcases hal' with ⟨h2, rfl⟩ | ⟨tok', h2, rfl⟩
  · rfl
  · rw [h1] at h2; simp at h2
  · rw [h1] at h2; simp at h2
  · rw [h1] at h2
    simp only [Outcome.served.injEq, Result.passed.injEq] at h2
    rw [h2.1]

/-- **C12_stack_sound** — the handler behind a stack of middlewares runs only if every CSRF
    instance of the stack, looking at the request on the random stream its predecessors left
    (`streamAt`), passes the request on its own (or is skipped by its own Skipper); and what
    the handler finds published for instance `i` is exactly that instance's token. -/
theorem C12_stack_sound (ms : List Mw) : ∀ (r : Req) (s : List Nat) (ps : List Pub),
    serveStack ms r s = .passed ps →
    ps.length = ms.length ∧
    ∀ (i : Nat) (c : Cfg), ms[i]? = some (.csrf c) →
      ∃ p, ps[i]? = some p ∧ PassesAlone c r (streamAt ms r s i) p := by
  induction ms with
  | nil =>
    intro r s ps h
    simp only [serveStack, StackOut.passed.injEq] at h
    subst h
    exact ⟨rfl, by intro i c hi; simp at hi⟩
  | cons m ms ih =>
    intro r s ps h
    cases m with
    | requestID =>
      obtain ⟨id, ps', hps, hrest⟩ := serveStack_cons_rid ms r s ps h
      obtain ⟨hl, hall⟩ := ih r _ ps' hrest
      subst hps
      refine ⟨by simp [hl], ?_⟩
      intro i c hi
      cases i with
      | zero => simp at hi
      | succ i =>
        simp only [List.getElem?_cons_succ] at hi ⊢
        exact hall i c hi
    | csrf c0 =>
      obtain ⟨p, ps', hps, hal, hrest⟩ := serveStack_cons_csrf c0 ms r s ps h
      obtain ⟨hl, hall⟩ := ih r _ ps' hrest
      subst hps
      refine ⟨by simp [hl], ?_⟩
      intro i c hi
      cases i with
      | zero =>
        simp only [List.getElem?_cons_zero, Option.some.injEq, Mw.csrf.injEq] at hi
        subst hi
        exact ⟨p, by simp, hal⟩
      | succ i =>
        simp only [List.getElem?_cons_succ] at hi ⊢
        exact hall i c hi

theorem heldAt_rnd (r : Req) (s : List Nat) (e : Extractor) (tok : Str) :
    heldAt { r with rnd := s } e tok ↔ heldAt r e tok := by
  cases e <;> exact Iff.rfl

/-- **C12_stack_unsafe_needs_match** — an unsafe request that reaches a handler behind any
    stack of middlewares carries, for EVERY CSRF instance of the stack (with at least one
    extractor, not skipped by its own Skipper), that instance's token at one of that
    instance's lookup locations; the token is the value of that instance's cookie when the
    request has it.  One instance's check cannot stand in for another's. -/
theorem C12_stack_unsafe_needs_match (ms : List Mw) (r : Req) (s : List Nat) (ps : List Pub)
    (h : serveStack ms r s = .passed ps) (hunsafe : safeMethod r.method = false)
    (i : Nat) (c : Cfg) (hi : ms[i]? = some (.csrf c)) (hne : c.extractors ≠ [])
    (hskip : ¬ (c.skipper = true ∧ skipReq r = true)) :
    ∃ tok, ps[i]? = some (.csrf tok tok (cookieAttrs c)) ∧
      (∃ e ∈ c.extractors, heldAt r e tok) ∧
      (findCookie c.cookieName r.cookies = some tok ∨
        (findCookie c.cookieName r.cookies = none ∧
          randomString c.tokenLength (streamAt ms r s i) = some tok)) := by
  obtain ⟨_, hall⟩ := C12_stack_sound ms r s ps h
  obtain ⟨p, hp, hal⟩ := hall i c hi
  rcases hal with ⟨hsk, _⟩ | ⟨tok, hserved, rfl⟩
  · exact absurd ((C12_skipper c _).1.mp hsk) (by simpa [skipReq] using hskip)
  · have hserve : serve c { r with rnd := streamAt ms r s i } = .passed tok tok := by
      have := (C12_skipper c { r with rnd := streamAt ms r s i }).2.1 (by rw [hserved]; simp)
      rw [hserved] at this
      simpa using this.symm
    obtain ⟨⟨e, he, hheld⟩, hck⟩ :=
      C12_unsafe_needs_match c { r with rnd := streamAt ms r s i } hne hunsafe tok tok hserve
    exact ⟨tok, hp, ⟨e, he, (heldAt_rnd r _ e tok).mp hheld⟩, hck⟩

/-- **C12_stack_rejected** — a rejection behind a stack is the rejection of one of its CSRF
    instances: the status is a 4xx and the method is unsafe (so safe requests are never
    rejected, however many instances are stacked). -/
theorem C12_stack_rejected (ms : List Mw) : ∀ (r : Req) (s : List Nat) (st : Nat),
    serveStack ms r s = .rejected st → (400 ≤ st ∧ st < 500) ∧ safeMethod r.method = false := by
  induction ms with
  | nil => intro r s st h; simp [serveStack] at h
  | cons m ms ih =>
    intro r s st h
    cases m with
    | requestID =>
      simp only [serveStack] at h
      split at h
      · exact ih r _ st (push_rejected _ _ _ h)
      · split at h
        · simp at h
        · exact ih r _ st (push_rejected _ _ _ h)
    | csrf c =>
      simp only [serveStack] at h
      cases hh : handle c { r with rnd := s } with
      | skipped =>
        simp only [hh] at h
        exact ih r _ st (push_rejected _ _ _ h)
      | served res =>
        simp only [hh] at h
        cases res with
        | panic => simp at h
        | passed sc ctx => exact ih r _ st (push_rejected _ _ _ h)
        | rejected st' =>
          simp only [StackOut.rejected.injEq] at h
          subst h
          have hserve : serve c { r with rnd := s } = .rejected st' := by
            have := (C12_skipper c { r with rnd := s }).2.1 (by rw [hh]; simp)
            rw [hh] at this
            simpa using this.symm
          have := C12_reject_status c _ st' hserve
          exact ⟨this.2.1, this.2.2.2⟩

/-! ## non-vacuity: CSRF, RequestID(), second CSRF instance on one stream -/

def cfgSecond : Cfg :=
  { tokenLength := 2, extractors := [.header (lit "X-Csrf2") []], cookieName := lit "_csrf2" }

/-- a GET without cookies: the first instance draws "ABaz" from the first buffer (5 bytes),
    `RequestID()` the next 40 bytes, the second instance the 2 bytes after that -/
def stream3 : List Nat := [0, 1, 26, 51, 0] ++ List.replicate 40 2 ++ [3, 4]

example : serveStack [.csrf cfgDefault, .requestID, .csrf cfgSecond] reqFresh stream3 =
    .passed [.csrf (lit "ABaz") (lit "ABaz") (cookieAttrs cfgDefault),
             .rid (List.replicate 32 67),
             .csrf (lit "DE") (lit "DE") (cookieAttrs cfgSecond)] := by decide

/-- the second instance rejects although the first one is satisfied -/
example : serveStack [.csrf cfgDefault, .csrf cfgSecond]
    { reqOK with cookies := [(lit "_csrf", lit "tokn"), (lit "_csrf2", lit "zz")] } [] = .rejected 400 := by decide

/-! ## what the handler finds in the context: shared ContextKey, preset values (round 5) -/

/-- no item of `l` is a CSRF instance that published under `key` -/
def NoPub (key : Str) (l : List (Mw × Pub)) : Prop :=
  ∀ c sc ctx a, (Mw.csrf c, Pub.csrf sc ctx a) ∈ l → c.contextKey ≠ key

theorem ctxOf_noPub (key : Str) (l : List (Mw × Pub)) : NoPub key l → ∀ cur, ctxOf key l cur = cur := by
  induction l with
  | nil => intro _ cur; rfl
  | cons x l ih =>
    intro h cur
    have hl : NoPub key l := fun c sc ctx a hm => h c sc ctx a (List.mem_cons_of_mem _ hm)
    obtain ⟨m, p⟩ := x
    cases m with
    | requestID => simp only [ctxOf]; exact ih hl cur
    | csrf c =>
      cases p with
      | skipped => simp only [ctxOf]; exact ih hl cur
      | rid id => simp only [ctxOf]; exact ih hl cur
      | csrf sc ctx a =>
        simp only [ctxOf]
        have : c.contextKey ≠ key := h c sc ctx a List.mem_cons_self
        simp only [this, ite_false]
        exact ih hl cur

/-- **C12_ctx_innermost** — whatever was in the context before (a value preset by an earlier
    middleware, the token of an outer CSRF instance with the same ContextKey), the handler finds
    under `key` the token of the LAST instance of the stack that published under `key`: every
    instance overwrites the key with its own token and none ever reads it. -/
theorem C12_ctx_innermost (key : Str) (pre post : List (Mw × Pub)) (c : Cfg) (sc tok : Str)
    (a : CookieAttrs) (hk : c.contextKey = key) (hpost : NoPub key post) (cur : Option Str) :
    ctxOf key (pre ++ (Mw.csrf c, Pub.csrf sc tok a) :: post) cur = some tok := by
  induction pre generalizing cur with
  | nil =>
    simp only [List.nil_append, ctxOf, hk, ite_true]
    exact ctxOf_noPub key post hpost _
  | cons x pre ih =>
    obtain ⟨m, p⟩ := x
    cases m with
    | requestID => simp only [List.cons_append, ctxOf]; exact ih _
    | csrf c' =>
      cases p with
      | skipped => simp only [List.cons_append, ctxOf]; exact ih _
      | rid id => simp only [List.cons_append, ctxOf]; exact ih _
      | csrf sc' ctx' a' => simp only [List.cons_append, ctxOf]; exact ih _

/-- a skipped instance, or one whose key nobody publishes under, leaves what was there -/
theorem C12_ctx_untouched (key : Str) (l : List (Mw × Pub)) (h : NoPub key l) (init : Option (Str × Str)) :
    ctxOf key l (initCtx init key) = initCtx init key := ctxOf_noPub key l h _

/-- outer instance (default key), `RequestID()`, inner instance with its own cookie but the same
    default key: both publish their own Set-Cookie, the handler finds the INNER token under "csrf" -/
example : handlerView [.csrf cfgDefault, .requestID, .csrf cfgSecond]
    [.csrf (lit "ABaz") (lit "ABaz") (cookieAttrs cfgDefault), .rid (lit "r"),
     .csrf (lit "DE") (lit "DE") (cookieAttrs cfgSecond)] (some (lit "csrf", lit "preset")) =
    [.csrf (some (lit "ABaz", cookieAttrs cfgDefault)) (some (lit "DE")), .rid (lit "r"),
     .csrf (some (lit "DE", cookieAttrs cfgSecond)) (some (lit "DE"))] := by decide

/-- a skipped instance publishes nothing: the handler finds what an earlier middleware preset -/
example : handlerView [.csrf cfgDefault] [.skipped] (some (lit "csrf", lit "preset")) =
    [.csrf none (some (lit "preset"))] := by decide

/-! ## Set-Cookie lines on the wire (round 6) -/

/-- the cookies the publishing CSRF instances of a stack add, in order -/
def csrfLines : List (Mw × Pub) → List (Str × Str)
  | [] => []
  | (.csrf c, .csrf sc _ _) :: rest => (c.cookieName, sc) :: csrfLines rest
  | _ :: rest => csrfLines rest

/-- **C12_wire_cookies** — the Set-Cookie lines after the stack ran are exactly: every line that
    was there before (the application's own cookies, whatever their names — also names that start
    with a CSRF cookie name), unchanged and in order, followed by ONE line per CSRF instance that
    passed the request, in stack order, each with that instance's cookie name and token.  No
    instance removes or replaces a line: stacked instances whose cookie names are prefixes of one
    another (`_csrf` / `_csrf_site`, either nesting) both reach the client. -/
theorem C12_wire_cookies (l : List (Mw × Pub)) : ∀ before : List (Str × Str),
    wireCookies before l = before ++ csrfLines l := by
  induction l with
  | nil => intro before; simp [wireCookies, csrfLines]
  | cons x l ih =>
    intro before
    obtain ⟨m, p⟩ := x
    cases m with
    | requestID => simp only [wireCookies, csrfLines]; exact ih before
    | csrf c =>
      cases p with
      | skipped => simp only [wireCookies, csrfLines]; exact ih before
      | rid id => simp only [wireCookies, csrfLines]; exact ih before
      | csrf sc ctx a =>
        simp only [wireCookies, csrfLines]
        rw [ih]; simp

/-- outer `_csrf_site`, inner `_csrf`, application cookie `_csrf_site_state` before: all on the wire -/
example : wireNames
    [.csrf { cfgDefault with cookieName := lit "_csrf_site" }, .csrf { cfgSecond with cookieName := lit "_csrf" }]
    [.csrf (lit "aa") (lit "aa") (cookieAttrs cfgDefault), .csrf (lit "bb") (lit "bb") (cookieAttrs cfgSecond)] true =
    [lit "session", lit "_csrf_site_state", lit "_csrf_site", lit "_csrf", lit "after"] := by decide

/-! ## every lookup source is parsed on its own (round 7) -/

/-- the extractor a single `<source>:<name>[:<cut-prefix>]` element stands for (none for unknown words) -/
def ownExtractor (s : Str) : Option Extractor :=
  match parseSource s with
  | some (some e) => some e
  | _ => none

/-- **C12_sources_independent** — `CreateExtractors` builds the extractor of every source from
    that source's own text alone, in order: nothing (a cut-prefix, a name) is carried from one
    element of TokenLookup to the next, so `header:A:pfx,header:B` reads header B whole and
    `header:B,header:A:pfx` means the same two locations in the other order. -/
theorem C12_sources_independent (ss : List Str) : ∀ es, parseSources ss = some es →
    es = ss.filterMap ownExtractor ∧ ∀ s ∈ ss, parseSource s ≠ none := by
  induction ss with
  | nil => intro es h; simp [parseSources] at h; subst h; simp
  | cons s ss ih =>
    intro es h
    simp only [parseSources] at h
    cases hs : parseSource s with
    | none => simp [hs] at h
    | some o =>
      simp only [hs] at h
      cases hr : parseSources ss with
      | none => simp [hr] at h
      | some es' =>
        simp only [hr, Option.some.injEq] at h
        obtain ⟨h1, h2⟩ := ih es' hr
        refine ⟨?_, ?_⟩
        · cases o with
          | none => simp [List.filterMap_cons, ownExtractor, hs, ← h, h1]
          | some e => simp [List.filterMap_cons, ownExtractor, hs, ← h, h1]
        · intro x hx
          simp only [List.mem_cons] at hx
          rcases hx with rfl | hx
          · simp [hs]
          · exact h2 x hx

example : createExtractors (lit "header:X-Legacy-Token:csrf ,header:X-CSRF-Token") =
    some [.header (lit "X-Legacy-Token") (lit "csrf "), .header (lit "X-Csrf-Token") []] := by decide
example : createExtractors (lit "header:X-CSRF-Token,header:X-Legacy-Token:csrf ") =
    some [.header (lit "X-Csrf-Token") [], .header (lit "X-Legacy-Token") (lit "csrf ")] := by decide

/-- a header that merely CONTAINS the token as a list element does not hold it -/
example : serve cfgDefault { reqOK with headers := [(lit "X-Csrf-Token", lit "zzz, tokn")] } = .rejected 403 ∧
    serve cfgDefault { reqOK with headers := [(lit "X-Csrf-Token", lit "tokn,")] } = .rejected 403 := by decide

end C12
