import EchoProofs.C15
/-!
# C15 — the constructors, the Skipper and what happens around the handler (round 4)

`serveX` (lean/EchoModel/C15.lean) is one request through the middleware a constructor returned:
`Gzip()` / `GzipWithConfig` with its "Defaults" block, the `Skipper`'s answer, a compression
level `gzip.NewWriterLevel` rejects, a handler that sets `Content-Encoding: gzip` itself, and a
handler that returns an error (the application's error handler then writes its response after
the middleware has unwound).  The theorems say

* in the ordinary situation `serveX` IS `serve`, so every theorem of `EchoProofs/C15.lean` speaks
  about it (`C15_cfg_plain`), whatever constructor was used (`C15_defaults`);
* a skipped request is served as if the middleware were not there (`C15_skipped_untouched`);
* an error returned by a handler that has started its response changes nothing
  (`C15_error_after_start`), one returned by a handler that has not reaches the client uncompressed
  and without `Content-Encoding`, even if the handler had announced one (`C15_error_before_start`);
* a body-less response never goes out with `Content-Encoding: gzip`, even if the handler had set
  that header itself (`C15_preset_ce_bodyless`);
* a rejected compression level answers 500 without running the handler and without touching the
  pools (`C15_pool_error`);
* requests served from inside each other through such an instance stay independent
  (`C15_nestedX_independent`, `C15_nestedX_sequence`);
* a request the Decompress `Skipper` excludes reaches the handler untouched (`C15_decompress_skipped`).
-/
namespace C15

/-! ## the constructors -/

/-- **C15_defaults** — what the constructors make of their arguments: `Gzip()` is level -1 /
    MinLength 0; `Level` 0 means the default level; a negative `MinLength` means 0 (everything
    is compressed); every other value is taken as given. -/
theorem C15_defaults (l m : Int) :
    Ctor.gzip.config = ⟨-1, 0⟩ ∧
    (Ctor.gzipWith ⟨0, m⟩).config.level = -1 ∧
    (l ≠ 0 → (Ctor.gzipWith ⟨l, m⟩).config.level = l) ∧
    (m < 0 → (Ctor.gzipWith ⟨l, m⟩).config = (Ctor.gzipWith ⟨l, 0⟩).config) ∧
    (0 ≤ m → (Ctor.gzipWith ⟨l, m⟩).config.minLength = m) ∧
    0 ≤ (Ctor.gzipWith ⟨l, m⟩).config.minLength := by
  refine ⟨by decide, by simp [Ctor.config, GzipConfig.normalise], ?_, ?_, ?_, ?_⟩
  · intro hl; simp [Ctor.config, GzipConfig.normalise, hl]
  · intro hm; simp [Ctor.config, GzipConfig.normalise, hm]
  · intro hm
    have : ¬ m < 0 := by omega
    simp [Ctor.config, GzipConfig.normalise, this]
  · simp only [Ctor.config, GzipConfig.normalise]
    split <;> omega

/-! ## the ordinary situation -/

theorem serveSplitX_eq (cfg : GzipConfig) (pool : Pool) (x : ReqX) (a b : List Op) :
    serveSplitX cfg pool x a b = serveSplitX cfg pool x (a ++ b) [] := by
  unfold serveSplitX
  simp only [runProg_append, runProg, List.append_nil]

/-- **C15_cfg_plain** — no Skipper veto, a level gzip accepts, a handler that leaves
    `Content-Encoding` alone and returns nil: the middleware built by any constructor serves the
    request exactly as `serve` with the normalised `MinLength` does.  All theorems of
    `EchoProofs/C15.lean` (`C15_roundtrip`, `C15_ce_iff_gzip`, `C15_write_count`, …) therefore hold
    for it. -/
theorem C15_cfg_plain (cfg : GzipConfig) (pool : Pool) (x : ReqX)
    (hs : x.skip = false) (hp : x.presetCE = false) (hf : x.fail = none)
    (hl : levelValid cfg.level = true) :
    serveX cfg pool x = serve cfg.minLength.toNat pool x.rq := by
  unfold serveX serveSplitX serve
  simp only [hs, hp, hf, hl, afterChain, runProg, List.append_nil, Bool.false_eq_true, if_false,
    Bool.not_true]

/-! ## the Skipper -/

/-- neither the live header map nor the one that went out carries `Vary` -/
def NV (r : Raw) : Prop := r.hdr.vary = false ∧ r.sent.vary = false

theorem NV.writeHeader {r : Raw} (h : NV r) (c : Nat) : NV (r.writeHeader c) := by
  unfold Raw.writeHeader; split
  · exact h
  · exact ⟨h.1, h.1⟩

theorem NV.write {r : Raw} (h : NV r) (it : Item) : NV (r.write it) := by
  have := h.writeHeader 200
  exact ⟨this.1, this.2⟩

theorem NV.flush {r : Raw} (h : NV r) : NV r.flush := by
  have := h.writeHeader 200
  exact ⟨this.1, this.2⟩

/-- a state whose writer was never wrapped and that has not seen `Vary` -/
def PlainNV (s : St) : Prop := s.grw = none ∧ NV s.raw

theorem PlainNV.respWriteHeader {s : St} (h : PlainNV s) (c : Nat) : PlainNV (respWriteHeader s c) := by
  unfold C15.respWriteHeader writerWriteHeader
  split
  · exact h
  · simp only [h.1]; exact ⟨rfl, h.2.writeHeader c⟩

theorem PlainNV.respWrite {s : St} (h : PlainNV s) (b : Bytes) : PlainNV (respWrite s b).1 := by
  rw [respWrite_eq]
  have h' : PlainNV (if s.committed then s else C15.respWriteHeader s (if s.status == 0 then 200 else s.status)) := by
    split
    · exact h
    · exact h.respWriteHeader _
  generalize (if s.committed then s else C15.respWriteHeader s (if s.status == 0 then 200 else s.status)) = s' at h'
  simp only [writerWrite, h'.1]
  exact ⟨rfl, h'.2.write _⟩

theorem PlainNV.respFlush {s : St} (h : PlainNV s) : PlainNV (respFlush s) := by
  unfold C15.respFlush
  have h' : PlainNV (if s.committed then s else C15.respWriteHeader s (if s.status == 0 then 200 else s.status)) := by
    split
    · exact h
    · exact h.respWriteHeader _
  generalize (if s.committed then s else C15.respWriteHeader s (if s.status == 0 then 200 else s.status)) = s' at h'
  simp only [writerFlush, h'.1]
  exact ⟨rfl, h'.2.flush⟩

theorem PlainNV.copyChunks (cs : List Bytes) : ∀ {s : St}, PlainNV s → PlainNV (copyChunks s cs).1 := by
  induction cs with
  | nil => intro s h; exact h
  | cons c cs ih =>
    intro s h
    simp only [C15.copyChunks]
    split
    · exact h.respWrite c
    · exact ih (h.respWrite c)

theorem PlainNV.step {s : St} (h : PlainNV s) (op : Op) : PlainNV (step s op).1 := by
  cases op with
  | setLen n => exact ⟨h.1, h.2.1, h.2.2⟩
  | writeHeader c => exact h.respWriteHeader c
  | write b => exact h.respWrite b
  | flush => exact h.respFlush
  | stream c cs fl => exact PlainNV.copyChunks _ (h.respWriteHeader c)
  | streamWT c d =>
    simp only [C15.step]
    split
    · exact h.respWriteHeader c
    · exact (h.respWriteHeader c).respWrite d

theorem PlainNV.runProg (ops : List Op) : ∀ {s : St}, PlainNV s → PlainNV (runProg s ops).1 := by
  induction ops with
  | nil => intro s h; exact h
  | cons op ops ih => intro s h; exact ih (h.step op)


theorem inv_init_bare (m : Nat) : Inv m {} {} := by
  refine .plain rfl ?_ ?_
  · exact ⟨fun _ => ⟨rfl, rfl, rfl⟩, fun c h => by simp at h, fun _ => rfl, fun h => by simp at h⟩
  · exact ⟨rfl, rfl, fun h => by simp at h, rfl, fun _ => rfl⟩

/-- **C15_skipped_untouched** — a request the `Skipper` excludes is served as if the middleware
    were not installed: the bytes go out as written (no `Content-Encoding`, no `Vary`), with the
    status the handler chose, every write reports its length, the pools are not touched. -/
theorem C15_skipped_untouched (cfg : GzipConfig) (pool : Pool) (x : ReqX)
    (hs : x.skip = true) (hp : x.presetCE = false) (hf : x.fail = none) :
    let r := (serveX cfg pool x).1
    r.raw.sent.ce = false ∧ r.raw.sent.vary = false ∧
    rawBytes r.raw.body = some (written x.rq.prog) ∧ r.raw.status = chosen x.rq.prog ∧
    r.rets = x.rq.prog.map expectedRet ∧ (serveX cfg pool x).2 = pool := by
  unfold serveX serveSplitX
  simp only [hs, hp, hf, afterChain, runProg, List.append_nil, if_true]
  obtain ⟨h1, h2⟩ := runProg_inv 0 x.rq.prog {} {} (inv_init_bare 0)
  have hn := runProg_grw_none x.rq.prog {} rfl
  have hfin := final_plain h1 hn
  have hce : ((runProg {} x.rq.prog).1.raw.writeHeader 200).sent.ce = false := by
    cases hc : ((runProg {} x.rq.prog).1.raw.writeHeader 200).sent.ce with
    | false => rfl
    | true =>
      exfalso
      obtain ⟨d, hd⟩ := hfin.ce_gz.1 hc
      cases h1 with
      | plain _ _ p => exact not_gzip_of_raw _ _ (by rw [Raw.writeHeader_body]; exact p.body) ⟨d, hd⟩
      | buf w h' _ _ _ _ => rw [hn] at h'; cases h'
      | gz w _ h' _ _ _ _ => rw [hn] at h'; cases h'
  refine ⟨hce, ?_, ?_, ?_, h2, trivial⟩
  · -- nothing in a program touches Vary
    exact ((PlainNV.runProg x.rq.prog (s := {}) ⟨rfl, rfl, rfl⟩).2.writeHeader 200).2
  · have := hfin.decode
    rw [run_W] at this
    simpa [clientDecode, hce] using this
  · rw [hfin.status, run_ch_none x.rq.prog {} rfl]

/-! ## a compression level gzip rejects -/

/-- **C15_pool_error** — `GzipConfig.Level` outside -2…9: `gzip.NewWriterLevel` fails, the pool
    hands out that error, and a request that accepts gzip is answered 500 by the error handler —
    uncompressed, without `Content-Encoding` — the handler never runs, the pools stay as they were.
    (Requests that do not accept gzip are served normally: `C15_cfg_plain` does not need the
    level for them — see `C15_pool_error_not_accepted`.) -/
theorem C15_pool_error (cfg : GzipConfig) (pool : Pool) (x : ReqX)
    (hs : x.skip = false) (ha : acceptsGzip x.rq.acceptEncoding = true)
    (hl : levelValid cfg.level = false) :
    let r := (serveX cfg pool x).1
    r.rets = [] ∧ r.raw.status = 500 ∧ r.raw.sent.ce = false ∧ r.raw.sent.vary = true ∧
    r.raw.body = [.raw (errBody 500)] ∧ (serveX cfg pool x).2 = pool := by
  unfold serveX serveSplitX
  simp only [hs, ha, hl, Bool.false_eq_true, if_false, if_true, Bool.not_false]
  decide

theorem C15_pool_error_not_accepted (cfg : GzipConfig) (pool : Pool) (x : ReqX)
    (hs : x.skip = false) (hp : x.presetCE = false) (hf : x.fail = none)
    (ha : acceptsGzip x.rq.acceptEncoding = false) :
    serveX cfg pool x = serve cfg.minLength.toNat pool x.rq := by
  unfold serveX serveSplitX serve
  simp only [hs, hp, hf, ha, afterChain, runProg, List.append_nil, Bool.false_eq_true, if_false]

/-! ## a handler that returns an error -/

/-- the op starts the response (everything except setting a header) -/
def Op.starts : Op → Bool
  | .setLen _ => false
  | _ => true

theorem respWrite_committed (s : St) (b : Bytes) : (respWrite s b).1.committed = true := by
  rw [respWrite_eq]
  have h' : (if s.committed then s else respWriteHeader s (if s.status == 0 then 200 else s.status)).committed = true := by
    by_cases hc : s.committed = true
    · simp [hc]
    · simp only [hc, Bool.false_eq_true, if_false]; exact respWriteHeader_committed _ _
  generalize (if s.committed then s else respWriteHeader s (if s.status == 0 then 200 else s.status)) = s' at h'
  unfold writerWrite
  split
  · simp only [grwWrite]
    split
    · split <;> simp [startGzip, h']
    · simp [h']
  · exact h'

theorem respFlush_committed (s : St) : (respFlush s).committed = true := by
  unfold respFlush
  have h' : (if s.committed then s else respWriteHeader s (if s.status == 0 then 200 else s.status)).committed = true := by
    by_cases hc : s.committed = true
    · simp [hc]
    · simp only [hc, Bool.false_eq_true, if_false]; exact respWriteHeader_committed _ _
  generalize (if s.committed then s else respWriteHeader s (if s.status == 0 then 200 else s.status)) = s' at h'
  cases hg : s'.grw with
  | some w =>
    simp only [writerFlush, hg, grwFlush]
    split <;> simp [startGzip, h']
  | none => simp only [writerFlush, hg]; exact h'

theorem copyChunks_committed (cs : List Bytes) : ∀ s : St, s.committed = true →
    (copyChunks s cs).1.committed = true := by
  induction cs with
  | nil => intro s h; exact h
  | cons c cs ih =>
    intro s h
    simp only [copyChunks]
    split
    · exact respWrite_committed s c
    · exact ih _ (respWrite_committed s c)

theorem step_committed (s : St) (op : Op) (h : s.committed = true ∨ op.starts = true) :
    (step s op).1.committed = true := by
  cases op with
  | setLen n => rcases h with h | h; exact h; exact Bool.noConfusion h
  | writeHeader c => exact respWriteHeader_committed s c
  | write b => exact respWrite_committed s b
  | flush => exact respFlush_committed s
  | stream c cs fl => exact copyChunks_committed _ _ (respWriteHeader_committed s c)
  | streamWT c d =>
    simp only [step]
    split
    · exact respWriteHeader_committed s c
    · exact respWrite_committed _ d

theorem runProg_committed (ops : List Op) : ∀ s : St, (s.committed = true ∨ ops.any Op.starts = true) →
    (runProg s ops).1.committed = true := by
  induction ops with
  | nil => intro s h; rcases h with h | h; exact h; simp at h
  | cons op ops ih =>
    intro s h
    simp only [runProg]
    apply ih
    by_cases ho : op.starts = true
    · exact Or.inl (step_committed s op (Or.inr ho))
    · rcases h with h | h
      · exact Or.inl (step_committed s op (Or.inl h))
      · right
        simp only [List.any_cons, Bool.or_eq_true] at h
        rcases h with h | h
        · exact absurd h ho
        · exact h

theorem finalise_committed (s : St) (w : Grw) : (finalise s w).1.committed = s.committed := by
  unfold finalise
  simp only
  split
  · rfl
  · split <;> rfl

/-- **C15_error_after_start** — the handler has started its response (a `WriteHeader`, `Write`,
    `Flush` or `Stream` happened) and then returns an error: the error handler finds the response
    committed and adds nothing — the client gets exactly what it would have got had the handler
    returned nil, so everything proved about that response still holds. -/
theorem C15_error_after_start (cfg : GzipConfig) (pool : Pool) (x : ReqX) (code : Nat)
    (hst : x.rq.prog.any Op.starts = true) (hf : x.fail = some code) :
    serveX cfg pool x = serveX cfg pool { x with fail := none } := by
  have hc : ∀ s : St, (runProg s x.rq.prog).1.committed = true :=
    fun s => runProg_committed x.rq.prog s (Or.inr hst)
  unfold serveX serveSplitX
  simp only [hf, afterChain, runProg, List.append_nil]
  split
  · simp [errorHandler, hc]
  · split
    · split
      · rfl
      · split
        · simp [errorHandler, finalise_committed, hc]
        · simp [errorHandler, hc]
    · simp [errorHandler, hc]

/-- a program that only sets headers leaves everything but `Content-Length` as it was -/
theorem runProg_headers_only (ops : List Op) (h : ops.any Op.starts = false) : ∀ s : St,
    ∃ cl, (runProg s ops).1 = { s with raw := { s.raw with hdr := { s.raw.hdr with cl := cl } } } := by
  induction ops with
  | nil => intro s; exact ⟨s.raw.hdr.cl, rfl⟩
  | cons op ops ih =>
    intro s
    simp only [List.any_cons, Bool.or_eq_false_iff] at h
    cases op with
    | setLen n =>
      obtain ⟨cl, hcl⟩ := ih h.2 (step s (.setLen n)).1
      exact ⟨cl, by simp only [runProg]; rw [hcl]; rfl⟩
    | writeHeader c => exact absurd h.1 (by simp [Op.starts])
    | write b => exact absurd h.1 (by simp [Op.starts])
    | flush => exact absurd h.1 (by simp [Op.starts])
    | stream c cs fl => exact absurd h.1 (by simp [Op.starts])
    | streamWT c d => exact absurd h.1 (by simp [Op.starts])

/-- **C15_error_before_start** — the handler returns an error without having started a response
    (it may have set headers — even `Content-Encoding: gzip`, as a handler serving pre-compressed
    files does before it finds the file missing).  With gzip accepted the middleware has unwound
    by the time the error handler writes: the error body reaches the client as it is, with the
    error's status, and WITHOUT `Content-Encoding`. -/
theorem C15_error_before_start (cfg : GzipConfig) (pool : Pool) (x : ReqX) (code : Nat)
    (hs : x.skip = false) (ha : acceptsGzip x.rq.acceptEncoding = true)
    (hl : levelValid cfg.level = true)
    (hst : x.rq.prog.any Op.starts = false) (hf : x.fail = some code) :
    let r := (serveX cfg pool x).1.raw
    r.status = code ∧ r.sent.ce = false ∧ r.sent.vary = true ∧ r.body = [.raw (errBody code)] := by
  unfold serveX serveSplitX
  simp only [hs, ha, hl, hf, afterChain, runProg, List.append_nil, Bool.false_eq_true, if_false,
    if_true, Bool.not_true, Gz.reset]
  obtain ⟨cl, hcl⟩ := runProg_headers_only x.rq.prog hst
    { raw := { hdr := { ce := x.presetCE, vary := true } }, gz := { toRaw := true },
      grw := some { minLength := cfg.minLength.toNat, buffer := [] } }
  rw [hcl]
  cases x.presetCE <;>
    simp [finalise, errorHandler, respWriteHeader, writerWriteHeader, respWrite, Raw.writeHeader,
      Raw.write, gzClose, gzHeaderIfNeeded, emit, Gz.reset]

/-! ## a handler that sets `Content-Encoding: gzip` itself -/

/-- the shape of the state while a program has made no `Write` call and no `Flush` -/
structure Bodyless (ce : Bool) (s : St) : Prop where
  grw : ∃ w, s.grw = some w ∧ w.wroteBody = false ∧ w.exceeded = false
  rc : s.raw.committed = false
  body : s.raw.body = []
  gz : s.gz = { toRaw := true }
  hce : s.raw.hdr.ce = ce

theorem Bodyless.respWriteHeader {ce : Bool} {s : St} (h : Bodyless ce s) (c : Nat) :
    Bodyless ce (respWriteHeader s c) := by
  obtain ⟨w, hw, h1, h2⟩ := h.grw
  unfold C15.respWriteHeader writerWriteHeader
  split
  · exact h
  · simp only [hw, grwWriteHeader]
    exact ⟨⟨_, rfl, h1, h2⟩, h.rc, h.body, h.gz, h.hce⟩

theorem Bodyless.step {ce : Bool} {s : St} (h : Bodyless ce s) (op : Op)
    (ho : op.makesWrite = false ∧ op ≠ .flush) : Bodyless ce (step s op).1 := by
  cases op with
  | setLen n => exact ⟨h.grw, h.rc, h.body, h.gz, h.hce⟩
  | writeHeader c => exact h.respWriteHeader c
  | write b => exact absurd ho.1 (by simp [Op.makesWrite])
  | flush => exact absurd rfl ho.2
  | stream c cs fl =>
    have hcs : cs.filter (fun c => !c.isEmpty) = [] := by
      have := ho.1
      simp only [Op.makesWrite, List.any_eq_false] at this
      exact List.filter_eq_nil_iff.2 (fun c hc => by simpa using this c hc)
    simp only [C15.step, hcs, copyChunks]
    exact h.respWriteHeader c
  | streamWT c d =>
    have hd : d.isEmpty = true := by simpa [Op.makesWrite] using ho.1
    simp only [C15.step, hd, if_true]
    exact h.respWriteHeader c

theorem Bodyless.runProg {ce : Bool} (ops : List Op) (ho : ∀ op ∈ ops, op.makesWrite = false ∧ op ≠ .flush) :
    ∀ {s : St}, Bodyless ce s → Bodyless ce (runProg s ops).1 := by
  induction ops with
  | nil => intro s h; exact h
  | cons op ops ih =>
    intro s h
    exact ih (fun o hm => ho o (by simp [hm])) (h.step op (ho op (by simp)))

/-- **C15_preset_ce_bodyless** — a handler that announces `Content-Encoding: gzip` itself and then
    writes no body (status only: 304, a redirect, HEAD …), with gzip accepted: the response goes
    out empty and WITHOUT `Content-Encoding` — the header is there exactly when the body is a gzip
    stream, whoever set it.  (Whatever the handler returns: see `C15_error_after_start`.) -/
theorem C15_preset_ce_bodyless (cfg : GzipConfig) (pool : Pool) (x : ReqX)
    (hs : x.skip = false) (ha : acceptsGzip x.rq.acceptEncoding = true)
    (hl : levelValid cfg.level = true) (hf : x.fail = none)
    (ho : ∀ op ∈ x.rq.prog, op.makesWrite = false ∧ op ≠ .flush) :
    let r := (serveX cfg pool x).1.raw
    r.sent.ce = false ∧ r.body = [] := by
  unfold serveX serveSplitX
  simp only [hs, ha, hl, hf, afterChain, runProg, List.append_nil, Bool.false_eq_true, if_false,
    if_true, Bool.not_true, Gz.reset]
  have hb := Bodyless.runProg (ce := x.presetCE) x.rq.prog ho
    (s := { raw := { hdr := { ce := x.presetCE, vary := true } }, gz := { toRaw := true },
            grw := some { minLength := cfg.minLength.toNat, buffer := [] } })
    ⟨⟨_, rfl, rfl, rfl⟩, rfl, rfl, rfl, rfl⟩
  obtain ⟨w, hw, h1, h2⟩ := hb.grw
  simp only [hw]
  have hrc := hb.rc
  have hbody := hb.body
  have hgz := hb.gz
  generalize (C15.runProg _ x.rq.prog).1 = s at hw hrc hbody hgz
  simp only [finalise, h1, Bool.not_false, if_true, Gz.reset, gzClose, gzHeaderIfNeeded, emit,
    Bool.false_eq_true, if_false]
  cases hce : s.raw.hdr.ce <;> cases hwh : w.wroteHeader <;>
    simp [Raw.writeHeader, hrc, hbody, hce]

/-! ## nested requests through such an instance -/

theorem serveX_pool_clean (cfg : GzipConfig) (pool pool' : Pool) (x : ReqX) :
    (serveX cfg pool x).1 = (serveX cfg pool' x).1 := by
  unfold serveX serveSplitX
  split
  · rfl
  · split
    · split
      · rfl
      · simp only [Gz.reset]
        split <;> rfl
    · rfl

theorem serveSplitX_take_drop (cfg : GzipConfig) (p : Pool) (x : ReqX) (n : Nat) :
    serveSplitX cfg p x (x.rq.prog.take n) (x.rq.prog.drop n) = serveX cfg p x := by
  rw [serveSplitX_eq, List.take_append_drop]; rfl

theorem servePooledX_result (cfg : GzipConfig) (pools : List Pool) (x : ReqX) :
    (servePooledX cfg pools x).1 = (serveX cfg {} x).1 := by
  unfold servePooledX
  split
  · exact serveX_pool_clean cfg _ {} x
  · rfl

/-- **C15_nestedX_independent** — as `C15_nested_independent`, for the middleware of any
    constructor, with skipped requests, failing handlers and a rejected level in the mix: the
    outer response and the nested one are each what `serveX` gives for that request alone (the
    nested one exists only if the outer handler ran at all). -/
theorem C15_nestedX_independent (cfg : GzipConfig) (pools : List Pool) (rq : NReqX) :
    (serveNestedX cfg pools rq).1 =
      (serveX cfg {} rq.outer).1 ::
        (match rq.inner with
         | none => []
         | some i =>
           if rq.outer.skip || !acceptsGzip rq.outer.rq.acceptEncoding || levelValid cfg.level
           then [(serveX cfg {} i).1] else []) := by
  unfold serveNestedX
  simp only [serveSplitX_take_drop]
  have h1 : ∀ p, (serveX cfg p rq.outer).1 = (serveX cfg {} rq.outer).1 :=
    fun p => serveX_pool_clean cfg p {} rq.outer
  cases hi : rq.inner with
  | none => simp [h1]
  | some i =>
    simp only [h1, List.cons.injEq, true_and]
    split <;> simp [servePooledX_result]

theorem C15_nestedX_sequence (cfg : GzipConfig) (rs : List NReqX) : ∀ ps : List Pool,
    serveNestedAllX cfg ps rs = rs.flatMap (fun r => (serveNestedX cfg [] r).1) := by
  induction rs with
  | nil => intro _; rfl
  | cons r rs ih =>
    intro ps
    simp only [serveNestedAllX, List.flatMap_cons]
    rw [ih, C15_nestedX_independent cfg ps r, C15_nestedX_independent cfg [] r]

/-! ## Decompress: constructors and Skipper -/

/-- **C15_decompress_skipped** — a request the `Skipper` excludes reaches the handler with its
    body untouched, gzip-labelled or not, and leaves the reader pool alone. -/
theorem C15_decompress_skipped (pool : List Nat) (ce : List Char) (body : Body) :
    decompressPooled pool (effCE true ce) body =
      (⟨true, (match body with | .plain b => .bytes b | .gzip _ _ => .untouchedGzip), false⟩, pool) := by
  have h : ([] : List Char) ≠ "gzip".toList := by decide
  have h' : ([] : List Char) ≠ ['g', 'z', 'i', 'p'] := h
  simp only [effCE, if_true, decompressPooled]
  cases body <;> simp [decompress, h']

/-- requests that are not skipped are served as the un-configured middleware serves them -/
theorem C15_decompress_not_skipped (r : DReqX) (h : r.skip = false)
    (hn : ∀ n, r.nested = some n → n.1 = false) :
    r.eff = ⟨r.ce, r.body, r.nested.map (fun n => (n.2.1, n.2.2))⟩ := by
  unfold DReqX.eff effCE
  simp only [h, Bool.false_eq_true, if_false]
  cases hnn : r.nested with
  | none => rfl
  | some n => simp [hn n hnn]

/-! ## non-vacuity -/

def reqX (ae : String) (prog : List Op) : ReqX := { rq := ⟨ae.toList, prog⟩ }

-- Gzip(): MinLength 0, everything is compressed
example : canon (serveX Ctor.gzip.config {} (reqX "gzip" [.write [1]])).1.raw.body = .gzip [1] true false := by decide
-- a negative MinLength behaves like 0
example : canon (serveX (Ctor.gzipWith ⟨-1, -5⟩).config {} (reqX "gzip" [.write [1]])).1.raw.body
    = .gzip [1] true false := by decide
-- skipped: no Vary, no compression
example : let r := (serveX (Ctor.gzipWith ⟨0, 0⟩).config {} { reqX "gzip" [.write [1,2]] with skip := true }).1.raw
    r.sent.vary = false ∧ r.sent.ce = false ∧ r.body = [.raw [1,2]] := by decide
-- level 42: 500, handler not run
example : let r := (serveX (Ctor.gzipWith ⟨42, 0⟩).config {} (reqX "gzip" [.write [1,2]])).1
    r.raw.status = 500 ∧ r.rets = [] := by decide
example : levelValid (Ctor.gzipWith ⟨0, 0⟩).config.level = true ∧ levelValid 42 = false ∧ levelValid (-3) = false := by decide
-- handler returns 404 without writing: the error body goes out uncompressed, status 404
example : let r := (serveX Ctor.gzip.config {} { reqX "gzip" [] with fail := some 404 }).1.raw
    r.status = 404 ∧ r.sent.ce = false ∧ r.body = [.raw (errBody 404)] := by decide
-- … also when the handler had announced Content-Encoding: gzip
example : let r := (serveX Ctor.gzip.config {} { reqX "gzip" [.setLen 3] with fail := some 404, presetCE := true }).1.raw
    r.status = 404 ∧ r.sent.ce = false ∧ r.body = [.raw (errBody 404)] := by decide
-- handler writes, then returns an error: nothing is added to the gzip stream
example : let r := (serveX Ctor.gzip.config {} { reqX "gzip" [.write [1,2]] with fail := some 500 }).1.raw
    r.status = 200 ∧ canon r.body = .gzip [1,2] true false := by decide
-- 304 with a Content-Encoding header set by the handler
example : let r := (serveX Ctor.gzip.config {} { reqX "gzip" [.writeHeader 304] with presetCE := true }).1.raw
    r.status = 304 ∧ r.sent.ce = false ∧ r.body = [] := by decide
-- Flush commits: a later WriteHeader is ignored by echo.Response, a returned error adds nothing
example : let r := (serveX Ctor.gzip.config {} { reqX "gzip" [.flush, .writeHeader 404] with fail := some 500 }).1.raw
    r.status = 200 ∧ canon r.body = .gzip [] true false := by decide
-- Decompress Skipper
example : (decompressSeqX [] [⟨true, "gzip".toList, .gzip [[1,2]] false, none⟩]) = [⟨true, .untouchedGzip, false⟩] := by decide
example : (decompressSeqX [] [⟨false, "gzip".toList, .gzip [[1,2]] false, none⟩]) = [⟨true, .bytes [1,2], false⟩] := by decide

end C15
