import EchoModel.C10
import EchoProofs.C10
/-!
# C10 — what an extra trusted range admits (`TrustIPRange`, `IPNet.Contains`)

`C10_trust_ranges` says an extra range admits what the model of `IPNet.Contains` admits.  This
file characterises that for IPv4 ranges numerically: a range `N/bits` (as `net.ParseCIDR` /
`net.CIDRMask` build it) contains an address — given as a 4-byte slice or as a 16-byte
IPv4-mapped slice — exactly when the two 32-bit numbers agree on their first `bits` bits.
-/
namespace C10

/-- a byte with its `k` most significant bits set (`k ≥ 8`: all) -/
def maskByte : Nat → Byte
  | 0 => 0x00 | 1 => 0x80 | 2 => 0xc0 | 3 => 0xe0 | 4 => 0xf0 | 5 => 0xf8 | 6 => 0xfc | 7 => 0xfe
  | _ => 0xff

/-- `net.CIDRMask(bits, 32)` -/
def cidrMask4 (bits : Nat) : List Byte :=
  [maskByte bits, maskByte (bits - 8), maskByte (bits - 16), maskByte (bits - 24)]

theorem m00_val : ∀ x : Byte, (x &&& (0x0 : Byte)).toNat = x.toNat / 256 * 256 := by decide
theorem m00 (x y : Byte) : (((x &&& (0x0 : Byte)) == (y &&& (0x0 : Byte))) = true) ↔ x.toNat / 256 = y.toNat / 256 := by
  rw [byte_beq, m00_val, m00_val]; omega
theorem m80_val : ∀ x : Byte, (x &&& (0x80 : Byte)).toNat = x.toNat / 128 * 128 := by decide
theorem m80 (x y : Byte) : (((x &&& (0x80 : Byte)) == (y &&& (0x80 : Byte))) = true) ↔ x.toNat / 128 = y.toNat / 128 := by
  rw [byte_beq, m80_val, m80_val]; omega
theorem mc0_val : ∀ x : Byte, (x &&& (0xc0 : Byte)).toNat = x.toNat / 64 * 64 := by decide
theorem mc0 (x y : Byte) : (((x &&& (0xc0 : Byte)) == (y &&& (0xc0 : Byte))) = true) ↔ x.toNat / 64 = y.toNat / 64 := by
  rw [byte_beq, mc0_val, mc0_val]; omega
theorem me0_val : ∀ x : Byte, (x &&& (0xe0 : Byte)).toNat = x.toNat / 32 * 32 := by decide
theorem me0 (x y : Byte) : (((x &&& (0xe0 : Byte)) == (y &&& (0xe0 : Byte))) = true) ↔ x.toNat / 32 = y.toNat / 32 := by
  rw [byte_beq, me0_val, me0_val]; omega
theorem mf0_val : ∀ x : Byte, (x &&& (0xf0 : Byte)).toNat = x.toNat / 16 * 16 := by decide
theorem mf0 (x y : Byte) : (((x &&& (0xf0 : Byte)) == (y &&& (0xf0 : Byte))) = true) ↔ x.toNat / 16 = y.toNat / 16 := by
  rw [byte_beq, mf0_val, mf0_val]; omega
theorem mf8_val : ∀ x : Byte, (x &&& (0xf8 : Byte)).toNat = x.toNat / 8 * 8 := by decide
theorem mf8 (x y : Byte) : (((x &&& (0xf8 : Byte)) == (y &&& (0xf8 : Byte))) = true) ↔ x.toNat / 8 = y.toNat / 8 := by
  rw [byte_beq, mf8_val, mf8_val]; omega
theorem mfc_val : ∀ x : Byte, (x &&& (0xfc : Byte)).toNat = x.toNat / 4 * 4 := by decide
theorem mfc (x y : Byte) : (((x &&& (0xfc : Byte)) == (y &&& (0xfc : Byte))) = true) ↔ x.toNat / 4 = y.toNat / 4 := by
  rw [byte_beq, mfc_val, mfc_val]; omega
theorem mfe_val : ∀ x : Byte, (x &&& (0xfe : Byte)).toNat = x.toNat / 2 * 2 := by decide
theorem mfe (x y : Byte) : (((x &&& (0xfe : Byte)) == (y &&& (0xfe : Byte))) = true) ↔ x.toNat / 2 = y.toNat / 2 := by
  rw [byte_beq, mfe_val, mfe_val]; omega
theorem mff_val : ∀ x : Byte, (x &&& (0xff : Byte)).toNat = x.toNat / 1 * 1 := by decide
theorem mff (x y : Byte) : (((x &&& (0xff : Byte)) == (y &&& (0xff : Byte))) = true) ↔ x.toNat / 1 = y.toNat / 1 := by
  rw [byte_beq, mff_val, mff_val]; omega

/-- `IPNet.Contains` for a 4-byte network and mask and an address whose `To4` form is
    `[a, b, c, d]` (a 4-byte slice or a 16-byte IPv4-mapped one): byte-wise masked equality -/
theorem contains_v4_bytes (n0 n1 n2 n3 m0 m1 m2 m3 a b c d : Byte) (ip : IP) (h : to4 ip = some [a, b, c, d]) :
    contains ⟨[n0, n1, n2, n3], [m0, m1, m2, m3]⟩ ip =
      (((n0 &&& m0) == (a &&& m0)) && (((n1 &&& m1) == (b &&& m1)) &&
        (((n2 &&& m2) == (c &&& m2)) && ((n3 &&& m3) == (d &&& m3))))) := by
  simp [contains, networkNumberAndMask, to4_len4, h, allMasked]

/-- an address that is not IPv4 (`To4` is nil) is in no IPv4 range -/
theorem contains_v4_not4 (n0 n1 n2 n3 m0 m1 m2 m3 : Byte) (ip : IP) (h : to4 ip = none) :
    contains ⟨[n0, n1, n2, n3], [m0, m1, m2, m3]⟩ ip = false := by
  have hl : ip.length ≠ 4 := by
    intro h4; simp [to4, h4] at h
  simp [contains, networkNumberAndMask, to4_len4, h, hl]

/-- **C10_cidr_v4** — for every prefix length `bits ≤ 32`, every network number and every
    address (4-byte or IPv4-mapped 16-byte slice): the range `N/bits` contains the address iff
    the 32-bit values agree on their first `bits` bits (`/ 2^(32-bits)` drops the host bits). -/
theorem C10_cidr_v4 (bits : Nat) (hb : bits ≤ 32) (n0 n1 n2 n3 a b c d : Byte) (ip : IP)
    (h : to4 ip = some [a, b, c, d]) :
    contains ⟨[n0, n1, n2, n3], cidrMask4 bits⟩ ip = true ↔
      val [a, b, c, d] / 2 ^ (32 - bits) = val [n0, n1, n2, n3] / 2 ^ (32 - bits) := by
  have ha := a.isLt; have hb' := b.isLt; have hc := c.isLt; have hd := d.isLt
  have h0 := n0.isLt; have h1 := n1.isLt; have h2 := n2.isLt; have h3 := n3.isLt
  have hcases : bits = 0 ∨ bits = 1 ∨ bits = 2 ∨ bits = 3 ∨ bits = 4 ∨ bits = 5 ∨ bits = 6 ∨ bits = 7 ∨
      bits = 8 ∨ bits = 9 ∨ bits = 10 ∨ bits = 11 ∨ bits = 12 ∨ bits = 13 ∨ bits = 14 ∨ bits = 15 ∨
      bits = 16 ∨ bits = 17 ∨ bits = 18 ∨ bits = 19 ∨ bits = 20 ∨ bits = 21 ∨ bits = 22 ∨ bits = 23 ∨
      bits = 24 ∨ bits = 25 ∨ bits = 26 ∨ bits = 27 ∨ bits = 28 ∨ bits = 29 ∨ bits = 30 ∨ bits = 31 ∨
      bits = 32 := by omega
  rw [val4, val4]
  unfold ipv4
  rcases hcases with e | e | e | e | e | e | e | e | e | e | e | e | e | e | e | e | e | e | e | e | e |
      e | e | e | e | e | e | e | e | e | e | e | e <;> subst e <;>
    simp only [cidrMask4, Nat.reduceSub, Nat.zero_sub, maskByte, contains_v4_bytes _ _ _ _ _ _ _ _ a b c d ip h, Bool.and_eq_true,
      m00, m80, mc0, me0, mf0, mf8, mfc, mfe, mff] <;> omega

/-- **C10_cidr_v4_other** — a non-IPv4 address (plain IPv6, odd length) is in no IPv4 range -/
theorem C10_cidr_v4_other (bits : Nat) (n0 n1 n2 n3 : Byte) (ip : IP) (h : to4 ip = none) :
    contains ⟨[n0, n1, n2, n3], cidrMask4 bits⟩ ip = false :=
  contains_v4_not4 _ _ _ _ _ _ _ _ ip h

/-! ## non-vacuity -/

-- 10.0.0.0/8 given as TrustIPRange: 10.255.0.1 inside (also as an IPv4-mapped slice), 11.0.0.0 outside
example : contains ⟨[10, 0, 0, 0], cidrMask4 8⟩ [10, 255, 0, 1] = true ∧
    contains ⟨[10, 0, 0, 0], cidrMask4 8⟩ (v4InV6Prefix ++ [10, 255, 0, 1]) = true ∧
    contains ⟨[10, 0, 0, 0], cidrMask4 8⟩ [11, 0, 0, 0] = false ∧
    contains ⟨[172, 16, 0, 0], cidrMask4 12⟩ [172, 31, 255, 255] = true ∧
    contains ⟨[172, 16, 0, 0], cidrMask4 12⟩ [172, 32, 0, 0] = false ∧
    cidrMask4 12 = [0xff, 0xf0, 0, 0] ∧ cidrMask4 0 = [0, 0, 0, 0] ∧ cidrMask4 32 = [0xff, 0xff, 0xff, 0xff] := by decide

example : val [172, 31, 255, 255] / 2 ^ (32 - 12) = val [172, 16, 0, 0] / 2 ^ (32 - 12) := by decide

end C10
