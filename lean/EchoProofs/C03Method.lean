import EchoProofs.C03
import EchoProofs.Tree.OK
/-!
# C03 / C01 — the handler that runs is registered for the request's method

"A request whose path is matched only by routes for other methods is answered 405 …": the priority search never
hands a request to the handler of a route registered for ANOTHER method.  Whatever is dispatched is registered
either for exactly the request's method or as a `RouteNotFound` route (which stands for every method at its
position).  Proved for the reference search, and transported to the radix-tree model of `Router.Find` for every
table of representable patterns.
-/
namespace C03
open Router.Spec
open Router (Str routeNotFound Route)

/-- a hit of the search is an entry for the request's method or a not-found entry -/
theorem search_hit_method (m : Str) : ∀ (fuel : Nat) (r : R) (path : Str) (vals : List Str) (best : Best)
    (e : Entry) (v : List Str), (search m fuel r path vals best).1 = .hit e v →
    e.method = m ∨ e.method = routeNotFound := by
  intro fuel
  induction fuel with
  | zero => intro r path vals best e v h; simp [search] at h
  | succ fuel ih =>
    intro r path vals best e v h
    simp only [search] at h
    generalize hs1 : stepEnd m (ends r) path best = s1 at h
    obtain ⟨e1, b1⟩ := s1
    cases e1 with
    | some e1 =>
      simp only [Res.hit.injEq] at h
      obtain ⟨rfl, rfl⟩ := h
      unfold stepEnd at hs1
      split at hs1
      · split at hs1
        · simp only [Prod.mk.injEq] at hs1
          exact Or.inl (findM_some hs1.1).2.1
        · simp only [Prod.mk.injEq] at hs1
          exact Or.inr (findNF_some hs1.1).2
      · simp at hs1
    | none =>
      simp only at h
      rcases orElse_hit h with h2 | ⟨_, h⟩
      · unfold litStep at h2
        cases path with
        | nil => simp at h2
        | cons c rest =>
          simp only at h2
          split at h2
          · simp at h2
          · exact ih _ _ _ _ _ _ h2
      · rcases orElse_hit h with h3 | ⟨_, h⟩
        · unfold paramStep at h3
          split at h3
          · simp at h3
          · exact ih _ _ _ _ _ _ h3
        · unfold anyStep at h
          split at h
          · simp at h
          · unfold stepAny at h
            split at h
            · rename_i e' hf
              simp only [Res.hit.injEq] at h
              obtain ⟨rfl, rfl⟩ := h
              exact Or.inl (findM_some hf).2.1
            · simp only at h
              split at h
              · rename_i e' hf
                simp only [Res.hit.injEq] at h
                obtain ⟨rfl, rfl⟩ := h
                exact Or.inr (findNF_some hf).2
              · simp at h

/-- **C03_dispatch_method** — whatever the reference search dispatches is registered for the request's
    method, or is a RouteNotFound route. -/
theorem C03_dispatch_method (es : List Entry) (m path : Str) (e : Entry) (vals : List Str)
    (h : route es m path = .dispatch e vals) : e.method = m ∨ e.method = routeNotFound := by
  unfold route at h
  generalize hs : search m (bound (initial es) + 1) (initial es) path [] none = s at h
  obtain ⟨res, b⟩ := s
  cases res with
  | hit e' v' =>
    simp only [finish, Outcome.dispatch.injEq] at h
    obtain ⟨rfl, rfl⟩ := h
    exact search_hit_method m _ _ _ _ _ _ _ (by rw [hs])
  | miss =>
    cases b with
    | none => simp [finish] at h
    | some bl =>
      simp only [finish] at h
      split at h
      · rename_i e' hf
        simp only [Outcome.dispatch.injEq] at h
        obtain ⟨rfl, _⟩ := h
        exact Or.inr (findNF_some hf).2
      · split at h <;> simp at h

def dispatchedMethod : Outcome → Option Str
  | .dispatch e _ => some e.method
  | _ => none

/-- non-vacuity: GET and POST on one pattern, a POST request runs the POST route; a PUT request none -/
example : dispatchedMethod (route ([⟨"GET".toList, "/a/:id".toList, 0⟩, ⟨"POST".toList, "/a/:id".toList, 1⟩].map mkEntry)
    "POST".toList "/a/7".toList) = some "POST".toList := by decide +kernel
example : dispatchedMethod (route ([⟨"GET".toList, "/a/:id".toList, 0⟩, ⟨"POST".toList, "/a/:id".toList, 1⟩].map mkEntry)
    "PUT".toList "/a/7".toList) = none := by decide +kernel

end C03

namespace Router.Tree
open Router Router.Spec

/-- **tree_dispatch_method** — on the radix-tree model of `Router.Find`, for every table of representable
    patterns (routes may be registered again and again): the record a request is dispatched to belongs to a
    registration in force that was made for the request's method or as a RouteNotFound route.  (The tree's
    record does not carry the method; the registration in force with the record's handler id does.) -/
theorem tree_dispatch_method (rs : List Route) (m path : Str) (n : Nat) (hn : maxParam rs ≤ n)
    (hok : okTable rs = true) (rm : RouteMethod) (vals : List Str)
    (h : find (build rs) m path (List.replicate n []) = .dispatch rm vals) :
    ∃ r ∈ dedupLast rs, r.hid = rm.hid ∧ normalizeSlash r.path = rm.ppath
      ∧ (r.method = m ∨ r.method = routeNotFound) := by
  obtain ⟨o, ho, he⟩ := find_eq_route_ok rs m path n hn hok
  rw [h] at ho
  obtain ⟨mm, rfl⟩ := outRel_dispatch_inv ho
  have hr := outEquiv_dispatch_left he
  have hmeth := C03.C03_dispatch_method _ _ _ _ _ hr
  have hmem : entryOf mm rm ∈ (dedupLast rs).map mkEntry := by
    rcases C01.C01_sound_partial _ _ _ _ _ hr with ⟨h1, _, _, _⟩ | ⟨_, h1, _, _⟩
    · exact h1
    · exact h1
  obtain ⟨r, hr', hre⟩ := List.mem_map.mp hmem
  refine ⟨r, hr', ?_, ?_, ?_⟩
  · have := congrArg Entry.hid hre
    simpa [mkEntry, entryOf] using this
  · have := congrArg Entry.ppath hre
    simpa [mkEntry, entryOf] using this
  · have hm : r.method = (entryOf mm rm).method := by
      have := congrArg Entry.method hre
      simpa [mkEntry] using this
    rw [hm]
    exact hmeth

end Router.Tree
