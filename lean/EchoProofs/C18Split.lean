import EchoModel.C18
import EchoProofs.C18
/-!
# C18 — `Allow` split at the `Unlock`: what holds under every interleaving (round 8)

`RateLimiterMemoryStore.Allow` is two steps for the scheduler: the locked part (`lockStep`: lookup
or creation, `lastSeen := now`, maybe the sweep) and the unlocked tail (`tailStep`: `AllowN` on the
limiter the goroutine left the critical section with).  Other goroutines' locked parts — sweeps
included — can run between the two.  The model keeps limiters in a heap, so a limiter whose map
entry was swept while a goroutine still holds it lives on as an orphan, exactly like the `*Visitor`
of the code.

* `C18_split_atomic` / `C18_split_atomic_run`: a locked part immediately followed by its tail IS
  `allow2`; schedules without overlap are `run` with `directAt` events (refinement: every theorem
  about `run` speaks about these schedules).
* `C18_split_fresh_needs_idle`: under EVERY interleaving (clock monotone over the locked parts)
  an identifier is given a NEW limiter only when none of its own calls entered the store during
  the last `ExpiresIn` — "expiry of idle identifiers never grants more than one fresh burst"
  at the level of the map: two limiters of one identifier are always more than `ExpiresIn` of
  the identifier's own silence apart.
* `C18_split_live`: a goroutine parked after `Unlock` keeps working on the identifier's CURRENT
  limiter as long as the locked parts that run meanwhile read instants at most `ExpiresIn` later:
  no sweep removes an entry whose `lastSeen` was just written.
* `C18_split_stall_false`: the bound on the parking time is needed — a goroutine that sleeps
  longer than `ExpiresIn` between `Unlock` and its clock reading draws on an orphan while the
  identifier already has a fresh limiter (finding F24 (b): 3 admitted where burst + rate·d allows 2).
* `C18_split_delay_false`: and even a shorter delay δ between `Unlock` and the clock reading is
  observable once the goroutine has finished: `lastSeen` (stamped under the mutex) is δ older than
  the limiter's own clock, so the record is forgotten δ early and the identifier's next request
  finds a fresh burst up to rate·δ tokens too soon (finding F24 (a)).  The window theorems of
  `EchoProofs/C18.lean` therefore need what they assume: all readings of one call agree.
-/
namespace C18

set_option linter.unusedSectionVars false

variable {α : Type} [DecidableEq α]

/-! ## refinement: no overlap = `allow2` -/

/-- the map entry as the atomic model sees it -/
def absE (heap : Nat → Bucket) (o : Option Entry) : Option Visitor :=
  match o with
  | some e => some ⟨heap e.addr, e.lastSeen⟩
  | none => none

/-- the store as the atomic model sees it -/
def absS (st : SStore α) : Store α := ⟨fun i => absE st.heap (st.visitors i), st.lastCleanup⟩

/-- allocated addresses are below `next`; no two identifiers share a limiter -/
def WF (st : SStore α) : Prop :=
  (∀ i e, st.visitors i = some e → e.addr < st.next) ∧
  (∀ i j e f, st.visitors i = some e → st.visitors j = some f → e.addr = f.addr → i = j)

theorem wf_init (t0 : Nat) : WF (SStore.init t0 : SStore α) := by
  constructor <;> intro i <;> simp [SStore.init]

theorem cleanupS_some {c : Cfg} {vis : α → Option Entry} {now : Nat} {i : α} {e : Entry}
    (h : cleanupS c vis now i = some e) : vis i = some e := by
  cases hv : vis i with
  | none => simp [cleanupS, hv] at h
  | some e' =>
    simp only [cleanupS, hv] at h
    split at h
    · cases h
    · cases h; rfl

/-- the address the goroutine leaves the critical section with is the identifier's entry -/
theorem lockStep_entry (c : Cfg) (st : SStore α) (id : α) (now : Nat) :
    (lockStep c st id now).1.visitors id = some ⟨(lockStep c st id now).2, now⟩ := by
  unfold lockStep
  by_cases hs : now - st.lastCleanup > c.expiresIn <;> simp [hs, cleanupS]

theorem lockStep_other (c : Cfg) (st : SStore α) (id i : α) (now : Nat) (h : i ≠ id) :
    (lockStep c st id now).1.visitors i =
      if now - st.lastCleanup > c.expiresIn then cleanupS c st.visitors now i else st.visitors i := by
  unfold lockStep
  by_cases hs : now - st.lastCleanup > c.expiresIn <;> simp [hs, cleanupS, h]

theorem lockStep_lastCleanup (c : Cfg) (st : SStore α) (id : α) (now : Nat) :
    (lockStep c st id now).1.lastCleanup =
      if now - st.lastCleanup > c.expiresIn then now else st.lastCleanup := by
  unfold lockStep
  by_cases hs : now - st.lastCleanup > c.expiresIn <;> simp [hs]

/-- an entry of another identifier after a locked part is the entry it had before -/
theorem lockStep_other_some (c : Cfg) (st : SStore α) (id i : α) (now : Nat) (h : i ≠ id) (e : Entry)
    (he : (lockStep c st id now).1.visitors i = some e) : st.visitors i = some e := by
  rw [lockStep_other c st id i now h] at he
  split at he
  · exact cleanupS_some he
  · exact he

theorem lockStep_addr (c : Cfg) (st : SStore α) (id : α) (now : Nat) :
    (lockStep c st id now).2 = match st.visitors id with
      | some e => e.addr
      | none => st.next := rfl

theorem lockStep_next (c : Cfg) (st : SStore α) (id : α) (now : Nat) :
    (lockStep c st id now).1.next = match st.visitors id with
      | some _ => st.next
      | none => st.next + 1 := rfl

theorem lockStep_heap (c : Cfg) (st : SStore α) (id : α) (now : Nat) :
    (lockStep c st id now).1.heap = match st.visitors id with
      | some _ => st.heap
      | none => fun x => if x = st.next then fresh c else st.heap x := rfl

theorem lockStep_wf (c : Cfg) (st : SStore α) (hwf : WF st) (id : α) (now : Nat) :
    WF (lockStep c st id now).1 := by
  obtain ⟨hlt, hinj⟩ := hwf
  have haddr := lockStep_addr c st id now
  have hnext := lockStep_next c st id now
  have hid := lockStep_entry c st id now
  -- the address of id's entry is below the new next; old entries stay below the old next
  have ha : (lockStep c st id now).2 < (lockStep c st id now).1.next := by
    rw [haddr, hnext]
    cases hv : st.visitors id with
    | none => simp
    | some e => simpa using hlt id e hv
  have hle : st.next ≤ (lockStep c st id now).1.next := by
    rw [hnext]; cases st.visitors id <;> simp
  have hne : ∀ i e, i ≠ id → st.visitors i = some e → e.addr ≠ (lockStep c st id now).2 := by
    intro i e hi he heq
    rw [haddr] at heq
    cases hv : st.visitors id with
    | none => rw [hv] at heq; have := hlt i e he; simp at heq; omega
    | some f => rw [hv] at heq; simp at heq; exact hi (hinj i id e f he hv heq)
  constructor
  · intro i e he
    by_cases hi : i = id
    · subst hi; rw [hid] at he; cases he; exact ha
    · have := hlt i e (lockStep_other_some c st id i now hi e he); omega
  · intro i j e f he hf heq
    by_cases hi : i = id <;> by_cases hj : j = id
    · rw [hi, hj]
    · subst hi; rw [hid] at he; cases he
      exact absurd heq.symm (hne j f hj (lockStep_other_some c st _ j now hj f hf))
    · subst hj; rw [hid] at hf; cases hf
      exact absurd heq (hne i e hi (lockStep_other_some c st _ i now hi e he))
    · exact hinj i j e f (lockStep_other_some c st id i now hi e he)
        (lockStep_other_some c st id j now hj f hf) heq

theorem tailStep_visitors (c : Cfg) (st : SStore α) (a tb : Nat) :
    (tailStep c st a tb).1.visitors = st.visitors ∧ (tailStep c st a tb).1.next = st.next ∧
      (tailStep c st a tb).1.lastCleanup = st.lastCleanup := ⟨rfl, rfl, rfl⟩

theorem tailStep_wf (c : Cfg) (st : SStore α) (hwf : WF st) (a tb : Nat) : WF (tailStep c st a tb).1 := hwf

/-- the limiter the goroutine holds after its locked part is the one `Allow` looked up or created -/
theorem lockStep_bucket (c : Cfg) (st : SStore α) (id : α) (now : Nat) :
    (lockStep c st id now).1.heap (lockStep c st id now).2 =
      (lookupOrNew c ((absS st).visitors id)).b := by
  rw [lockStep_heap, lockStep_addr]
  cases hv : st.visitors id <;> simp [absS, absE, lookupOrNew, hv]

theorem allow2_self (c : Cfg) (st : Store α) (id : α) (now tb : Nat) :
    (allow2 c st id now tb).1.visitors id =
      some ⟨(allowN c (lookupOrNew c (st.visitors id)).b tb).1, now⟩ := by
  simp only [allow2, ite_true]
  split <;> simp [cleanup, setBucket]

theorem allow2_other (c : Cfg) (st : Store α) (id i : α) (now tb : Nat) (h : i ≠ id) :
    (allow2 c st id now tb).1.visitors i =
      if now - st.lastCleanup > c.expiresIn then cleanup c st.visitors now i else st.visitors i := by
  by_cases hs : now - st.lastCleanup > c.expiresIn <;> simp [allow2, h, hs, cleanup]

/-- **refinement**: the locked part immediately followed by its own tail is `allow2` of the atomic
    model — same decision, same store (as the atomic model sees it), well-formedness kept -/
theorem C18_split_atomic (c : Cfg) (st : SStore α) (hwf : WF st) (id : α) (now tb : Nat) :
    (tailStep c (lockStep c st id now).1 (lockStep c st id now).2 tb).2 = (allow2 c (absS st) id now tb).2 ∧
    absS (tailStep c (lockStep c st id now).1 (lockStep c st id now).2 tb).1 = (allow2 c (absS st) id now tb).1 ∧
    WF (tailStep c (lockStep c st id now).1 (lockStep c st id now).2 tb).1 := by
  have hb := lockStep_bucket c st id now
  refine ⟨?_, ?_, tailStep_wf c _ (lockStep_wf c st hwf id now) _ _⟩
  · simp only [tailStep, allow2]; rw [hb]
  · obtain ⟨hlt, hinj⟩ := hwf
    have haddr := lockStep_addr c st id now
    have hne : ∀ i e, i ≠ id → st.visitors i = some e → e.addr ≠ (lockStep c st id now).2 ∧ e.addr ≠ st.next := by
      intro i e hi he
      have h1 := hlt i e he
      refine ⟨?_, by omega⟩
      intro heq
      rw [haddr] at heq
      cases hv : st.visitors id with
      | none => rw [hv] at heq; simp at heq; omega
      | some f => rw [hv] at heq; simp at heq; exact hi (hinj i id e f he hv heq)
    -- the heap cell of another identifier's entry is untouched by both steps
    have hheap : ∀ i e, i ≠ id → st.visitors i = some e →
        (tailStep c (lockStep c st id now).1 (lockStep c st id now).2 tb).1.heap e.addr = st.heap e.addr := by
      intro i e hi he
      obtain ⟨h1, h2⟩ := hne i e hi he
      simp only [tailStep, h1, if_false]
      rw [lockStep_heap]
      cases st.visitors id <;> simp [h2]
    have hlc : (absS (tailStep c (lockStep c st id now).1 (lockStep c st id now).2 tb).1).lastCleanup =
        (allow2 c (absS st) id now tb).1.lastCleanup := by
      show (lockStep c st id now).1.lastCleanup = _
      rw [lockStep_lastCleanup]; simp only [allow2, absS]
      by_cases hs : now - st.lastCleanup > c.expiresIn <;> simp [hs]
    have hvis : (absS (tailStep c (lockStep c st id now).1 (lockStep c st id now).2 tb).1).visitors =
        (allow2 c (absS st) id now tb).1.visitors := by
      funext i
      by_cases hi : i = id
      · subst hi
        show absE _ ((lockStep c st i now).1.visitors i) = _
        rw [lockStep_entry, allow2_self]
        simp only [absE, tailStep, if_true]
        rw [hb]
      · show absE _ ((lockStep c st id now).1.visitors i) = _
        have hcongr : absE (tailStep c (lockStep c st id now).1 (lockStep c st id now).2 tb).1.heap
            ((lockStep c st id now).1.visitors i) = absE st.heap ((lockStep c st id now).1.visitors i) := by
          cases hv : (lockStep c st id now).1.visitors i with
          | none => rfl
          | some e => simp only [absE]; rw [hheap i e hi (lockStep_other_some c st id i now hi e hv)]
        rw [hcongr, lockStep_other c st id i now hi, allow2_other c (absS st) id i now tb hi]
        have hlc' : (absS st).lastCleanup = st.lastCleanup := rfl
        rw [hlc']
        by_cases hs : now - st.lastCleanup > c.expiresIn
        · simp only [hs, if_true, cleanup, cleanupS, absS]
          cases hv : st.visitors i with
          | none => simp [absE]
          | some e =>
            simp only [absE]
            by_cases hst : now - e.lastSeen > c.expiresIn <;> simp [hst]
        · simp only [hs, if_false]; rfl
    cases h1 : absS (tailStep c (lockStep c st id now).1 (lockStep c st id now).2 tb).1 with
    | mk v1 l1 =>
      cases h2 : (allow2 c (absS st) id now tb).1 with
      | mk v2 l2 =>
        rw [h1] at hvis hlc; rw [h2] at hvis hlc
        simp at hvis hlc
        rw [hvis, hlc]

/-- a call of a schedule without overlap: goroutine, identifier, reading under the mutex, `AllowN` reading -/
structure Call (α : Type) where
  k : Nat
  id : α
  now : Nat
  tb : Nat

/-- the schedule in which every call runs to its end before the next one starts -/
def atomicSched : List (Call α) → List (SStep α)
  | [] => []
  | x :: xs => .lock x.k x.id x.now :: .tail x.k x.tb :: atomicSched xs

/-- **schedules without overlap are the atomic model**: their decisions are those of `run` on the
    `directAt` events — so `C18_window`, `C18_independent`, `C18_expiry_one_burst`, … speak about them -/
theorem C18_split_atomic_run (c : Cfg) (calls : List (Call α)) :
    ∀ (s : SState α), WF s.st →
      runS c s (atomicSched calls) =
        (run c (absS s.st) (calls.map fun x => ⟨x.now, .directAt x.tb, x.id⟩)).map (·.ran) := by
  induction calls with
  | nil => intro s _; rfl
  | cons x xs ih =>
    intro s hwf
    obtain ⟨h1, h2, h3⟩ := C18_split_atomic c s.st hwf x.id x.now x.tb
    simp only [atomicSched, runS, sstep, List.map, run, step, if_true]
    rw [ih _ h3, h2, h1]

/-! ## what holds under every interleaving -/

/-- the clock is monotone over the locked parts of a schedule (they are serialised by the mutex) -/
def LockMono : Nat → List (SStep α) → Prop
  | _, [] => True
  | hi, .lock _ _ now :: xs => hi ≤ now ∧ LockMono now xs
  | hi, .tail _ _ :: xs => LockMono hi xs

def decLockMono : ∀ (hi : Nat) (xs : List (SStep α)), Decidable (LockMono hi xs)
  | _, [] => isTrue trivial
  | hi, .lock _ _ now :: xs =>
    match Nat.decLe hi now, decLockMono now xs with
    | isTrue h1, isTrue h2 => isTrue ⟨h1, h2⟩
    | isFalse h1, _ => isFalse (fun h => h1 h.1)
    | _, isFalse h2 => isFalse (fun h => h2 h.2)
  | hi, .tail _ _ :: xs => decLockMono hi xs

instance (hi : Nat) (xs : List (SStep α)) : Decidable (LockMono hi xs) := decLockMono hi xs

/-- the reading of the last locked part -/
def endHi : Nat → List (SStep α) → Nat
  | hi, [] => hi
  | _, .lock _ _ now :: xs => endHi now xs
  | hi, .tail _ _ :: xs => endHi hi xs

theorem lockMono_append (xs ys : List (SStep α)) : ∀ hi, LockMono hi (xs ++ ys) →
    LockMono hi xs ∧ LockMono (endHi hi xs) ys := by
  induction xs with
  | nil => intro hi h; exact ⟨trivial, h⟩
  | cons x xs ih =>
    intro hi h
    cases x with
    | lock k id now =>
      obtain ⟨h1, h2⟩ := h
      obtain ⟨h3, h4⟩ := ih now h2
      exact ⟨⟨h1, h3⟩, h4⟩
    | tail k tb => exact ih hi h

/-- invariant of the store under every schedule: `hi` = newest locked reading; every locked part
    `(id, t)` of the history either still has its entry (with `lastSeen ≥ t`) or was swept by a
    sweep that ran later than `t + ExpiresIn` -/
def SInv (c : Cfg) (st : SStore α) (hi : Nat) (hist : List (α × Nat)) : Prop :=
  st.lastCleanup ≤ hi ∧ (∀ p ∈ hist, p.2 ≤ hi) ∧
  (∀ p ∈ hist, (∃ e, st.visitors p.1 = some e ∧ p.2 ≤ e.lastSeen) ∨ p.2 + c.expiresIn < st.lastCleanup)

theorem sinv_lock (c : Cfg) (st : SStore α) (hi : Nat) (hist : List (α × Nat)) (h : SInv c st hi hist)
    (id : α) (now : Nat) (hle : hi ≤ now) : SInv c (lockStep c st id now).1 now ((id, now) :: hist) := by
  obtain ⟨h1, h2, h3⟩ := h
  have hlc := lockStep_lastCleanup c st id now
  have hid := lockStep_entry c st id now
  refine ⟨?_, ?_, ?_⟩
  · rw [hlc]; split <;> omega
  · intro p hp
    cases hp with
    | head => exact Nat.le_refl _
    | tail _ hp => exact Nat.le_trans (h2 p hp) hle
  · intro p hp
    cases hp with
    | head => left; exact ⟨_, hid, Nat.le_refl _⟩
    | tail _ hp =>
      have hpt := h2 p hp
      by_cases hpi : p.1 = id
      · left; rw [hpi]; exact ⟨_, hid, by simp; omega⟩
      · rcases h3 p hp with ⟨e, he, hle2⟩ | hsw
        · rw [lockStep_other c st id p.1 now hpi, hlc]
          by_cases hs : now - st.lastCleanup > c.expiresIn
          · simp only [hs, if_true, cleanupS, he]
            by_cases hst : now - e.lastSeen > c.expiresIn
            · right; omega
            · left; exact ⟨e, by simp [hst], hle2⟩
          · simp only [hs, if_false]; left; exact ⟨e, he, hle2⟩
        · right; rw [hlc]; split <;> omega

/-- the locked parts of a schedule, newest first, in front of `hist` -/
def locksOnto : List (α × Nat) → List (SStep α) → List (α × Nat)
  | hist, [] => hist
  | hist, .lock _ id now :: xs => locksOnto ((id, now) :: hist) xs
  | hist, .tail _ _ :: xs => locksOnto hist xs

theorem mem_locksOnto (xs : List (SStep α)) : ∀ (hist : List (α × Nat)) (k : Nat) (id : α) (now : Nat),
    SStep.lock k id now ∈ xs → (id, now) ∈ locksOnto hist xs := by
  induction xs with
  | nil => intro _ _ _ _ h; cases h
  | cons x xs ih =>
    intro hist k id now h
    have keep : ∀ (ys : List (SStep α)) (hh : List (α × Nat)) (p : α × Nat), p ∈ hh → p ∈ locksOnto hh ys := by
      intro ys
      induction ys with
      | nil => intro hh p hp; exact hp
      | cons y ys ihy =>
        intro hh p hp
        cases y with
        | lock _ _ _ => exact ihy _ p (List.mem_cons_of_mem _ hp)
        | tail _ _ => exact ihy _ p hp
    cases h with
    | head => exact keep xs _ _ (List.mem_cons_self ..)
    | tail _ h =>
      cases x with
      | lock _ _ _ => exact ih _ k id now h
      | tail _ _ => exact ih _ k id now h

theorem sinv_run (c : Cfg) (xs : List (SStep α)) : ∀ (s : SState α) (hi : Nat) (hist : List (α × Nat)),
    SInv c s.st hi hist → LockMono hi xs →
      SInv c (finalS c s xs).st (endHi hi xs) (locksOnto hist xs) := by
  induction xs with
  | nil => intro s hi hist h _; exact h
  | cons x xs ih =>
    intro s hi hist h hm
    cases x with
    | lock k id now =>
      obtain ⟨hle, hm'⟩ := hm
      exact ih _ now _ (sinv_lock c s.st hi hist h id now hle) hm'
    | tail k tb =>
      simp only [finalS, endHi, locksOnto]
      apply ih _ hi hist _ hm
      simp only [sstep]
      cases s.held k with
      | none => exact h
      | some a => exact h

theorem sinv_init (c : Cfg) (t0 : Nat) : SInv c (SState.init t0 : SState α).st t0 [] := by
  refine ⟨Nat.le_refl _, ?_, ?_⟩ <;> (intro p hp; cases hp)

/-- **a new limiter needs ExpiresIn of the identifier's own silence — under every interleaving.**
    Whatever the schedule (any number of goroutines parked between `Unlock` and `AllowN`, for any
    time; clock monotone over the locked parts): if the locked part of a call of `id` at reading
    `now` finds no entry (and therefore creates a fresh limiter with a full burst), then every
    earlier call of `id` entered the store more than `ExpiresIn` before `now`. -/
theorem C18_split_fresh_needs_idle (c : Cfg) (t0 : Nat) (pre : List (SStep α)) (k : Nat) (id : α) (now : Nat)
    (hm : LockMono t0 (pre ++ [.lock k id now]))
    (hfresh : (finalS c (SState.init t0) pre).st.visitors id = none) :
    ∀ k' now', SStep.lock k' id now' ∈ pre → now' + c.expiresIn < now := by
  intro k' now' hmem
  obtain ⟨hm1, hm2⟩ := lockMono_append pre _ t0 hm
  obtain ⟨h1, _, h3⟩ := sinv_run c pre (SState.init t0) t0 [] (sinv_init c t0) hm1
  have hle : endHi t0 pre ≤ now := hm2.1
  rcases h3 (id, now') (mem_locksOnto pre [] k' id now' hmem) with ⟨e, he, _⟩ | hsw
  · rw [hfresh] at he; cases he
  · simp at hsw; omega

/-- **a parked goroutine keeps working on the identifier's current limiter** as long as the locked
    parts that run while it is parked read instants at most `ExpiresIn` after its own: its entry is
    neither swept nor replaced (no orphan, no second limiter for the identifier). -/
theorem C18_split_live (c : Cfg) (s : SState α) (k : Nat) (id : α) (now : Nat) (mid : List (SStep α))
    (hm : LockMono now mid)
    (hwithin : ∀ k' id' t, SStep.lock k' id' t ∈ mid → t ≤ now + c.expiresIn) :
    ∃ e, (finalS c (sstep c s (.lock k id now)).1 mid).st.visitors id = some e ∧
      e.addr = (lockStep c s.st id now).2 ∧ now ≤ e.lastSeen := by
  suffices h : ∀ (mid : List (SStep α)) (s1 : SState α) (hi : Nat) (a : Nat), now ≤ hi → LockMono hi mid →
      (∀ k' id' t, SStep.lock k' id' t ∈ mid → t ≤ now + c.expiresIn) →
      (∃ e, s1.st.visitors id = some e ∧ e.addr = a ∧ now ≤ e.lastSeen) →
      ∃ e, (finalS c s1 mid).st.visitors id = some e ∧ e.addr = a ∧ now ≤ e.lastSeen by
    apply h mid _ now _ (Nat.le_refl _) hm hwithin
    exact ⟨_, lockStep_entry c s.st id now, rfl, Nat.le_refl _⟩
  intro mid
  induction mid with
  | nil => intro s1 hi a _ _ _ h; exact h
  | cons x xs ih =>
    intro s1 hi a hhi hmono hw hent
    cases x with
    | tail k' tb =>
      apply ih _ hi a hhi hmono (fun k' id' t h => hw k' id' t (List.mem_cons_of_mem _ h))
      simp only [sstep]
      cases s1.held k' with
      | none => exact hent
      | some a' => exact hent
    | lock k' id' t =>
      obtain ⟨hle, hmono'⟩ := hmono
      have ht : t ≤ now + c.expiresIn := hw k' id' t (List.mem_cons_self ..)
      apply ih _ t a (Nat.le_trans hhi hle) hmono' (fun k' id' t h => hw k' id' t (List.mem_cons_of_mem _ h))
      obtain ⟨e, he, hea, hes⟩ := hent
      show ∃ e, (lockStep c s1.st id' t).1.visitors id = some e ∧ e.addr = a ∧ now ≤ e.lastSeen
      by_cases hi' : id = id'
      · subst hi'
        refine ⟨_, lockStep_entry c s1.st id t, ?_, by simp; omega⟩
        rw [lockStep_addr, he]; exact hea
      · rw [lockStep_other c s1.st id' id t hi']
        by_cases hs : t - s1.st.lastCleanup > c.expiresIn
        · have hkeep : ¬ (t - e.lastSeen > c.expiresIn) := by omega
          exact ⟨e, by simp [hs, cleanupS, he, hkeep], hea, hes⟩
        · exact ⟨e, by simp [hs, he], hea, hes⟩

/-! ## instances -/

/-- rate 1/s, burst 3, ExpiresIn 10 s (the side condition holds: 10 s · 1/s ≥ 3) -/
def cfgSplit : Cfg := mkCfg ⟨1, 1, 3, 10000000000⟩

/-- B (id 2) spends its burst at 0; at 11 s a call of A (id 1) triggers the sweep and is parked
    before `AllowN`; B returns meanwhile: three calls on a NEW limiter (the old one was swept under
    the mutex), A's tail, then three more calls of B -/
def schedSweep : List (SStep Nat) :=
  [.lock 0 2 0, .tail 0 0, .lock 1 2 0, .tail 1 0, .lock 2 2 0, .tail 2 0,
   .lock 3 1 11000000000,
   .lock 4 2 11000000000, .tail 4 11000000000, .lock 5 2 11000000000, .tail 5 11000000000,
   .lock 6 2 11000000000, .tail 6 11000000000,
   .tail 3 11000000000,
   .lock 7 2 11000000000, .tail 7 11000000000, .lock 8 2 11000000000, .tail 8 11000000000]

example : runS cfgSplit (SState.init 0) schedSweep =
    [true, true, true, true, true, true, true, false, false] := by decide
example : LockMono 0 schedSweep := by decide
/-- hypotheses of `C18_split_fresh_needs_idle` met by a non-trivial instance: B's call at 11 s finds no entry -/
example : (finalS cfgSplit (SState.init 0) (schedSweep.take 7)).st.visitors 2 = none := by decide
/-- `C18_split_live`: A's parked goroutine (call 3) still owns A's entry after B's calls -/
example : ((finalS cfgSplit (SState.init 0) (schedSweep.take 13)).st.visitors 1).map (·.addr) = some 1 ∧
    (finalS cfgSplit (SState.init 0) (schedSweep.take 13)).held 3 = some 1 := by decide

/-- rate 1000/s, burst 1, ExpiresIn 1 ms (side condition: 1 ms · 1000/s ≥ 1) -/
def cfgStall : Cfg := mkCfg ⟨1000, 1, 1, 1000000⟩

/-- identifier 1: one call at 0 (admitted) and a second goroutine that passes the locked part at 0
    and then sleeps; at 1 ms + 1 ns another identifier's call sweeps identifier 1 away, identifier 1
    comes back on a fresh limiter, and the sleeper wakes up, reads the clock and draws on the orphan -/
def schedStall : List (SStep Nat) :=
  [.lock 0 1 0, .tail 0 0, .lock 1 1 0,
   .lock 2 2 1000001, .tail 2 1000001,
   .lock 3 1 1000001, .tail 3 1000001,
   .tail 1 1000001]

/-- **the bound on the parking time in `C18_split_live` is needed (finding F24 (b))**: a goroutine that
    sleeps longer than `ExpiresIn` between `Unlock` and its clock reading works on an orphaned
    limiter that has refilled, while the identifier's new calls draw on a fresh one: 3 admissions
    of identifier 1 within 1 000 001 ns although burst + rate · (d + 1 ns) = 1 + 1.000002 < 3.
    The side condition holds, the clock is monotone, the limiter sees its readings in order. -/
theorem C18_split_stall_false :
    cfgStall.full ≤ ((cfgStall.expiresIn * cfgStall.rateNum : Nat) : Int) ∧
    LockMono 0 schedStall ∧
    runS cfgStall (SState.init 0) schedStall = [true, true, true, true] ∧
    ¬ (3 * cfgStall.scale ≤ cfgStall.burst * cfgStall.scale + cfgStall.rateNum * (1000001 + 1)) := by
  decide

/-- rate 8/s, burst 1, ExpiresIn 125 ms (side condition: 125 ms · 8/s ≥ 1) -/
def cfgDelay : Cfg := mkCfg ⟨8, 1, 1, 125000000⟩

/-- identifier 1 passes the locked part at 0 and reads the clock 99.609375 ms later (admitted; its
    limiter counts from then, `lastSeen` stays 0); at 126.953125 ms a call of identifier 2 sweeps
    it away and identifier 1 returns -/
def schedDelay : List (SStep Nat) :=
  [.lock 0 1 0, .lock 1 2 99609375, .tail 1 99609375, .tail 0 99609375,
   .lock 2 2 126953125, .tail 2 126953125, .lock 3 1 126953125, .tail 3 126953125]

/-- **finding F24 (a)**: a delay SHORTER than `ExpiresIn` between `Unlock` and the clock reading makes
    the sweep forget the record that much early: identifier 1 is admitted at 99.609375 ms and again
    at 126.953125 ms — 2 admissions within 27 343 750 ns although burst + rate · (d + 1 ns) = 1.22.
    (`C18_split_live` is not contradicted: the entry survives WHILE the goroutine is parked.) -/
theorem C18_split_delay_false :
    cfgDelay.full ≤ ((cfgDelay.expiresIn * cfgDelay.rateNum : Nat) : Int) ∧
    LockMono 0 schedDelay ∧
    runS cfgDelay (SState.init 0) schedDelay = [true, true, false, true] ∧
    ¬ (2 * cfgDelay.scale ≤ cfgDelay.burst * cfgDelay.scale + cfgDelay.rateNum * (27343750 + 1)) := by
  decide

end C18
