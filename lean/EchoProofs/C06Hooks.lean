import EchoModel.C06Hooks
/-!
# C06 — hooks that register hooks: theorems

The hook clause of the property ("before-hooks run once, before the headers go out, and
after-hooks run after each body write") as an acceptor `Scan` over event traces in which
registrations may happen at ANY moment — also while hooks are running.  A registration never
changes what the round in progress still has to run; a body write owes the after-hooks
registered up to that write.

* `C06H_inv` — for every program (any hooks registering any hooks) the trace is accepted, ends
  quiet, and the bookkeeping matches the writer.
* `scan_after_each_write` — what acceptance means for after-hooks: every after-hook registered
  before a body write — by the handler, or by a before-hook during the very commit that the
  write triggered — runs after that write, in registration order.
* `scan_before` — before-hooks that run were registered, run in order, before the one
  `WriteHeader`; none runs afterwards.
-/
namespace C06H

inductive Phase where
  | idle
  | running (rest : List Nat)
  | out (pend : List Nat)
deriving DecidableEq, Repr

structure Scan where
  bef : List Nat := []
  aft : List Nat := []
  ph : Phase := .idle
deriving DecidableEq, Repr

def Scan.quiet (σ : Scan) : Bool :=
  match σ.ph with
  | .idle => true
  | .out [] => true
  | _ => false

def isRegB? : Ev → Option Nat | .regB h => some h | _ => none
def isRegA? : Ev → Option Nat | .regA h => some h | _ => none

/-- how the phase moves; registrations are accepted in every phase and leave it alone -/
def phaseNext (σ : Scan) : Ev → Option Phase
  | .regB _ => some σ.ph
  | .regA _ => some σ.ph
  | .runB h =>
    match σ.ph with
    | .idle =>
      (match σ.bef with
       | h' :: rest => if h' = h then some (.running rest) else none
       | [] => none)
    | .running (h' :: rest) => if h' = h then some (.running rest) else none
    | _ => none
  | .hdr _ =>
    match σ.ph with
    | .idle => if σ.bef = [] then some (.out []) else none
    | .running [] => some (.out [])
    | _ => none
  | .body _ =>
    match σ.ph with
    | .out [] => some (.out σ.aft)       -- the write owes the after-hooks registered so far
    | _ => none
  | .runA h =>
    match σ.ph with
    | .out (h' :: p) => if h' = h then some (.out p) else none
    | _ => none
  | .rflush =>
    match σ.ph with
    | .out [] => some (.out [])
    | _ => none
  | .warn =>
    match σ.ph with
    | .out [] => some (.out [])
    | _ => none

def Scan.next (σ : Scan) (e : Ev) : Option Scan :=
  (phaseNext σ e).map fun ph => ⟨σ.bef ++ (isRegB? e).toList, σ.aft ++ (isRegA? e).toList, ph⟩

def scanFrom : Scan → List Ev → Option Scan
  | σ, [] => some σ
  | σ, e :: es =>
    match σ.next e with
    | none => none
    | some σ' => scanFrom σ' es

def traceOK (tr : List Ev) : Bool :=
  match scanFrom {} tr with
  | some σ => σ.quiet
  | none => false

theorem scanFrom_append (σ : Scan) (l₁ l₂ : List Ev) :
    scanFrom σ (l₁ ++ l₂) = (scanFrom σ l₁).bind (fun σ' => scanFrom σ' l₂) := by
  induction l₁ generalizing σ with
  | nil => simp [scanFrom]
  | cons e es ih =>
    simp only [List.cons_append, scanFrom]
    cases h : σ.next e with
    | none => simp
    | some σ' => simp [ih]

theorem scanFrom_snoc {σ σ' : Scan} {tr : List Ev} (h : scanFrom σ tr = some σ') (e : Ev) :
    scanFrom σ (tr ++ [e]) = σ'.next e := by
  rw [scanFrom_append, h]
  simp only [Option.bind, scanFrom]
  cases σ'.next e <;> rfl

/-! ## the invariant -/

def ids (l : List Hook) : List Nat := l.map (·.id)

@[simp] theorem ids_append (a b : List Hook) : ids (a ++ b) = ids a ++ ids b := by simp [ids]
@[simp] theorem ids_cons (h : Hook) (l : List Hook) : ids (h :: l) = h.id :: ids l := rfl
@[simp] theorem ids_nil : ids [] = [] := rfl

/-- the scanner state that matches a model state whose hooks are in phase `ph` -/
def at_ (s : St) (ph : Phase) : Scan := ⟨ids s.before, ids s.after, ph⟩

def restPhase (s : St) : Phase := if s.committed then .out [] else .idle

/-- trace accepted up to phase `ph` -/
def Acc (s : St) (ph : Phase) : Prop := scanFrom {} s.trace = some (at_ s ph)

/-- the fields hooks cannot touch -/
def sameCore (t s : St) : Prop :=
  t.committed = s.committed ∧ t.status = s.status ∧ t.size = s.size ∧ t.hdrs = s.hdrs ∧ t.body = s.body

theorem sameCore.rfl' (s : St) : sameCore s s := ⟨rfl, rfl, rfl, rfl, rfl⟩

theorem sameCore.trans' {a b c : St} (h1 : sameCore a b) (h2 : sameCore b c) : sameCore a c :=
  ⟨h1.1.trans h2.1, h1.2.1.trans h2.2.1, h1.2.2.1.trans h2.2.2.1, h1.2.2.2.1.trans h2.2.2.2.1,
   h1.2.2.2.2.trans h2.2.2.2.2⟩

/-- a registration is accepted in every phase and leaves the phase alone -/
theorem acc_register {s : St} {ph : Phase} (h : Acc s ph) (b : Bool) (k : Hook) :
    Acc (register s b k) ph ∧ sameCore (register s b k) s := by
  unfold register
  cases b
  · refine ⟨?_, rfl, rfl, rfl, rfl, rfl⟩
    simp only [Bool.false_eq_true, if_false, Acc, emit]
    rw [scanFrom_snoc h]
    simp [Scan.next, phaseNext, at_, isRegB?, isRegA?]
  · refine ⟨?_, rfl, rfl, rfl, rfl, rfl⟩
    simp only [if_true, Acc, emit]
    rw [scanFrom_snoc h]
    simp [Scan.next, phaseNext, at_, isRegB?, isRegA?]

theorem acc_kidOf {s : St} {ph : Phase} (h : Acc s ph) (k : Hook) :
    Acc (kidOf s k) ph ∧ sameCore (kidOf s k) s := by
  unfold kidOf
  cases hk : k.kid with
  | none => exact ⟨h, sameCore.rfl' s⟩
  | some bc => obtain ⟨b, c⟩ := bc; exact acc_register h b ⟨c, none⟩

/-- one before-hook of the round in progress runs -/
theorem acc_fireB_running {s : St} {k : Hook} {r : List Nat} (h : Acc s (.running (k.id :: r))) :
    Acc (fireB s k) (.running r) ∧ sameCore (fireB s k) s := by
  have h1 : Acc (emit s (.runB k.id)) (.running r) := by
    simp only [Acc, emit]
    rw [scanFrom_snoc h]
    simp [Scan.next, phaseNext, at_, isRegB?, isRegA?]
  have := acc_kidOf h1 k
  exact ⟨this.1, this.2.trans' ⟨rfl, rfl, rfl, rfl, rfl⟩⟩

/-- the first before-hook of a round: the round's list is the registration list of that moment -/
theorem acc_fireB_idle {s : St} {k : Hook} {l : List Hook} (h : Acc s .idle) (hb : s.before = k :: l) :
    Acc (fireB s k) (.running (ids l)) ∧ sameCore (fireB s k) s := by
  have h1 : Acc (emit s (.runB k.id)) (.running (ids l)) := by
    simp only [Acc, emit]
    rw [scanFrom_snoc h]
    simp [Scan.next, phaseNext, at_, isRegB?, isRegA?, hb]
  have := acc_kidOf h1 k
  exact ⟨this.1, this.2.trans' ⟨rfl, rfl, rfl, rfl, rfl⟩⟩

theorem acc_foldB (l : List Hook) : ∀ (s : St), Acc s (.running (ids l)) →
    Acc (l.foldl fireB s) (.running []) ∧ sameCore (l.foldl fireB s) s := by
  induction l with
  | nil => intro s h; exact ⟨h, sameCore.rfl' s⟩
  | cons k l ih =>
    intro s h
    obtain ⟨h1, c1⟩ := acc_fireB_running (s := s) (k := k) (r := ids l) h
    obtain ⟨h2, c2⟩ := ih _ h1
    exact ⟨h2, c2.trans' c1⟩

theorem acc_fireA {s : St} {k : Hook} {r : List Nat} (h : Acc s (.out (k.id :: r))) :
    Acc (fireA s k) (.out r) ∧ sameCore (fireA s k) s := by
  have h1 : Acc (emit s (.runA k.id)) (.out r) := by
    simp only [Acc, emit]
    rw [scanFrom_snoc h]
    simp [Scan.next, phaseNext, at_, isRegB?, isRegA?]
  have := acc_kidOf h1 k
  exact ⟨this.1, this.2.trans' ⟨rfl, rfl, rfl, rfl, rfl⟩⟩

theorem acc_foldA (l : List Hook) : ∀ (s : St), Acc s (.out (ids l)) →
    Acc (l.foldl fireA s) (.out []) ∧ sameCore (l.foldl fireA s) s := by
  induction l with
  | nil => intro s h; exact ⟨h, sameCore.rfl' s⟩
  | cons k l ih =>
    intro s h
    obtain ⟨h1, c1⟩ := acc_fireA (s := s) (k := k) (r := ids l) h
    obtain ⟨h2, c2⟩ := ih _ h1
    exact ⟨h2, c2.trans' c1⟩

/-- **the invariant**: the trace is accepted and ends in the phase the response is in; the
    bookkeeping matches the writer -/
structure Inv (s : St) : Prop where
  acc : Acc s (restPhase s)
  sent : s.committed = true → s.hdrs = [s.status]
  unsent : s.committed = false → s.hdrs = [] ∧ s.body = 0
  size : s.size = s.body

theorem inv_init (p : Nat) : Inv (init p) := by
  constructor <;> simp [init, Acc, at_, restPhase, scanFrom, ids]

/-- the before-hooks of an uncommitted response run: whatever they register, the round ends
    with nothing left to run -/
theorem acc_runBefore {s : St} (h : Acc s .idle) :
    (s.before = [] ∧ runBefore s = s) ∨
    (Acc (runBefore s) (.running []) ∧ sameCore (runBefore s) s) := by
  unfold runBefore
  cases hb : s.before with
  | nil => exact Or.inl ⟨rfl, rfl⟩
  | cons k l =>
    right
    simp only [List.foldl_cons]
    obtain ⟨h1, c1⟩ := acc_fireB_idle h hb
    obtain ⟨h2, c2⟩ := acc_foldB l _ h1
    exact ⟨h2, c2.trans' c1⟩

theorem inv_forward {t : St} (hc : t.committed = false) (hh : t.hdrs = []) (hs : t.size = t.body)
    (ha : Acc t (.running []) ∨ (Acc t .idle ∧ t.before = [])) : Inv (forward t) := by
  unfold forward
  exact {
    acc := by
      simp only [Acc, emit, restPhase, if_true]
      rcases ha with ha | ⟨ha, hb⟩
      · rw [scanFrom_snoc ha]; simp [Scan.next, phaseNext, at_, isRegB?, isRegA?]
      · rw [scanFrom_snoc ha]; simp [Scan.next, phaseNext, at_, isRegB?, isRegA?, hb]
    sent := by intro _; simp [emit, hh]
    unsent := by intro hx; simp [emit] at hx
    size := by simpa [emit] using hs }

theorem inv_commitFrom {s0 : St} (e1 : s0.committed = false) (e2 : s0.hdrs = [])
    (e3 : s0.size = s0.body) (ha : Acc s0 .idle) : Inv (forward (runBefore s0)) := by
  rcases acc_runBefore ha with ⟨hb, he⟩ | ⟨hr, k1, _, k3, k4, k5⟩
  · rw [he]
    exact inv_forward e1 e2 e3 (Or.inr ⟨ha, hb⟩)
  · exact inv_forward (k1.trans e1) (k4.trans e2) (by rw [k3, k5]; exact e3) (Or.inl hr)

theorem inv_writeHeader {s : St} (h : Inv s) (c : Nat) : Inv (writeHeader s c) := by
  unfold writeHeader
  split
  · rename_i hc
    have ha := h.acc
    simp only [restPhase, hc, if_true] at ha
    exact {
      acc := by
        simp only [Acc, emit, restPhase, hc, if_true]
        rw [scanFrom_snoc ha]; simp [Scan.next, phaseNext, at_, isRegB?, isRegA?]
      sent := by intro _; simpa [emit] using h.sent hc
      unsent := by intro hx; simp [emit, hc] at hx
      size := by simpa [emit] using h.size }
  · rename_i hc
    have hc : s.committed = false := by simpa using hc
    have hu := h.unsent hc
    refine inv_commitFrom (s0 := { s with status := c }) hc hu.1 h.size ?_
    have := h.acc
    simpa [restPhase, hc, Acc, at_] using this

theorem forward_committed (t : St) : (forward t).committed = true := by simp [forward, emit]

theorem writeHeader_committed (s : St) (c : Nat) : (writeHeader s c).committed = true := by
  unfold writeHeader
  split
  · rename_i h; simpa [emit] using h
  · exact forward_committed _

theorem inv_ensureCommitted {s : St} (h : Inv s) :
    Inv (ensureCommitted s) ∧ (ensureCommitted s).committed = true := by
  unfold ensureCommitted
  by_cases hc : s.committed = true
  · simp [hc, h]
  · simp only [hc, if_false]
    exact ⟨inv_writeHeader h _, writeHeader_committed _ _⟩

theorem inv_write {s : St} (h : Inv s) (n : Nat) : Inv (write s n) := by
  unfold write
  obtain ⟨h1, hc⟩ := inv_ensureCommitted h
  generalize ensureCommitted s = t at h1 hc
  have ha := h1.acc
  simp only [restPhase, hc, if_true] at ha
  -- the body write: it owes the after-hooks registered so far
  have hb : Acc (putBody t n) (.out (ids (putBody t n).after)) := by
    simp only [Acc, putBody, emit]
    rw [scanFrom_snoc ha]
    simp [Scan.next, phaseNext, at_, isRegB?, isRegA?]
  have p1 : (putBody t n).committed = true := by simp [putBody, emit, hc]
  have p2 : (putBody t n).hdrs = t.hdrs := by simp [putBody, emit]
  have p3 : (putBody t n).status = t.status := by simp [putBody, emit]
  have p4 : (putBody t n).size = (putBody t n).body := by simp [putBody, emit, h1.size]
  generalize putBody t n = u at hb p1 p2 p3 p4
  obtain ⟨hf, k1, k2, k3, k4, k5⟩ := acc_foldA u.after u hb
  unfold runAfter
  exact {
    acc := by simpa [restPhase, k1, p1] using hf
    sent := by intro _; rw [k4, k2, p2, p3]; exact h1.sent hc
    unsent := by intro hx; rw [k1, p1] at hx; simp at hx
    size := by rw [k3, k5]; exact p4 }

theorem inv_flush {s : St} (h : Inv s) : Inv (flush s) := by
  unfold flush
  obtain ⟨h1, hc⟩ := inv_ensureCommitted h
  generalize ensureCommitted s = t at h1 hc
  have ha := h1.acc
  simp only [restPhase, hc, if_true] at ha
  exact {
    acc := by
      simp only [Acc, emit, restPhase, hc, if_true]
      rw [scanFrom_snoc ha]; simp [Scan.next, phaseNext, at_, isRegB?, isRegA?]
    sent := by intro _; simpa [emit] using h1.sent hc
    unsent := by intro hx; simp [emit, hc] at hx
    size := by simpa [emit] using h1.size }

theorem inv_register {s : St} (h : Inv s) (b : Bool) (k : Hook) : Inv (register s b k) := by
  obtain ⟨ha, k1, k2, k3, k4, k5⟩ := acc_register h.acc b k
  exact {
    acc := by simpa [restPhase, k1] using ha
    sent := by intro hx; rw [k4, k2]; exact h.sent (k1 ▸ hx)
    unsent := by intro hx; rw [k4, k5]; exact h.unsent (k1 ▸ hx)
    size := by rw [k3, k5]; exact h.size }

theorem inv_setStatus {s : St} (h : Inv s) (hc : s.committed = false) (c : Nat) :
    Inv { s with status := c } :=
  { acc := by have := h.acc; simpa [restPhase, hc, Acc, at_] using this
    sent := by intro hx; simp [hc] at hx
    unsent := h.unsent
    size := h.size }

theorem inv_step {s : St} (h : Inv s) (op : Op) : Inv (step s op) := by
  cases op with
  | before k => exact inv_register h true k
  | after k => exact inv_register h false k
  | writeHeader c => exact inv_writeHeader h c
  | write n => exact inv_write h n
  | flush => exact inv_flush h
  | blob c n => exact inv_write (inv_writeHeader h c) n
  | json c k ok =>
    have h2 : Inv (if s.committed then emit s .warn else { s with status := c }) := by
      by_cases hc : s.committed = true
      · have := inv_writeHeader h c
        simpa [writeHeader, hc] using this
      · have hc' : s.committed = false := by simpa using hc
        simpa [hc'] using inv_setStatus h hc' c
    simp only [step]
    split
    · exact inv_write h2 _
    · exact h2

/-- **C06H_inv** — for EVERY program, whatever hooks it registers and whatever hooks those
    register in turn: the trace is accepted by the hook specification, `Committed` tells whether
    the headers are out, at most one `WriteHeader` reached the writer (with `Status`), `Size` is
    what the writer got. -/
theorem C06H_inv (p : Nat) (prog : List Op) : Inv (run (init p) prog) := by
  suffices H : ∀ s, Inv s → Inv (run s prog) from H _ (inv_init p)
  induction prog with
  | nil => intro s h; exact h
  | cons op ops ih => intro s h; exact ih _ (inv_step h op)

theorem C06H_trace_ok (p : Nat) (prog : List Op) : traceOK (run (init p) prog).trace = true := by
  have h := (C06H_inv p prog).acc
  simp only [traceOK, Acc] at h ⊢
  rw [h]
  cases hcm : (run (init p) prog).committed <;> simp [at_, restPhase, Scan.quiet, hcm]

/-! ## what acceptance means -/

def isRunA? : Ev → Option Nat | .runA h => some h | _ => none
def isRunB? : Ev → Option Nat | .runB h => some h | _ => none
def isHdr? : Ev → Option Nat | .hdr c => some c | _ => none
def regAs (l : List Ev) : List Nat := l.filterMap isRegA?
def runAs (l : List Ev) : List Nat := l.filterMap isRunA?
def runBs (l : List Ev) : List Nat := l.filterMap isRunB?
def hdrsOf (l : List Ev) : List Nat := l.filterMap isHdr?

theorem next_aft {σ σ1 : Scan} {e : Ev} (hn : σ.next e = some σ1) :
    σ1.aft = σ.aft ++ (isRegA? e).toList := by
  unfold Scan.next at hn
  cases hp : phaseNext σ e with
  | none => simp [hp] at hn
  | some ph => simp [hp] at hn; subst hn; rfl

theorem next_ph {σ σ1 : Scan} {e : Ev} (hn : σ.next e = some σ1) : phaseNext σ e = some σ1.ph := by
  unfold Scan.next at hn
  cases hp : phaseNext σ e with
  | none => simp [hp] at hn
  | some ph => simp [hp] at hn; subst hn; rfl

/-- the scanner's after-hook list is the list of registrations it has seen -/
theorem scan_aft (l : List Ev) : ∀ (σ σ' : Scan), scanFrom σ l = some σ' → σ'.aft = σ.aft ++ regAs l := by
  induction l with
  | nil => intro σ σ' h; simp [scanFrom] at h; subst h; simp [regAs]
  | cons e es ih =>
    intro σ σ' h
    simp only [scanFrom] at h
    cases hn : σ.next e with
    | none => simp [hn] at h
    | some σ1 =>
      simp only [hn] at h
      rw [ih σ1 σ' h, next_aft hn]
      have : regAs (e :: es) = (isRegA? e).toList ++ regAs es := by
        cases e <;> simp [regAs, isRegA?, List.filterMap_cons]
      rw [this, List.append_assoc]

/-- owed after-hooks are run, in order, before the scanner is quiet again; other events
    (registrations by those hooks) may come in between -/
theorem scan_pending (post : List Ev) : ∀ (pend : List Nat) (σ σ' : Scan), σ.ph = .out pend →
    scanFrom σ post = some σ' → σ'.quiet = true → pend <+: runAs post := by
  induction post with
  | nil =>
    intro pend σ σ' hph h hq
    simp [scanFrom] at h; subst h
    cases pend with
    | nil => simp [runAs]
    | cons x xs => simp [Scan.quiet, hph] at hq
  | cons e es ih =>
    intro pend σ σ' hph h hq
    simp only [scanFrom] at h
    cases hn : σ.next e with
    | none => simp [hn] at h
    | some σ1 =>
      simp only [hn] at h
      have hp := next_ph hn
      cases pend with
      | nil => simp
      | cons x xs =>
        cases e <;> simp only [phaseNext, hph] at hp
        case regB k =>
          have := ih (x :: xs) σ1 σ' (Option.some.inj hp).symm h hq
          simpa [runAs, isRunA?, List.filterMap_cons] using this
        case regA k =>
          have := ih (x :: xs) σ1 σ' (Option.some.inj hp).symm h hq
          simpa [runAs, isRunA?, List.filterMap_cons] using this
        case runA k =>
          split at hp
          · rename_i hx
            subst hx
            have := ih xs σ1 σ' (Option.some.inj hp).symm h hq
            simpa [runAs, isRunA?] using this
          · simp at hp
        all_goals simp at hp

/-- **scan_after_each_write** — in an accepted trace that ends quiet, every after-hook
    registered before a body write (by the handler or by a hook, e.g. a before-hook running in
    the very commit this write triggered) runs after that write, in registration order. -/
theorem scan_after_each_write {pre post : List Ev} {k : Nat} {σ : Scan}
    (h : scanFrom {} (pre ++ .body k :: post) = some σ) (hq : σ.quiet = true) :
    regAs pre <+: runAs post := by
  rw [scanFrom_append] at h
  cases h1 : scanFrom {} pre with
  | none => simp [h1] at h
  | some σ1 =>
    simp only [h1, Option.bind, scanFrom] at h
    have ha := scan_aft pre {} σ1 h1
    simp only [List.nil_append] at ha
    cases hn : σ1.next (.body k) with
    | none => simp [hn] at h
    | some σ2 =>
      simp only [hn] at h
      have hp := next_ph hn
      have hph : σ2.ph = .out (regAs pre) := by
        cases hσ : σ1.ph with
        | idle => simp [phaseNext, hσ] at hp
        | running r => simp [phaseNext, hσ] at hp
        | out p =>
          cases p with
          | nil => simp only [phaseNext, hσ, Option.some.injEq] at hp; rw [← hp, ha]
          | cons x xs => simp [phaseNext, hσ] at hp
      exact scan_pending post _ σ2 σ hph h hq

/-- once the headers are out no before-hook runs and no further `WriteHeader` is accepted -/
theorem scan_out_forever (post : List Ev) : ∀ (σ σ' : Scan), (∃ p, σ.ph = .out p) →
    scanFrom σ post = some σ' → runBs post = [] ∧ hdrsOf post = [] := by
  induction post with
  | nil => intro _ _ _ _; exact ⟨rfl, rfl⟩
  | cons e es ih =>
    intro σ σ' hp h
    obtain ⟨p, hph⟩ := hp
    simp only [scanFrom] at h
    cases hn : σ.next e with
    | none => simp [hn] at h
    | some σ1 =>
      simp only [hn] at h
      have hpn := next_ph hn
      have key : (∃ p', σ1.ph = .out p') ∧ isRunB? e = none ∧ isHdr? e = none := by
        cases e <;> cases p <;> simp only [phaseNext, hph] at hpn <;>
          first
          | (exact ⟨⟨_, (Option.some.inj hpn).symm⟩, rfl, rfl⟩)
          | (simp at hpn; done)
          | (simp at hpn; exact ⟨⟨_, hpn.2.symm⟩, rfl, rfl⟩)
          | (split at hpn
             · exact ⟨⟨_, (Option.some.inj hpn).symm⟩, rfl, rfl⟩
             · simp at hpn)
      obtain ⟨k1, k2, k3⟩ := key
      obtain ⟨i1, i2⟩ := ih σ1 σ' k1 h
      constructor
      · have : runBs (e :: es) = (isRunB? e).toList ++ runBs es := by
          cases e <;> simp [runBs, isRunB?, List.filterMap_cons]
        rw [this, k2, i1]; rfl
      · have : hdrsOf (e :: es) = (isHdr? e).toList ++ hdrsOf es := by
          cases e <;> simp [hdrsOf, isHdr?, List.filterMap_cons]
        rw [this, k3, i2]; rfl

/-- **scan_before** — after the `WriteHeader` that reached the writer no before-hook runs and
    no second `WriteHeader` reaches it -/
theorem scan_before {pre post : List Ev} {c : Nat} {σ : Scan}
    (h : scanFrom {} (pre ++ .hdr c :: post) = some σ) : runBs post = [] ∧ hdrsOf post = [] := by
  rw [scanFrom_append] at h
  cases h1 : scanFrom {} pre with
  | none => simp [h1] at h
  | some σ1 =>
    simp only [h1, Option.bind, scanFrom] at h
    cases hn : σ1.next (.hdr c) with
    | none => simp [hn] at h
    | some σ2 =>
      simp only [hn] at h
      have hp := next_ph hn
      have hout : ∃ p, σ2.ph = .out p := by
        cases hσ : σ1.ph with
        | idle =>
          simp only [phaseNext, hσ] at hp
          split at hp
          · exact ⟨[], (Option.some.inj hp).symm⟩
          · simp at hp
        | running r =>
          cases r with
          | nil => simp only [phaseNext, hσ] at hp; exact ⟨[], (Option.some.inj hp).symm⟩
          | cons x xs => simp [phaseNext, hσ] at hp
        | out p => simp [phaseNext, hσ] at hp
      exact scan_out_forever post σ2 σ hout h

/-- **C06H_after_hooks_each_write** — for every program: every after-hook registered before a
    body write reaches the writer — also one registered by a before-hook during the commit that
    this very write triggered — runs after that write, in registration order. -/
theorem C06H_after_hooks_each_write (p : Nat) (prog : List Op) (pre post : List Ev) (k : Nat)
    (htr : (run (init p) prog).trace = pre ++ .body k :: post) : regAs pre <+: runAs post := by
  have h := (C06H_inv p prog).acc
  simp only [Acc] at h
  rw [htr] at h
  refine scan_after_each_write h ?_
  cases hcm : (run (init p) prog).committed <;> simp [at_, restPhase, Scan.quiet, hcm]

theorem C06H_before_hooks_not_after_headers (p : Nat) (prog : List Op) (pre post : List Ev) (c : Nat)
    (htr : (run (init p) prog).trace = pre ++ .hdr c :: post) : runBs post = [] ∧ hdrsOf post = [] := by
  have h := (C06H_inv p prog).acc
  simp only [Acc] at h
  rw [htr] at h
  exact scan_before h

/-! ## non-vacuity: the shapes the harness generates -/

/-- a before-hook registers an after-hook; the write that commits the response owes it -/
example : (run (init 200) [.before ⟨1, some (false, 7)⟩, .write 3]).trace
    = [.regB 1, .runB 1, .regA 7, .hdr 200, .body 3, .runA 7] := by decide
/-- … and the hypotheses of `C06H_after_hooks_each_write` are met with `regAs pre = [7]` -/
example : regAs [Ev.regB 1, .runB 1, .regA 7, .hdr 200] = [7] ∧ runAs [Ev.runA 7] = [7] := by decide
/-- a before-hook registered by a before-hook is not run by the loop in progress (Go reads the
    slice once) and never afterwards -/
example : (run (init 200) [.before ⟨1, some (true, 2)⟩, .writeHeader 404, .write 1]).trace
    = [.regB 1, .runB 1, .regB 2, .hdr 404, .body 1] := by decide
/-- an after-hook that registers an after-hook: the child runs from the next write on, and is
    registered again each time its parent runs -/
example : (run (init 0) [.after ⟨1, some (false, 2)⟩, .write 1, .write 1]).trace
    = [.regA 1, .hdr 200, .body 1, .runA 1, .regA 2, .body 1, .runA 1, .regA 2, .runA 2] := by decide
/-- the specification rejects the behaviour of the seeded change (the after-hook registered
    during the commit is skipped for the committing write) -/
example : traceOK [.regB 1, .runB 1, .regA 7, .hdr 200, .body 3] = false := by decide

end C06H
