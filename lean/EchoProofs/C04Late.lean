import EchoProofs.C04
/-!
# C04 — "middleware added to a group after a route was registered does not apply to that route"

A route closes over the middleware list its group has at registration time (`C04_snapshot_add`), and no
later registration op other than `Echo.Host` for the same host (which installs a fresh router, i.e. removes
the route altogether) touches a route that is already registered.  Hence, for EVERY registration program
that continues after the route was added, the layers that go in for a request dispatched to that route are
`Pre ++ Use ++ snapshot-at-registration`: a middleware that is handed to the group (or to any group) only
later, and is not an Echo-level Pre/Use middleware, does not go in.
-/
namespace C04
open Router

/-- an op that is not `Echo.Host` -/
def NotHost : Op → Prop
  | .host _ _ => False
  | _ => True

/-- continuing a program without `Echo.Host` only appends routes -/
theorem foldl_exec_routes_append (ops : List Op) (hno : ∀ op ∈ ops, NotHost op) :
    ∀ c : Cfg, ∃ extra, (ops.foldl exec c).routes = c.routes ++ extra := by
  induction ops with
  | nil => intro c; exact ⟨[], by simp⟩
  | cons op ops ih =>
    intro c
    have h1 : ∀ n ms, op ≠ .host n ms := by
      intro n ms he
      have := hno op (by simp)
      subst he
      exact this
    obtain ⟨e1, he1⟩ := C04_routes_append_only c op h1
    obtain ⟨e2, he2⟩ := ih (fun o ho => hno o (by simp [ho])) (exec c op)
    exact ⟨e1 ++ e2, by simp only [List.foldl_cons, he2, he1, List.append_assoc]⟩

/-- **C04_registered_route_is_frozen** — whatever is registered afterwards (groups, `Group.Use`, more
    routes, Echo-level `Pre`/`Use`), the record of an already registered route — its handler and the
    middleware snapshot it closed over — stays what it was. -/
theorem C04_registered_route_is_frozen (c : Cfg) (ops : List Op) (hno : ∀ op ∈ ops, NotHost op)
    (k : Nat) (r : RouteRec) (hk : c.routes[k]? = some r) :
    (ops.foldl exec c).routes[k]? = some r := by
  obtain ⟨extra, he⟩ := foldl_exec_routes_append ops hno c
  rw [he, List.getElem?_append_left]
  · exact hk
  · exact (List.getElem?_eq_some_iff.mp hk).1

/-- the snapshot part of `selected` when the router dispatches to route number `k` -/
theorem selected_mws_of_dispatch (c : Cfg) (host method path : Str) (rm : RouteMethod) (vals : List Str)
    (r : RouteRec)
    (hf : find (build (tableOf c (if c.hosts.contains host then host else [])))
            method path (List.replicate (maxParam (tableOf c (if c.hosts.contains host then host else []))) [])
          = .dispatch rm vals)
    (hr : c.routes[rm.hid]? = some r) :
    (selected c host method path).2.2 = r.mws := by
  unfold selected
  simp only [hf, hr]
  split <;> rfl

/-- **C04_late_group_middleware_not_applied** — full statement.  Take any program `ops1`, a route
    registered next (through a group or on the Echo instance), and any continuation `ops2` without
    `Echo.Host`.  If a request is dispatched to that route (route number `k` of the final configuration
    is the record created by the `add`), then the middleware that go in are exactly
    `Pre ++ Use ++ (snapshot taken when the route was added)`; in particular a middleware id `i` that
    is neither an Echo-level Pre/Use middleware nor in that snapshot — e.g. one handed to the group by
    a later `Group.Use` — does not go in. -/
theorem C04_late_group_middleware_not_applied
    (ops1 ops2 : List Op) (g : Option Nat) (m p : Str) (hid : Nat) (fails : Bool) (ms : List Mw)
    (hno : ∀ op ∈ ops2, NotHost op)
    (k : Nat) (r : RouteRec)
    (hk : (exec (run ops1) (.add g m p hid fails ms)).routes[k]? = some r)
    (host method path : Str) (rm : RouteMethod) (vals : List Str)
    (hf : let c := ops2.foldl exec (exec (run ops1) (.add g m p hid fails ms))
          find (build (tableOf c (if c.hosts.contains host then host else [])))
            method (rewriteAll c.pre path)
            (List.replicate (maxParam (tableOf c (if c.hosts.contains host then host else []))) [])
          = .dispatch rm vals)
    (hrm : rm.hid = k) :
    let c := ops2.foldl exec (exec (run ops1) (.add g m p hid fails ms))
    enterIds (serve c host method path) = c.pre.map (·.id) ++ c.use ++ r.mws
    ∧ ∀ i : Mw, i ∉ c.pre.map (·.id) → i ∉ c.use → i ∉ r.mws →
        i ∉ enterIds (serve c host method path) := by
  intro c
  have hfrozen : c.routes[k]? = some r :=
    C04_registered_route_is_frozen _ ops2 hno k r hk
  have hsel : (selected c host method (rewriteAll c.pre path)).2.2 = r.mws :=
    selected_mws_of_dispatch c host method _ rm vals r hf (by rw [hrm]; exact hfrozen)
  have hE : enterIds (serve c host method path) = c.pre.map (·.id) ++ c.use ++ r.mws := by
    rw [C04_enter_order, layers, hsel]
  refine ⟨hE, ?_⟩
  intro i h1 h2 h3 hin
  rw [hE] at hin
  simp only [List.mem_append] at hin
  rcases hin with (h | h) | h
  · exact h1 h
  · exact h2 h
  · exact h3 h

/-- the snapshot of a route added through a group is the group's list at that moment ++ its own
    middleware (restating `C04_snapshot_add` in the form used above: the record is the LAST route) -/
theorem add_creates_last (c : Cfg) (gid : Nat) (gr : Group) (hg : c.groups[gid]? = some gr)
    (m p : Str) (hid : Nat) (fails : Bool) (ms : List Mw) :
    ∃ r, (exec c (.add (some gid) m p hid fails ms)).routes[c.routes.length]? = some r
      ∧ r.mws = gr.mws ++ ms ∧ r.hid = hid := by
  obtain ⟨r, h1, h2, h3⟩ := C04_snapshot_add c gid gr hg m p hid fails ms
  exact ⟨r, by rw [h1]; simp, h2, h3⟩

/-! ### non-vacuity: group `/g` with middleware 1, route `/g/x`, then `Group.Use(2)` -/

def demoLate1 : List Op := [.group none "/g".toList [1]]
def demoLate2 : List Op := [.groupUse 0 [2], .use 9]

example : (∀ op ∈ demoLate2, NotHost op) := by
  intro op h
  simp only [demoLate2, List.mem_cons, List.mem_nil_iff, or_false] at h
  rcases h with h | h <;> subst h <;> trivial

example :
    enterIds (serve (demoLate2.foldl exec (exec (run demoLate1) (.add (some 0) "GET".toList "/x".toList 5 false [])))
      [] "GET".toList "/g/x".toList) = [9, 1] := by decide +kernel

/-- … while the refreshed catch-all of the group does carry the later middleware (a request the route
    does not claim) -/
example :
    enterIds (serve (demoLate2.foldl exec (exec (run demoLate1) (.add (some 0) "GET".toList "/x".toList 5 false [])))
      [] "GET".toList "/g/other".toList) = [9, 1, 2] := by decide +kernel

end C04
