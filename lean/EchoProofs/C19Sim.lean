import EchoModel.C19
import EchoProofs.C19
import EchoProofs.C19Cfg
/-!
# C19, round 8 — simultaneous calls on one name; the shortest request targets

* J: a name of the balancer is a present/absent bit that only a successful AddTarget / RemoveTarget
  flips (`C19_name_balance`, `C19_name_tally`, `C19_add_refused_needs_present`,
  `C19_remove_refused_needs_absent`): the sequential facts behind the oracle of the simultaneous
  rounds (harness/c19_conc.go, c19RunRounds).  By `C19_linearizable` the calls of one round are an op
  sequence of the model in SOME order; the facts below hold for every order.
* K: no request target is too short (or too long) for a rewrite rule: catch-all rules on `/` and on
  the empty target (`C19_rewrite_catch_all`), exact rules for the two shortest targets
  (`C19_rewrite_exact_short`).
-/
namespace C19

/-! ## J. one name under simultaneous calls -/

/-- 1 if the operation is a successful `AddTarget` of a target named `nm` -/
def addOk1 (nm : List Char) (o : Op) (r : Res) : Nat :=
  match o, r with
  | .add t, .bool true => if t.name = nm then 1 else 0
  | _, _ => 0

/-- 1 if the operation is a successful `RemoveTarget(nm)` -/
def removeOk1 (nm : List Char) (o : Op) (r : Res) : Nat :=
  match o, r with
  | .remove n, .bool true => if n = nm then 1 else 0
  | _, _ => 0

/-- number of successful `AddTarget` calls for the name in a history (operations with their results) -/
def addsOk (nm : List Char) (ops : List Op) (rs : List Res) : Nat :=
  ((ops.zip rs).map fun p => addOk1 nm p.1 p.2).sum

/-- number of successful `RemoveTarget(nm)` calls in a history -/
def removesOk (nm : List Char) (ops : List Op) (rs : List Res) : Nat :=
  ((ops.zip rs).map fun p => removeOk1 nm p.1 p.2).sum

/-- 1 if a target of that name is in the list, else 0 -/
def presentN (ts : List Target) (nm : List Char) : Nat := if hasName ts nm then 1 else 0

theorem hasName_append_single (ts : List Target) (t : Target) (nm : List Char) :
    hasName (ts ++ [t]) nm = (hasName ts nm || (t.name == nm)) := by
  simp [hasName]

theorem hasName_eraseP_other (ts : List Target) (n nm : List Char) (hu : NamesUnique ts) (hne : n ≠ nm) :
    hasName (ts.eraseP (fun t => t.name == n)) nm = hasName ts nm := by
  rw [Bool.eq_iff_iff, hasName_iff, hasName_iff]
  constructor
  · rintro ⟨x, hx, hn⟩
    exact ⟨x, ((eraseP_name_mem ts n hu x).mp hx).1, hn⟩
  · rintro ⟨x, hx, hn⟩
    exact ⟨x, (eraseP_name_mem ts n hu x).mpr ⟨hx, by rw [hn]; exact fun h => hne h.symm⟩, hn⟩

theorem hasName_eraseP_self (ts : List Target) (nm : List Char) (hu : NamesUnique ts) :
    hasName (ts.eraseP (fun t => t.name == nm)) nm = false := by
  rw [hasName_false_iff]
  intro t ht
  exact ((eraseP_name_mem ts nm hu t).mp ht).2

/-- one operation: what was there plus what was added = what was removed plus what is there -/
theorem stepOp_balance (s : St) (o : Op) (nm : List Char) (hu : NamesUnique s.bal.targets) :
    presentN s.bal.targets nm + addOk1 nm o (stepOp s o).2
      = removeOk1 nm o (stepOp s o).2 + presentN (stepOp s o).1.bal.targets nm := by
  cases o with
  | add t =>
    simp only [stepOp, addTarget]
    cases h : hasName s.bal.targets t.name with
    | true => simp [addOk1, removeOk1]
    | false =>
      simp only [Bool.false_eq_true, if_false, addOk1, removeOk1, presentN, hasName_append_single]
      by_cases hn : t.name = nm
      · subst hn; simp [h]
      · simp [hn]
  | remove n =>
    simp only [stepOp, removeTarget]
    cases h : hasName s.bal.targets n with
    | false => simp [addOk1, removeOk1]
    | true =>
      simp only [if_true, addOk1, removeOk1, presentN]
      by_cases hn : n = nm
      · subst hn; simp [h, hasName_eraseP_self _ _ hu]
      · simp [hn, hasName_eraseP_other _ _ _ hu hn]
  | next c hint =>
    simp [stepOp, addOk1, removeOk1, nextOf_targets]

/-- **C19_name_balance** — for every operation sequence from every state with unique names (any
    balancer kind, any indices) and every name: *present before + successful AddTarget calls =
    successful RemoveTarget calls + present after*.  A name is a present/absent bit that only a
    successful call flips, so the successes alternate: this is what a round of simultaneous calls
    on one name is checked against (by `C19_linearizable` the round is such a sequence). -/
theorem C19_name_balance (ops : List Op) (nm : List Char) :
    ∀ s : St, NamesUnique s.bal.targets →
      presentN s.bal.targets nm + addsOk nm ops (runOps s ops).2
        = removesOk nm ops (runOps s ops).2 + presentN (runOps s ops).1.bal.targets nm := by
  induction ops with
  | nil => intro s _; simp [runOps, addsOk, removesOk]
  | cons o os ih =>
    intro s hu
    have h1 := stepOp_balance s o nm hu
    have h2 := ih (stepOp s o).1 (stepOp_unique s o hu)
    simp only [addsOk, removesOk] at h2 ⊢
    simp only [runOps, List.zip_cons_cons, List.map_cons, List.sum_cons]
    omega

/-- **C19_name_tally** — the consequences the oracle uses.  Name absent before: the successful adds
    are as many as the successful removes or one more, and the name is present afterwards exactly in
    the second case (never two successful adds in a row).  Name present before: the same with the
    roles swapped (never two successful removes of one entry). -/
theorem C19_name_tally (ops : List Op) (nm : List Char) (s : St) (hu : NamesUnique s.bal.targets) :
    let a := addsOk nm ops (runOps s ops).2
    let r := removesOk nm ops (runOps s ops).2
    (hasName s.bal.targets nm = false →
      (a = r ∨ a = r + 1) ∧ (hasName (runOps s ops).1.bal.targets nm = true ↔ a = r + 1)) ∧
    (hasName s.bal.targets nm = true →
      (r = a ∨ r = a + 1) ∧ (hasName (runOps s ops).1.bal.targets nm = false ↔ r = a + 1)) := by
  intro a r
  have h := C19_name_balance ops nm s hu
  simp only [presentN] at h
  constructor
  · intro h0
    rw [h0] at h
    cases h1 : hasName (runOps s ops).1.bal.targets nm <;> simp [h1] at h ⊢ <;> omega
  · intro h0
    rw [h0] at h
    cases h1 : hasName (runOps s ops).1.bal.targets nm <;> simp [h1] at h ⊢ <;> omega

/-- **C19_add_refused_needs_present** — a name that is absent and that no call of the sequence adds
    successfully is not the subject of ANY AddTarget call of the sequence: the first such call would
    have succeeded.  So an `AddTarget` that answers false proves the name was on the list before or
    was added by another call. -/
theorem C19_add_refused_needs_present (ops : List Op) (nm : List Char) :
    ∀ s : St, hasName s.bal.targets nm = false → addsOk nm ops (runOps s ops).2 = 0 →
      ∀ o ∈ ops, ¬ o.addsName nm := by
  induction ops with
  | nil => intro s _ _ o ho; simp at ho
  | cons o os ih =>
    intro s h0 ha
    simp only [addsOk, runOps, List.zip_cons_cons, List.map_cons, List.sum_cons] at ha
    have hfirst : ¬ o.addsName nm := by
      cases o with
      | add t =>
        intro hn
        simp only [Op.addsName] at hn
        subst hn
        simp [stepOp, addTarget, h0, addOk1] at ha
      | remove n => simp [Op.addsName]
      | next c hint => simp [Op.addsName]
    have habs := stepOp_absent s o nm hfirst ((hasName_false_iff _ _).mp h0)
    have := ih (stepOp s o).1 ((hasName_false_iff _ _).mpr habs) (by simp only [addsOk]; omega)
    intro o' ho'
    rcases List.mem_cons.mp ho' with rfl | ho'
    · exact hfirst
    · exact this o' ho'

/-- **C19_remove_refused_needs_absent** — the mirror image: a name that is on the list (names
    unique) and that no call of the sequence removes successfully is not the subject of ANY
    RemoveTarget call of the sequence. -/
theorem C19_remove_refused_needs_absent (ops : List Op) (nm : List Char) :
    ∀ s : St, hasName s.bal.targets nm = true → removesOk nm ops (runOps s ops).2 = 0 →
      ∀ o ∈ ops, ¬ o.removesName nm := by
  induction ops with
  | nil => intro s _ _ o ho; simp at ho
  | cons o os ih =>
    intro s h0 hr
    simp only [removesOk, runOps, List.zip_cons_cons, List.map_cons, List.sum_cons] at hr
    have hfirst : ¬ o.removesName nm := by
      cases o with
      | remove n =>
        intro hn
        simp only [Op.removesName] at hn
        subst hn
        simp [stepOp, removeTarget, h0, removeOk1] at hr
      | add t => simp [Op.removesName]
      | next c hint => simp [Op.removesName]
    obtain ⟨t, ht, hn⟩ := (hasName_iff _ _).mp h0
    have hkept := stepOp_kept s o t (by rw [hn]; exact hfirst) ht
    have := ih (stepOp s o).1 ((hasName_iff _ _).mpr ⟨t, hkept, hn⟩) (by simp only [removesOk]; omega)
    intro o' ho'
    rcases List.mem_cons.mp ho' with rfl | ho'
    · exact hfirst
    · exact this o' ho'

-- non-vacuity: three simultaneous AddTarget("x") calls in any order — one true, two false;
-- then three RemoveTarget("x"): one true
example : (runOps ⟨true, ⟨[⟨['i'], 0⟩], 0⟩, []⟩
    [.add ⟨['x'], 1⟩, .add ⟨['x'], 2⟩, .add ⟨['x'], 3⟩, .remove ['x'], .remove ['x']]).2
    = [.bool true, .bool false, .bool false, .bool true, .bool false] := by decide
example : addsOk ['x'] [.add ⟨['x'], 1⟩, .add ⟨['x'], 2⟩, .remove ['x'], .add ⟨['x'], 3⟩]
    (runOps ⟨true, ⟨[], 0⟩, []⟩ [.add ⟨['x'], 1⟩, .add ⟨['x'], 2⟩, .remove ['x'], .add ⟨['x'], 3⟩]).2 = 2 := by decide
-- what the seeded change produces (two entries of one name) is outside every reachable state:
example : ¬ NamesUnique [⟨['x'], 1⟩, ⟨['x'], 2⟩] := by simp [NamesUnique]

/-! ## K. the shortest request targets -/

theorem lazyStar_end (k : List Char → Bool → Option (List (List Char)))
    (hk : ∀ inp st, k inp st = if inp = [] then some [] else none) (inp : List Char) :
    ∀ (st : Bool) (acc : List Char), '\n' ∉ inp → Glob.lazyStar k inp st acc = some [acc.reverse ++ inp] := by
  induction inp with
  | nil => intro st acc _; simp [Glob.lazyStar, hk]
  | cons x r ih =>
    intro st acc hnl
    have hx : (x == '\n') = false := by
      simp only [List.mem_cons, not_or] at hnl
      simpa using fun h => hnl.1 h.symm
    have hr : '\n' ∉ r := fun h => hnl (List.mem_cons_of_mem _ h)
    unfold Glob.lazyStar
    simp [hk, hx, ih false (x :: acc) hr]

theorem findFrom_bol_false (ts : List Glob.Tok) (inp : List Char) :
    Glob.findFrom (.bol :: ts) inp false = none := by
  induction inp with
  | nil => simp [Glob.findFrom, Glob.matchToks]
  | cons x r ih => simp [Glob.findFrom, Glob.matchToks, ih]

theorem keyAt_nil (k : Nat) (s : List Char) : Glob.keyAt [] k s = none := rfl

theorem substAux_nil (fuel : Nat) : ∀ s : List Char, Glob.substAux [] fuel s = s := by
  induction fuel with
  | zero => intro s; rfl
  | succ n ih =>
    intro s
    cases s with
    | nil => rfl
    | cons c r => simp [Glob.substAux, keyAt_nil, ih r]

/-- a template is taken literally when the rule has no star -/
theorem subst_nil (tmpl : List Char) : Glob.subst [] tmpl = tmpl := substAux_nil _ _

/-- **C19_rewrite_catch_all** — no request target is too short for a rule.  The prefix rule `/*`
    rewrites EVERY origin-form target `/rest` — the root request `/` (`rest` empty) like any other —
    to its template with `$1 := rest`; the rule `*` rewrites every request whatever is matched
    (also the empty string left of a path-less absolute-form target, `GET http://host HTTP/1.1`).
    (`rest` free of line feeds: `.` does not match `\n`; net/http admits none in a request line.) -/
theorem C19_rewrite_catch_all (tmpl rest pathq : List Char) (hnl : '\n' ∉ rest) :
    rewriteReq [⟨['/', '*'], tmpl⟩] ('/' :: rest) pathq = Glob.subst [rest] tmpl ∧
    rewriteReq [⟨['^', '/', '*'], tmpl⟩] ('/' :: rest) pathq = Glob.subst [rest] tmpl ∧
    (∀ requestURI, matchInput requestURI = rest →
      rewriteReq [⟨['*'], tmpl⟩] requestURI pathq = Glob.subst [rest] tmpl) := by
  have h := lazyStar_end (fun x _ => if x = [] then some [] else none) (fun _ _ => rfl) rest false [] hnl
  have h' := lazyStar_end (fun x _ => if x = [] then some [] else none) (fun _ _ => rfl) rest true [] hnl
  simp only [List.reverse_nil, List.nil_append] at h h'
  refine ⟨?_, ?_, ?_⟩
  · simp [rewriteReq, matchInput, rewrite?, Rule.apply, Glob.find, Glob.findFrom, Glob.compile, Glob.matchToks, h]
  · simp [rewriteReq, matchInput, rewrite?, Rule.apply, Glob.find, Glob.findFrom, Glob.compile, Glob.matchToks, h]
  · intro u hu
    cases rest with
    | nil => simp [rewriteReq, hu, rewrite?, Rule.apply, Glob.find, Glob.findFrom, Glob.compile, Glob.matchToks, Glob.lazyStar]
    | cons x r =>
      simp [rewriteReq, hu, rewrite?, Rule.apply, Glob.find, Glob.findFrom, Glob.compile, Glob.matchToks, h']

/-- **C19_rewrite_exact_short** — the exact rules for the two shortest targets: `^/` fires for the
    root request `/` and for nothing else, `^` for the empty target and for nothing else; the
    template is used as it is. -/
theorem C19_rewrite_exact_short (tmpl uri : List Char) :
    Rule.apply ⟨['^', '/'], tmpl⟩ uri = (if uri = ['/'] then some tmpl else none) ∧
    Rule.apply ⟨['^'], tmpl⟩ uri = (if uri = [] then some tmpl else none) := by
  constructor
  · cases uri with
    | nil => simp [Rule.apply, Glob.find, Glob.findFrom, Glob.compile, Glob.matchToks]
    | cons x r =>
      by_cases hx : x = '/'
      · subst hx
        cases r with
        | nil => simp [Rule.apply, Glob.find, Glob.findFrom, Glob.compile, Glob.matchToks, subst_nil]
        | cons y r' =>
          simp [Rule.apply, Glob.find, Glob.findFrom, Glob.compile, Glob.matchToks, findFrom_bol_false]
      · simp [Rule.apply, Glob.find, Glob.findFrom, Glob.compile, Glob.matchToks, findFrom_bol_false, hx]
  · cases uri with
    | nil => simp [Rule.apply, Glob.find, Glob.findFrom, Glob.compile, Glob.matchToks, subst_nil]
    | cons x r => simp [Rule.apply, Glob.find, Glob.findFrom, Glob.compile, Glob.matchToks, findFrom_bol_false]

-- the inputs of seeded change 8/3 and their neighbours
example : rewriteReq [⟨"/*".toList, "/app/$1".toList⟩] "/".toList "/".toList = "/app/".toList := by decide
example : rewriteReq [⟨"/".toList, "/index.html".toList⟩] "/".toList "/".toList = "/index.html".toList := by decide
example : rewriteReq [⟨"*".toList, "/all$1".toList⟩] "http://ex.test".toList "/".toList = "/all".toList := by decide
example : rewriteReq [⟨"^".toList, "/root".toList⟩] "HTTP://u@ex.test".toList "/".toList = "/root".toList := by decide
example : rewriteReq [⟨"^".toList, "/root".toList⟩] "/".toList "/".toList = "/".toList := by decide
example : rewriteReq [⟨"^/".toList, "/index.html".toList⟩] "/a".toList "/a".toList = "/a".toList := by decide
example : rewriteReq [⟨"".toList, "/fixed".toList⟩] "/?".toList "/?".toList = "/fixed".toList := by decide

end C19
