import EchoProofs.C10Parse
/-!
# C10 — `net.ParseIP` ∘ `IP.String` on IPv6: the RFC 5952 printer and the parser are inverse

`parseIP_v6String`: for EVERY 16-byte address `ip`, `parseIP (v6String ip) = some ip`, where
`v6String` is the model of netip's `appendTo6` (lower-case hex groups without leading zeros, the
left-most longest run of ≥ 2 zero groups replaced by `::`).  Consequences:
`parseIP_ipString_v6` (addresses that are not IPv4-mapped), `parseIP_ipString_16` (all 16-byte
addresses), `parseIP_ipString_parse` (canonicalisation is idempotent on everything `parseIP` accepts).
No enumeration of addresses: induction over the hex digits of a group and over the list of groups.
-/
namespace C10
/-! ## hex groups -/

theorem hexVal6_digitChar : ∀ d, d < 16 → hexVal6 (Nat.digitChar d) = some d := by
  decide

theorem hexVal6_colon : hexVal6 ':' = none := by decide

theorem readHex_toDigits (n : Nat) (t : Str) (hl : (Nat.toDigits 16 n).length ≤ 4) :
    readHex (Nat.toDigits 16 n ++ t) 0 0 = readHex t n (Nat.toDigits 16 n).length := by
  induction n using Nat.strongRecOn generalizing t with
  | ind n ih =>
    rw [Nat.toDigits_eq_if (by omega : 1 < 16)] at hl ⊢
    split
    · rename_i h
      simp [readHex, hexVal6_digitChar n h]
    · rename_i h
      rw [if_neg h] at hl
      simp only [List.length_append, List.length_singleton] at hl
      rw [List.append_assoc, ih (n / 16) (by omega) _ (by omega)]
      simp only [List.singleton_append, List.length_append, List.length_singleton]
      rw [readHex, hexVal6_digitChar _ (by omega : n % 16 < 16)]
      have h1 : ¬ (Nat.toDigits 16 (n / 16)).length > 3 := by omega
      have h2 : n / 16 * 16 + n % 16 = n := by omega
      simp only [h1, if_false, h2]

theorem hexStr_length (n : Nat) (h : n < 65536) : (hexStr n).length ≤ 4 ∧ 0 < (hexStr n).length := by
  refine ⟨(Nat.length_toDigits_le_iff (b := 16) (by omega) (by omega)).mpr (by omega), Nat.length_toDigits_pos⟩

/-- reading one printed group: value, number of digits, and the rest, when the rest does not
    start with a hex digit -/
theorem readHex_hexStr (n : Nat) (h : n < 65536) (t : Str) (ht : t = [] ∨ ∃ r, t = ':' :: r) :
    readHex (hexStr n ++ t) 0 0 = some (n, (hexStr n).length, t) := by
  rw [hexStr, readHex_toDigits n t (hexStr_length n h).1]
  rcases ht with rfl | ⟨r, rfl⟩
  · rfl
  · simp [readHex, hexVal6_colon]

theorem hex_of_mem_hexStr (n : Nat) : ∀ c ∈ hexStr n, (hexVal6 c).isSome = true := by
  unfold hexStr
  induction n using Nat.strongRecOn with
  | ind n ih =>
    rw [Nat.toDigits_eq_if (by omega : 1 < 16)]
    split
    · rename_i h
      intro c hc
      simp only [List.mem_singleton] at hc
      subst hc; simp [hexVal6_digitChar n h]
    · intro c hc
      rcases List.mem_append.mp hc with hc | hc
      · exact ih (n / 16) (by omega) c hc
      · simp only [List.mem_singleton] at hc
        subst hc; simp [hexVal6_digitChar _ (by omega : n % 16 < 16)]

theorem hex_ne (c : Char) (h : (hexVal6 c).isSome = true) : c ≠ '.' ∧ c ≠ ':' ∧ c ≠ '%' := by
  refine ⟨?_, ?_, ?_⟩ <;> (intro h'; subst h'; revert h; decide)

/-! ## groups and bytes -/

/-- the two bytes the parser stores for a group value: `byte(acc >> 8)`, `byte(acc)` -/
def grp (g : Nat) : List Byte := [BitVec.ofNat 8 (g / 256), BitVec.ofNat 8 g]

def gbytes : List Nat → List Byte
  | [] => []
  | g :: r => grp g ++ gbytes r

theorem gbytes_append (a b : List Nat) : gbytes (a ++ b) = gbytes a ++ gbytes b := by
  induction a with
  | nil => rfl
  | cons g r ih => simp [gbytes, ih]

theorem gbytes_length (a : List Nat) : (gbytes a).length = 2 * a.length := by
  induction a with
  | nil => rfl
  | cons g r ih => simp [gbytes, grp, ih]; omega

theorem gbytes_replicate_zero (k : Nat) : gbytes (List.replicate k 0) = List.replicate (2 * k) 0 := by
  induction k with
  | zero => rfl
  | succ k ih =>
    rw [List.replicate_succ, gbytes, ih]
    have : 2 * (k + 1) = (2 * k + 1) + 1 := by omega
    rw [this, List.replicate_succ, List.replicate_succ]
    rfl

theorem byte_split (a b : Byte) : BitVec.ofNat 8 ((a.toNat * 256 + b.toNat) / 256) = a ∧
    BitVec.ofNat 8 (a.toNat * 256 + b.toNat) = b := by
  have ha := a.isLt
  have hb := b.isLt
  constructor
  · apply BitVec.eq_of_toNat_eq
    simp only [BitVec.toNat_ofNat]
    omega
  · apply BitVec.eq_of_toNat_eq
    simp only [BitVec.toNat_ofNat]
    omega

/-- the groups of an address, written back as bytes, are the address -/
theorem gbytes_groups : ∀ (ip : List Byte), ip.length % 2 = 0 → gbytes (groups ip) = ip
  | [], _ => rfl
  | [_], h => by simp at h
  | a :: b :: r, h => by
    have hr : r.length % 2 = 0 := by simp only [List.length_cons] at h; omega
    simp only [groups, gbytes, grp, (byte_split a b).1, (byte_split a b).2, gbytes_groups r hr]
    rfl

theorem groups_lt : ∀ (ip : List Byte), ∀ g ∈ groups ip, g < 65536
  | [], g, h => by simp [groups] at h
  | [_], g, h => by simp [groups] at h
  | a :: b :: r, g, h => by
    simp only [groups, List.mem_cons] at h
    rcases h with rfl | h
    · have ha := a.isLt; have hb := b.isLt; omega
    · exact groups_lt r g h

theorem groups_length : ∀ (ip : List Byte), (groups ip).length = ip.length / 2
  | [] => rfl
  | [_] => by simp [groups]
  | a :: b :: r => by simp only [groups, List.length_cons, groups_length r]; omega

/-! ## the loop on a list of printed groups -/

/-- `joinStrs ':' (gs.map hexStr)` -/
def txt (gs : List Nat) : Str := joinStrs ':' (gs.map hexStr)

theorem txt_nil : txt [] = [] := rfl
theorem txt_one (g : Nat) : txt [g] = hexStr g := rfl
theorem txt_cons2 (g g2 : Nat) (r : List Nat) : txt (g :: g2 :: r) = hexStr g ++ ':' :: txt (g2 :: r) := rfl

theorem hexStr_cons (g : Nat) : ∃ c r, hexStr g = c :: r ∧ (hexVal6 c).isSome = true := by
  cases h : hexStr g with
  | nil => exact absurd h (by unfold hexStr; exact Nat.toDigits_ne_nil)
  | cons c r => exact ⟨c, r, rfl, hex_of_mem_hexStr g c (by simp [h])⟩

theorem txt_cons_head (g : Nat) (r : List Nat) : ∃ c t, txt (g :: r) = c :: t ∧ (hexVal6 c).isSome = true := by
  obtain ⟨c, t, hc, hh⟩ := hexStr_cons g
  cases r with
  | nil => exact ⟨c, t, by rw [txt_one, hc], hh⟩
  | cons g2 r => exact ⟨c, t ++ ':' :: txt (g2 :: r), by rw [txt_cons2, hc]; rfl, hh⟩

theorem loop6_step_end (f : Nat) (s : Str) (ip : List Byte) (ell : Option Nat) (acc off : Nat)
    (hr : readHex s 0 0 = some (acc, off, [])) (ho : off ≠ 0) :
    loop6 (f + 1) s ip ell = some ([], ip ++ grp acc, ell) := by
  rw [loop6]; simp [hr, ho, grp]

theorem loop6_step_colon (f : Nat) (s : Str) (ip : List Byte) (ell : Option Nat) (acc off : Nat) (c2 : Char) (r2 : Str)
    (hr : readHex s 0 0 = some (acc, off, ':' :: c2 :: r2)) (ho : off ≠ 0) (hc2 : c2 ≠ ':') :
    loop6 (f + 1) s ip ell = loop6 f (c2 :: r2) (ip ++ grp acc) ell := by
  rw [loop6]; simp [hr, ho, hc2, grp]

theorem loop6_step_ell (f : Nat) (s : Str) (ip : List Byte) (acc off : Nat) (r2 : Str)
    (hr : readHex s 0 0 = some (acc, off, ':' :: ':' :: r2)) (ho : off ≠ 0) :
    loop6 (f + 1) s ip none =
      if r2 = [] then some ([], ip ++ grp acc, some (ip.length + 2))
      else loop6 f r2 (ip ++ grp acc) (some (ip.length + 2)) := by
  rw [loop6]; simp [hr, ho, grp]

/-- a colon-separated list of printed groups is read back group by group -/
theorem loop6_groups (gs : List Nat) (hne : gs ≠ []) (hlt : ∀ g ∈ gs, g < 65536) (f : Nat) (hf : gs.length ≤ f)
    (ip : List Byte) (ell : Option Nat) :
    loop6 f (txt gs) ip ell = some ([], ip ++ gbytes gs, ell) := by
  induction gs generalizing f ip with
  | nil => exact absurd rfl hne
  | cons g r ih =>
    have hg : g < 65536 := hlt g (by simp)
    obtain ⟨f', rfl⟩ : ∃ f', f = f' + 1 := ⟨f - 1, by simp at hf; omega⟩
    cases r with
    | nil =>
      have hr := readHex_hexStr g hg [] (.inl rfl)
      rw [List.append_nil] at hr
      rw [txt_one, loop6_step_end f' _ ip ell _ _ hr (by have := (hexStr_length g hg).2; omega)]
      simp [gbytes]
    | cons g2 r =>
      obtain ⟨c2, r2, hc2, hh⟩ := txt_cons_head g2 r
      have hr := readHex_hexStr g hg (':' :: txt (g2 :: r)) (.inr ⟨_, rfl⟩)
      rw [hc2] at hr
      rw [txt_cons2, hc2, loop6_step_colon f' _ ip ell _ _ c2 r2 hr (by have := (hexStr_length g hg).2; omega) (hex_ne c2 hh).2.1,
        ← hc2, ih (by simp) (fun x hx => hlt x (by simp [hx])) f' (by simp at hf ⊢; omega)]
      simp [gbytes]

/-- the same followed by `::` and more text -/
theorem loop6_groups_ell (gs : List Nat) (hne : gs ≠ []) (hlt : ∀ g ∈ gs, g < 65536) (f : Nat) (hf : gs.length ≤ f)
    (ip : List Byte) (t : Str) :
    loop6 f (txt gs ++ ':' :: ':' :: t) ip none =
      if t = [] then some ([], ip ++ gbytes gs, some (ip.length + 2 * gs.length))
      else loop6 (f - gs.length) t (ip ++ gbytes gs) (some (ip.length + 2 * gs.length)) := by
  induction gs generalizing f ip with
  | nil => exact absurd rfl hne
  | cons g r ih =>
    have hg : g < 65536 := hlt g (by simp)
    obtain ⟨f', rfl⟩ : ∃ f', f = f' + 1 := ⟨f - 1, by simp at hf; omega⟩
    cases r with
    | nil =>
      have hr := readHex_hexStr g hg (':' :: ':' :: t) (.inr ⟨_, rfl⟩)
      rw [txt_one, loop6_step_ell f' _ ip _ _ t hr (by have := (hexStr_length g hg).2; omega)]
      simp [gbytes]
    | cons g2 r =>
      obtain ⟨c2, r2, hc2, hh⟩ := txt_cons_head g2 r
      have hr := readHex_hexStr g hg (':' :: c2 :: (r2 ++ ':' :: ':' :: t)) (.inr ⟨_, rfl⟩)
      have e0 : c2 :: (r2 ++ ':' :: ':' :: t) = txt (g2 :: r) ++ ':' :: ':' :: t := by rw [hc2]; rfl
      have e1 : txt (g :: g2 :: r) ++ ':' :: ':' :: t = hexStr g ++ ':' :: c2 :: (r2 ++ ':' :: ':' :: t) := by
        rw [txt_cons2, hc2]; simp
      rw [e1, loop6_step_colon f' _ ip none _ _ c2 (r2 ++ ':' :: ':' :: t) hr
          (by have := (hexStr_length g hg).2; omega) (hex_ne c2 hh).2.1,
        e0, ih (by simp) (fun x hx => hlt x (by simp [hx])) f' (by simp at hf ⊢; omega)]
      have e2 : f' + 1 - (g :: g2 :: r).length = f' - (g2 :: r).length := by simp
      have e3 : (ip ++ grp g).length + 2 * (g2 :: r).length = ip.length + 2 * (g :: g2 :: r).length := by
        simp [grp]; omega
      rw [e2, e3]
      simp [gbytes]

/-! ## the zero run chosen by the printer -/

theorem zeroRun_spec : ∀ (l : List Nat), zeroRun l ≤ l.length ∧ l.take (zeroRun l) = List.replicate (zeroRun l) 0
  | [] => by simp [zeroRun]
  | 0 :: r => by
    have := zeroRun_spec r
    constructor
    · simp only [zeroRun, List.length_cons]; omega
    · simp only [zeroRun, List.take_succ_cons, List.replicate_succ, this.2]
  | (n + 1) :: r => by simp [zeroRun]

/-- what `bestZeroRun` returns is a run of at least two zero groups starting at `s` -/
def RunOK (g : List Nat) (b : Option (Nat × Nat)) : Prop :=
  ∀ s e, b = some (s, e) → e = s + zeroRun (g.drop s) ∧ 2 ≤ zeroRun (g.drop s)

theorem bestZeroRun_fold (g : List Nat) (is : List Nat) (b : Option (Nat × Nat)) (hb : RunOK g b) :
    RunOK g (is.foldl (fun best i =>
      let l := zeroRun (g.drop i)
      let cur := match best with | some (s, e) => e - s | none => 0
      if l ≥ 2 ∧ l > cur then some (i, i + l) else best) b) := by
  induction is generalizing b with
  | nil => exact hb
  | cons i is ih =>
    simp only [List.foldl_cons]
    apply ih
    generalize (match b with | some (s, e) => e - s | none => 0) = cur
    by_cases h : zeroRun (g.drop i) ≥ 2 ∧ zeroRun (g.drop i) > cur
    · rw [if_pos h]; intro s e he; cases he; exact ⟨rfl, h.1⟩
    · rw [if_neg h]; exact hb

theorem bestZeroRun_spec (g : List Nat) (s e : Nat) (h : bestZeroRun g = some (s, e)) :
    s + 2 ≤ e ∧ e ≤ g.length ∧ g = g.take s ++ List.replicate (e - s) 0 ++ g.drop e := by
  have hok := bestZeroRun_fold g (List.range g.length) none (fun _ _ h => by cases h)
  obtain ⟨he, h2⟩ := hok s e h
  have hz := zeroRun_spec (g.drop s)
  have hlen : zeroRun (g.drop s) ≤ g.length - s := by simpa using hz.1
  have hs : s ≤ g.length := by
    rcases Nat.lt_or_ge g.length s with hlt | hge
    · rw [List.drop_eq_nil_of_le (by omega)] at h2; simp [zeroRun] at h2
    · exact hge
  refine ⟨by omega, by omega, ?_⟩
  have e1 : e - s = zeroRun (g.drop s) := by omega
  rw [e1, ← hz.2]
  have e2 : g.drop e = (g.drop s).drop (zeroRun (g.drop s)) := by
    rw [List.drop_drop, he]
  rw [e2, List.append_assoc, List.take_append_drop, List.take_append_drop]

/-! ## `ParseAddr` / `parseIPv6` on a text of hex digits and colons -/

/-- hex digit or colon -/
def HC (c : Char) : Prop := (hexVal6 c).isSome = true ∨ c = ':'

theorem HC_ne_pct (c : Char) (h : HC c) : c ≠ '%' ∧ c ≠ '.' := by
  rcases h with h | h
  · exact ⟨(hex_ne c h).2.2, (hex_ne c h).1⟩
  · subst h; decide

theorem txt_chars (gs : List Nat) : ∀ c ∈ txt gs, HC c := by
  induction gs with
  | nil => intro c hc; cases hc
  | cons g r ih =>
    cases r with
    | nil => intro c hc; exact .inl (hex_of_mem_hexStr g c hc)
    | cons g2 r =>
      intro c hc
      rw [txt_cons2] at hc
      rcases List.mem_append.mp hc with hc | hc
      · exact .inl (hex_of_mem_hexStr g c hc)
      · rcases List.mem_cons.mp hc with rfl | hc
        · exact .inr rfl
        · exact ih c hc

theorem txt_eq_nil (gs : List Nat) (h : txt gs = []) : gs = [] := by
  cases gs with
  | nil => rfl
  | cons g r => obtain ⟨c, t, hc, _⟩ := txt_cons_head g r; rw [hc] at h; cases h

theorem no_pct (s : Str) (h : ∀ c ∈ s, HC c) : s.contains '%' = false := by
  cases hc : s.contains '%' with
  | false => rfl
  | true =>
    have : '%' ∈ s := by simpa using hc
    exact absurd rfl (HC_ne_pct _ (h _ this)).1

theorem dispatch_v6 (s t : Str) (hall : ∀ c ∈ t, HC c) (hc : ':' ∈ t) : dispatch s t = parseV6 s := by
  induction t with
  | nil => cases hc
  | cons c r ih =>
    have h1 := HC_ne_pct c (hall c (by simp))
    by_cases hcc : c = ':'
    · simp [dispatch, hcc]
    · simp only [dispatch, h1.2, hcc, h1.1, if_false]
      rcases List.mem_cons.mp hc with h | h
      · exact absurd h.symm hcc
      · exact ih (fun c' hc' => hall c' (by simp [hc'])) h

theorem parseV6_plain (s : Str) (hz : s.contains '%' = false) (hh : ∀ c r, s = c :: r → c ≠ ':') :
    parseV6 s = expand6 (loop6 8 s [] none) := by
  unfold parseV6
  rw [hz]
  simp only [Bool.false_eq_true, if_false]
  split
  · rename_i c1 c2 r
    have := hh c1 (c2 :: r) rfl
    simp [this]
  · rfl

theorem parseV6_ell (r : Str) (hz : (':' :: ':' :: r).contains '%' = false) :
    parseV6 (':' :: ':' :: r) =
      if r = [] then some (List.replicate 16 0) else expand6 (loop6 8 r [] (some 0)) := by
  unfold parseV6
  rw [hz]
  simp

theorem expand6_ell (A B : List Byte) (hl : A.length + B.length < 16) :
    expand6 (some ([], A ++ B, some A.length)) =
      some (A ++ List.replicate (16 - (A.length + B.length)) 0 ++ B) := by
  simp [expand6, hl]

/-! ## the round trip -/

theorem v6_roundtrip (g : List Nat) (h8 : g.length = 8) (hlt : ∀ x ∈ g, x < 65536) :
    parseIP (match bestZeroRun g with
      | some (s, e) => txt (g.take s) ++ [':', ':'] ++ txt (g.drop e)
      | none => txt g) = some (gbytes g) := by
  cases hb : bestZeroRun g with
  | none =>
    simp only
    have hch := txt_chars g
    obtain ⟨a, b, r, rfl⟩ : ∃ a b r, g = a :: b :: r := by
      match g, h8 with
      | a :: b :: r, _ => exact ⟨a, b, r, rfl⟩
    have hcolon : ':' ∈ txt (a :: b :: r) := by rw [txt_cons2]; simp
    rw [parseIP, dispatch_v6 _ _ hch hcolon, parseV6_plain _ (no_pct _ hch)]
    · rw [loop6_groups _ (by simp) hlt 8 (by omega)]
      simp [expand6, gbytes_length, h8]
    · intro c t hct
      obtain ⟨c', t', hc', hh⟩ := txt_cons_head a (b :: r)
      rw [hc'] at hct; cases hct
      exact (hex_ne _ hh).2.1
  | some p =>
    obtain ⟨s, e⟩ := p
    simp only
    obtain ⟨hse, he8, hg⟩ := bestZeroRun_spec g s e hb
    -- name the pieces
    have hA : (g.take s).length = s := by simp; omega
    have hB : (g.drop e).length = 8 - e := by simp; omega
    have hAlt : ∀ x ∈ g.take s, x < 65536 := fun x hx => hlt x (List.mem_of_mem_take hx)
    have hBlt : ∀ x ∈ g.drop e, x < 65536 := fun x hx => hlt x (List.mem_of_mem_drop hx)
    have hgb : gbytes g = gbytes (g.take s) ++ List.replicate (2 * (e - s)) 0 ++ gbytes (g.drop e) := by
      conv => lhs; rw [hg]
      rw [gbytes_append, gbytes_append, gbytes_replicate_zero]
    generalize g.take s = A at *
    generalize g.drop e = B at *
    rw [hgb]
    have hS : ∀ c ∈ A.map hexStr |> joinStrs ':' |> fun x => x ++ [':', ':'] ++ txt B, HC c := by
      intro c hc
      simp only [List.append_assoc, List.mem_append] at hc
      rcases hc with hc | hc | hc
      · exact txt_chars A c hc
      · have : c = ':' := by simpa using hc
        exact .inr this
      · exact txt_chars B c hc
    have hS' : ∀ c ∈ txt A ++ [':', ':'] ++ txt B, HC c := hS
    have hcolon : ':' ∈ txt A ++ [':', ':'] ++ txt B := by simp
    rw [parseIP, dispatch_v6 _ _ hS' hcolon]
    have hz := no_pct _ hS'
    cases hAe : A with
    | nil =>
      subst hAe
      have hs0 : s = 0 := by simpa using hA.symm
      subst hs0
      simp only [txt_nil, List.nil_append, List.cons_append] at hz ⊢
      rw [parseV6_ell _ hz]
      by_cases hBe : txt B = []
      · have : B = [] := txt_eq_nil B hBe
        subst this
        have : e = 8 := by simp at hB; omega
        subst this
        simp [txt_nil, gbytes]
      · rw [if_neg hBe]
        have hBne : B ≠ [] := fun h => hBe (by rw [h]; rfl)
        rw [loop6_groups B hBne hBlt 8 (by omega)]
        have := expand6_ell [] (gbytes B) (by simp [gbytes_length]; omega)
        simp only [List.nil_append, List.length_nil] at this
        rw [List.nil_append, this]
        simp only [gbytes, List.nil_append, gbytes_length, Nat.zero_add, Nat.sub_zero]
        congr 3
        omega
    | cons a A' =>
      rw [← hAe]
      have hAne : A ≠ [] := by rw [hAe]; simp
      rw [parseV6_plain _ hz]
      · have e1 : txt A ++ [':', ':'] ++ txt B = txt A ++ ':' :: ':' :: txt B := by simp
        rw [e1, loop6_groups_ell A hAne hAlt 8 (by omega) [] (txt B)]
        by_cases hBe : txt B = []
        · have : B = [] := txt_eq_nil B hBe
          subst this
          have : e = 8 := by simp at hB; omega
          subst this
          rw [if_pos hBe]
          have := expand6_ell (gbytes A) [] (by simp [gbytes_length]; omega)
          simp only [List.append_nil, List.length_nil, Nat.add_zero, gbytes_length] at this
          simp only [List.nil_append, List.length_nil, Nat.zero_add]
          rw [this]
          simp only [gbytes, List.append_nil]
          congr 3
          omega
        · rw [if_neg hBe]
          have hBne : B ≠ [] := fun h => hBe (by rw [h]; rfl)
          rw [loop6_groups B hBne hBlt (8 - A.length) (by omega)]
          have := expand6_ell (gbytes A) (gbytes B) (by simp [gbytes_length]; omega)
          simp only [gbytes_length] at this
          simp only [List.nil_append, List.length_nil, Nat.zero_add]
          rw [this]
          congr 4
          omega
      · intro c t hct
        obtain ⟨c', t', hc', hh⟩ := txt_cons_head a A'
        rw [hAe, hc'] at hct; cases hct
        exact (hex_ne _ hh).2.1

theorem v6String_eq (ip : IP) :
    v6String ip = (match bestZeroRun (groups ip) with
      | some (s, e) => txt ((groups ip).take s) ++ [':', ':'] ++ txt ((groups ip).drop e)
      | none => txt (groups ip)) := by
  unfold v6String txt
  rfl

/-- **parseIP_v6String** — for EVERY 16-byte address, parsing the RFC 5952 text that the
    IPv6 printer of `IP.String` produces gives the address back, byte for byte. -/
theorem parseIP_v6String (ip : IP) (h16 : ip.length = 16) : parseIP (v6String ip) = some ip := by
  have := v6_roundtrip (groups ip) (by rw [groups_length, h16]) (groups_lt ip)
  rw [gbytes_groups ip (by rw [h16])] at this
  rw [v6String_eq]
  exact this

/-- **parseIP_ipString_v6** — `ParseIP(ip.String()) = ip` for every 16-byte address that is
    not IPv4-mapped (those print in IPv6 notation). -/
theorem parseIP_ipString_v6 (ip : IP) (h16 : ip.length = 16) (hm : ip.take 12 ≠ v4InV6Prefix) :
    parseIP (ipString ip) = some ip := by
  have h0 : ip.length ≠ 0 := by omega
  have h1 : ¬ (ip.length ≠ 4 ∧ ip.length ≠ 16) := by omega
  simp only [ipString, h0, h1, if_false, to4_plain16 ip h16 hm]
  exact parseIP_v6String ip h16

/-- **parseIP_ipString_16** — every 16-byte address is a fixed point of print-then-parse
    (IPv4-mapped ones print dotted and come back in the mapped form, which they already are). -/
theorem parseIP_ipString_16 (ip : IP) (h16 : ip.length = 16) : parseIP (ipString ip) = some ip := by
  by_cases hm : ip.take 12 = v4InV6Prefix
  · exact parseIP_ipString_mapped ip h16 hm
  · exact parseIP_ipString_v6 ip h16 hm

/-- **parseIP_ipString_parse** — canonicalisation is idempotent: whatever text `parseIP`
    accepts, the canonical text of the result parses to the same address. -/
theorem parseIP_ipString_parse (s : Str) (ip : IP) (h : parseIP s = some ip) :
    parseIP (ipString ip) = some ip :=
  parseIP_ipString_16 ip (parseIP_length s ip h)

/-- `IP.String` is injective on what `parseIP` returns: different addresses never share a text -/
theorem ipString_inj_parsed (s₁ s₂ : Str) (ip₁ ip₂ : IP) (h₁ : parseIP s₁ = some ip₁) (h₂ : parseIP s₂ = some ip₂)
    (h : ipString ip₁ = ipString ip₂) : ip₁ = ip₂ := by
  have a := parseIP_ipString_parse s₁ ip₁ h₁
  have b := parseIP_ipString_parse s₂ ip₂ h₂
  rw [h, b] at a
  exact (Option.some.inj a).symm

/-! ## non-vacuity -/

example : parseIP "2001:db8::1".toList = some [0x20, 0x01, 0x0d, 0xb8, 0, 0, 0, 0, 0, 0, 0, 0, 0, 0, 0, 1] := by decide
example : ipString [0x20, 0x01, 0x0d, 0xb8, 0, 0, 0, 0, 0, 0, 0, 0, 0, 0, 0, 1] = "2001:db8::1".toList := by decide
example : parseIP "1:0:0:2:0:0:0:3".toList = parseIP "1:0:0:2::3".toList := by decide
example : ipString [0, 1, 0, 0, 0, 0, 0, 2, 0, 0, 0, 0, 0, 0, 0, 3] = "1:0:0:2::3".toList := by decide
example : parseIP "::".toList = some (List.replicate 16 0) ∧ parseIP "::1".toList = some loopback6 := by decide
example : parseIP "1::".toList = some [0, 1, 0, 0, 0, 0, 0, 0, 0, 0, 0, 0, 0, 0, 0, 0] := by decide
example : parseIP "FE80::AbCd".toList = some [0xfe, 0x80, 0, 0, 0, 0, 0, 0, 0, 0, 0, 0, 0, 0, 0xab, 0xcd] := by decide
example : parseIP "::ffff:1.2.3.4".toList = some (v4 1 2 3 4) ∧ parseIP "::1.2.3.4".toList = some [0, 0, 0, 0, 0, 0, 0, 0, 0, 0, 0, 0, 1, 2, 3, 4] := by decide
example : parseIP "1:2:3:4:5:6:7::".toList = some [0, 1, 0, 2, 0, 3, 0, 4, 0, 5, 0, 6, 0, 7, 0, 0] := by decide
example : parseIP "1:2:3:4:5:6:7:8:9".toList = none ∧ parseIP ":::".toList = none ∧ parseIP "1::2::3".toList = none ∧
    parseIP "12345::".toList = none ∧ parseIP "1:2:3:4:5:6:7:8::".toList = none ∧ parseIP "::ffff:01.2.3.4".toList = none ∧
    parseIP "1:2:3:4:5:6:7:1.2.3.4".toList = none ∧ parseIP "fe80::1%eth0".toList = none ∧ parseIP "::g".toList = none := by decide

/-! ## a bad field after a dot is refused in IPv6 notation too (embedded IPv4) -/

theorem split_after (pre r q bad : Str) (h : pre ++ r = q ++ '.' :: bad) (hp : '.' ∉ pre) :
    ∃ q', r = q' ++ '.' :: bad := by
  induction pre generalizing q with
  | nil => exact ⟨q, h⟩
  | cons x pre ih =>
    cases q with
    | nil =>
      simp only [List.cons_append, List.nil_append, List.cons.injEq] at h
      exact absurd (by simp [h.1]) hp
    | cons y q =>
      simp only [List.cons_append, List.cons.injEq] at h
      exact ih q h.2 (fun hm => hp (by simp [hm]))

theorem no_dot_hex (ds : Str) (h : ∀ c ∈ ds, (hexVal6 c).isSome = true) : '.' ∉ ds :=
  fun hm => (hex_ne _ (h _ hm)).1 rfl

/-- the loop on a text that contains `.bad` never ends well: it fails or leaves input unread -/
theorem loop6_bad_after_dot (f : Nat) (s q bad : Str) (hs : s = q ++ '.' :: bad) (hb : BadField bad)
    (ip : List Byte) (ell : Option Nat) : expand6 (loop6 f s ip ell) = none := by
  induction f generalizing s q ip ell with
  | zero =>
    have : s ≠ [] := by rw [hs]; simp
    simp [loop6, expand6, this]
  | succ f ih =>
    rw [loop6]
    cases hr : readHex s 0 0 with
    | none => rfl
    | some t =>
      obtain ⟨acc, off, rst⟩ := t
      simp only
      obtain ⟨ds, hds, hall⟩ := readHex_split s 0 0 acc off rst hr
      have hnd := no_dot_hex ds hall
      by_cases ho : off = 0
      · simp [ho, expand6]
      · simp only [ho, if_false]
        by_cases hdot : rst.head? = some '.'
        · simp only [hdot, if_true]
          have hv : v4Fields s 0 0 [] = none := by rw [hs]; exact v4Fields_bad_after_dot q bad hb 0 0 []
          rw [hv]
          split
          · rfl
          · split <;> rfl
        · simp only [hdot, if_false]
          cases rst with
          | nil =>
            rw [List.append_nil] at hds
            exact absurd (by rw [← hds, hs]; simp) hnd
          | cons c r1 =>
            by_cases hc : c = ':'
            · subst hc
              simp only [ne_eq, not_true_eq_false, if_false]
              cases r1 with
              | nil => rfl
              | cons c2 r2 =>
                by_cases hc2 : c2 = ':'
                · subst hc2
                  simp only [if_true]
                  split
                  · rfl
                  · have e : (ds ++ [':', ':']) ++ r2 = q ++ '.' :: bad := by rw [← hs, hds]; simp
                    obtain ⟨q', hq'⟩ := split_after _ _ _ _ e (by
                      intro hm
                      rcases List.mem_append.mp hm with hm | hm
                      · exact hnd hm
                      · simp at hm)
                    have : r2 ≠ [] := by rw [hq']; simp
                    rw [if_neg this]
                    exact ih r2 q' hq' _ _
                · simp only [hc2, if_false]
                  have e : (ds ++ [':']) ++ (c2 :: r2) = q ++ '.' :: bad := by rw [← hs, hds]; simp
                  obtain ⟨q', hq'⟩ := split_after _ _ _ _ e (by
                    intro hm
                    rcases List.mem_append.mp hm with hm | hm
                    · exact hnd hm
                    · simp at hm)
                  exact ih _ q' hq' _ _
            · simp [hc, expand6]

theorem parseV6_bad_after_dot (q bad : Str) (hb : BadField bad) : parseV6 (q ++ '.' :: bad) = none := by
  unfold parseV6
  split
  · rfl
  · split
    · rename_i c1 c2 r heq
      split
      · rename_i hcc
        obtain ⟨q', hq'⟩ := split_after [c1, c2] r q bad (by simpa using heq.symm) (by
          rw [hcc.1, hcc.2]; decide)
        have : r ≠ [] := by rw [hq']; simp
        rw [if_neg this]
        exact loop6_bad_after_dot 8 r q' bad hq' hb _ _
      · exact loop6_bad_after_dot 8 _ q bad rfl hb _ _
    · exact loop6_bad_after_dot 8 _ q bad rfl hb _ _

theorem dispatch_none (s t : Str) (h4 : parseV4 s = none) (h6 : parseV6 s = none) : dispatch s t = none := by
  induction t with
  | nil => rfl
  | cons c r ih => simp [dispatch, h4, h6, ih]

/-- **parseIP_bad_field_after_dot** — a field after a dot that the field parser refuses
    (leading zero, value above 255, …) makes the whole text unparsable, in IPv4 notation and as the
    embedded IPv4 of an IPv6 text alike: no hypothesis on what precedes the dot. -/
theorem parseIP_bad_field_after_dot (q bad : Str) (hb : BadField bad) : parseIP (q ++ '.' :: bad) = none := by
  apply dispatch_none
  · rw [parseV4, v4Fields_bad_after_dot q bad hb 0 0 []]
  · exact parseV6_bad_after_dot q bad hb

/-- a leading zero in any field after the first dot: `1.02.3.4`, `::ffff:1.2.3.04`, … -/
theorem parseIP_leading_zero_after_dot (q r : Str) (c : Char) (hd : isDig c = true) :
    parseIP (q ++ '.' :: '0' :: c :: r) = none :=
  parseIP_bad_field_after_dot q _ (badField_leading_zero c r hd)

/-- a value above 255 in any field after the first dot: `1.2.3.256`, `::ffff:1.999.3.4`, … -/
theorem parseIP_field_gt255_after_dot (q t : Str) (n : Nat) (hn : n > 255) :
    parseIP (q ++ '.' :: (decStr n ++ t)) = none :=
  parseIP_bad_field_after_dot q _ (badField_gt255 n hn t)

example : parseIP "::ffff:1.2.3.04".toList = none ∧ parseIP "::ffff:1.256.3.4".toList = none ∧ parseIP "1::1.2.3.0004".toList = none := by decide

end C10
